(* Properties/C07.v -- property theorems for C07 (recursive resolution finds the
   authoritative answer in any delegation tree); statements only, each closed by
   [exact lemma] and followed by Print Assumptions.

   FIRST STEP.  Proved here are facts about the SPECIFICATION side (Universe.v):
   the referral a server gives names a delegation point that encloses the
   question name and is strictly deeper than the zone it is given from; every
   record of the expected answer [auth_answer] is authoritative data of a zone of
   the universe enclosing its owner; and one worked universe on which the
   recursive model, run against the universe through the wire codec, returns
   exactly [auth_answer] (evaluated inside Coq).
   FOLLOW-UP (second half of this file): referral_progress on the model side and
   answer_provenance are proved.  NOT proved: C07_correct_partial (consistent u ->
   roots_configured u zones -> the model's result is auth_answer u q); its statement
   and what is missing are in a comment at the end.  That clause of the
   property is covered by the differential stream and the oracle of vlib/p_c07.py
   (implementation result = extracted auth_answer on every generated consistent
   universe; the model agrees with the implementation on every exchange). *)
From RV Require Import Base.Prelude Name.NameModel Wire.WireTypes Zone.ZoneModel Resolver.LocalModel
     Resolver.TransportModel Resolver.RecursiveModel Resolver.ForwardingModel Resolver.Universe
     Resolver.ResolverFacts.

Theorem C07_referral_strictly_deeper : forall z n c,
  wf_cuts z -> cut_owner z n = Some c ->
  is_subdomain_of n c = true /\ nlabels (uz_apex z) < nlabels c.
Proof. exact referral_strictly_deeper. Qed.
Print Assumptions C07_referral_strictly_deeper.

Theorem C07_auth_answer_from_universe : forall u q r,
  In r (aa_rrs (auth_answer u q)) ->
  exists z, In z (u_zones u) /\ In r (zone_data z) /\ is_subdomain_of (rr_name r) (uz_apex z) = true.
Proof. exact auth_answer_from_universe. Qed.
Print Assumptions C07_auth_answer_from_universe.

(* ---- a worked universe: root -> com., an alias inside com. ---- *)
Definition nm (ls : list label) : dname :=
  {| labels := ls ++ [[]]; nlen := fold_right (fun l acc => 1 + llen l + acc) 1 ls |}.
Definition l_com : label := [99; 111; 109].
Definition l_www : label := [119; 119; 119].
Definition l_ns : label := [110; 115].
Definition l_a : label := [97].
Definition l_alias : label := [97; 108; 105; 97; 115].

Definition n_root := nm [].
Definition n_a := nm [l_a].
Definition n_com := nm [l_com].
Definition n_ns_com := nm [l_ns; l_com].
Definition n_www_com := nm [l_www; l_com].
Definition n_alias_com := nm [l_alias; l_com].

Definition mk_rr (n : dname) (t ttl : N) (d : rdata) : rr :=
  {| rr_name := n; rr_type := t; rr_class := RC_IN; rr_ttl := ttl; rr_data := d |}.
Definition ip_root : N := 167772161.      (* 10.0.0.1 *)
Definition ip_com : N := 167772162.       (* 10.0.0.2 *)

Definition ex_universe : universe :=
  {| u_zones :=
       [ {| uz_apex := n_root;
            uz_soa := mk_rr n_root RT_SOA 300 (RD_SOA n_a n_a 1 7200 3600 86400 300);
            uz_rrs := [mk_rr n_root RT_NS 3600 (RD_Name n_a); mk_rr n_a RT_A 3600 (RD_A ip_root)];
            uz_cuts := [mk_rr n_com RT_NS 3600 (RD_Name n_ns_com)];
            uz_glue := [mk_rr n_ns_com RT_A 3600 (RD_A ip_com)] |};
         {| uz_apex := n_com;
            uz_soa := mk_rr n_com RT_SOA 300 (RD_SOA n_ns_com n_ns_com 1 7200 3600 86400 300);
            uz_rrs := [mk_rr n_com RT_NS 3600 (RD_Name n_ns_com); mk_rr n_ns_com RT_A 3600 (RD_A ip_com);
                       mk_rr n_www_com RT_A 300 (RD_A 3221225985);
                       mk_rr n_alias_com RT_CNAME 120 (RD_Name n_www_com)];
            uz_cuts := []; uz_glue := [] |} ];
     u_servers := [(inl ip_root, [n_root]); (inl ip_com, [n_com])] |}.

(* the configured root hints: a non-authoritative `.` zone *)
Definition ex_hints : zones :=
  match (let* z1 := zone_insert false (zone_new n_root None) n_root RT_NS (RD_Name n_a) 3600 in
         zone_insert false z1 n_a RT_A (RD_A ip_root) 3600) with
  | Ok z => zones_insert [] z
  | _ => []
  end.

Definition ex_q : question := {| q_name := n_alias_com; q_type := RT_A; q_class := RC_IN |}.
Definition ex_q_missing : question := {| q_name := nm [l_ns; l_ns; l_com]; q_type := RT_A; q_class := RC_IN |}.

Definition ex_run (q : question) :=
  resolve_simple (ModeRecursive PreferV4) 53 ex_hints (universe_oracle ex_universe []) 100%nat q
                 (sc_empty, tstate_init).

(* the universe is consistent; the model, talking to it through the wire codec, returns exactly
   the authoritative answer (alias + address; then nothing + the zone's SOA for a missing name),
   after one referral (two exchanges) *)
Example C07_example_two_level :
  consistentb ex_universe = true
  /\ fst (ex_run ex_q) = Ok (NonAuthoritative (aa_rrs (auth_answer ex_universe ex_q)) None)
  /\ aa_rrs (auth_answer ex_universe ex_q)
     = [mk_rr n_alias_com RT_CNAME 120 (RD_Name n_www_com); mk_rr n_www_com RT_A 300 (RD_A 3221225985)]
  /\ length (ts_rlog (snd (snd (ex_run ex_q)))) = 2%nat
  /\ fst (ex_run ex_q_missing)
     = Ok (NonAuthoritative (aa_rrs (auth_answer ex_universe ex_q_missing)) (aa_soa (auth_answer ex_universe ex_q_missing)))
  /\ aa_soa (auth_answer ex_universe ex_q_missing)
     = Some (mk_rr n_com RT_SOA 300 (RD_SOA n_ns_com n_ns_com 1 7200 3600 86400 300)).
Proof. vm_compute. repeat split. Qed.
Print Assumptions C07_example_two_level.

(* the hypothesis of C07_referral_strictly_deeper holds for the zones of the worked universe *)
Example C07_example_wf_cuts : Forall wf_cuts (u_zones ex_universe).
Proof.
  unfold ex_universe; cbn [u_zones].
  constructor; [|constructor; [|constructor]]; intros r H; cbn [uz_cuts] in H.
  - destruct H as [H|[]]. subst r. vm_compute. split; reflexivity.
  - destruct H.
Qed.

(* ====================================================================== *)
(* FOLLOW-UP: referral progress and provenance on the MODEL                 *)
(* (lemmas: Resolver/RecursiveProofs.v)                                     *)
(* ====================================================================== *)
From RV Require Import Resolver.ValidateModel Resolver.ValidateSpec Resolver.RecursiveProofs Resolver.ForwardingProofs.

(* referral_progress.  The only way the candidate loop of resolve_recursive_notimeout changes the
   delegation in use: a candidate's address was found, the server's reply passed the gate and the
   filter, and the filter made a Delegation of it.  Then the loop continues with exactly that
   delegation (its hosts in the order of [sort_names], fast pass first), and the delegation is
   strictly deeper than the one in use (match count strictly greater), encloses the question name --
   so its match count is at most the number of labels of the question name: at most that many
   referrals are followed per question -- and names at least one host.  Every oracle. *)
Theorem C07_referral_progress :
  forall (cache : Type) (cache_get : cache -> dname -> N -> list rr) (cache_insert_all : cache -> list rr -> cache)
         (sort_names : list dname -> list dname) (zs : zones) (o : oracle) (pmode : protocol_mode) (port : N)
         (rec : list question -> question -> RM cache rres) (loop : N -> list dname -> list dname -> bool -> RM cache rres)
         stack q combined mc cands next locally st candidate rest a st1 nr st2 d st3,
  pop_last cands = Some (candidate, rest) ->
  resolve_hostname_to_ip cache cache_get zs pmode rec stack locally candidate st = (Val (Some a), st1) ->
  query_and_validate cache o (a, port) q mc st1 = (Val (Some nr), st2) ->
  resolve_with_nameserver_response cache cache_insert_all zs rec stack combined nr q st2 = (Val (inr d), st3) ->
  candidate_step cache cache_get cache_insert_all sort_names zs o pmode port rec loop stack q combined mc cands next locally st
  = loop (ns_match_count d) (sort_names (ns_hostnames d)) [] true st3
  /\ mc < ns_match_count d
  /\ is_subdomain_of (q_name q) (ns_name d) = true
  /\ ns_match_count d <= llen (labels (q_name q))
  /\ ns_hostnames d <> [].
Proof. exact referral_progress. Qed.
Print Assumptions C07_referral_progress.

(* ... and when a candidate's address cannot be found the delegation in use stays the same *)
Theorem C07_no_referral_same_delegation :
  forall (cache : Type) (cache_get : cache -> dname -> N -> list rr) (cache_insert_all : cache -> list rr -> cache)
         (sort_names : list dname -> list dname) (zs : zones) (o : oracle) (pmode : protocol_mode) (port : N)
         (rec : list question -> question -> RM cache rres) (loop : N -> list dname -> list dname -> bool -> RM cache rres)
         stack q combined mc cands next locally st candidate rest st1,
  pop_last cands = Some (candidate, rest) ->
  resolve_hostname_to_ip cache cache_get zs pmode rec stack locally candidate st = (Val None, st1) ->
  exists cands' next' locally',
    candidate_step cache cache_get cache_insert_all sort_names zs o pmode port rec loop stack q combined mc cands next locally st
    = loop mc cands' next' locally' st1.
Proof. exact no_referral_same_delegation. Qed.
Print Assumptions C07_no_referral_same_delegation.

(* answer_provenance (shared with C08, where the statement is spelt out): every record the
   recursive resolver returns agrees in owner, type and data with local data, with what the cache
   held before, or with a record of a reply the oracle sent during the resolution that passed the
   gate and that the filter's specification allows *)
Theorem C07_answer_provenance :
  forall (cache : Type) (cache_get : cache -> dname -> N -> list rr) (cache_insert_all : cache -> list rr -> cache)
         (sort_names : list dname -> list dname) (zs : zones) (o : oracle) (pmode : protocol_mode) (port : N)
         (cache_content : cache -> rr -> Prop),
  (forall c n t r, In r (cache_get c n t) -> exists r', cache_content c r' /\ rr_sim r r') ->
  (forall c rrs r, cache_content (cache_insert_all c rrs) r -> cache_content c r \/ exists r', In r' rrs /\ rr_sim r r') ->
  forall fuel q st res st',
  resolve_recursive cache cache_get cache_insert_all sort_names zs o pmode port fuel q st = (Ok res, st') ->
  forall r, In r (resolved_rrs res ++ opt_list (resolved_soa_rr res)) ->
  exists r0, rr_sim r r0 /\
    (zone_src zs r0 \/ cache_content (fst st) r0 \/ upstream_src o (ts_rlog (snd st')) r0).
Proof. exact recursive_provenance. Qed.
Print Assumptions C07_answer_provenance.

(* ---- towards C07_correct: the hops of a resolution against Universe.serve ----
   (lemmas: Resolver/RecursiveCorrect.v).  [delivers o u port]: the transport hands the resolver the
   message [serve] prescribes (what the stream's table oracle, built from [serve], does when nothing
   is faulted and the reply fits the transport). *)
From RV Require Import Wire.WireModel Wire.WireGrammar Wire.WireEncodeProofs Resolver.RecursiveCorrect.

(* the reply filter is COMPLETE on the three shapes of reply an authoritative server gives (C06
   proves it sound): a plain answer is accepted whole, *)
Theorem C07_filter_accepts_plain_answer : forall q aa rcode ans au ad mc,
  Forall (fun r => rr_is_unknown r = false /\ rr_name r = q_name q /\ rtype_matches (rr_type r) (q_type q) = true
                   /\ rr_type r <> RT_CNAME) ans ->
  ans <> [] ->
  validate_nameserver_response q (reply_message q {| sr_answers := ans; sr_authority := au; sr_additional := ad;
                                                     sr_aa := aa; sr_rcode := rcode |}) mc
  = Ok (Some (NRAnswer ans None)).
Proof. exact validate_plain_answer. Qed.
Print Assumptions C07_filter_accepts_plain_answer.

(* a denial (no answers, the zone's SOA alone in the authority section) is an empty answer with that SOA, *)
Theorem C07_filter_accepts_denial : forall q aa rcode soa ad mc,
  (rcode = RCODE_NoError \/ rcode = RCODE_NameError) ->
  rr_type soa = RT_SOA -> is_subdomain_of (q_name q) (rr_name soa) = true -> mc <= llen (labels (rr_name soa)) ->
  validate_nameserver_response q (reply_message q {| sr_answers := []; sr_authority := [soa]; sr_additional := ad;
                                                     sr_aa := aa; sr_rcode := rcode |}) mc
  = Ok (Some (NRAnswer [] (Some soa))).
Proof. exact validate_denial. Qed.
Print Assumptions C07_filter_accepts_denial.

(* and a referral (the NS set of one delegation point enclosing the question name, deeper than the
   delegation in use) is a Delegation to that point whose hosts are exactly the NS targets *)
Theorem C07_filter_accepts_referral : forall q aa rcode c ns ad mc,
  ns <> [] -> Forall (fun r => rr_name r = c /\ exists h, is_ns_rr r = Some h) ns ->
  is_subdomain_of (q_name q) c = true -> mc < llen (labels c) ->
  exists rrs names,
    validate_nameserver_response q (reply_message q {| sr_answers := []; sr_authority := ns; sr_additional := ad;
                                                       sr_aa := aa; sr_rcode := rcode |}) mc
    = Ok (Some (NRDelegation rrs {| ns_hostnames := names; ns_name := c |}))
    /\ (forall h, In h names <-> exists r, In r ns /\ is_ns_rr r = Some h).
Proof. exact validate_referral. Qed.
Print Assumptions C07_filter_accepts_referral.

(* at the zone that owns the question name (longest apex, no delegation point on the way, no alias
   at the name) what a server of that zone says IS the authoritative answer *)
Theorem C07_serve_is_auth_answer : forall u a z q,
  owns_plainly u z q -> serves_owner u a z q ->
  aa_defined (auth_answer u q) = true /\
  aa_rrs (auth_answer u q) = filter (fun r => rtype_matches (rr_type r) (q_type q)) (rrs_at z (q_name q)) /\
  ((aa_rrs (auth_answer u q) <> [] /\ aa_soa (auth_answer u q) = None
    /\ serve u a q = Some (reply_message q {| sr_answers := aa_rrs (auth_answer u q); sr_authority := []; sr_additional := [];
                                              sr_aa := true; sr_rcode := RCODE_NoError |}))
   \/ (aa_rrs (auth_answer u q) = [] /\ aa_soa (auth_answer u q) = Some (uz_soa z)
       /\ exists rcode, (rcode = RCODE_NoError \/ rcode = RCODE_NameError)
            /\ serve u a q = Some (reply_message q {| sr_answers := []; sr_authority := [uz_soa z]; sr_additional := [];
                                                      sr_aa := true; sr_rcode := rcode |}))).
Proof. exact serve_is_auth_answer. Qed.
Print Assumptions C07_serve_is_auth_answer.

(* C07_last_hop_partial.  For EVERY universe: when the candidate loop is at a delegation no deeper
   than the zone [z] that owns the question name (no delegation point on the way, no alias at the
   name; question type other than CNAME / ANY), the candidate it picks has an address at which a
   server of [z] listens, and the transport delivers what [serve] prescribes, the loop returns
   EXACTLY the authoritative answer: the records of the asked type at the name, or no records and
   the zone's SOA. *)
Theorem C07_last_hop_partial :
  forall (cache : Type) (cache_get : cache -> dname -> N -> list rr) (cache_insert_all : cache -> list rr -> cache)
         (sort_names : list dname -> list dname) (zs : zones) (o : oracle) (pmode : protocol_mode) (port : N)
         u z q (rec : list question -> question -> RM cache rres) (loop : N -> list dname -> list dname -> bool -> RM cache rres)
         stack mc cands next locally st candidate rest a st1,
  delivers o u port q -> owns_plainly u z q -> serves_owner u a z q ->
  q_type q <> RT_CNAME -> q_type q <> QT_Wildcard ->
  Forall (fun r => rr_is_unknown r = false) (zone_data z) ->
  rr_type (uz_soa z) = RT_SOA -> rr_name (uz_soa z) = uz_apex z -> mc <= llen (labels (uz_apex z)) ->
  pop_last cands = Some (candidate, rest) ->
  resolve_hostname_to_ip cache cache_get zs pmode rec stack locally candidate st = (Val (Some a), st1) ->
  ts_elapsed (snd st1) <= BUDGET_MS ->
  exists st',
    candidate_step cache cache_get cache_insert_all sort_names zs o pmode port rec loop stack q [] mc cands next locally st
    = (Val (ROk (NonAuthoritative (aa_rrs (auth_answer u q)) (aa_soa (auth_answer u q)))), st').
Proof. exact last_hop. Qed.
Print Assumptions C07_last_hop_partial.

(* C07_referral_hop_partial.  For EVERY universe: when the candidate has an address at which a
   server listens whose best zone [z0] for the question name has a delegation point [c] on the way,
   deeper than the delegation in use, and the transport delivers [serve]'s referral, the loop caches
   the NS set of the cut and the glue for its hosts and continues with exactly the delegation [c]
   and the NS targets at [c] as hosts.  (Excluded: the question name owns glue in that referral --
   the glue shortcut, finding F11.) *)
Theorem C07_referral_hop_partial :
  forall (cache : Type) (cache_get : cache -> dname -> N -> list rr) (cache_insert_all : cache -> list rr -> cache)
         (sort_names : list dname -> list dname) (zs : zones) (o : oracle) (pmode : protocol_mode) (port : N)
         u a z0 c q (rec : list question -> question -> RM cache rres) (loop : N -> list dname -> list dname -> bool -> RM cache rres)
         stack mc cands next locally st candidate rest st1,
  delivers o u port q ->
  (exists zs', zones_of_server u a = Some zs' /\ best_zone zs' (q_name q) None = Some z0) ->
  cut_owner z0 (q_name q) = Some c ->
  Forall (fun r => exists h, is_ns_rr r = Some h) (uz_cuts z0) ->
  mc < llen (labels c) ->
  (forall r, In r (uz_glue z0 ++ uz_rrs z0) -> rr_name r <> q_name q) ->
  pop_last cands = Some (candidate, rest) ->
  resolve_hostname_to_ip cache cache_get zs pmode rec stack locally candidate st = (Val (Some a), st1) ->
  ts_elapsed (snd st1) <= BUDGET_MS ->
  exists names ts3,
    candidate_step cache cache_get cache_insert_all sort_names zs o pmode port rec loop stack q [] mc cands next locally st
    = loop (llen (labels c)) (sort_names names) [] true
           (cache_insert_all (fst st1)
              (filter (ns_glue_filter c names true false) (sr_authority (referral z0 c))
               ++ filter (ns_glue_filter c names false true) (sr_additional (referral z0 c))), ts3)
    /\ (forall h, In h names <-> exists r, In r (uz_cuts z0) /\ rr_name r = c /\ is_ns_rr r = Some h)
    /\ ts_elapsed ts3 <= BUDGET_MS.
Proof. exact referral_hop. Qed.
Print Assumptions C07_referral_hop_partial.

(* the fault-free universe oracle DELIVERS: for a well-formed question whose request fits a
   datagram, in a universe whose servers' replies to it are well-formed messages of at most 512
   octets ([serve_fits]), query_nameserver returns exactly the message [serve] prescribes -- the
   request and the reply make the round trip through the wire codec (C04), the request's question
   is recovered by the oracle, the id is patched in, the datagram fits the receive buffer, the
   budget is not touched *)
Theorem C07_universe_oracle_delivers : forall u port q,
  wf_question q ->
  (forall req, encode (make_request q false) = Ok req -> llen req <= 512) ->
  (forall a m, serve u a q = Some m -> wf_message m /\ exists bs, encode m = Ok bs /\ llen bs <= 512) ->
  forall a m ts, ts_elapsed ts <= BUDGET_MS -> serve u a q = Some m ->
    response_matches_request (make_request q false) m = true ->
    exists ts', query_nameserver (universe_oracle u []) (a, port) q false ts = (Val (Some m), ts')
                /\ ts_elapsed ts' <= BUDGET_MS.
Proof. exact universe_oracle_delivers. Qed.
Print Assumptions C07_universe_oracle_delivers.

(* the hypotheses of the two hop theorems are met in the worked universe: com. owns www.com.
   plainly and 10.0.0.2 serves it; the root server has the cut com. on the way *)
Definition ex_dummy_zone : uzone :=
  {| uz_apex := n_root; uz_soa := mk_rr n_root RT_SOA 0 (RD_A 0); uz_rrs := []; uz_cuts := []; uz_glue := [] |}.
Definition ex_root_zone : uzone := nth 0 (u_zones ex_universe) ex_dummy_zone.
Definition ex_com_zone : uzone := nth 1 (u_zones ex_universe) ex_dummy_zone.
Definition ex_q_www : question := {| q_name := n_www_com; q_type := RT_A; q_class := RC_IN |}.
Example C07_example_hops :
  owns_plainly ex_universe ex_com_zone ex_q_www
  /\ serves_owner ex_universe (inl ip_com) ex_com_zone ex_q_www
  /\ cut_owner ex_root_zone n_www_com = Some n_com
  /\ Forall (fun r => rr_is_unknown r = false) (zone_data ex_com_zone)
  /\ Forall (fun r => exists h, is_ns_rr r = Some h) (uz_cuts ex_root_zone).
Proof.
  split; [|split; [|split; [|split]]].
  - repeat split; vm_compute; reflexivity.
  - eexists. split; vm_compute; reflexivity.
  - vm_compute. reflexivity.
  - vm_compute. repeat constructor.
  - repeat constructor. eexists. vm_compute. reflexivity.
Qed.

(* ... and the worked universe's replies to that question are well-formed messages that fit a
   datagram, so the universe oracle delivers them (the hypothesis [delivers] of the hop theorems holds) *)
Example C07_example_delivers : forall port, delivers (universe_oracle ex_universe []) ex_universe port ex_q_www.
Proof.
  intro port. apply universe_oracle_delivers.
  - apply wf_question_b_sound. vm_compute. reflexivity.
  - intros req E. vm_compute in E. inversion E; subst. vm_compute. discriminate.
  - intros a m H. unfold serve, zones_of_server in H. cbn [ex_universe u_servers find fst] in H.
    destruct (ip_eqb (inl ip_root) a).
    + inversion H; subst. split; [apply wf_message_b_sound; vm_compute; reflexivity|].
      eexists. split; [vm_compute; reflexivity|vm_compute; discriminate].
    + destruct (ip_eqb (inl ip_com) a); [|discriminate].
      inversion H; subst. split; [apply wf_message_b_sound; vm_compute; reflexivity|].
      eexists. split; [vm_compute; reflexivity|vm_compute; discriminate].
Qed.

(* C07_correct_partial -- NOT PROVED as a whole.  Target statement:

     forall u zones q, consistentb u = true -> glue_complete u -> in_bailiwick u -> roots_configured u zones ->
       exists F, forall fuel, F <= fuel ->
         fst (resolve_simple (ModeRecursive pmode) port zones (universe_oracle u []) fuel q (sc_empty, tstate_init))
         = Ok (NonAuthoritative (aa_rrs (auth_answer u q)) (aa_soa (auth_answer u q)))
       (when aa_defined (auth_answer u q) and every zone has a nameserver address the mode can use)

   by induction on the depth of the zone owning the name.  PROVED, for every universe: the two kinds
   of hop of that induction (C07_referral_hop_partial: a referral is followed to exactly the
   delegated zone's hosts; C07_last_hop_partial: at the owning zone's server the result is exactly
   auth_answer), that every referral followed is strictly deeper and the number of referrals is
   bounded by the labels of the question name (C07_referral_progress), completeness of the reply
   filter on [serve]'s three reply shapes, agreement of [serve] with [auth_answer] at the owning zone,
   termination (C08_recursive_terminates) and provenance (C07_answer_provenance); plus the worked
   two-level universe evaluated inside Coq (C07_example_two_level).
   DEPTH 1 IS NOW PROVED (end of this file: C07_correct_depth0, C07_correct_depth1 -- root hints built
   by Zone::insert, empty SimpleCache, only-v4, no alias, glue-complete delegation from the root).
   MISSING to chain the hops into the whole statement for arbitrary depth:
   (1) (done for depth 1: C07_hints_zone_lookup through C02's flat specification,
       C07_simple_cache_get_after_insert_all) that resolve_hostname_to_ip yields, for the candidate
       the loop pops, an address at which a server of the delegated zone listens, at EVERY level:
       the cache then holds the glue of several referrals (get after several insert_all), and a
       nameserver host without glue must itself be resolved recursively;
   (2) (done: C07_universe_oracle_delivers discharges [delivers] for the fault-free universe oracle
       under [serve_fits] -- well-formed replies of at most 512 octets -- which remains a hypothesis
       on the universe, decidable per question);
   (3) aliases: [serve]'s multi-link answers and the NRCname continuation;
   (4) the glue shortcut F11 (a nameserver-address question answered from the first glue record)
       as a hypothesis on the universe.
   Until then "the result EQUALS auth_answer" is covered by the differential stream (vlib/p_c07.py:
   the implementation's result = the extracted auth_answer on every generated consistent universe,
   the model = the implementation on every exchange). *)

(* ====================================================================== *)
(* C07_correct for DEPTH 1 (lemmas: Resolver/RecursiveDepth1.v)             *)
(* ====================================================================== *)
From Coq Require Import Permutation.
From RV Require Import Name.NameSpec Zone.ZoneFlat Resolver.RecursiveDepth1.

(* For EVERY universe [u] with a root zone [zroot], every list [hints] of root hints (NS records of
   the root, A records of the hosts they name) from which Zone::insert builds the resolver's only
   local zone, every order [sort_names] of the candidate list that is a permutation, every port and
   every fuel >= 3: started on an empty SimpleCache in protocol mode only-v4 against the fault-free
   universe oracle (through the wire codec), the recursive resolver returns EXACTLY the
   authoritative answer -- the records of the asked type at the name as the owning zone lists
   them, or no records and that zone's SOA (NODATA / NXDOMAIN) -- when the zone owning the question
   name is the root zone (one exchange, with a root server) ...

   Hypotheses (definitions in RecursiveDepth1.v, each with its reading):
     hints_for u zroot hints q     the hints are well formed, name a nameserver, hold an A record for
                                   each, lead to servers of the root zone, do not answer q themselves
     plain_question u q            q well formed, not for CNAME / ANY; request and the servers'
                                   replies fit a 512-octet datagram and are well-formed messages
     answering_zone u z q          z owns the name (longest apex, no cut on the way), no alias there;
                                   known record types; its SOA is an SOA at its apex *)
Theorem C07_correct_depth0 :
  forall (sort_names : list dname -> list dname) (port : N) (u : universe) (zroot : uzone)
         (hints : list rr) (hz : zone) (q : question) (fuel : nat),
  (forall l, Permutation (sort_names l) l) ->
  uz_apex zroot = root_domain ->
  zone_build root_domain None (hint_ops hints) = Ok hz ->
  hints_for u zroot hints q -> plain_question u q ->
  answering_zone u zroot q -> (3 <= fuel)%nat ->
  exists c' ts' a e,
    resolve scache sc_get sc_insert_all sort_names (ModeRecursive OnlyV4) port (zones_insert [] hz)
            (universe_oracle u []) fuel q (sc_empty, tstate_init)
    = (Ok (NonAuthoritative (aa_rrs (auth_answer u q)) (aa_soa (auth_answer u q))), (c', ts'))
    /\ ts_log ts' = [e] /\ query_to port q a e /\ serves_owner u (inl a) zroot q.
Proof.
  intros sort_names port u zroot hints hz q fuel Hs Ha Hb Hh Hq Hz Hf.
  exact (depth0_correct sort_names Hs port u zroot hints hz q Ha Hb Hh Hq fuel Hz Hf).
Qed.
Print Assumptions C07_correct_depth0.

(* ... and when it is a zone [zc] delegated from the root zone with glue (two exchanges: a root
   server's referral, then a server of [zc]).
     delegated_from_root u zroot zc hints q
        the root zone's delegation point on the way to the name is the apex of zc; its cut records
        are NS records; every nameserver of the delegation has an A record with positive TTL in the
        root zone's glue (glue-complete, wherever the host's name lies); all those addresses (and the
        hints' addresses for such a host, if any) are servers whose closest zone for the name is zc;
        the question name itself owns no glue (finding F11) *)
Theorem C07_correct_depth1 :
  forall (sort_names : list dname -> list dname) (port : N) (u : universe) (zroot zc : uzone)
         (hints : list rr) (hz : zone) (q : question) (fuel : nat),
  (forall l, Permutation (sort_names l) l) ->
  zone_build root_domain None (hint_ops hints) = Ok hz ->
  hints_for u zroot hints q -> plain_question u q ->
  answering_zone u zc q -> delegated_from_root u zroot zc hints q -> (3 <= fuel)%nat ->
  exists c' ts' a0 a1 e1 e2,
    resolve scache sc_get sc_insert_all sort_names (ModeRecursive OnlyV4) port (zones_insert [] hz)
            (universe_oracle u []) fuel q (sc_empty, tstate_init)
    = (Ok (NonAuthoritative (aa_rrs (auth_answer u q)) (aa_soa (auth_answer u q))), (c', ts'))
    /\ ts_log ts' = [e1; e2] /\ query_to port q a0 e1 /\ query_to port q a1 e2
    /\ serves_owner u (inl a0) zroot q /\ serves_owner u (inl a1) zc q.
Proof.
  intros sort_names port u zroot zc hints hz q fuel Hs Hb Hh Hq Hz Hd Hf.
  exact (depth1_correct sort_names Hs port u zroot hints hz q Hb Hh Hq zc fuel Hz Hd Hf).
Qed.
Print Assumptions C07_correct_depth1.

(* the order of hook H5 (what resolve_simple, the model the driver runs, uses) is a permutation *)
Theorem C07_sort_names_ord_permutation : forall l, Permutation (sort_names_ord l) l.
Proof. exact sort_names_ord_perm. Qed.
Print Assumptions C07_sort_names_ord_permutation.

(* the lookup fact behind the first step, for EVERY list of hints: the zone Zone::insert builds from
   them answers a lookup (any well-formed name, any type but ANY) with exactly the matching hints,
   owner = the query name, or finds nothing (C02's flat specification: resolve_refines_flat) *)
Theorem C07_hints_zone_lookup : forall hints hz name qt,
  Forall hint_ok hints -> zone_build root_domain None (hint_ops hints) = Ok hz ->
  wf_name name -> qt <> QT_Wildcard ->
  exists zr, zone_resolve hz name qt = Some (Ok zr) /\
    ((zr = ZNameError /\ forall x, ~ hint_match hints name qt x) \/
     (exists rrs, zr = ZAnswer rrs /\ forall x, In x rrs <-> hint_match hints name qt x)).
Proof. intros hints hz name qt Hh Hb. exact (hints_zone_resolve hints Hh hz name qt Hb). Qed.
Print Assumptions C07_hints_zone_lookup.

(* "get after insert_all" for SimpleCache: an address record inserted with a positive TTL into the
   empty cache is read back, and what is read back was inserted *)
Theorem C07_simple_cache_get_after_insert_all :
  (forall n t, sc_get sc_empty n t = [])
  /\ (forall rrs r, In r rrs -> rr_type r = RT_A -> 0 < rr_ttl r ->
        sc_get (sc_insert_all sc_empty rrs) (rr_name r) RT_A <> [])
  /\ (forall rrs n x, In x (sc_get (sc_insert_all sc_empty rrs) n RT_A) ->
        rr_name x = n /\ rr_type x = RT_A /\ rr_class x = RC_IN /\
        exists r, In r rrs /\ rr_name r = n /\ rr_type r = RT_A /\ rr_data r = rr_data x).
Proof. split; [exact sc_empty_get|]. split; [exact sc_get_a_complete|exact sc_get_a_sound]. Qed.
Print Assumptions C07_simple_cache_get_after_insert_all.

(* ---- the hypotheses are met by the worked universe of C07_example_two_level ---- *)
Definition ex_hint_rrs : list rr := [mk_rr n_root RT_NS 3600 (RD_Name n_a); mk_rr n_a RT_A 3600 (RD_A ip_root)].
Definition ex_hz : zone :=
  match zone_build root_domain None (hint_ops ex_hint_rrs) with Ok z => z | _ => zone_new root_domain None end.
(* a name the root zone owns (and does not hold): www. *)
Definition ex_q_root : question := {| q_name := nm [l_www]; q_type := RT_A; q_class := RC_IN |}.

Lemma ex_hz_built : zone_build root_domain None (hint_ops ex_hint_rrs) = Ok ex_hz.
Proof. vm_compute. reflexivity. Qed.

(* the hints zone of C07_example_two_level is that zone *)
Example C07_example_hints_zone : zones_insert [] ex_hz = ex_hints.
Proof. vm_compute. reflexivity. Qed.

Lemma ex_serves_root q : q_name q = n_www_com \/ q_name q = nm [l_www] ->
  serves_owner ex_universe (inl ip_root) ex_root_zone q.
Proof. intros [E|E]; eexists; rewrite E; split; vm_compute; reflexivity. Qed.

Lemma ex_hints_for q : (q = ex_q_www \/ q = ex_q_root) -> hints_for ex_universe ex_root_zone ex_hint_rrs q.
Proof.
  intro Hq. split; [|split; [|split; [|split]]].
  - apply Forall_cons; [|apply Forall_cons; [|apply Forall_nil]]; (split; [apply wf_name_b_sound; vm_compute; reflexivity|]).
    + left. split; [reflexivity|]. split; [reflexivity|]. eexists. reflexivity.
    + right. split; [reflexivity|]. eexists. reflexivity.
  - eexists. split; [left; reflexivity|reflexivity].
  - intros r h [<-|[<-|[]]] Ht Hd; [|discriminate Ht]. inversion Hd; subst h.
    split; [apply wf_name_b_sound; vm_compute; reflexivity|].
    eexists. split; [right; left; reflexivity|]. split; reflexivity.
  - intros g a [<-|[<-|[]]] Ht Hd; [discriminate Ht|]. inversion Hd; subst a.
    apply ex_serves_root. destruct Hq as [-> | ->]; [left|right]; reflexivity.
  - intros r [<-|[<-|[]]] Hl; destruct Hq as [-> | ->]; vm_compute in Hl; discriminate Hl.
Qed.

Lemma ex_serve_fits q : (q = ex_q_www \/ q = ex_q_root) -> serve_fits ex_universe q.
Proof.
  intros Hq a m H. unfold serve, zones_of_server in H. cbn [ex_universe u_servers find fst] in H.
  destruct (ip_eqb (inl ip_root) a).
  - destruct Hq as [-> | ->]; inversion H; subst; (split; [apply wf_message_b_sound; vm_compute; reflexivity|]);
      eexists; (split; [vm_compute; reflexivity|vm_compute; discriminate]).
  - destruct (ip_eqb (inl ip_com) a); [|discriminate].
    destruct Hq as [-> | ->]; inversion H; subst; (split; [apply wf_message_b_sound; vm_compute; reflexivity|]);
      eexists; (split; [vm_compute; reflexivity|vm_compute; discriminate]).
Qed.

Lemma ex_plain_question q : (q = ex_q_www \/ q = ex_q_root) -> plain_question ex_universe q.
Proof.
  intro Hq. split; [|split; [|split; [|split]]].
  - apply wf_question_b_sound. destruct Hq as [-> | ->]; vm_compute; reflexivity.
  - destruct Hq as [-> | ->]; discriminate.
  - destruct Hq as [-> | ->]; discriminate.
  - intros req E. destruct Hq as [-> | ->]; vm_compute in E; inversion E; subst; vm_compute; discriminate.
  - apply ex_serve_fits, Hq.
Qed.

Lemma ex_known z : z = ex_root_zone \/ z = ex_com_zone -> Forall (fun r => rr_is_unknown r = false) (zone_data z).
Proof. intros [-> | ->]; vm_compute; repeat constructor. Qed.

(* www. : the root zone owns it; one exchange, NXDOMAIN with the root's SOA *)
Example C07_example_depth0 : exists c' ts' a e,
  resolve scache sc_get sc_insert_all sort_names_ord (ModeRecursive OnlyV4) 53 (zones_insert [] ex_hz)
          (universe_oracle ex_universe []) 100%nat ex_q_root (sc_empty, tstate_init)
  = (Ok (NonAuthoritative [] (Some (uz_soa ex_root_zone))), (c', ts'))
  /\ ts_log ts' = [e] /\ query_to 53 ex_q_root a e /\ serves_owner ex_universe (inl a) ex_root_zone ex_q_root.
Proof.
  apply (C07_correct_depth0 sort_names_ord 53 ex_universe ex_root_zone ex_hint_rrs ex_hz ex_q_root 100%nat
           C07_sort_names_ord_permutation eq_refl ex_hz_built (ex_hints_for _ (or_intror eq_refl))
           (ex_plain_question _ (or_intror eq_refl))); [|lia].
  split; [|split; [apply ex_known; left; reflexivity|split; reflexivity]].
  repeat split; vm_compute; reflexivity.
Qed.

(* www.com. : com. owns it, delegated from the root with glue for ns.com.; two exchanges *)
Example C07_example_depth1 : exists c' ts' a0 a1 e1 e2,
  resolve scache sc_get sc_insert_all sort_names_ord (ModeRecursive OnlyV4) 53 (zones_insert [] ex_hz)
          (universe_oracle ex_universe []) 100%nat ex_q_www (sc_empty, tstate_init)
  = (Ok (NonAuthoritative [mk_rr n_www_com RT_A 300 (RD_A 3221225985)] None), (c', ts'))
  /\ ts_log ts' = [e1; e2] /\ query_to 53 ex_q_www a0 e1 /\ query_to 53 ex_q_www a1 e2
  /\ serves_owner ex_universe (inl a0) ex_root_zone ex_q_www /\ serves_owner ex_universe (inl a1) ex_com_zone ex_q_www.
Proof.
  apply (C07_correct_depth1 sort_names_ord 53 ex_universe ex_root_zone ex_com_zone ex_hint_rrs ex_hz ex_q_www 100%nat
           C07_sort_names_ord_permutation ex_hz_built (ex_hints_for _ (or_introl eq_refl))
           (ex_plain_question _ (or_introl eq_refl))); [| |lia].
  - split; [|split; [apply ex_known; right; reflexivity|split; reflexivity]].
    repeat split; vm_compute; reflexivity.
  - split; [vm_compute; reflexivity|]. split; [repeat constructor; eexists; vm_compute; reflexivity|].
    split; [vm_compute; reflexivity|]. split.
    + intros r [<-|[<-|[<-|[]]]]; vm_compute; discriminate.
    + intros h (r & [<-|[]] & _ & Hh). vm_compute in Hh. inversion Hh; subst h.
      split; [apply wf_name_b_sound; vm_compute; reflexivity|]. split; [|split].
      * eexists. split; [left; reflexivity|]. split; [reflexivity|]. split; [reflexivity|vm_compute; reflexivity].
      * intros g [<-|[<-|[<-|[]]]] Hn Ht; try (vm_compute in Hn; discriminate Hn).
        eexists. split; [reflexivity|]. eexists. split; vm_compute; reflexivity.
      * intros g a [<-|[<-|[]]] Hl; vm_compute in Hl; discriminate Hl.
Qed.

(* ====================================================================== *)
(* ARBITRARY DEPTH: glue-complete, alias-free chains of delegations         *)
(* ====================================================================== *)
From RV Require Import Resolver.RecursiveChain Resolver.ResolverCacheInstance.

(* For EVERY universe [u], every chain of its zones  zroot > z1 > ... > zk  ([rest] = z1..zk, k
   arbitrary) in which each zone is delegated from the one before on the way to the question name
   with A glue for each of its nameservers, and the last zone owns the question name plainly; every
   list of root hints from which Zone::insert builds the resolver's only local zone; every candidate
   order that is a permutation; every port; every fuel >= k + 2: started on an empty SimpleCache in
   protocol mode only-v4 against the fault-free universe oracle (through the wire codec), the
   recursive resolver returns EXACTLY the authoritative answer (the records of the asked type as the
   owning zone lists them, or no records and that zone's SOA), and its log is exactly one UDP
   exchange about the question per zone of the chain, in order, root server first: the i-th with a
   server whose closest zone for the question name is the i-th zone of the chain.  The depths of
   the apexes along the chain increase strictly (each referral followed is strictly deeper).

   Hypotheses (RecursiveDepth1.v, RecursiveChain.v), all but [serve_fits] inside [plain_question]
   decidable on the universe, the hints and the question:
     hints_for u zroot hints q, plain_question u q     as for C07_correct_depth0/1
     chain_from u hints q [] zroot [z1; ..; zk]        for each i:  chain_link [z(i-1); ..; zroot] zi z(i+1),
                                                       and  answering_zone u zk q
     chain_link prev zp zc
        the delegation point of zp on the way to the name is the apex of zc; zp's cut records are NS
        records; the apex of zc has strictly more labels than that of zp; the question name owns no
        glue or data in zp (finding F11); every nameserver host of the cut has a well-formed name and
        an A record with TTL > 0 in zp's glue or data; every A record for that host in the glue or
        data of zp or of a zone above it in the chain ([prev]: the cache may hold their glue by then),
        and every A record the hints hold for it, names a server whose closest zone for the question
        name is zc.
   C07_correct_depth0 / _depth1 are the cases k = 0 / k = 1 (RecursiveChain.delegated_from_root_link). *)
Theorem C07_correct_chain :
  forall (sort_names : list dname -> list dname) (port : N) (u : universe) (zroot : uzone) (rest : list uzone)
         (hints : list rr) (hz : zone) (q : question) (fuel : nat),
  (forall l, Permutation (sort_names l) l) ->
  uz_apex zroot = root_domain ->
  zone_build root_domain None (hint_ops hints) = Ok hz ->
  hints_for u zroot hints q -> plain_question u q ->
  chain_from u hints q [] zroot rest -> (length rest + 2 <= fuel)%nat ->
  exists c' ts',
    resolve scache sc_get sc_insert_all sort_names (ModeRecursive OnlyV4) port (zones_insert [] hz)
            (universe_oracle u []) fuel q (sc_empty, tstate_init)
    = (Ok (NonAuthoritative (aa_rrs (auth_answer u q)) (aa_soa (auth_answer u q))), (c', ts'))
    /\ Forall2 (fun z e => exists a, query_to port q a e /\ serves_owner u (inl a) z q) (zroot :: rest) (ts_log ts')
    /\ depths_increase zroot rest.
Proof.
  intros sort_names port u zroot rest hints hz q fuel Hs Ha Hb Hh Hq Hc Hf.
  exact (chain_correct sort_names Hs port u zroot hints hz q Ha Hb Hh Hq rest fuel Hc Hf).
Qed.
Print Assumptions C07_correct_chain.

(* the same for the real cache model (Cache/CacheModel.v under its invariant), started empty
   (Cache::new) at any fixed virtual instant [now] *)
Theorem C07_correct_chain_real_cache :
  forall (now : N) (sort_names : list dname -> list dname) (port : N) (u : universe) (zroot : uzone) (rest : list uzone)
         (hints : list rr) (hz : zone) (q : question) (fuel : nat),
  (forall l, Permutation (sort_names l) l) ->
  uz_apex zroot = root_domain ->
  zone_build root_domain None (hint_ops hints) = Ok hz ->
  hints_for u zroot hints q -> plain_question u q ->
  chain_from u hints q [] zroot rest -> (length rest + 2 <= fuel)%nat ->
  exists c' ts',
    resolve rcache (rc_get now) (rc_insert_all now) sort_names (ModeRecursive OnlyV4) port (zones_insert [] hz)
            (universe_oracle u []) fuel q (rc_new, tstate_init)
    = (Ok (NonAuthoritative (aa_rrs (auth_answer u q)) (aa_soa (auth_answer u q))), (c', ts'))
    /\ Forall2 (fun z e => exists a, query_to port q a e /\ serves_owner u (inl a) z q) (zroot :: rest) (ts_log ts')
    /\ depths_increase zroot rest.
Proof.
  intros now sort_names port u zroot rest hints hz q fuel Hs Ha Hb Hh Hq Hc Hf.
  exact (chain_correct_real_cache now sort_names Hs port u zroot hints hz q Ha Hb Hh Hq rest fuel Hc Hf).
Qed.
Print Assumptions C07_correct_chain_real_cache.

(* the three laws of the abstract cache the induction uses, stated over histories of insert_all
   from the empty cache (cache_after = fold_left insert_all): the empty cache answers nothing; an A
   record read at a name agrees in name, type and data with a record some insert_all was given; an
   A record with TTL > 0 given to the last insert_all makes the read at its name non-empty.
   SimpleCache meets them, and so does the real cache model at any fixed instant. *)
Theorem C07_chain_cache_laws :
  ((forall n t, sc_get sc_empty n t = [])
   /\ (forall ls n x, In x (sc_get (cache_after scache sc_insert_all sc_empty ls) n RT_A) ->
         rr_name x = n /\ rr_type x = RT_A /\ rr_class x = RC_IN /\
         exists r, In r (concat ls) /\ rr_name r = n /\ rr_type r = RT_A /\ rr_data r = rr_data x)
   /\ (forall ls rrs r, In r rrs -> rr_type r = RT_A -> 0 < rr_ttl r ->
         sc_get (cache_after scache sc_insert_all sc_empty (ls ++ [rrs])) (rr_name r) RT_A <> []))
  /\ forall now,
     ((forall n t, rc_get now rc_new n t = [])
      /\ (forall ls n x, In x (rc_get now (cache_after rcache (rc_insert_all now) rc_new ls) n RT_A) ->
            rr_name x = n /\ rr_type x = RT_A /\ rr_class x = RC_IN /\
            exists r, In r (concat ls) /\ rr_name r = n /\ rr_type r = RT_A /\ rr_data r = rr_data x)
      /\ (forall ls rrs r, In r rrs -> rr_type r = RT_A -> 0 < rr_ttl r ->
            rc_get now (cache_after rcache (rc_insert_all now) rc_new (ls ++ [rrs])) (rr_name r) RT_A <> [])).
Proof.
  split; [split; [exact sc_empty_get|split; [exact sc_hist_sound|exact sc_hist_complete]]|].
  intro now. split; [exact (rc_empty_get now)|split; [exact (rc_hist_sound now)|exact (rc_hist_complete now)]].
Qed.
Print Assumptions C07_chain_cache_laws.

(* ---- the hypotheses are met by a worked chain of depth 3 (RecursiveChain.v, section 5):
   . -> com. -> example.com. -> sub.example.com., one nameserver with glue per zone, a consistent
   universe; www.sub.example.com. A is answered after three referrals (four exchanges, fuel 5 =
   k + 2), and MX is denied with the SOA of sub.example.com. after the same four exchanges; the
   last conjuncts are the same run evaluated inside Coq (vm_compute): the addresses asked, in order *)
Example C07_example_depth3 :
  (exists c' ts',
     resolve scache sc_get sc_insert_all sort_names_ord (ModeRecursive OnlyV4) 53 (zones_insert [] c3_hz)
             (universe_oracle c3_universe []) 5%nat c3_q (sc_empty, tstate_init)
     = (Ok (NonAuthoritative [c3_rr c3_n_www RT_A 300 (RD_A 3221225985)] None), (c', ts'))
     /\ Forall2 (fun z e => exists a, query_to 53 c3_q a e /\ serves_owner c3_universe (inl a) z c3_q)
                [c3_root; c3_com; c3_ex; c3_sub] (ts_log ts')
     /\ depths_increase c3_root [c3_com; c3_ex; c3_sub])
  /\ (exists c' ts',
     resolve scache sc_get sc_insert_all sort_names_ord (ModeRecursive OnlyV4) 53 (zones_insert [] c3_hz)
             (universe_oracle c3_universe []) 5%nat c3_q_mx (sc_empty, tstate_init)
     = (Ok (NonAuthoritative [] (Some (uz_soa c3_sub))), (c', ts'))
     /\ Forall2 (fun z e => exists a, query_to 53 c3_q_mx a e /\ serves_owner c3_universe (inl a) z c3_q_mx)
                [c3_root; c3_com; c3_ex; c3_sub] (ts_log ts')
     /\ depths_increase c3_root [c3_com; c3_ex; c3_sub])
  /\ (let r := resolve scache sc_get sc_insert_all sort_names_ord (ModeRecursive OnlyV4) 53 (zones_insert [] c3_hz)
                       (universe_oracle c3_universe []) 5%nat c3_q (sc_empty, tstate_init) in
      fst r = Ok (NonAuthoritative [c3_rr c3_n_www RT_A 300 (RD_A 3221225985)] None)
      /\ map x_addr (ts_log (snd (snd r))) = [(inl c3_ip0, 53); (inl c3_ip1, 53); (inl c3_ip2, 53); (inl c3_ip3, 53)]
      /\ consistentb c3_universe = true).
Proof. exact (conj chain_example_depth3 (conj chain_example_depth3_nodata chain_example_depth3_eval)). Qed.
Print Assumptions C07_example_depth3.

(* ====================================================================== *)
(* WARM CACHE: the chain theorem from any cache consistent with the universe *)
(* ====================================================================== *)
From RV Require Import Resolver.RecursiveWarm Resolver.RecursiveSequence.

(* [cache_consistent u hints cache cache_get c] (Resolver/RecursiveWarm.v), for every record type t
   proper (not ANY / AXFR / MAILB / MAILA):
     sound     every record read from c at (n, t) has the owner, type and data of a record in the
               cuts, the glue or the data (SOA included) of a zone of u;
     closed    every host named by an NS record read from c has a well-formed name and an A record
               in the hints or a non-empty A RRset in c (the fast candidate pass resolves it);
     complete  a non-empty RRset read from c at (n, t), t <> NS, n not a nameserver host of u, holds
               the data of EVERY record of (n, t) in the data of u's zones.
   (a) A cache that answers nothing is consistent: the empty SimpleCache and the real cache model's
   Cache::new at any instant. *)
Theorem C07_empty_cache_consistent : forall u hints,
  cache_consistent u hints scache sc_get sc_empty
  /\ forall now, cache_consistent u hints rcache (rc_get now) rc_new.
Proof. intros u hints. split; [exact (sc_empty_consistent u hints)|intro now; exact (rc_new_consistent now u hints)]. Qed.
Print Assumptions C07_empty_cache_consistent.

(* (b) + (c).  For EVERY universe [u] whose delegation points hold only NS records and whose NS
   records name hosts ([universe_ns_ok]), every plain question [q] of it with its delegation chain
   zroot > z1 > ... > zk = zk ([warm_question]: below), every SimpleCache [c] CONSISTENT with u -- in
   particular one left by earlier resolutions -- root hints, candidate order, port as for
   C07_correct_chain, fuel >= k + 2:  the recursive resolver (only-v4, fault-free universe oracle
   through the wire codec, a fresh transport state) returns the authoritative answer and leaves a
   consistent cache:
     - either straight from the cache, without any exchange, cache unchanged: the RRset cached for
       (name, type), non-empty, with EXACTLY the data of the authoritative RRset -- each record of
       one has a record of the other with the same owner, type and data; the TTLs are the cache's (the
       server's, at the fixed virtual instant) and so is the order; no SOA;
     - or over the network: EXACTLY auth_answer (records as the owning zone lists them, or no records
       and that zone's SOA), nothing having been cached for (name, type); the log is one UDP exchange
       about q per zone of a non-empty SUFFIX [used] of the chain, in order, each with a server whose
       closest zone for the name is that zone: candidate_nameservers started at the deepest zone of
       the chain whose NS set is cached (at the root hints if none).

   warm_question u hints q zroot [z1..zk] zk  (all decidable on the universe, the hints, the question):
     the name is well formed; the type is a record type proper other than NS and CNAME;
     zroot's apex is the root; hints_for (as for C07_correct_chain);
     wchain: for each i, [wlink z(i-1) zi]: z(i-1) is a zone of u whose delegation point on the way to
       the name is zi's apex, strictly deeper; the name owns nothing in z(i-1)'s glue or data (F11);
       every nameserver host of the cut has an A record with TTL > 0 in z(i-1)'s glue or data; and
       [ns_hosts_ok zi]: every host that ANY NS record of the universe owned by zi's apex names has a
       well-formed name, and every A record the universe (any zone's cuts, glue or data) or the
       hints hold for it is the address of a server whose closest zone for the name is zi;
     answering_zone u zk q (as for C07_correct_chain);
     the name owns no glue in any zone, its records in any zone's data are records of zk, and zk's
       records of the asked name and type have TTL > 0;
     the name is not a nameserver host (no NS record of the universe names it);
     no CNAME record of the universe is owned by the name or a name above it;
     every NS record of the universe owned by the name or a name above it is owned by the root or by
       the apex of one of z1..zk. *)
Theorem C07_correct_warm :
  forall (sort_names : list dname -> list dname) (port : N) (u : universe) (hints : list rr) (hz : zone)
         (q : question) (zroot : uzone) (rest : list uzone) (zk : uzone) (c : scache) (fuel : nat),
  (forall l, Permutation (sort_names l) l) ->
  universe_ns_ok u ->
  zone_build root_domain None (hint_ops hints) = Ok hz ->
  warm_question u hints q zroot rest zk -> plain_question u q ->
  cache_consistent u hints scache sc_get c -> (length rest + 2 <= fuel)%nat ->
  exists rrs c' ts',
    resolve scache sc_get sc_insert_all sort_names (ModeRecursive OnlyV4) port (zones_insert [] hz)
            (universe_oracle u []) fuel q (c, tstate_init)
    = (Ok (NonAuthoritative rrs (aa_soa (auth_answer u q))), (c', ts'))
    /\ cache_consistent u hints scache sc_get c'
    /\ ((ts_log ts' = [] /\ c' = c /\ rrs = sc_get c (q_name q) (q_type q) /\ rrs <> []
         /\ same_data rrs (aa_rrs (auth_answer u q)))
        \/ (rrs = aa_rrs (auth_answer u q) /\ sc_get c (q_name q) (q_type q) = []
            /\ exists pre used, zroot :: rest = pre ++ used /\ used <> []
               /\ Forall2 (fun z e => exists a, query_to port q a e /\ serves_owner u (inl a) z q) used (ts_log ts'))).
Proof.
  intros sort_names port u hints hz q zroot rest zk c fuel Hs Hu Hb Hw Hq Hc Hf.
  exact (warm_correct sort_names Hs port u hints hz q zroot rest zk c fuel Hu Hb Hw Hq Hc Hf).
Qed.
Print Assumptions C07_correct_warm.

(* the same for the real cache model (Cache/CacheModel.v under its invariant) at any fixed instant *)
Theorem C07_correct_warm_real_cache :
  forall (now : N) (sort_names : list dname -> list dname) (port : N) (u : universe) (hints : list rr) (hz : zone)
         (q : question) (zroot : uzone) (rest : list uzone) (zk : uzone) (c : rcache) (fuel : nat),
  (forall l, Permutation (sort_names l) l) ->
  universe_ns_ok u ->
  zone_build root_domain None (hint_ops hints) = Ok hz ->
  warm_question u hints q zroot rest zk -> plain_question u q ->
  cache_consistent u hints rcache (rc_get now) c -> (length rest + 2 <= fuel)%nat ->
  exists rrs c' ts',
    resolve rcache (rc_get now) (rc_insert_all now) sort_names (ModeRecursive OnlyV4) port (zones_insert [] hz)
            (universe_oracle u []) fuel q (c, tstate_init)
    = (Ok (NonAuthoritative rrs (aa_soa (auth_answer u q))), (c', ts'))
    /\ cache_consistent u hints rcache (rc_get now) c'
    /\ ((ts_log ts' = [] /\ c' = c /\ rrs = rc_get now c (q_name q) (q_type q) /\ rrs <> []
         /\ same_data rrs (aa_rrs (auth_answer u q)))
        \/ (rrs = aa_rrs (auth_answer u q) /\ rc_get now c (q_name q) (q_type q) = []
            /\ exists pre used, zroot :: rest = pre ++ used /\ used <> []
               /\ Forall2 (fun z e => exists a, query_to port q a e /\ serves_owner u (inl a) z q) used (ts_log ts'))).
Proof.
  intros now sort_names port u hints hz q zroot rest zk c fuel Hs Hu Hb Hw Hq Hc Hf.
  exact (warm_correct_real_cache now sort_names Hs port u hints hz q zroot rest zk c fuel Hu Hb Hw Hq Hc Hf).
Qed.
Print Assumptions C07_correct_warm_real_cache.

(* the four laws of the abstract cache the warm induction uses, about ONE insert_all into ANY cache,
   at record types proper: what is read at (n, t) is owned by n, of type t, class IN; what is read
   after an insert_all was read before or was given to it with a positive TTL (same owner, type,
   data); what was read before can be read after (same data); what is given with a positive TTL can
   be read.  SimpleCache meets them, and so does the real cache model at any fixed instant. *)
Theorem C07_warm_cache_laws :
  cache_laws scache sc_get sc_insert_all /\ forall now, cache_laws rcache (rc_get now) (rc_insert_all now).
Proof. split; [exact sc_cache_laws|exact rc_cache_laws]. Qed.
Print Assumptions C07_warm_cache_laws.

(* ---- the hypotheses are met by a worked universe (RecursiveWarm.v, section 8): the depth-3 chain
   . -> com. -> example.com. -> sub.example.com. of C07_example_depth3 with two cross-zone aliases
   added (alias.example.com. CNAME www.sub.example.com.; ext.com. CNAME alias.example.com.), a
   consistent universe.  [c4_cache1] is the SimpleCache left by resolving www.sub.example.com. A from
   the empty cache: it is consistent; from it MX is denied after ONE exchange (with 10.0.0.4, the
   server of sub.example.com., whose NS set and glue are cached) and A is answered from the cache
   with no exchange (last conjunct: the same runs evaluated by vm_compute) *)
Example C07_example_warm :
  (cache_consistent c4_universe c3_hints scache sc_get c4_cache1
   /\ warm_outcome scache sc_get 53 c4_universe c3_hints c3_q_mx c4_root [c4_com; c4_ex; c4_sub] c4_cache1
        (resolve scache sc_get sc_insert_all sort_names_ord (ModeRecursive OnlyV4) 53 (zones_insert [] c3_hz)
                 (universe_oracle c4_universe []) 5%nat c3_q_mx (c4_cache1, tstate_init))
   /\ warm_outcome scache sc_get 53 c4_universe c3_hints c3_q c4_root [c4_com; c4_ex; c4_sub] c4_cache1
        (resolve scache sc_get sc_insert_all sort_names_ord (ModeRecursive OnlyV4) 53 (zones_insert [] c3_hz)
                 (universe_oracle c4_universe []) 5%nat c3_q (c4_cache1, tstate_init)))
  /\ (let r2 := resolve scache sc_get sc_insert_all sort_names_ord (ModeRecursive OnlyV4) 53 (zones_insert [] c3_hz)
                        (universe_oracle c4_universe []) 5%nat c3_q_mx (c4_cache1, tstate_init) in
      let r3 := resolve scache sc_get sc_insert_all sort_names_ord (ModeRecursive OnlyV4) 53 (zones_insert [] c3_hz)
                        (universe_oracle c4_universe []) 5%nat c3_q (c4_cache1, tstate_init) in
      fst r2 = Ok (NonAuthoritative [] (Some (uz_soa c4_sub)))
      /\ map x_addr (ts_log (snd (snd r2))) = [(inl c3_ip3, 53)]
      /\ fst r3 = Ok (NonAuthoritative [c3_rr c3_n_www RT_A 300 (RD_A 3221225985)] None)
      /\ ts_log (snd (snd r3)) = []
      /\ consistentb c4_universe = true).
Proof. exact (conj warm_example_depth3 warm_example_depth3_eval). Qed.
Print Assumptions C07_example_warm.

(* ====================================================================== *)
(* SEQUENCES of questions sharing one cache                                 *)
(* ====================================================================== *)

(* [resolve_seq] (Resolver/RecursiveSequence.v): the questions of a list resolved one after the other,
   each with a fresh transport state, the cache handed on.  For EVERY universe as above, every list
   [qs] of plain questions of it (each with its own chain, of length + 2 <= fuel: [seq_question] =
   warm_question + plain_question), every cache consistent with the universe at the start -- the
   empty cache is -- EVERY question of the sequence returns its authoritative answer
   ([answer_is_auth]: Ok (NonAuthoritative rrs soa) with soa = auth_answer's SOA exactly and rrs
   holding exactly the data of auth_answer's records -- identical to them when resolved over the
   network, the cached RRset when an earlier question has cached it), and the cache at the end is
   consistent.  Stated for SimpleCache started empty and for the real cache model started from
   Cache::new at any fixed instant. *)
Theorem C07_sequence :
  forall (sort_names : list dname -> list dname) (port : N) (u : universe) (hints : list rr) (hz : zone)
         (fuel : nat) (qs : list question),
  (forall l, Permutation (sort_names l) l) ->
  universe_ns_ok u ->
  zone_build root_domain None (hint_ops hints) = Ok hz ->
  Forall (fun q => exists zroot rest zk,
            warm_question u hints q zroot rest zk /\ plain_question u q /\ (length rest + 2 <= fuel)%nat) qs ->
  (Forall2 (fun q out => exists rrs, fst out = Ok (NonAuthoritative rrs (aa_soa (auth_answer u q)))
                                     /\ same_data rrs (aa_rrs (auth_answer u q)))
           qs (fst (resolve_seq scache sc_get sc_insert_all sort_names port (zones_insert [] hz) (universe_oracle u []) fuel qs sc_empty))
   /\ cache_consistent u hints scache sc_get
        (snd (resolve_seq scache sc_get sc_insert_all sort_names port (zones_insert [] hz) (universe_oracle u []) fuel qs sc_empty)))
  /\ forall now,
     (Forall2 (fun q out => exists rrs, fst out = Ok (NonAuthoritative rrs (aa_soa (auth_answer u q)))
                                        /\ same_data rrs (aa_rrs (auth_answer u q)))
              qs (fst (resolve_seq rcache (rc_get now) (rc_insert_all now) sort_names port (zones_insert [] hz) (universe_oracle u []) fuel qs rc_new))
      /\ cache_consistent u hints rcache (rc_get now)
           (snd (resolve_seq rcache (rc_get now) (rc_insert_all now) sort_names port (zones_insert [] hz) (universe_oracle u []) fuel qs rc_new))).
Proof.
  intros sort_names port u hints hz fuel qs Hs Hu Hb Hqs. split.
  - exact (sequence_correct scache sc_get sc_insert_all sc_cache_laws sort_names Hs port u Hu hints hz Hb fuel qs sc_empty
             Hqs (sc_empty_consistent u hints)).
  - intro now.
    exact (sequence_correct rcache (rc_get now) (rc_insert_all now) (rc_cache_laws now) sort_names Hs port u Hu hints hz Hb fuel qs rc_new
             Hqs (rc_new_consistent now u hints)).
Qed.
Print Assumptions C07_sequence.

(* the same from ANY consistent cache, with each question's outcome relative to the cache it starts
   in (warm_outcome: from the cache, or over the network from the deepest cached zone of its chain) *)
Theorem C07_sequence_outcomes :
  forall (sort_names : list dname -> list dname) (port : N) (u : universe) (hints : list rr) (hz : zone)
         (fuel : nat) (qs : list question) (c : scache),
  (forall l, Permutation (sort_names l) l) ->
  universe_ns_ok u ->
  zone_build root_domain None (hint_ops hints) = Ok hz ->
  Forall (seq_question u hints fuel) qs -> cache_consistent u hints scache sc_get c ->
  seq_outcomes scache sc_get sc_insert_all sort_names port u hints hz fuel qs c
  /\ cache_consistent u hints scache sc_get
       (snd (resolve_seq scache sc_get sc_insert_all sort_names port (zones_insert [] hz) (universe_oracle u []) fuel qs c)).
Proof.
  intros sort_names port u hints hz fuel qs c Hs Hu Hb Hqs Hc.
  exact (sequence_outcomes scache sc_get sc_insert_all sc_cache_laws sort_names Hs port u Hu hints hz Hb fuel qs c Hqs Hc).
Qed.
Print Assumptions C07_sequence_outcomes.

(* ---- satisfiable: on the worked universe the sequence www.sub.example.com. A, MX, A from the empty
   SimpleCache; evaluated by vm_compute the three logs are 10.0.0.1..4, then 10.0.0.4 alone, then
   nothing ---- *)
Example C07_example_sequence :
  (Forall2 (fun q out => answer_is_auth c4_universe q (fst out)) c4_seq
           (fst (resolve_seq scache sc_get sc_insert_all sort_names_ord 53 (zones_insert [] c3_hz)
                             (universe_oracle c4_universe []) 5%nat c4_seq sc_empty))
   /\ cache_consistent c4_universe c3_hints scache sc_get
        (snd (resolve_seq scache sc_get sc_insert_all sort_names_ord 53 (zones_insert [] c3_hz)
                          (universe_oracle c4_universe []) 5%nat c4_seq sc_empty)))
  /\ (map fst (fst (resolve_seq scache sc_get sc_insert_all sort_names_ord 53 (zones_insert [] c3_hz)
                                (universe_oracle c4_universe []) 5%nat c4_seq sc_empty))
      = [Ok (NonAuthoritative [c3_rr c3_n_www RT_A 300 (RD_A 3221225985)] None);
         Ok (NonAuthoritative [] (Some (uz_soa c4_sub)));
         Ok (NonAuthoritative [c3_rr c3_n_www RT_A 300 (RD_A 3221225985)] None)]
      /\ map (fun out => map x_addr (snd out))
             (fst (resolve_seq scache sc_get sc_insert_all sort_names_ord 53 (zones_insert [] c3_hz)
                               (universe_oracle c4_universe []) 5%nat c4_seq sc_empty))
         = [[(inl c3_ip0, 53); (inl c3_ip1, 53); (inl c3_ip2, 53); (inl c3_ip3, 53)]; [(inl c3_ip3, 53)]; []]).
Proof. exact (conj sequence_example sequence_example_eval). Qed.
Print Assumptions C07_example_sequence.

(* ====================================================================== *)
(* ALIASES: CNAME chains crossing zones                                     *)
(* ====================================================================== *)
From RV Require Import Resolver.RecursiveAlias.

(* For EVERY universe [u] as above, every question (n, t, cl) -- t a record type proper other than
   NS and CNAME -- whose authoritative answer is a chain of k >= 0 aliases
       n = n0 -CNAME-> n1 -CNAME-> ... -CNAME-> nk = f
   followed by the final RRset at f or NODATA / NXDOMAIN there ([alias_path u hints t cl fuel0 n cs f],
   cs = the k CNAME records in order; k = 0 is the plain question of C07_correct_warm), every cache
   consistent with u (the empty one, or one left by earlier questions), fuel >= fuel0:

     auth_answer u (n, t)  =  cs ++ (records of auth_answer u (f, t)),  with the SOA of auth_answer u (f, t);
     resolve returns  Ok (NonAuthoritative (xs ++ fr) that SOA)  where xs are the chain's records IN
     ORDER -- each with the owner, type and data of the corresponding record of cs (its TTL is the
     server's, or the cache's when the link was cached) -- and fr has exactly the data of the final
     RRset (identical to it when it came over the network; none for NODATA / NXDOMAIN);
     the cache at the end is consistent again.

   The resolver gets there by: the alias followed inside resolve_local as far as the cache holds the
   chain; otherwise the walk down the delegation chain of the name to a server of the zone owning it,
   whose reply holds the chain as far as that server's zones go (Universe.serve; several links when
   consecutive names lie in its zones) and the final RRset if it has it -- the reply filter keeps
   exactly those (RecursiveAlias.validate_alias) -- then, when the reply ended inside the chain
   (NRCname), resolve_combined_recursive: the nested resolve_recursive_notimeout on the next name
   with the alias question on the stack, on the cache warmed so far (induction on the chain with the
   warm-cache theorem generalised to a non-empty question stack).

   alias_path u hints t cl fuel0 n cs f  (decidable on the universe, the hints and the question):
     for the final name f:  warm_question and plain_question of (f, t, cl)  (as for C07_correct_warm);
     for each alias name ni with its record ci -> n(i+1):
       walk_question (ni, t, cl) zroot rest zk: the name's own delegation chain zroot > .. > zk with
         the hypotheses of C07_correct_warm that concern the walk (glue-complete links, nameserver
         hosts leading to the right servers, no alias strictly above the name, NS owners on the way
         are the chain's apexes, the name is not a nameserver host);
       alias_at ni zk ci n(i+1): zk owns ni (longest apex, no cut on the way) and holds ci there; ci is
         the ONLY record of the universe (cuts, glue, data of any zone) owned by ni; TTL > 0; known class;
       plain_question (ni, t, cl): well formed; request and the servers' replies fit 512 octets;
     fuel0 = the sum over the names of (length of its delegation chain + 2).
   Further hypotheses: the names n0..nk are pairwise distinct (no cycle); k + 1 < 32 (RECURSION_LIMIT);
   [servers_ok]: every server of the universe that has a zone enclosing a name of the chain with no
   delegation point of that zone on the way has, as that zone, the zone of the universe that owns the
   name (true of every tree of zones whose servers hold whole zones). *)
Theorem C07_correct_alias :
  forall (sort_names : list dname -> list dname) (port : N) (u : universe) (hints : list rr) (hz : zone)
         (t cl : N) (fuel0 : nat) (n : dname) (cs : list rr) (f : dname) (c : scache) (fuel : nat),
  (forall l, Permutation (sort_names l) l) ->
  universe_ns_ok u ->
  zone_build root_domain None (hint_ops hints) = Ok hz ->
  concrete t -> t <> RT_CNAME -> t <> RT_NS ->
  alias_path u hints t cl fuel0 n cs f -> NoDup (n :: ctargets cs) -> servers_ok u (n :: ctargets cs) ->
  (length cs + 1 < 32)%nat ->
  cache_consistent u hints scache sc_get c -> (fuel0 <= fuel)%nat ->
  aa_rrs (auth_answer u (mkq n t cl)) = cs ++ aa_rrs (auth_answer u (mkq f t cl))
  /\ aa_soa (auth_answer u (mkq n t cl)) = aa_soa (auth_answer u (mkq f t cl))
  /\ exists xs fr c' ts',
       resolve scache sc_get sc_insert_all sort_names (ModeRecursive OnlyV4) port (zones_insert [] hz)
               (universe_oracle u []) fuel (mkq n t cl) (c, tstate_init)
       = (Ok (NonAuthoritative (xs ++ fr) (aa_soa (auth_answer u (mkq n t cl)))), (c', ts'))
       /\ Forall2 (fun x r => rr_name x = rr_name r /\ rr_type x = rr_type r /\ rr_data x = rr_data r) xs cs
       /\ same_data fr (aa_rrs (auth_answer u (mkq f t cl)))
       /\ cache_consistent u hints scache sc_get c'.
Proof.
  intros sort_names port u hints hz t cl fuel0 n cs f c fuel Hs Hu Hb Hc Hcn Hns Hp Hnd Hsrv Hlen HC Hf.
  exact (alias_correct sort_names Hs port u hints hz t cl fuel0 n cs f c fuel Hu Hb Hc Hcn Hns Hp Hnd Hsrv Hlen HC Hf).
Qed.
Print Assumptions C07_correct_alias.

(* the same for the real cache model at any fixed instant *)
Theorem C07_correct_alias_real_cache :
  forall (now : N) (sort_names : list dname -> list dname) (port : N) (u : universe) (hints : list rr) (hz : zone)
         (t cl : N) (fuel0 : nat) (n : dname) (cs : list rr) (f : dname) (c : rcache) (fuel : nat),
  (forall l, Permutation (sort_names l) l) ->
  universe_ns_ok u ->
  zone_build root_domain None (hint_ops hints) = Ok hz ->
  concrete t -> t <> RT_CNAME -> t <> RT_NS ->
  alias_path u hints t cl fuel0 n cs f -> NoDup (n :: ctargets cs) -> servers_ok u (n :: ctargets cs) ->
  (length cs + 1 < 32)%nat ->
  cache_consistent u hints rcache (rc_get now) c -> (fuel0 <= fuel)%nat ->
  alias_outcome rcache (rc_get now) u hints t cl n cs f c
    (resolve rcache (rc_get now) (rc_insert_all now) sort_names (ModeRecursive OnlyV4) port (zones_insert [] hz)
             (universe_oracle u []) fuel (mkq n t cl) (c, tstate_init)).
Proof.
  intros now sort_names port u hints hz t cl fuel0 n cs f c fuel Hs Hu Hb.
  exact (alias_correct_abstract rcache (rc_get now) (rc_insert_all now) (rc_cache_laws now) sort_names Hs port u Hu hints hz Hb
           t cl fuel0 n cs f c fuel).
Qed.
Print Assumptions C07_correct_alias_real_cache.

(* the reply filter on an alias answer, for EVERY question and reply: a non-empty run of CNAME records
   from the question name (known classes, pairwise distinct names) followed by records of the asked
   type owned by the chain's end (or by nothing) is kept exactly, in order: NRAnswer (chain ++ finals)
   when there are final records, NRCname chain end otherwise *)
Theorem C07_filter_accepts_alias_answer :
  forall q cs fin f aa rcode au ad mc,
  concrete (q_type q) -> q_type q <> RT_CNAME -> cs <> [] ->
  cchain (q_name q) cs f -> NoDup (q_name q :: ctargets cs) ->
  Forall (fun r => rr_is_unknown r = false) (cs ++ fin) ->
  Forall (fun r => rr_name r = f /\ rr_type r = q_type q) fin ->
  validate_nameserver_response q (msg q aa rcode (cs ++ fin) au ad) mc
  = Ok (Some (if is_nil fin then NRCname cs f else NRAnswer (cs ++ fin) None)).
Proof.
  intros q cs fin f aa rcode au ad mc H1 H2 H3 H4 H5 H6 H7.
  exact (validate_alias q H1 H2 cs fin f H3 H4 H5 H6 H7 aa rcode au ad mc).
Qed.
Print Assumptions C07_filter_accepts_alias_answer.

(* sequences mixing alias and plain questions on one cache started empty: every question returns
   its authoritative answer (chain part in order, then exactly the data of the final RRset; the SOA
   exactly), and the cache at the end is consistent *)
Theorem C07_alias_sequence :
  forall (sort_names : list dname -> list dname) (port : N) (u : universe) (hints : list rr) (hz : zone)
         (fuel : nat) (qs : list question),
  (forall l, Permutation (sort_names l) l) ->
  universe_ns_ok u ->
  zone_build root_domain None (hint_ops hints) = Ok hz ->
  Forall (alias_question u hints fuel) qs ->
  Forall2 (fun q out => answer_is_auth_chain u q (fst out)) qs
          (fst (resolve_seq scache sc_get sc_insert_all sort_names port (zones_insert [] hz) (universe_oracle u []) fuel qs sc_empty))
  /\ cache_consistent u hints scache sc_get
       (snd (resolve_seq scache sc_get sc_insert_all sort_names port (zones_insert [] hz) (universe_oracle u []) fuel qs sc_empty)).
Proof.
  intros sort_names port u hints hz fuel qs Hs Hu Hb Hqs.
  exact (alias_sequence_correct scache sc_get sc_insert_all sc_cache_laws sort_names Hs port u Hu hints hz Hb fuel qs sc_empty
           Hqs (sc_empty_consistent u hints)).
Qed.
Print Assumptions C07_alias_sequence.

(* ---- the hypotheses are met by the worked universe: ext.com. A, whose answer is
   ext.com. CNAME alias.example.com. (held by com.), alias.example.com. CNAME www.sub.example.com. (held
   by example.com.), www.sub.example.com. A (held by sub.example.com.): from the empty cache and from
   the cache left by www.sub.example.com. A; evaluated by vm_compute from the empty cache: the three
   records in that order after six exchanges (10.0.0.1, .2 for ext.com.; .2, .3 for
   alias.example.com.; .3, .4 for www.sub.example.com.), equal to auth_answer; asked again, the same
   answer from the cache with no exchange ---- *)
Example C07_example_alias :
  (alias_outcome scache sc_get c4_universe c3_hints RT_A RC_IN c4_n_ext [c4_cn_ext; c4_cn_alias] c3_n_www sc_empty
     (resolve scache sc_get sc_insert_all sort_names_ord (ModeRecursive OnlyV4) 53 (zones_insert [] c3_hz)
              (universe_oracle c4_universe []) 12%nat c4_q_ext (sc_empty, tstate_init))
   /\ alias_outcome scache sc_get c4_universe c3_hints RT_A RC_IN c4_n_ext [c4_cn_ext; c4_cn_alias] c3_n_www c4_cache1
        (resolve scache sc_get sc_insert_all sort_names_ord (ModeRecursive OnlyV4) 53 (zones_insert [] c3_hz)
                 (universe_oracle c4_universe []) 12%nat c4_q_ext (c4_cache1, tstate_init)))
  /\ (let r := resolve scache sc_get sc_insert_all sort_names_ord (ModeRecursive OnlyV4) 53 (zones_insert [] c3_hz)
                       (universe_oracle c4_universe []) 12%nat c4_q_ext (sc_empty, tstate_init) in
      let r' := resolve scache sc_get sc_insert_all sort_names_ord (ModeRecursive OnlyV4) 53 (zones_insert [] c3_hz)
                        (universe_oracle c4_universe []) 12%nat c4_q_ext (fst (snd r), tstate_init) in
      fst r = Ok (NonAuthoritative [c4_cn_ext; c4_cn_alias; c3_rr c3_n_www RT_A 300 (RD_A 3221225985)] None)
      /\ map x_addr (ts_log (snd (snd r)))
         = [(inl c3_ip0, 53); (inl c3_ip1, 53); (inl c3_ip1, 53); (inl c3_ip2, 53); (inl c3_ip2, 53); (inl c3_ip3, 53)]
      /\ aa_rrs (auth_answer c4_universe c4_q_ext) = [c4_cn_ext; c4_cn_alias; c3_rr c3_n_www RT_A 300 (RD_A 3221225985)]
      /\ fst r' = fst r /\ ts_log (snd (snd r')) = []).
Proof. exact (conj alias_example alias_example_eval). Qed.
Print Assumptions C07_example_alias.

(* C07_correct_partial -- where the whole statement stands after the theorems above.
   PROVED end to end (model of the resolver against Universe.serve through the wire codec, fault-free
   universe oracle, only-v4, root hints as the only local zone, SimpleCache and the real cache model):
     any depth (C07_correct_chain), any cache consistent with the universe (C07_correct_warm), any
     sequence of questions on one cache (C07_sequence, C07_alias_sequence), alias chains crossing zones
     (C07_correct_alias) -- for questions of a record type other than NS / CNAME / ANY whose names are
     reached by glue-complete delegation chains and are not themselves nameserver hosts.
   STILL MISSING for "every consistent universe, every question, every mode" (covered by the differential
   stream of vlib/p_c07.py only):
     (1) nameserver hosts without a usable A record in the referral or the cache: the slow candidate
         pass resolves the host by a nested resolve_recursive_notimeout (needs: the induction of
         RecursiveAlias.alias_resolve applied to the host question with the question on the stack, and
         a well-founded measure over the "needs the address of" relation between zones);
     (2) the modes prefer-v4 / prefer-v6 / only-v6 (resolve_hostname_to_ip tries two record types;
         cand_ok and the cache invariant are stated for A records only);
     (3) servers authoritative for several zones of ONE delegation chain (serve answers from the
         deepest of them: a hop of the chain is skipped; wlink asks that the server's closest zone for
         the name is the child);
     (4) faults (dropped, truncated, wrong-id replies: query_nameserver's TCP retry and the DeadEnd on
         the first candidate without a usable reply);
     (5) from a WARM cache: questions for NS and questions about a nameserver host (the glue shortcut,
         finding F11; cache completeness is not claimed at nameserver hosts);
     (6) the per-question hypotheses (warm_question, alias_path) derived from one decidable
         well-formedness predicate on universes (consistentb + tree shape), instead of being stated
         question by question. *)

(* ====================================================================== *)
(* ALL FOUR PROTOCOL MODES (lemmas: Resolver/RecursiveModes.v)              *)
(* ====================================================================== *)
From RV Require Import Resolver.RecursiveModes.

(* C07_correct_warm / C07_correct_chain for EVERY protocol mode [mode] (only-v4, prefer-v4, prefer-v6,
   only-v6).  resolve_hostname_to_ip asks for the record types of [rtypes_of_mode mode] in order; the
   first type for which the fast pass finds an address of the nameserver host -- a root hint or a
   cached RRset -- wins (C18_hostname_loop_order).  Accordingly:

     hint_okm                     root hints are NS records of the root, A records or AAAA records;
     mode_usable mode t           t is one of the types of the mode;
     consistentm u hints mode G   cache_consistent with the closed clause for the mode: every host named
                                  by a cached NS record has a well-formed name and, for SOME type of the
                                  mode, a hint or a non-empty cached RRset (here G = nobody: no host is
                                  excused; for only-v4 this is cache_consistent: C07_consistentm_only_v4);
     warm_questionm u hints mode false G q zroot [z1..zk] zk
        warm_question with, for each link z(i-1) > zi:  every nameserver host of the cut has glue OF A
        FAMILY THE MODE CAN USE (an A or AAAA record of a type of the mode, TTL > 0, in z(i-1)'s glue or
        data);  [hosts_okm zi]: every host that any NS record of the universe owned by zi's apex names has
        a well-formed name, owns no CNAME in the universe, and EVERY address record -- A or AAAA, in the
        universe or in the hints -- for it holds an address of its type that is the address of a server
        whose closest zone for the question name is zi (whichever family is found first is used);
        the same for the root zone, whose hint nameservers are nameservers the universe lists for the
        root and have a hint of a family the mode can use;  the question name is not a nameserver host.

   Then, from any cache consistent for the mode, with fuel >= k + 2, [resolve] returns the
   authoritative answer and leaves a consistent cache: from the cache (the cached RRset, same data), or
   over the network: exactly auth_answer, the log one UDP exchange about q per zone of a non-empty
   suffix [used] of the chain, each with a server (v4 or v6 address: [query_toi]) whose closest zone
   for the name is that zone; the suffix is the whole chain, or begins at a zone whose NS set was cached. *)
Theorem C07_correct_modes :
  forall (sort_names : list dname -> list dname) (port : N) (u : universe) (hints : list rr) (hz : zone)
         (mode : protocol_mode) (q : question) (zroot : uzone) (rest : list uzone) (zk : uzone) (c : scache) (fuel : nat),
  (forall l, Permutation (sort_names l) l) ->
  universe_ns_ok u ->
  zone_build root_domain None (hint_ops hints) = Ok hz ->
  warm_questionm u hints mode false (fun _ => False) q zroot rest zk -> plain_question u q ->
  consistentm u hints mode (fun _ => False) scache sc_get c -> (length rest + 2 <= fuel)%nat ->
  exists rrs c' ts',
    resolve scache sc_get sc_insert_all sort_names (ModeRecursive mode) port (zones_insert [] hz)
            (universe_oracle u []) fuel q (c, tstate_init)
    = (Ok (NonAuthoritative rrs (aa_soa (auth_answer u q))), (c', ts'))
    /\ consistentm u hints mode (fun _ => False) scache sc_get c'
    /\ ((ts_log ts' = [] /\ c' = c /\ rrs = sc_get c (q_name q) (q_type q) /\ rrs <> []
         /\ same_data rrs (aa_rrs (auth_answer u q)))
        \/ (rrs = aa_rrs (auth_answer u q) /\ sc_get c (q_name q) (q_type q) = []
            /\ exists pre used, zroot :: rest = pre ++ used /\ used <> []
                 /\ (pre = [] \/ exists zi used', used = zi :: used' /\ sc_get c (uz_apex zi) RT_NS <> [])
                 /\ Forall2 (fun z e => exists a, query_toi port q a e /\ serves_owner u a z q) used (ts_log ts'))).
Proof.
  intros sort_names port u hints hz mode q zroot rest zk c fuel Hs Hu Hb Hw Hq Hc Hf.
  exact (outcomem_strict _ _ _ _ _ _ _ _ _ _ _ _
           (modes_correct sort_names Hs port u hints hz mode false q zroot rest zk c fuel Hu Hb Hw Hq Hc Hf)).
Qed.
Print Assumptions C07_correct_modes.

(* the same for the real cache model (Cache/CacheModel.v under its invariant) at any fixed instant *)
Theorem C07_correct_modes_real_cache :
  forall (now : N) (sort_names : list dname -> list dname) (port : N) (u : universe) (hints : list rr) (hz : zone)
         (mode : protocol_mode) (q : question) (zroot : uzone) (rest : list uzone) (zk : uzone) (c : rcache) (fuel : nat),
  (forall l, Permutation (sort_names l) l) ->
  universe_ns_ok u ->
  zone_build root_domain None (hint_ops hints) = Ok hz ->
  warm_questionm u hints mode false (fun _ => False) q zroot rest zk -> plain_question u q ->
  consistentm u hints mode (fun _ => False) rcache (rc_get now) c -> (length rest + 2 <= fuel)%nat ->
  exists rrs c' ts',
    resolve rcache (rc_get now) (rc_insert_all now) sort_names (ModeRecursive mode) port (zones_insert [] hz)
            (universe_oracle u []) fuel q (c, tstate_init)
    = (Ok (NonAuthoritative rrs (aa_soa (auth_answer u q))), (c', ts'))
    /\ consistentm u hints mode (fun _ => False) rcache (rc_get now) c'
    /\ ((ts_log ts' = [] /\ c' = c /\ rrs = rc_get now c (q_name q) (q_type q) /\ rrs <> []
         /\ same_data rrs (aa_rrs (auth_answer u q)))
        \/ (rrs = aa_rrs (auth_answer u q) /\ rc_get now c (q_name q) (q_type q) = []
            /\ exists pre used, zroot :: rest = pre ++ used /\ used <> []
                 /\ (pre = [] \/ exists zi used', used = zi :: used' /\ rc_get now c (uz_apex zi) RT_NS <> [])
                 /\ Forall2 (fun z e => exists a, query_toi port q a e /\ serves_owner u a z q) used (ts_log ts'))).
Proof.
  intros now sort_names port u hints hz mode q zroot rest zk c fuel Hs Hu Hb Hw Hq Hc Hf.
  exact (outcomem_strict _ _ _ _ _ _ _ _ _ _ _ _
           (modes_correct_real_cache now sort_names Hs port u hints hz mode false q zroot rest zk c fuel Hu Hb Hw Hq Hc Hf)).
Qed.
Print Assumptions C07_correct_modes_real_cache.

(* C07_correct_chain for every mode: from the EMPTY cache (SimpleCache; Cache::new at any instant) the
   log is one exchange per zone of the WHOLE chain, root server first *)
Theorem C07_correct_chain_modes :
  forall (sort_names : list dname -> list dname) (port : N) (u : universe) (hints : list rr) (hz : zone)
         (mode : protocol_mode) (q : question) (zroot : uzone) (rest : list uzone) (zk : uzone) (fuel : nat),
  (forall l, Permutation (sort_names l) l) ->
  universe_ns_ok u ->
  zone_build root_domain None (hint_ops hints) = Ok hz ->
  warm_questionm u hints mode false (fun _ => False) q zroot rest zk -> plain_question u q ->
  (length rest + 2 <= fuel)%nat ->
  (exists c' ts',
     resolve scache sc_get sc_insert_all sort_names (ModeRecursive mode) port (zones_insert [] hz)
             (universe_oracle u []) fuel q (sc_empty, tstate_init)
     = (Ok (NonAuthoritative (aa_rrs (auth_answer u q)) (aa_soa (auth_answer u q))), (c', ts'))
     /\ Forall2 (fun z e => exists a, query_toi port q a e /\ serves_owner u a z q) (zroot :: rest) (ts_log ts')
     /\ consistentm u hints mode (fun _ => False) scache sc_get c')
  /\ forall now, exists c' ts',
     resolve rcache (rc_get now) (rc_insert_all now) sort_names (ModeRecursive mode) port (zones_insert [] hz)
             (universe_oracle u []) fuel q (rc_new, tstate_init)
     = (Ok (NonAuthoritative (aa_rrs (auth_answer u q)) (aa_soa (auth_answer u q))), (c', ts'))
     /\ Forall2 (fun z e => exists a, query_toi port q a e /\ serves_owner u a z q) (zroot :: rest) (ts_log ts')
     /\ consistentm u hints mode (fun _ => False) rcache (rc_get now) c'.
Proof.
  intros sort_names port u hints hz mode q zroot rest zk fuel Hs Hu Hb Hw Hq Hf. split.
  - exact (modes_chain_abstract scache sc_get sc_insert_all sc_cache_laws sort_names Hs port u Hu hints hz Hb mode q zroot rest zk
             sc_empty fuel sc_empty_get Hw Hq Hf).
  - intro now.
    exact (modes_chain_abstract rcache (rc_get now) (rc_insert_all now) (rc_cache_laws now) sort_names Hs port u Hu hints hz Hb mode
             q zroot rest zk rc_new fuel (rc_empty_get now) Hw Hq Hf).
Qed.
Print Assumptions C07_correct_chain_modes.

(* the consistency notion: the empty caches are consistent for every mode; for only-v4 it is
   cache_consistent of C07_correct_warm *)
Theorem C07_consistentm_only_v4 : forall u hints,
  (forall mode, consistentm u hints mode (fun _ => False) scache sc_get sc_empty
                /\ forall now, consistentm u hints mode (fun _ => False) rcache (rc_get now) rc_new)
  /\ (forall (c : scache), consistentm u hints OnlyV4 (fun _ => False) scache sc_get c <-> cache_consistent u hints scache sc_get c)
  /\ (forall now (c : rcache), consistentm u hints OnlyV4 (fun _ => False) rcache (rc_get now) c
                               <-> cache_consistent u hints rcache (rc_get now) c).
Proof.
  intros u hints. split; [|split].
  - intro mode. split; [apply emptym_consistent; exact sc_empty_get|intro now; apply emptym_consistent; exact (rc_empty_get now)].
  - intro c. apply consistentm_v4.
  - intros now c. apply consistentm_v4.
Qed.
Print Assumptions C07_consistentm_only_v4.

(* ---- the hypotheses are met by a worked universe (RecursiveModes.v, section 7): the depth-3 chain
   with v6 in it -- the root server a. at 10.0.0.1 and fd00::1 (hints: both), com. served by ns.com. at
   fd00::2 ONLY (a v6-only nameserver: AAAA glue), example.com. and sub.example.com. served at a v4 and a
   v6 address each (A and AAAA glue); consistent.  For EVERY mode that can use v6 (prefer-v4, prefer-v6,
   only-v6: exactly the modes other than only-v4) www.sub.example.com. A from the empty cache has the
   outcome of the theorem, the cache left is consistent for the mode, and MX asked from it too.
   Evaluated by vm_compute: prefer-v4 asks 10.0.0.1, fd00::2 (com. has no v4 address), 10.0.0.3,
   10.0.0.4; prefer-v6 and only-v6 ask fd00::1..4; MX from the cache of the prefer-v6 run is denied by
   fd00::4 alone. ---- *)
Example C07_example_modes :
  (forall mode, mode_usable mode RT_AAAA ->
     outcomem scache sc_get 53 m3_universe m3_hints mode false c3_q m3_root [m3_com; m3_ex; m3_sub] m3_sub sc_empty
       (resolve scache sc_get sc_insert_all sort_names_ord (ModeRecursive mode) 53 (zones_insert [] m3_hz)
                (universe_oracle m3_universe []) 5%nat c3_q (sc_empty, tstate_init))
     /\ (let c1 := fst (snd (resolve scache sc_get sc_insert_all sort_names_ord (ModeRecursive mode) 53 (zones_insert [] m3_hz)
                                     (universe_oracle m3_universe []) 5%nat c3_q (sc_empty, tstate_init))) in
         consistentm m3_universe m3_hints mode (fun _ => False) scache sc_get c1
         /\ outcomem scache sc_get 53 m3_universe m3_hints mode false c3_q_mx m3_root [m3_com; m3_ex; m3_sub] m3_sub c1
              (resolve scache sc_get sc_insert_all sort_names_ord (ModeRecursive mode) 53 (zones_insert [] m3_hz)
                       (universe_oracle m3_universe []) 5%nat c3_q_mx (c1, tstate_init))))
  /\ (let run mode q c := resolve scache sc_get sc_insert_all sort_names_ord (ModeRecursive mode) 53 (zones_insert [] m3_hz)
                                  (universe_oracle m3_universe []) 5%nat q (c, tstate_init) in
      let ans := Ok (NonAuthoritative [c3_rr c3_n_www RT_A 300 (RD_A 3221225985)] None) in
      let r4 := run PreferV4 c3_q sc_empty in
      let r6 := run PreferV6 c3_q sc_empty in
      let o6 := run OnlyV6 c3_q sc_empty in
      let w6 := run PreferV6 c3_q_mx (fst (snd r6)) in
      fst r4 = ans /\ map x_addr (ts_log (snd (snd r4))) = [(inl c3_ip0, 53); (inr (m3_v6 2), 53); (inl c3_ip2, 53); (inl c3_ip3, 53)]
      /\ fst r6 = ans /\ map x_addr (ts_log (snd (snd r6))) = [(inr (m3_v6 1), 53); (inr (m3_v6 2), 53); (inr (m3_v6 3), 53); (inr (m3_v6 4), 53)]
      /\ fst o6 = ans /\ map x_addr (ts_log (snd (snd o6))) = map x_addr (ts_log (snd (snd r6)))
      /\ fst w6 = Ok (NonAuthoritative [] (Some (uz_soa m3_sub))) /\ map x_addr (ts_log (snd (snd w6))) = [(inr (m3_v6 4), 53)]
      /\ consistentb m3_universe = true
      /\ (forall mode, mode_usable mode RT_AAAA <-> mode <> OnlyV4)).
Proof. exact (conj modes_example modes_example_eval). Qed.
Print Assumptions C07_example_modes.

(* ====================================================================== *)
(* GLUELESS NAMESERVERS: the slow pass (lemmas: Resolver/RecursiveGlueless.v) *)
(* ====================================================================== *)
From RV Require Import Resolver.RecursiveGlueless.

(* C07_correct_modes for delegation chains in which some cuts have nameserver hosts WITHOUT usable
   glue ("out-of-bailiwick nameserver names").  At such a cut every candidate is skipped by the fast
   pass (unless the cache happens to hold its address) and moved to next_candidate_hostnames; the slow
   pass pops the first of them, h, and resolve_hostname_to_ip calls resolve_recursive_notimeout on
   (h, A) (or AAAA, by the mode: the types of the mode in order until one returns records) with the
   question under way on the stack.  That nested resolution is the same theorem for the question about
   h -- a walk down h's own delegation chain from the root hints or the warm cache, whose cuts may
   again be glueless --; its first address record is the address of a server of the child zone; the
   query proceeds there.  The nested resolutions warm the cache, which stays consistent.

   The glueless hosts are given by a PLAN: [planned h] says h is one; [plan h] = (the zones of h's
   delegation chain below the root, the zone owning h); [hrank h] is a rank.  [plan_ok h] (decidable on
   the universe, the hints, the plan; [serve_fits] inside plain_question aside) asks, for every planned h:
     - for every record type t of the mode, the question (h, t) has the walk hypotheses of
       C07_correct_modes along [plan h] (links with usable glue OR planned hosts), the last zone owns h
       plainly (answering_zone), requests and replies fit 512 octets;
     - the zone owning h holds an address record of h of SOME type of the mode; its records of h are
       of class IN; the universe has no CNAME at h;
     - WELL-FOUNDEDNESS: every nameserver host -- with glue or without -- of every zone on h's chain
       has a rank strictly below h's: the resolution of h never needs h, nor a name whose resolution
       is under way (the resolver would meet DuplicateQuestion and end in DeadEnd);
     - hrank h < 30: the stack of questions under way is limited to 32 (RECURSION_LIMIT).
   In [warm_questionm .. planned ..] and [consistentm .. planned ..] a host of a cut (of a cached NS
   set) must have usable glue (be ready) OR be planned.

   Then, from any cache consistent in that sense, for all sufficient fuel (the model's fuel bounds the
   nesting of calls; more fuel never changes a finished computation: C07_fuel_monotone), [resolve]
   returns the authoritative answer and leaves a consistent cache: from the cache (same data), or over
   the network: exactly auth_answer; the log ([glog]) is the exchanges about q, in order one per zone
   of [used] -- a subsequence of the chain ending with the owning zone zk -- each with a server whose
   closest zone for the name is that zone, INTERLEAVED with the exchanges of the nested resolutions,
   which are all about nameserver host names. *)
Theorem C07_correct_glueless :
  forall (sort_names : list dname -> list dname) (port : N) (u : universe) (hints : list rr) (hz : zone)
         (mode : protocol_mode) (zroot : uzone)
         (planned : dname -> Prop) (plan : dname -> list uzone * uzone) (hrank : dname -> nat)
         (q : question) (rest : list uzone) (zk : uzone) (c : scache),
  (forall l, Permutation (sort_names l) l) ->
  universe_ns_ok u ->
  zone_build root_domain None (hint_ops hints) = Ok hz ->
  (forall h, planned h -> plan_ok u hints mode false zroot planned plan hrank h) ->
  warm_questionm u hints mode false planned q zroot rest zk -> plain_question u q ->
  consistentm u hints mode planned scache sc_get c ->
  exists F, forall fuel, (F <= fuel)%nat ->
    exists rrs c' ts',
      resolve scache sc_get sc_insert_all sort_names (ModeRecursive mode) port (zones_insert [] hz)
              (universe_oracle u []) fuel q (c, tstate_init)
      = (Ok (NonAuthoritative rrs (aa_soa (auth_answer u q))), (c', ts'))
      /\ consistentm u hints mode planned scache sc_get c'
      /\ ((ts_log ts' = [] /\ c' = c /\ rrs = sc_get c (q_name q) (q_type q) /\ rrs <> []
           /\ same_data rrs (aa_rrs (auth_answer u q)))
          \/ (rrs = aa_rrs (auth_answer u q) /\ sc_get c (q_name q) (q_type q) = []
              /\ exists used, subseq used (zroot :: rest) /\ (exists used0, used = used0 ++ [zk])
                   /\ glog u port q used (ts_log ts'))).
Proof.
  intros sort_names port u hints hz mode zroot planned plan hrank q rest zk c Hs Hu Hb Hp Hw Hq Hc.
  exact (glueless_correct sort_names Hs port u hints hz mode false zroot planned plan hrank q rest zk c Hu Hb Hp Hw Hq Hc).
Qed.
Print Assumptions C07_correct_glueless.

(* the same for the real cache model at any fixed instant *)
Theorem C07_correct_glueless_real_cache :
  forall (now : N) (sort_names : list dname -> list dname) (port : N) (u : universe) (hints : list rr) (hz : zone)
         (mode : protocol_mode) (zroot : uzone)
         (planned : dname -> Prop) (plan : dname -> list uzone * uzone) (hrank : dname -> nat)
         (q : question) (rest : list uzone) (zk : uzone) (c : rcache),
  (forall l, Permutation (sort_names l) l) ->
  universe_ns_ok u ->
  zone_build root_domain None (hint_ops hints) = Ok hz ->
  (forall h, planned h -> plan_ok u hints mode false zroot planned plan hrank h) ->
  warm_questionm u hints mode false planned q zroot rest zk -> plain_question u q ->
  consistentm u hints mode planned rcache (rc_get now) c ->
  exists F, forall fuel, (F <= fuel)%nat ->
    exists rrs c' ts',
      resolve rcache (rc_get now) (rc_insert_all now) sort_names (ModeRecursive mode) port (zones_insert [] hz)
              (universe_oracle u []) fuel q (c, tstate_init)
      = (Ok (NonAuthoritative rrs (aa_soa (auth_answer u q))), (c', ts'))
      /\ consistentm u hints mode planned rcache (rc_get now) c'
      /\ ((ts_log ts' = [] /\ c' = c /\ rrs = rc_get now c (q_name q) (q_type q) /\ rrs <> []
           /\ same_data rrs (aa_rrs (auth_answer u q)))
          \/ (rrs = aa_rrs (auth_answer u q) /\ rc_get now c (q_name q) (q_type q) = []
              /\ exists used, subseq used (zroot :: rest) /\ (exists used0, used = used0 ++ [zk])
                   /\ glog u port q used (ts_log ts'))).
Proof.
  intros now sort_names port u hints hz mode zroot planned plan hrank q rest zk c Hs Hu Hb Hp Hw Hq Hc.
  exact (glueless_correct_real_cache now sort_names Hs port u hints hz mode false zroot planned plan hrank q rest zk c Hu Hb Hp Hw Hq Hc).
Qed.
Print Assumptions C07_correct_glueless_real_cache.

(* the model's fuel: a computation of resolve_recursive_notimeout (of the candidate loop) that
   finished with a value finishes with the same value and state on any larger fuel -- for every cache,
   oracle, mode, stack and question *)
Theorem C07_fuel_monotone :
  forall (cache : Type) (cache_get : cache -> dname -> N -> list rr) (cache_insert_all : cache -> list rr -> cache)
         (sort_names : list dname -> list dname) (zs : zones) (o : oracle) (pmode : protocol_mode) (port : N)
         (f f' : nat) (stack : list question) (q : question) (st : rstate cache) (v : rres) (st' : rstate cache),
  (f <= f')%nat ->
  resolve_recursive_notimeout cache cache_get cache_insert_all sort_names zs o pmode port f stack q st = (Val v, st') ->
  resolve_recursive_notimeout cache cache_get cache_insert_all sort_names zs o pmode port f' stack q st = (Val v, st').
Proof. exact rrn_fuel_mono. Qed.
Print Assumptions C07_fuel_monotone.

(* ---- the hypotheses are met by a worked universe (RecursiveGlueless.v, section 6): the depth-3 chain
   . -> com. -> example.com. -> sub.example.com. extended by hosted.com., delegated from com. to
   ns.hoster.net. WITHOUT glue, and by the branch . -> net. -> hoster.net. (glue-complete: ns.net.,
   ns1.hoster.net.) whose zone hoster.net. holds ns.hoster.net. A 10.0.0.8, the server of hosted.com.;
   consistent.  Plan: ns.hoster.net. is the one planned host, chain [net.; hoster.net.], rank 1, every
   other name rank 0.  www.hosted.com. A from the empty cache, only-v4: the theorem's outcome for all
   sufficient fuel; evaluated by vm_compute with fuel 20: the root and com. are asked about
   www.hosted.com.; the nested resolution asks the root, net. (10.0.0.6) and hoster.net. (10.0.0.7)
   about ns.hoster.net. A; then 10.0.0.8 answers www.hosted.com.; asked again: from the cache. ---- *)
Example C07_example_glueless :
  (exists F, forall fuel, (F <= fuel)%nat ->
     outcomeg scache sc_get 53 g_universe c3_hints OnlyV4 g_root g_planned g_q [g_com; g_hosted] g_hosted sc_empty
       (resolve scache sc_get sc_insert_all sort_names_ord (ModeRecursive OnlyV4) 53 (zones_insert [] c3_hz)
                (universe_oracle g_universe []) fuel g_q (sc_empty, tstate_init)))
  /\ (forall h, g_planned h -> plan_ok g_universe c3_hints OnlyV4 false g_root g_planned g_plan g_rank h)
  /\ (let r := resolve scache sc_get sc_insert_all sort_names_ord (ModeRecursive OnlyV4) 53 (zones_insert [] c3_hz)
                       (universe_oracle g_universe []) 20%nat g_q (sc_empty, tstate_init) in
      let r' := resolve scache sc_get sc_insert_all sort_names_ord (ModeRecursive OnlyV4) 53 (zones_insert [] c3_hz)
                        (universe_oracle g_universe []) 20%nat g_q (fst (snd r), tstate_init) in
      fst r = Ok (NonAuthoritative [c3_rr g_n_www_hosted RT_A 300 (RD_A 3221225991)] None)
      /\ map (fun e => (x_addr e, x_question e)) (ts_log (snd (snd r)))
         = [((inl c3_ip0, 53), g_q); ((inl c3_ip1, 53), g_q);
            ((inl c3_ip0, 53), g_qh); ((inl g_ip5, 53), g_qh); ((inl g_ip6, 53), g_qh);
            ((inl g_ip7, 53), g_q)]
      /\ fst r' = fst r /\ ts_log (snd (snd r')) = []
      /\ consistentb g_universe = true).
Proof. exact (conj glueless_example (conj g_plan_ok glueless_example_eval)). Qed.
Print Assumptions C07_example_glueless.

(* ====================================================================== *)
(* SERVERS AUTHORITATIVE FOR SEVERAL ZONES OF ONE CHAIN                     *)
(* (lemmas: Resolver/RecursiveMultiZone.v; the inductions of RecursiveModes.v *)
(* and RecursiveGlueless.v carry the flag [multi])                          *)
(* ====================================================================== *)
From RV Require Import Resolver.RecursiveMultiZone.

(* With [multi = true] the address clause of [warm_questionm] is WEAKENED ([lands]): every address
   record of a nameserver host of the zone zi of the chain leads to a server whose closest zone for
   the question name is zi OR A ZONE OF THE CHAIN BELOW zi (Universe.serve answers from the closest
   zone the server holds).  The hops in between are skipped.  The result is unchanged -- the
   authoritative answer, a consistent cache --; the log is one exchange about q per zone of [used],
   a SUBSEQUENCE of the chain that ends with the owning zone zk (at most as long as the chain:
   C07_multizone_log_shorter), each with a server whose closest zone for the name is that zone. *)
Theorem C07_correct_multizone :
  forall (sort_names : list dname -> list dname) (port : N) (u : universe) (hints : list rr) (hz : zone)
         (mode : protocol_mode) (q : question) (zroot : uzone) (rest : list uzone) (zk : uzone) (c : scache) (fuel : nat),
  (forall l, Permutation (sort_names l) l) ->
  universe_ns_ok u ->
  zone_build root_domain None (hint_ops hints) = Ok hz ->
  warm_questionm u hints mode true (fun _ => False) q zroot rest zk -> plain_question u q ->
  consistentm u hints mode (fun _ => False) scache sc_get c -> (length rest + 2 <= fuel)%nat ->
  exists rrs c' ts',
    resolve scache sc_get sc_insert_all sort_names (ModeRecursive mode) port (zones_insert [] hz)
            (universe_oracle u []) fuel q (c, tstate_init)
    = (Ok (NonAuthoritative rrs (aa_soa (auth_answer u q))), (c', ts'))
    /\ consistentm u hints mode (fun _ => False) scache sc_get c'
    /\ ((ts_log ts' = [] /\ c' = c /\ rrs = sc_get c (q_name q) (q_type q) /\ rrs <> []
         /\ same_data rrs (aa_rrs (auth_answer u q)))
        \/ (rrs = aa_rrs (auth_answer u q) /\ sc_get c (q_name q) (q_type q) = []
            /\ exists used, subseq used (zroot :: rest) /\ (exists used0, used = used0 ++ [zk])
                 /\ Forall2 (fun z e => exists a, query_toi port q a e /\ serves_owner u a z q) used (ts_log ts'))).
Proof.
  intros sort_names port u hints hz mode q zroot rest zk c fuel Hs Hu Hb Hw Hq Hc Hf.
  destruct (modes_correct sort_names Hs port u hints hz mode true q zroot rest zk c fuel Hu Hb Hw Hq Hc Hf)
    as (rrs & c' & ts' & E & HC & Hcases).
  exists rrs, c', ts'. split; [exact E|]. split; [exact HC|].
  destruct Hcases as [H|(H1 & H2 & used & H3 & H4 & _ & H5)]; [left; exact H|right].
  split; [exact H1|]. split; [exact H2|]. exists used. auto.
Qed.
Print Assumptions C07_correct_multizone.

(* the same for the real cache model at any fixed instant *)
Theorem C07_correct_multizone_real_cache :
  forall (now : N) (sort_names : list dname -> list dname) (port : N) (u : universe) (hints : list rr) (hz : zone)
         (mode : protocol_mode) (q : question) (zroot : uzone) (rest : list uzone) (zk : uzone) (c : rcache) (fuel : nat),
  (forall l, Permutation (sort_names l) l) ->
  universe_ns_ok u ->
  zone_build root_domain None (hint_ops hints) = Ok hz ->
  warm_questionm u hints mode true (fun _ => False) q zroot rest zk -> plain_question u q ->
  consistentm u hints mode (fun _ => False) rcache (rc_get now) c -> (length rest + 2 <= fuel)%nat ->
  exists rrs c' ts',
    resolve rcache (rc_get now) (rc_insert_all now) sort_names (ModeRecursive mode) port (zones_insert [] hz)
            (universe_oracle u []) fuel q (c, tstate_init)
    = (Ok (NonAuthoritative rrs (aa_soa (auth_answer u q))), (c', ts'))
    /\ consistentm u hints mode (fun _ => False) rcache (rc_get now) c'
    /\ ((ts_log ts' = [] /\ c' = c /\ rrs = rc_get now c (q_name q) (q_type q) /\ rrs <> []
         /\ same_data rrs (aa_rrs (auth_answer u q)))
        \/ (rrs = aa_rrs (auth_answer u q) /\ rc_get now c (q_name q) (q_type q) = []
            /\ exists used, subseq used (zroot :: rest) /\ (exists used0, used = used0 ++ [zk])
                 /\ Forall2 (fun z e => exists a, query_toi port q a e /\ serves_owner u a z q) used (ts_log ts'))).
Proof.
  intros now sort_names port u hints hz mode q zroot rest zk c fuel Hs Hu Hb Hw Hq Hc Hf.
  destruct (modes_correct_real_cache now sort_names Hs port u hints hz mode true q zroot rest zk c fuel Hu Hb Hw Hq Hc Hf)
    as (rrs & c' & ts' & E & HC & Hcases).
  exists rrs, c', ts'. split; [exact E|]. split; [exact HC|].
  destruct Hcases as [H|(H1 & H2 & used & H3 & H4 & _ & H5)]; [left; exact H|right].
  split; [exact H1|]. split; [exact H2|]. exists used. auto.
Qed.
Print Assumptions C07_correct_multizone_real_cache.

(* ... and with glueless cuts as well: C07_correct_glueless under the weakened address clause, in the
   question's chain and in the chains of the planned hosts *)
Theorem C07_correct_glueless_multizone :
  forall (sort_names : list dname -> list dname) (port : N) (u : universe) (hints : list rr) (hz : zone)
         (mode : protocol_mode) (zroot : uzone)
         (planned : dname -> Prop) (plan : dname -> list uzone * uzone) (hrank : dname -> nat)
         (q : question) (rest : list uzone) (zk : uzone),
  (forall l, Permutation (sort_names l) l) ->
  universe_ns_ok u ->
  zone_build root_domain None (hint_ops hints) = Ok hz ->
  (forall h, planned h -> plan_ok u hints mode true zroot planned plan hrank h) ->
  warm_questionm u hints mode true planned q zroot rest zk -> plain_question u q ->
  (forall (c : scache), consistentm u hints mode planned scache sc_get c ->
     exists F, forall fuel, (F <= fuel)%nat ->
       outcomeg scache sc_get port u hints mode zroot planned q rest zk c
         (resolve scache sc_get sc_insert_all sort_names (ModeRecursive mode) port (zones_insert [] hz)
                  (universe_oracle u []) fuel q (c, tstate_init)))
  /\ (forall now (c : rcache), consistentm u hints mode planned rcache (rc_get now) c ->
     exists F, forall fuel, (F <= fuel)%nat ->
       outcomeg rcache (rc_get now) port u hints mode zroot planned q rest zk c
         (resolve rcache (rc_get now) (rc_insert_all now) sort_names (ModeRecursive mode) port (zones_insert [] hz)
                  (universe_oracle u []) fuel q (c, tstate_init))).
Proof.
  intros sort_names port u hints hz mode zroot planned plan hrank q rest zk Hs Hu Hb Hp Hw Hq. split.
  - intros c Hc. exact (glueless_correct sort_names Hs port u hints hz mode true zroot planned plan hrank q rest zk c Hu Hb Hp Hw Hq Hc).
  - intros now c Hc. exact (glueless_correct_real_cache now sort_names Hs port u hints hz mode true zroot planned plan hrank q rest zk c Hu Hb Hp Hw Hq Hc).
Qed.
Print Assumptions C07_correct_glueless_multizone.

(* the weakened hypotheses follow from the strict ones of C07_correct_modes / C07_correct_glueless (so
   the theorems above hold for those universes too, with the log stated as a subsequence) *)
Theorem C07_multizone_weakens :
  forall u hints mode (G : dname -> Prop) q zroot rest zk,
  warm_questionm u hints mode false G q zroot rest zk -> warm_questionm u hints mode true G q zroot rest zk.
Proof. exact warm_questionm_weaken. Qed.
Print Assumptions C07_multizone_weakens.

(* the log gets shorter: a subsequence of the chain is at most as long as the chain, and the log
   has one exchange per zone of it *)
Theorem C07_multizone_log_shorter :
  forall u port q (chain used : list uzone) es,
  subseq used chain -> Forall2 (fun z e => exists a, query_toi port q a e /\ serves_owner u a z q) used es ->
  (length es <= length chain)%nat.
Proof.
  intros u port q chain used es Hs Hl. rewrite (chain_logm_length u port q used es Hl). exact (subseq_length used chain Hs).
Qed.
Print Assumptions C07_multizone_log_shorter.

(* ---- the hypotheses are met by a worked universe (RecursiveMultiZone.v, section 2): the depth-3 chain
   in which the server 10.0.0.2 of com. ALSO holds example.com. (example.com. is served by 10.0.0.2 and
   10.0.0.3); consistent.  The strict address clause fails (10.0.0.2's closest zone for
   www.sub.example.com. is example.com., not com.), the weakened one holds.  Evaluated by vm_compute:
   three exchanges instead of four -- 10.0.0.1, then 10.0.0.2, asked as a server of com., gives
   example.com.'s referral to sub.example.com., then 10.0.0.4 --, the same answer; the NS set of
   example.com. is never cached, that of sub.example.com. is. ---- *)
Example C07_example_multizone :
  (outcomem scache sc_get 53 z3_universe c3_hints OnlyV4 true c3_q c3_root [c3_com; c3_ex; c3_sub] c3_sub sc_empty
     (resolve scache sc_get sc_insert_all sort_names_ord (ModeRecursive OnlyV4) 53 (zones_insert [] c3_hz)
              (universe_oracle z3_universe []) 5%nat c3_q (sc_empty, tstate_init))
   /\ ~ serves_owner z3_universe (inl c3_ip1) c3_com c3_q)
  /\ (let r := resolve scache sc_get sc_insert_all sort_names_ord (ModeRecursive OnlyV4) 53 (zones_insert [] c3_hz)
                       (universe_oracle z3_universe []) 5%nat c3_q (sc_empty, tstate_init) in
      fst r = Ok (NonAuthoritative [c3_rr c3_n_www RT_A 300 (RD_A 3221225985)] None)
      /\ map x_addr (ts_log (snd (snd r))) = [(inl c3_ip0, 53); (inl c3_ip1, 53); (inl c3_ip3, 53)]
      /\ sc_get (fst (snd r)) c3_n_ex RT_NS = [] /\ sc_get (fst (snd r)) c3_n_sub RT_NS <> []
      /\ consistentb z3_universe = true).
Proof. exact (conj multizone_example multizone_example_eval). Qed.
Print Assumptions C07_example_multizone.

(* C07_correct_partial -- where the whole statement stands after ALL the theorems of this file.
   PROVED end to end (model of the resolver against Universe.serve through the wire codec, fault-free
   universe oracle, root hints as the only local zone, SimpleCache and the real cache model):
     any depth, any cache consistent with the universe, sequences of questions, alias chains crossing
     zones (only-v4, glue-complete: C07_correct_chain / _warm / _sequence / _alias), and for plain
     questions (type other than NS / CNAME / ANY, name not a nameserver host, no alias at the name):
     ALL FOUR PROTOCOL MODES with A and AAAA glue and hints (C07_correct_modes, _chain_modes),
     GLUELESS cuts resolved by the slow pass with nested resolutions under a rank on nameserver host
     names (C07_correct_glueless), SERVERS HOLDING SEVERAL ZONES of the chain (C07_correct_multizone,
     C07_correct_glueless_multizone), each from any consistent cache, ending in a consistent cache.
   STILL MISSING for "every consistent universe, every question, every mode" (covered by the
   differential stream of vlib/p_c07.py only):
     (1) alias chains and sequences of questions are proved for only-v4 glue-complete chains only:
         C07_correct_alias / C07_sequence restated over [consistentm] / [warm_questionm] (the nested
         induction of RecursiveAlias.v over the new walk lemmas; a sequence theorem over glog);
     (2) the glue shortcut F11 on the way of a host question: a planned host that ALSO has glue in a
         referral met on its own chain (the typical ns.hoster.net. serving hoster.net. itself) -- wlinkm
         asks that the question name owns no glue or data in the parent;
     (3) a planned host all of whose address types are absent (the candidate is dropped and the next
         one tried), and candidates that fail (faults: dropped, truncated, wrong-id replies; DeadEnd on
         the first candidate without a usable reply);
     (4) from a WARM cache: questions for NS and questions about a nameserver host asked by the
         client (cache completeness is not claimed at nameserver hosts);
     (5) the per-question hypotheses (warm_questionm, plan_ok) derived from one decidable
         well-formedness predicate on universes (consistentb + tree shape + the rank), instead of being
         stated question by question;
     (6) for glueless chains the fuel bound is existential (exists F, forall fuel >= F) and, without
         [multi], the log is stated as a subsequence rather than a suffix of the chain. *)
