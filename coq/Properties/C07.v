(* Properties/C07.v -- property theorems for C07 (recursive resolution finds the
   authoritative answer in any delegation tree); statements only, each closed by
   [exact lemma] and followed by Print Assumptions.

   FIRST STEP.  Proved here are facts about the SPECIFICATION side (Universe.v):
   the referral a server gives names a delegation point that encloses the
   question name and is strictly deeper than the zone it is given from; every
   record of the expected answer [auth_answer] is authoritative data of a zone of
   the universe enclosing its owner; and one worked universe on which the
   recursive model, run against the universe through the wire codec, returns
   exactly [auth_answer] (evaluated inside Coq).
   FOLLOW-UP (second half of this file): referral_progress on the model side and
   answer_provenance are proved.  NOT proved: C07_correct_partial (consistent u ->
   roots_configured u zones -> the model's result is auth_answer u q); its statement
   and what is missing are in a comment at the end.  That clause of the
   property is covered by the differential stream and the oracle of vlib/p_c07.py
   (implementation result = extracted auth_answer on every generated consistent
   universe; the model agrees with the implementation on every exchange). *)
From RV Require Import Base.Prelude Name.NameModel Wire.WireTypes Zone.ZoneModel Resolver.LocalModel
     Resolver.TransportModel Resolver.RecursiveModel Resolver.ForwardingModel Resolver.Universe
     Resolver.ResolverFacts.

Theorem C07_referral_strictly_deeper : forall z n c,
  wf_cuts z -> cut_owner z n = Some c ->
  is_subdomain_of n c = true /\ nlabels (uz_apex z) < nlabels c.
Proof. exact referral_strictly_deeper. Qed.
Print Assumptions C07_referral_strictly_deeper.

Theorem C07_auth_answer_from_universe : forall u q r,
  In r (aa_rrs (auth_answer u q)) ->
  exists z, In z (u_zones u) /\ In r (zone_data z) /\ is_subdomain_of (rr_name r) (uz_apex z) = true.
Proof. exact auth_answer_from_universe. Qed.
Print Assumptions C07_auth_answer_from_universe.

(* ---- a worked universe: root -> com., an alias inside com. ---- *)
Definition nm (ls : list label) : dname :=
  {| labels := ls ++ [[]]; nlen := fold_right (fun l acc => 1 + llen l + acc) 1 ls |}.
Definition l_com : label := [99; 111; 109].
Definition l_www : label := [119; 119; 119].
Definition l_ns : label := [110; 115].
Definition l_a : label := [97].
Definition l_alias : label := [97; 108; 105; 97; 115].

Definition n_root := nm [].
Definition n_a := nm [l_a].
Definition n_com := nm [l_com].
Definition n_ns_com := nm [l_ns; l_com].
Definition n_www_com := nm [l_www; l_com].
Definition n_alias_com := nm [l_alias; l_com].

Definition mk_rr (n : dname) (t ttl : N) (d : rdata) : rr :=
  {| rr_name := n; rr_type := t; rr_class := RC_IN; rr_ttl := ttl; rr_data := d |}.
Definition ip_root : N := 167772161.      (* 10.0.0.1 *)
Definition ip_com : N := 167772162.       (* 10.0.0.2 *)

Definition ex_universe : universe :=
  {| u_zones :=
       [ {| uz_apex := n_root;
            uz_soa := mk_rr n_root RT_SOA 300 (RD_SOA n_a n_a 1 7200 3600 86400 300);
            uz_rrs := [mk_rr n_root RT_NS 3600 (RD_Name n_a); mk_rr n_a RT_A 3600 (RD_A ip_root)];
            uz_cuts := [mk_rr n_com RT_NS 3600 (RD_Name n_ns_com)];
            uz_glue := [mk_rr n_ns_com RT_A 3600 (RD_A ip_com)] |};
         {| uz_apex := n_com;
            uz_soa := mk_rr n_com RT_SOA 300 (RD_SOA n_ns_com n_ns_com 1 7200 3600 86400 300);
            uz_rrs := [mk_rr n_com RT_NS 3600 (RD_Name n_ns_com); mk_rr n_ns_com RT_A 3600 (RD_A ip_com);
                       mk_rr n_www_com RT_A 300 (RD_A 3221225985);
                       mk_rr n_alias_com RT_CNAME 120 (RD_Name n_www_com)];
            uz_cuts := []; uz_glue := [] |} ];
     u_servers := [(inl ip_root, [n_root]); (inl ip_com, [n_com])] |}.

(* the configured root hints: a non-authoritative `.` zone *)
Definition ex_hints : zones :=
  match (let* z1 := zone_insert false (zone_new n_root None) n_root RT_NS (RD_Name n_a) 3600 in
         zone_insert false z1 n_a RT_A (RD_A ip_root) 3600) with
  | Ok z => zones_insert [] z
  | _ => []
  end.

Definition ex_q : question := {| q_name := n_alias_com; q_type := RT_A; q_class := RC_IN |}.
Definition ex_q_missing : question := {| q_name := nm [l_ns; l_ns; l_com]; q_type := RT_A; q_class := RC_IN |}.

Definition ex_run (q : question) :=
  resolve_simple (ModeRecursive PreferV4) 53 ex_hints (universe_oracle ex_universe []) 100%nat q
                 (sc_empty, tstate_init).

(* the universe is consistent; the model, talking to it through the wire codec, returns exactly
   the authoritative answer (alias + address; then nothing + the zone's SOA for a missing name),
   after one referral (two exchanges) *)
Example C07_example_two_level :
  consistentb ex_universe = true
  /\ fst (ex_run ex_q) = Ok (NonAuthoritative (aa_rrs (auth_answer ex_universe ex_q)) None)
  /\ aa_rrs (auth_answer ex_universe ex_q)
     = [mk_rr n_alias_com RT_CNAME 120 (RD_Name n_www_com); mk_rr n_www_com RT_A 300 (RD_A 3221225985)]
  /\ length (ts_rlog (snd (snd (ex_run ex_q)))) = 2%nat
  /\ fst (ex_run ex_q_missing)
     = Ok (NonAuthoritative (aa_rrs (auth_answer ex_universe ex_q_missing)) (aa_soa (auth_answer ex_universe ex_q_missing)))
  /\ aa_soa (auth_answer ex_universe ex_q_missing)
     = Some (mk_rr n_com RT_SOA 300 (RD_SOA n_ns_com n_ns_com 1 7200 3600 86400 300)).
Proof. vm_compute. repeat split. Qed.
Print Assumptions C07_example_two_level.

(* the hypothesis of C07_referral_strictly_deeper holds for the zones of the worked universe *)
Example C07_example_wf_cuts : Forall wf_cuts (u_zones ex_universe).
Proof.
  unfold ex_universe; cbn [u_zones].
  constructor; [|constructor; [|constructor]]; intros r H; cbn [uz_cuts] in H.
  - destruct H as [H|[]]. subst r. vm_compute. split; reflexivity.
  - destruct H.
Qed.

(* ====================================================================== *)
(* FOLLOW-UP: referral progress and provenance on the MODEL                 *)
(* (lemmas: Resolver/RecursiveProofs.v)                                     *)
(* ====================================================================== *)
From RV Require Import Resolver.ValidateModel Resolver.ValidateSpec Resolver.RecursiveProofs Resolver.ForwardingProofs.

(* referral_progress.  The only way the candidate loop of resolve_recursive_notimeout changes the
   delegation in use: a candidate's address was found, the server's reply passed the gate and the
   filter, and the filter made a Delegation of it.  Then the loop continues with exactly that
   delegation (its hosts in the order of [sort_names], fast pass first), and the delegation is
   strictly deeper than the one in use (match count strictly greater), encloses the question name --
   so its match count is at most the number of labels of the question name: at most that many
   referrals are followed per question -- and names at least one host.  Every oracle. *)
Theorem C07_referral_progress :
  forall (cache : Type) (cache_get : cache -> dname -> N -> list rr) (cache_insert_all : cache -> list rr -> cache)
         (sort_names : list dname -> list dname) (zs : zones) (o : oracle) (pmode : protocol_mode) (port : N)
         (rec : list question -> question -> RM cache rres) (loop : N -> list dname -> list dname -> bool -> RM cache rres)
         stack q combined mc cands next locally st candidate rest a st1 nr st2 d st3,
  pop_last cands = Some (candidate, rest) ->
  resolve_hostname_to_ip cache cache_get zs pmode rec stack locally candidate st = (Val (Some a), st1) ->
  query_and_validate cache o (a, port) q mc st1 = (Val (Some nr), st2) ->
  resolve_with_nameserver_response cache cache_insert_all rec stack combined nr q st2 = (Val (inr d), st3) ->
  candidate_step cache cache_get cache_insert_all sort_names zs o pmode port rec loop stack q combined mc cands next locally st
  = loop (ns_match_count d) (sort_names (ns_hostnames d)) [] true st3
  /\ mc < ns_match_count d
  /\ is_subdomain_of (q_name q) (ns_name d) = true
  /\ ns_match_count d <= llen (labels (q_name q))
  /\ ns_hostnames d <> [].
Proof. exact referral_progress. Qed.
Print Assumptions C07_referral_progress.

(* ... and when a candidate's address cannot be found the delegation in use stays the same *)
Theorem C07_no_referral_same_delegation :
  forall (cache : Type) (cache_get : cache -> dname -> N -> list rr) (cache_insert_all : cache -> list rr -> cache)
         (sort_names : list dname -> list dname) (zs : zones) (o : oracle) (pmode : protocol_mode) (port : N)
         (rec : list question -> question -> RM cache rres) (loop : N -> list dname -> list dname -> bool -> RM cache rres)
         stack q combined mc cands next locally st candidate rest st1,
  pop_last cands = Some (candidate, rest) ->
  resolve_hostname_to_ip cache cache_get zs pmode rec stack locally candidate st = (Val None, st1) ->
  exists cands' next' locally',
    candidate_step cache cache_get cache_insert_all sort_names zs o pmode port rec loop stack q combined mc cands next locally st
    = loop mc cands' next' locally' st1.
Proof. exact no_referral_same_delegation. Qed.
Print Assumptions C07_no_referral_same_delegation.

(* answer_provenance (shared with C08, where the statement is spelt out): every record the
   recursive resolver returns agrees in owner, type and data with local data, with what the cache
   held before, or with a record of a reply the oracle sent during the resolution that passed the
   gate and that the filter's specification allows *)
Theorem C07_answer_provenance :
  forall (cache : Type) (cache_get : cache -> dname -> N -> list rr) (cache_insert_all : cache -> list rr -> cache)
         (sort_names : list dname -> list dname) (zs : zones) (o : oracle) (pmode : protocol_mode) (port : N)
         (cache_content : cache -> rr -> Prop),
  (forall c n t r, In r (cache_get c n t) -> exists r', cache_content c r' /\ rr_sim r r') ->
  (forall c rrs r, cache_content (cache_insert_all c rrs) r -> cache_content c r \/ exists r', In r' rrs /\ rr_sim r r') ->
  forall fuel q st res st',
  resolve_recursive cache cache_get cache_insert_all sort_names zs o pmode port fuel q st = (Ok res, st') ->
  forall r, In r (resolved_rrs res ++ opt_list (resolved_soa_rr res)) ->
  exists r0, rr_sim r r0 /\
    (zone_src zs r0 \/ cache_content (fst st) r0 \/ upstream_src o (ts_rlog (snd st')) r0).
Proof. exact recursive_provenance. Qed.
Print Assumptions C07_answer_provenance.

(* C07_correct_partial -- NOT PROVED.  Target statement:

     forall u zones q, consistentb u = true -> glue_complete u -> in_bailiwick u -> roots_configured u zones ->
       wf_universe u (names well formed, RRsets with one TTL, messages encodable in 512 octets) ->
       exists F, forall fuel, F <= fuel ->
         fst (resolve_simple (ModeRecursive pmode) port zones (universe_oracle u []) fuel q (sc_empty, tstate_init))
         = Ok (NonAuthoritative (aa_rrs (auth_answer u q)) (aa_soa (auth_answer u q)))
       (when aa_defined (auth_answer u q) and every zone has a nameserver address the mode can use)

   by induction on the depth of the zone owning the name.  What exists: the step facts the induction
   needs on the model side (C07_referral_progress: each referral is followed and is deeper;
   C07_answer_provenance; C08_recursive_terminates: F exists) and on the specification side
   (C07_referral_strictly_deeper, C07_auth_answer_from_universe), the worked two-level universe
   evaluated inside Coq (C07_example_two_level: root -> com., alias inside com.), and the
   differential stream, which compares the implementation with the extracted auth_answer on every
   generated consistent universe (vlib/p_c07.py) and the model with the implementation on every
   exchange.  What is missing for the proof, even for depth 1 (root -> one child zone): the round
   trip of [serve]'s messages through the wire codec as a lemma usable under the oracle
   (encode/decode of reply_message with compression, C04_roundtrip needs wf_message of every
   served message, i.e. a well-formedness predicate on universes), the glue shortcut F11 (a
   nameserver-address question answered from the first glue record) as a hypothesis on u, and the
   lemma that validate_nameserver_response maps [referral z c] to NRDelegation with
   ns_name = c, ns_hostnames = the NS targets, and [serve]'s answer to NRAnswer (auth_answer)
   -- the filter's completeness, of which C06 proves soundness only. *)
