(* Properties/C07.v -- property theorems for C07 (recursive resolution finds the
   authoritative answer in any delegation tree); statements only, each closed by
   [exact lemma] and followed by Print Assumptions.

   FIRST STEP.  Proved here are facts about the SPECIFICATION side (Universe.v):
   the referral a server gives names a delegation point that encloses the
   question name and is strictly deeper than the zone it is given from; every
   record of the expected answer [auth_answer] is authoritative data of a zone of
   the universe enclosing its owner; and one worked universe on which the
   recursive model, run against the universe through the wire codec, returns
   exactly [auth_answer] (evaluated inside Coq).
   Not yet proved (follow-up): referral_progress on the model side (every
   delegation the resolver accepts has strictly more labels than the one in use;
   the ingredient is in Resolver/ValidateProofs.v), answer_provenance, and
   C07_correct_partial (consistent u -> roots_configured u zones -> the model's
   result is auth_answer u q, first for glue-complete universes).  Until then the
   property is covered by the differential stream and the oracle of vlib/p_c07.py
   (implementation result = extracted auth_answer on every generated consistent
   universe; the model agrees with the implementation on every exchange). *)
From RV Require Import Base.Prelude Name.NameModel Wire.WireTypes Zone.ZoneModel Resolver.LocalModel
     Resolver.TransportModel Resolver.RecursiveModel Resolver.ForwardingModel Resolver.Universe
     Resolver.ResolverFacts.

Theorem C07_referral_strictly_deeper : forall z n c,
  wf_cuts z -> cut_owner z n = Some c ->
  is_subdomain_of n c = true /\ nlabels (uz_apex z) < nlabels c.
Proof. exact referral_strictly_deeper. Qed.
Print Assumptions C07_referral_strictly_deeper.

Theorem C07_auth_answer_from_universe : forall u q r,
  In r (aa_rrs (auth_answer u q)) ->
  exists z, In z (u_zones u) /\ In r (zone_data z) /\ is_subdomain_of (rr_name r) (uz_apex z) = true.
Proof. exact auth_answer_from_universe. Qed.
Print Assumptions C07_auth_answer_from_universe.

(* ---- a worked universe: root -> com., an alias inside com. ---- *)
Definition nm (ls : list label) : dname :=
  {| labels := ls ++ [[]]; nlen := fold_right (fun l acc => 1 + llen l + acc) 1 ls |}.
Definition l_com : label := [99; 111; 109].
Definition l_www : label := [119; 119; 119].
Definition l_ns : label := [110; 115].
Definition l_a : label := [97].
Definition l_alias : label := [97; 108; 105; 97; 115].

Definition n_root := nm [].
Definition n_a := nm [l_a].
Definition n_com := nm [l_com].
Definition n_ns_com := nm [l_ns; l_com].
Definition n_www_com := nm [l_www; l_com].
Definition n_alias_com := nm [l_alias; l_com].

Definition mk_rr (n : dname) (t ttl : N) (d : rdata) : rr :=
  {| rr_name := n; rr_type := t; rr_class := RC_IN; rr_ttl := ttl; rr_data := d |}.
Definition ip_root : N := 167772161.      (* 10.0.0.1 *)
Definition ip_com : N := 167772162.       (* 10.0.0.2 *)

Definition ex_universe : universe :=
  {| u_zones :=
       [ {| uz_apex := n_root;
            uz_soa := mk_rr n_root RT_SOA 300 (RD_SOA n_a n_a 1 7200 3600 86400 300);
            uz_rrs := [mk_rr n_root RT_NS 3600 (RD_Name n_a); mk_rr n_a RT_A 3600 (RD_A ip_root)];
            uz_cuts := [mk_rr n_com RT_NS 3600 (RD_Name n_ns_com)];
            uz_glue := [mk_rr n_ns_com RT_A 3600 (RD_A ip_com)] |};
         {| uz_apex := n_com;
            uz_soa := mk_rr n_com RT_SOA 300 (RD_SOA n_ns_com n_ns_com 1 7200 3600 86400 300);
            uz_rrs := [mk_rr n_com RT_NS 3600 (RD_Name n_ns_com); mk_rr n_ns_com RT_A 3600 (RD_A ip_com);
                       mk_rr n_www_com RT_A 300 (RD_A 3221225985);
                       mk_rr n_alias_com RT_CNAME 120 (RD_Name n_www_com)];
            uz_cuts := []; uz_glue := [] |} ];
     u_servers := [(inl ip_root, [n_root]); (inl ip_com, [n_com])] |}.

(* the configured root hints: a non-authoritative `.` zone *)
Definition ex_hints : zones :=
  match (let* z1 := zone_insert false (zone_new n_root None) n_root RT_NS (RD_Name n_a) 3600 in
         zone_insert false z1 n_a RT_A (RD_A ip_root) 3600) with
  | Ok z => zones_insert [] z
  | _ => []
  end.

Definition ex_q : question := {| q_name := n_alias_com; q_type := RT_A; q_class := RC_IN |}.
Definition ex_q_missing : question := {| q_name := nm [l_ns; l_ns; l_com]; q_type := RT_A; q_class := RC_IN |}.

Definition ex_run (q : question) :=
  resolve_simple (ModeRecursive PreferV4) 53 ex_hints (universe_oracle ex_universe []) 100%nat q
                 (sc_empty, tstate_init).

(* the universe is consistent; the model, talking to it through the wire codec, returns exactly
   the authoritative answer (alias + address; then nothing + the zone's SOA for a missing name),
   after one referral (two exchanges) *)
Example C07_example_two_level :
  consistentb ex_universe = true
  /\ fst (ex_run ex_q) = Ok (NonAuthoritative (aa_rrs (auth_answer ex_universe ex_q)) None)
  /\ aa_rrs (auth_answer ex_universe ex_q)
     = [mk_rr n_alias_com RT_CNAME 120 (RD_Name n_www_com); mk_rr n_www_com RT_A 300 (RD_A 3221225985)]
  /\ length (ts_rlog (snd (snd (ex_run ex_q)))) = 2%nat
  /\ fst (ex_run ex_q_missing)
     = Ok (NonAuthoritative (aa_rrs (auth_answer ex_universe ex_q_missing)) (aa_soa (auth_answer ex_universe ex_q_missing)))
  /\ aa_soa (auth_answer ex_universe ex_q_missing)
     = Some (mk_rr n_com RT_SOA 300 (RD_SOA n_ns_com n_ns_com 1 7200 3600 86400 300)).
Proof. vm_compute. repeat split. Qed.
Print Assumptions C07_example_two_level.

(* the hypothesis of C07_referral_strictly_deeper holds for the zones of the worked universe *)
Example C07_example_wf_cuts : Forall wf_cuts (u_zones ex_universe).
Proof.
  unfold ex_universe; cbn [u_zones].
  constructor; [|constructor; [|constructor]]; intros r H; cbn [uz_cuts] in H.
  - destruct H as [H|[]]. subst r. vm_compute. split; reflexivity.
  - destruct H.
Qed.
