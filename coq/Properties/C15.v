(* Properties/C15.v -- "Cache pruning is exact, bounded and least-recently-used".
   Statements only; each is closed by [exact lemma] and followed by Print Assumptions.

   Setting as in Properties/C05.v.  [Inv] is the representation invariant of
   PartitionedCache (CacheSpec): unique keys, no duplicate value in a Vec, every
   partition's size = number of its records >= 1, next_expiry = minimum expiry, both
   priority queues hold exactly the partition keys with priorities last_read /
   next_expiry, current_size = sum of the partition sizes.  [abs_map c] is the finite map
   (name, type, data) -> expiry held by state c, [abs_lru c] the map name -> last use,
   [card m n] says that m has exactly n entries.

   Several threads: SharedCache is Arc<Mutex<Cache>> and every method body is one critical
   section that reads the clock inside it (read from cache.rs by tools/tables.py,
   Base/TablesOk.shared_cache_methods_atomic).  Base/Locks.v models threads around one lock
   as a small-step system whose schedules are ALL event lists; Cache/CacheConcurrent.v
   instantiates it with the cache model: [C15_concurrent_invariant] and
   [C15_concurrent_is_history] below hold for every schedule of every number of threads.
   Outside: that std::sync::Mutex provides the exclusion the model assumes (the thorough
   tier hammers one real cache from 2..8 threads and checks Inv on the quiescent dump). *)
From RV Require Import Base.Prelude Name.NameModel Wire.WireTypes
  Cache.CacheFacts Cache.CacheModel Cache.CacheSpec Cache.CacheInsert Cache.CacheCount Cache.CachePrune Cache.CacheProofs.
From RV Require Base.Locks Cache.CacheConcurrent.

(* the invariant holds initially, is preserved by every operation, hence holds after
   every history; no history reaches a Panic site (usize underflow) or runs out of fuel *)
Theorem C15_inv_init : forall d, Inv (with_desired_size d).
Proof. exact inv_init. Qed.
Print Assumptions C15_inv_init.

Theorem C15_inv_preserved : forall tb, tie_ok tb -> forall c now o,
  Inv c -> exists c' now' x, step tb c now o = Ok (c', now', x) /\ Inv c' /\ c_desired c' = c_desired c.
Proof. exact step_inv. Qed.
Print Assumptions C15_inv_preserved.

Theorem C15_inv_after_history : forall tb, tie_ok tb -> forall desired ops c now outs,
  run tb ops (with_desired_size desired) 0 = Ok (c, now, outs) -> Inv c /\ c_desired c = desired.
Proof. exact inv_after_history. Qed.
Print Assumptions C15_inv_after_history.

Theorem C15_history_never_panics : forall tb, tie_ok tb -> forall desired ops,
  exists c now outs, run tb ops (with_desired_size desired) 0 = Ok (c, now, outs).
Proof. exact history_never_panics. Qed.
Print Assumptions C15_history_never_panics.

(* prune_terminates: with the model's own fuel (|expiry queue| + 1 expiry steps,
   |access queue| evictions) prune completes: no OutOfFuel, no Panic.  In particular the
   [while current_size > desired_size] loop cannot spin on an empty queue. *)
Theorem C15_prune_terminates : forall tb, tie_ok tb -> forall c now,
  Inv c -> exists c' rep, prune tb c now = Ok (c', rep) /\ Inv c'.
Proof. exact prune_terminates. Qed.
Print Assumptions C15_prune_terminates.

(* prune_no_expired_left *)
Theorem C15_prune_no_expired_left : forall tb, tie_ok tb -> forall c now c' rep,
  Inv c -> prune tb c now = Ok (c', rep) -> forall k e, abs_map c' k = Some e -> now < e.
Proof. exact prune_no_expired_left. Qed.
Print Assumptions C15_prune_no_expired_left.

(* prune_at_most_desired *)
Theorem C15_prune_at_most_desired : forall tb, tie_ok tb -> forall c now c' rep,
  Inv c -> prune tb c now = Ok (c', rep) ->
  c_size c' <= c_desired c /\ forall n, card (abs_map c') n -> n <= c_desired c.
Proof. exact prune_at_most_desired. Qed.
Print Assumptions C15_prune_at_most_desired.

(* prune_reports_truth and prune_lru_whole_names_only_while_over: the result of prune is
   an abstract prune ([a_prune]: expired entries go, then whole names [evs] in order, each
   one cached, alive and least recently used at its turn and evicted only while the count
   exceeds the desired size; last-use instants of surviving names unchanged) and the four
   numbers are the cardinalities of the abstract sets ([report_ok]) *)
Theorem C15_prune_refines : forall tb, tie_ok tb -> forall c now,
  Inv c ->
  exists c' rep evs, prune tb c now = Ok (c', rep) /\ Inv c' /\ c_desired c' = c_desired c /\
    a_prune (abs_map c) (abs_lru c) now (c_desired c) (abs_map c') (abs_lru c') evs /\
    report_ok (abs_map c) (abs_map c') now (c_desired c) evs rep.
Proof. exact prune_refines. Qed.
Print Assumptions C15_prune_refines.

(* the same over histories: a prune at step i of any history is an abstract prune of the
   state reached by the first i operations, reports the true numbers, leaves nothing
   expired and at most the desired number of entries *)
Theorem C15_prune_in_history : forall tb, tie_ok tb -> forall desired ops c now outs i rep,
  run tb ops (with_desired_size desired) 0 = Ok (c, now, outs) ->
  nth_error ops i = Some Prune -> nth_error outs i = Some (OPrune rep) ->
  exists ci ci' evs,
    run tb (firstn i ops) (with_desired_size desired) 0 = Ok (ci, time_of (firstn i ops), firstn i outs) /\
    prune tb ci (time_of (firstn i ops)) = Ok (ci', rep) /\ Inv ci /\ Inv ci' /\
    a_prune (abs_map ci) (abs_lru ci) (time_of (firstn i ops)) desired (abs_map ci') (abs_lru ci') evs /\
    report_ok (abs_map ci) (abs_map ci') (time_of (firstn i ops)) desired evs rep /\
    (forall k e, abs_map ci' k = Some e -> time_of (firstn i ops) < e) /\
    c_size ci' <= desired /\ card (abs_map ci') (c_size ci').
Proof. exact prune_in_history. Qed.
Print Assumptions C15_prune_in_history.

(* count_is_distinct_entries *)
Theorem C15_count_is_distinct_entries : forall c, Inv c -> card (abs_map c) (c_size c).
Proof. exact count_is_distinct_entries. Qed.
Print Assumptions C15_count_is_distinct_entries.

Theorem C15_count_after_history : forall tb, tie_ok tb -> forall desired ops c now outs,
  run tb ops (with_desired_size desired) 0 = Ok (c, now, outs) -> card (abs_map c) (c_size c).
Proof. exact count_after_history. Qed.
Print Assumptions C15_count_after_history.

(* every operation refines the abstract cache *)
Theorem C15_step_refines : forall tb, tie_ok tb -> forall c now o,
  Inv c ->
  exists c' now' x, step tb c now o = Ok (c', now', x) /\ Inv c' /\ c_desired c' = c_desired c /\
    abs_step (abs_map c) (abs_lru c) now (c_desired c) o (abs_map c') (abs_lru c') now' x.
Proof. exact step_refines. Qed.
Print Assumptions C15_step_refines.

(* ties among equal expiry instants do not affect what is reported as expired *)
Theorem C15_expired_count_tie_independent : forall tb1 tb2 c now c1 r1 c2 r2,
  tie_ok tb1 -> tie_ok tb2 -> Inv c ->
  prune tb1 c now = Ok (c1, r1) -> prune tb2 c now = Ok (c2, r2) ->
  pr_expired r1 = pr_expired r2 /\ pr_overflowed r1 = pr_overflowed r2.
Proof. exact expired_count_tie_independent. Qed.
Print Assumptions C15_expired_count_tie_independent.

Theorem C15_tb_first_ok : tie_ok tb_first.
Proof. exact tb_first_ok. Qed.
Print Assumptions C15_tb_first_ok.

(* ---- several threads on one SharedCache ---- *)
(* [CacheConcurrent.crun tb d evs]: the system (clock, cache, mutex state, one program counter per
   thread, log) after the schedule [evs] -- any list of: time passes, thread t calls a method, t tries
   to take the mutex, t runs the body it holds the mutex for, t releases -- from an empty cache of
   desired size d.  After EVERY schedule, hence at every instant of every concurrent use: the
   representation invariant holds, the desired size is unchanged, the record count equals the number
   of distinct (name, type, data) entries held, and the same was true of every value the cache has
   ever had (no body reached a Panic site). *)
Theorem C15_concurrent_invariant : forall tb, tie_ok tb -> forall d evs,
  let s := CacheConcurrent.crun tb d evs in
  Inv (Locks.shared _ _ _ _ s) /\ c_desired (Locks.shared _ _ _ _ s) = d /\
  card (abs_map (Locks.shared _ _ _ _ s)) (c_size (Locks.shared _ _ _ _ s)) /\
  Forall (CacheConcurrent.good d) (Locks.hist _ _ _ _ s).
Proof. exact CacheConcurrent.concurrent_inv. Qed.
Print Assumptions C15_concurrent_invariant.

(* Linearisability: after every schedule the cache is the state reached by ONE sequential history --
   the executed method bodies in the order they held the mutex, each preceded by the clock advance up
   to its instant -- and what each thread was handed back is the result of its call in that history.
   So every theorem of this file and of Properties/C05.v about histories ([run]) is a theorem about
   concurrent use. *)
Theorem C15_concurrent_is_history : forall tb, tie_ok tb -> forall d evs,
  (forall t o, In (Locks.CallW op Empty_set t o) evs -> CacheConcurrent.is_call o = true) ->
  let s := CacheConcurrent.crun tb d evs in
  let ls := rev (Locks.wlog _ _ _ _ s) in
  exists outs,
    run tb (CacheConcurrent.ops_of 0 ls) (with_desired_size d) 0
      = Ok (Locks.shared _ _ _ _ s, Locks.last_time op (option out) 0 ls, outs) /\
    map Some outs = CacheConcurrent.outs_of ls /\
    (forall l, In (Locks.WRet cache op Empty_set (option out) l) (Locks.rets _ _ _ _ s) -> In l ls).
Proof. exact CacheConcurrent.concurrent_is_history. Qed.
Print Assumptions C15_concurrent_is_history.

(* the mutex really excludes: never two threads inside a body *)
Theorem C15_concurrent_mutual_exclusion : forall tb d evs t1 t2,
  let s := CacheConcurrent.crun tb d evs in
  Locks.holds_w _ _ _ _ (Locks.pcs _ _ _ _ s t1) -> Locks.holds_w _ _ _ _ (Locks.pcs _ _ _ _ s t2) -> t1 = t2.
Proof.
  intros tb d evs t1 t2 s H1 H2.
  exact (proj1 (Locks.mutual_exclusion _ _ _ _ _ _ (with_desired_size d) evs t1 t2 H1) H2).
Qed.
Print Assumptions C15_concurrent_mutual_exclusion.

(* a two-thread schedule in which the second thread has to wait for the mutex *)
Example C15_concurrent_example :
  let s := CacheConcurrent.crun tb_first 10 CacheConcurrent.ex_sched in
  length (Locks.wlog _ _ _ _ s) = 2%nat /\ length (Locks.rets _ _ _ _ s) = 2%nat /\
  map (fun l => (Locks.l_time _ _ l, Locks.l_tid _ _ l)) (rev (Locks.wlog _ _ _ _ s)) = [(5, 1%nat); (10, 2%nat)] /\
  c_size (Locks.shared _ _ _ _ s) = 1.
Proof. exact CacheConcurrent.ex_sched_runs. Qed.

(* ---- examples ---- *)
Definition ex_name (l : N) : dname := {| labels := [[l]; []]; nlen := 3 |}.
Definition ex_mname : dname := ex_name 109.
Definition ex_a_rr (n : dname) (v ttl : N) : rr :=
  {| rr_name := n; rr_type := RT_A; rr_class := RC_IN; rr_ttl := ttl; rr_data := RD_A v |}.
Definition ex_mx_rr (n : dname) (ttl : N) : rr :=
  {| rr_name := n; rr_type := RT_MX; rr_class := RC_IN; rr_ttl := ttl; rr_data := RD_MX 10 ex_mname |}.

(* the regression witness of the defect fixed in /repo (upsert recomputed next_expiry over
   one record type only; prune then reported (false, 2, 0, 0) and kept the expired MX) *)
Definition witness : list op :=
  [Advance 1; Insert (ex_a_rr (ex_name 97) 16909060 1); Advance 1; Insert (ex_mx_rr (ex_name 97) 2);
   Advance 1; Insert (ex_a_rr (ex_name 97) 16909060 100); Advance 2500000000; Prune].

Example C15_witness :
  exists c now,
    run tb_first witness (with_desired_size 10) 0 =
    Ok (c, now, [OUnit; OUnit; OUnit; OUnit; OUnit; OUnit; OUnit;
                 OPrune {| pr_overflowed := false; pr_current := 1; pr_expired := 1; pr_pruned := 0 |}]) /\
    abs_map c (ex_name 97, RT_MX, RD_MX 10 ex_mname) = None /\
    abs_map c (ex_name 97, RT_A, RD_A 16909060) = Some 100000000003.
Proof. eexists _, _. split; [vm_compute; reflexivity|]. split; vm_compute; reflexivity. Qed.

(* an over-size prune: three names, desired size 2; "a" was used least recently and goes,
   whole (both its records), although evicting one record would have sufficed *)
Definition lru_history : list op :=
  [Advance 1; InsertAll [ex_a_rr (ex_name 97) 1 300; ex_a_rr (ex_name 97) 2 300]; Advance 1;
   Insert (ex_a_rr (ex_name 98) 1 300); Advance 1; Insert (ex_a_rr (ex_name 99) 1 1); Advance 1;
   Get (ex_name 98) QT_Wildcard; Advance 1000000000; Prune].

Example C15_lru_example :
  exists c now,
    run tb_first lru_history (with_desired_size 2) 0 =
    Ok (c, now, [OUnit; OUnit; OUnit; OUnit; OUnit; OUnit; OUnit; ORRs [ex_a_rr (ex_name 98) 1 299]; OUnit;
                 OPrune {| pr_overflowed := true; pr_current := 1; pr_expired := 1; pr_pruned := 2 |}]) /\
    abs_lru c (ex_name 97) = None /\ abs_lru c (ex_name 98) = Some 4.
Proof. eexists _, _. split; [vm_compute; reflexivity|]. split; vm_compute; reflexivity. Qed.
