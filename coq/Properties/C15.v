(* Properties/C15.v -- placeholder, being written *)
From RV Require Import Base.Prelude Name.NameModel Wire.WireTypes Cache.CacheModel Cache.CacheSpec Cache.CacheProofs.
Theorem C15_prune_reports_current : forall tb c now c' r, prune tb c now = Ok (c', r) -> pr_current r = c_size c'.
Proof. exact prune_reports_current. Qed.
Print Assumptions C15_prune_reports_current.
