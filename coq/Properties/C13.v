(* Properties/C13.v -- property theorems for C13; statements only.
   "Writing any loaded zone back to text and parsing that text gives an equal zone - same apex, SOA,
   records, wildcard records and TTLs - so normalising a zone file (ztoz) preserves its meaning and
   normalising twice changes nothing more. ..."

   First the escape level (escape_roundtrip), then -- second half of the file -- the zone level:
   relative_name_roundtrip, zone_roundtrip (built zones, every admissible record order),
   normalise_idempotent, loaded_built / loaded_roundtrip (zones the parser returns), and the same
   for the address codec the model is run with, where no hypothesis about the codec is left. *)
From RV Require Import Base.Prelude Name.NameModel ZoneFile.ZoneFileModel ZoneFile.ZoneFileSpec
     ZoneFile.ZoneSerialiseModel ZoneFile.ZoneFileProofs ZoneFile.ZoneSerialiseProofs.

(* tokenising what serialise_octets wrote for bs yields the single token bs: every octet
   0..255 (quotes, backslashes, semicolons, parentheses, spaces, @, controls, >= 127), both
   quoting modes, whatever ends the entry *)
Theorem C13_escape_roundtrip : forall bs quoted t rest,
  Forall (fun o => o < 256) bs -> quoted = true \/ bs <> [] -> terminator_ok t = true ->
  tokenise_entry (serialise_octets bs quoted ++ terminator_text t rest)
  = Ok ([dup bs], terminator_rest t rest).
Proof. exact escape_roundtrip. Qed.
Print Assumptions C13_escape_roundtrip.

(* the same inside any entry of the layout family (as Zone::serialise writes them: tokens
   separated by single spaces, ended by a newline) *)
Theorem C13_escape_roundtrip_entry : forall items t rest,
  layout_ok false false items = Some false -> terminator_ok t = true ->
  tokenise_entry (items_text items ++ terminator_text t rest)
  = Ok (map dup (map wtoken_octets (items_tokens items)), terminator_rest t rest)
  /\ (forall q bs, Forall (fun o => o < 256) bs -> (q = true \/ bs <> []) ->
                   item_text (ITok (ser_token q bs)) = serialise_octets bs q
                   /\ wtoken_octets (ser_token q bs) = bs /\ wtoken_ok (ser_token q bs) = true).
Proof. exact escape_roundtrip_entry. Qed.
Print Assumptions C13_escape_roundtrip_entry.

(* the serialiser writes printable ASCII only *)
Theorem C13_serialise_octets_ascii : forall bs q,
  Forall (fun o => o < 256) bs -> Forall (fun c => 32 <= c <= 126) (serialise_octets bs q).
Proof. exact serialise_octets_ascii. Qed.
Print Assumptions C13_serialise_octets_ascii.

(* ====================================================================== *)
(* the zone level                                                          *)
(* ====================================================================== *)
From RV Require Import Wire.WireTypes Zone.ZoneModel Zone.ZoneFlat Zone.ZoneProofs ZoneFile.ZfInstance
     ZoneFile.ZoneRtLines ZoneFile.ZoneRtLoop ZoneFile.ZoneRoundTrip ZoneFile.ZoneRtOrder ZoneFile.ZoneRtLoaded
     ZoneFile.ZoneRtCodec ZoneFile.ZoneRtFinal ZoneFile.ZoneRtText.

(* relative_name_roundtrip.  [name_ok]: well formed, labels ASCII and dot-free (D7).  What
   serialise_domain writes for a name -- relative to the apex, "@" for the apex itself, or the
   absolute name (root apex, zone not authoritative, name outside the apex, or the relative part
   being the single label "@": the repaired F5) -- is, once un-escaped by the tokeniser
   ([dom_text]), read back as that name under the origin in force ([zorigin]: the apex iff a
   "$ORIGIN" line was written); in owner position it is an ordinary owner unless its leftmost label
   is "*", and with "*." before it the wildcard at that name *)
Theorem C13_relative_name_roundtrip : forall z name,
  name_ok (z_apex z) -> name_ok name ->
  serialise_domain z name = Ok (serialise_octets (dom_text z name) false)
  /\ parse_domain (zorigin z) (dom_text z name) = Ok name
  /\ (first_label name <> S_STAR -> parse_domain_or_wildcard (zorigin z) (dom_text z name) = Ok (MNormal name))
  /\ parse_domain_or_wildcard (zorigin z) (42 :: 46 :: dom_text z name) = Ok (MWildcard name).
Proof.
  intros z name Ha Hn. split; [apply serialise_domain_text; assumption|]. split; [apply dom_text_parse; assumption|].
  split; [intro; apply dom_text_owner; assumption|apply dom_text_wild; assumption].
Qed.
Print Assumptions C13_relative_name_roundtrip.

(* zone_roundtrip.
   [built z]: z = Zone::new(apex, soa) followed by insert / insert_wildcard calls, where the apex
   is the root or the zone has a SOA (D5), the apex, every owner and every name in RDATA (SOA
   included) is well formed with ASCII dot-free labels (D7), the leftmost label of the apex and
   of every ORDINARY owner is not the single octet "*" (names merely starting with '*' are
   fine), the inserted records have one of the 18 types the parser knows other than SOA with
   RDATA of that type's shape, u16/u32 fields and TTLs in range, octet strings of octets, and A /
   AAAA values a u32 / eight u16.
   [admissible z recs wrecs]: the (name, records) lists the serialiser iterates over list the
   zone's records -- one entry per owner, no empty entry, under an owner the records of each type
   in the zone's order, the types themselves in ANY order (HashMap iteration order; even
   interleaved); the names in any order (they are sorted anyway).
   [zone_same z z']: same apex, same SOA, the same nodes, and at every node for every type the
   same list of ordinary and of wildcard records (data, TTLs, order).
   For every codec with Display-then-FromStr the identity on plain characters ([codec_rt]): *)
Theorem C13_zone_roundtrip : forall ip, codec_rt ip -> forall z recs wrecs,
  built z -> admissible z recs wrecs ->
  exists txt z', zone_serialise_with ip z recs wrecs = Ok txt /\ deserialise ip txt = Ok z' /\
    zone_same z z' /\ built z' /\ admissible z' recs wrecs /\ zone_serialise_with ip z' recs wrecs = Ok txt.
Proof. exact zone_roundtrip. Qed.
Print Assumptions C13_zone_roundtrip.

(* [built] is closed under the API: Zone::new with an admissible apex / SOA, and every
   insert / insert_wildcard of an admissible record (zone_apply = zone_insert on an operation
   record) succeeds and stays inside *)
Theorem C13_built_closed :
  (forall apex s, head_ok apex s -> built (zone_new apex s)) /\
  (forall z o, built z -> op_src_ok o -> exists z', zone_apply z o = Ok z' /\ built z').
Proof. exact (conj built_new built_insert). Qed.
Print Assumptions C13_built_closed.

(* the order of the model's own all_records / all_wildcard_records is admissible, and so is every
   re-ordering of the names and of the type groups under a name *)
Theorem C13_own_order_admissible : forall z, built z ->
  admissible z (zone_all_records z) (zone_all_wildcard_records z).
Proof. exact own_order_admissible. Qed.
Print Assumptions C13_own_order_admissible.

Theorem C13_regroup_admissible : forall z recs wrecs recs' wrecs',
  admissible z recs wrecs -> regrouped recs recs' -> regrouped wrecs wrecs' -> admissible z recs' wrecs'.
Proof. exact regroup_admissible. Qed.
Print Assumptions C13_regroup_admissible.

(* normalise_idempotent: the zone read back, written again in the order of the first pass, gives
   the very same text; written in any order admissible for it and read again, it is the same zone *)
Theorem C13_normalise_idempotent : forall ip, codec_rt ip -> forall z recs wrecs txt z',
  built z -> admissible z recs wrecs ->
  zone_serialise_with ip z recs wrecs = Ok txt -> deserialise ip txt = Ok z' ->
  zone_serialise_with ip z' recs wrecs = Ok txt /\
  forall recs' wrecs', admissible z' recs' wrecs' ->
    exists txt' z'', zone_serialise_with ip z' recs' wrecs' = Ok txt' /\ deserialise ip txt' = Ok z'' /\
                     zone_same z' z'' /\ zone_same z z''.
Proof. exact normalise_idempotent. Qed.
Print Assumptions C13_normalise_idempotent.

(* loaded zones: whatever Zone::deserialise returns is a built zone (every label ASCII and dot-free
   -- any ASCII octet incl. @ ; ( ) double quote, backslash, space and controls, lower-cased --; an ordinary owner's
   leftmost label is never "*" since fix 0286676; FromStr of the codec yields values in range) *)
Theorem C13_loaded_built : forall ip, codec_range ip -> forall data z, deserialise ip data = Ok z -> built z.
Proof. exact loaded_built. Qed.
Print Assumptions C13_loaded_built.

Theorem C13_loaded_roundtrip : forall ip, codec_rt ip -> codec_range ip -> forall data z recs wrecs,
  deserialise ip data = Ok z -> admissible z recs wrecs ->
  exists txt z', zone_serialise_with ip z recs wrecs = Ok txt /\ deserialise ip txt = Ok z' /\
    zone_same z z' /\ zone_serialise_with ip z' recs wrecs = Ok txt.
Proof. exact loaded_roundtrip. Qed.
Print Assumptions C13_loaded_roundtrip.

(* the codec the model is run with (std's Ipv4Addr / Ipv6Addr as modelled in Ip/IpModel.v) meets both
   hypotheses ... *)
Theorem C13_codec_instance : codec_rt zf_codec /\ codec_range zf_codec.
Proof. exact (conj zf_codec_rt zf_codec_range). Qed.
Print Assumptions C13_codec_instance.

(* ... so for Zone::serialise / Zone::deserialise as the model driver runs them nothing is assumed:
   API-built zones, and ztoz (parse, write, parse, write, parse) on any text that parses *)
Theorem C13_zone_roundtrip_zf : forall z, built z ->
  exists txt z', zf_serialise z = Ok txt /\ zf_deserialise txt = Ok z' /\ zone_same z z'.
Proof. exact zf_zone_roundtrip. Qed.
Print Assumptions C13_zone_roundtrip_zf.

Theorem C13_ztoz_twice_zf : forall data z, zf_deserialise data = Ok z ->
  exists txt z', zf_serialise z = Ok txt /\ zf_deserialise txt = Ok z' /\ zone_same z z' /\
    exists txt' z'', zf_serialise z' = Ok txt' /\ zf_deserialise txt' = Ok z'' /\ zone_same z' z'' /\ zone_same z z''.
Proof. exact zf_loaded_roundtrip. Qed.
Print Assumptions C13_ztoz_twice_zf.

(* the hypotheses are satisfiable: an authoritative zone with the owner "\@", a wildcard at the apex
   holding a TXT made of every kind of special octet, the owner "*a", an owner "a b.;"; a root-apex
   zone that is not authoritative; a zone loaded through "$ORIGIN *.e." / "@" (ZoneRtFinal.Examples) *)
Example C13_built_ex1 : exists z txt z', zone_build Examples.apex1 (Some Examples.so1) Examples.ops1 = Ok z /\
  zf_serialise z = Ok txt /\ zf_deserialise txt = Ok z' /\ zone_same z z'.
Proof. exact Examples.roundtrip1. Qed.
Example C13_built_ex2 : exists z txt z', zone_build root_domain None Examples.ops2 = Ok z /\
  zf_serialise z = Ok txt /\ zf_deserialise txt = Ok z' /\ zone_same z z'.
Proof. exact Examples.roundtrip2. Qed.

(* normalise_idempotent, literally ("normalising twice changes nothing more"), for Zone::serialise
   as the MODEL runs it -- the model's own record order: names sorted by the derived Ord, under a
   name the type groups in the insertion order of the association list standing for the
   HashMap<RecordType, Vec<..>>, inside a group Vec order.  The zone z' read back from the text of
   z is built by inserting the records in text order, so its type groups come in the order in
   which the first pass listed them (ZoneRtText.same_flat); the names are sorted, and the derived
   Ord is a total order (ZoneRtText.sort_names_unique): the second-pass text is the first-pass text.
   This exact statement is TRUE of the model (its order is deterministic); for the
   implementation, whose HashMap iteration order is arbitrary, the statement that carries over is
   C13_normalise_idempotent above (every admissible order gives the same zone, the same order
   parameter the same text) -- the correspondence stream compares the implementation's texts after a
   stable sort of the lines of each name block by (owner field, type field) for that reason. *)
Theorem C13_normalise_idempotent_text : forall ip, codec_rt ip -> forall z txt z',
  built z -> zone_serialise ip z = Ok txt -> deserialise ip txt = Ok z' -> zone_serialise ip z' = Ok txt.
Proof. exact own_text_idempotent. Qed.
Print Assumptions C13_normalise_idempotent_text.

(* the same for every zone the parser returns, and with the codec the model is run with (no
   hypothesis left): ztoz applied to its own output reproduces it octet for octet *)
Theorem C13_normalise_idempotent_text_loaded : forall ip, codec_rt ip -> codec_range ip -> forall data z txt z',
  deserialise ip data = Ok z -> zone_serialise ip z = Ok txt -> deserialise ip txt = Ok z' -> zone_serialise ip z' = Ok txt.
Proof. exact loaded_text_idempotent. Qed.
Print Assumptions C13_normalise_idempotent_text_loaded.

Theorem C13_normalise_idempotent_text_zf : forall z txt z',
  built z -> zf_serialise z = Ok txt -> zf_deserialise txt = Ok z' -> zf_serialise z' = Ok txt.
Proof. exact zf_text_idempotent. Qed.
Print Assumptions C13_normalise_idempotent_text_zf.

Theorem C13_ztoz_text_fixpoint_zf : forall data z txt z',
  zf_deserialise data = Ok z -> zf_serialise z = Ok txt -> zf_deserialise txt = Ok z' -> zf_serialise z' = Ok txt.
Proof. exact zf_loaded_text_idempotent. Qed.
Print Assumptions C13_ztoz_text_fixpoint_zf.

(* the hypotheses are satisfiable and the conclusion is about a non-trivial text: the zone of
   C13_built_ex1 (SOA, NS and a wildcard TXT at the apex, four more owners; text: Examples.text1) *)
Example C13_text_idempotent_ex1 : exists z txt z', zone_build Examples.apex1 (Some Examples.so1) Examples.ops1 = Ok z /\
  zf_serialise z = Ok txt /\ zf_deserialise txt = Ok z' /\ zf_serialise z' = Ok txt.
Proof.
  destruct Examples.built1 as (z & E & Hb). destruct (zf_zone_roundtrip z Hb) as (txt & z' & S & D & _).
  exists z, txt, z'. split; [exact E|]. split; [exact S|]. split; [exact D|]. exact (zf_text_idempotent z txt z' Hb S D).
Qed.
