(* Properties/C13.v -- property theorems for C13; statements only.
   Proved so far: the escape level (escape_roundtrip).  The zone level
     zone_roundtrip_partial -- forall z loaded or built, forall record order,
       deserialise (serialise z) = Ok z' /\ z' ~ z;  normalise_idempotent
   is the follow-up task and is covered by the correspondence stream (RT / B cases and the
   real ztoz binary run twice) meanwhile. *)
From RV Require Import Base.Prelude Name.NameModel ZoneFile.ZoneFileModel ZoneFile.ZoneFileSpec
     ZoneFile.ZoneSerialiseModel ZoneFile.ZoneFileProofs ZoneFile.ZoneSerialiseProofs.

(* tokenising what serialise_octets wrote for bs yields the single token bs: every octet
   0..255 (quotes, backslashes, semicolons, parentheses, spaces, @, controls, >= 127), both
   quoting modes, whatever ends the entry *)
Theorem C13_escape_roundtrip : forall bs quoted t rest,
  Forall (fun o => o < 256) bs -> quoted = true \/ bs <> [] -> terminator_ok t = true ->
  tokenise_entry (serialise_octets bs quoted ++ terminator_text t rest)
  = Ok ([dup bs], terminator_rest t rest).
Proof. exact escape_roundtrip. Qed.
Print Assumptions C13_escape_roundtrip.

(* the same inside any entry of the layout family (as Zone::serialise writes them: tokens
   separated by single spaces, ended by a newline) *)
Theorem C13_escape_roundtrip_entry : forall items t rest,
  layout_ok false false items = Some false -> terminator_ok t = true ->
  tokenise_entry (items_text items ++ terminator_text t rest)
  = Ok (map dup (map wtoken_octets (items_tokens items)), terminator_rest t rest)
  /\ (forall q bs, Forall (fun o => o < 256) bs -> (q = true \/ bs <> []) ->
                   item_text (ITok (ser_token q bs)) = serialise_octets bs q
                   /\ wtoken_octets (ser_token q bs) = bs /\ wtoken_ok (ser_token q bs) = true).
Proof. exact escape_roundtrip_entry. Qed.
Print Assumptions C13_escape_roundtrip_entry.

(* the serialiser writes printable ASCII only *)
Theorem C13_serialise_octets_ascii : forall bs q,
  Forall (fun o => o < 256) bs -> Forall (fun c => 32 <= c <= 126) (serialise_octets bs q).
Proof. exact serialise_octets_ascii. Qed.
Print Assumptions C13_serialise_octets_ascii.
