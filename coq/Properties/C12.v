(* Properties/C12.v -- configuration files compose by union, with the last SOA winning.

   Model: Config/ConfigModel.v ([load] = load_zone_configuration over a file system given as data;
   a file is what Zone::deserialise / Hosts::deserialise make of it), Zone/ZoneModel.v (Zone::merge,
   Zones::insert_merge).  Specification: Zone/ZoneFlat.v (a zone as two flat record lists, merge =
   union with duplicate suppression, lookup = RFC 1034 4.3.2).

   One statement is proved only relative to an explicit premise and is therefore named _partial:
   C12_zone_is_chain_of_files_partial needs "Zone::merge refines the flat merge" ([zone_merge_repr],
   the lemma Zone/ZoneMergeProofs.v is to provide; that file did not exist when this was written).
   Everything else is closed. *)
From Coq Require Import Permutation Sorting.Sorted.
From RV Require Import Base.Prelude Name.NameModel Name.NameSpec Wire.WireTypes Zone.ZoneModel Zone.ZoneFlat
     Zone.ZoneProofs Zone.ZoneMergeProofs Config.ConfigModel Config.ConfigProofs Config.ConfigMerge.

(* None iff some directory cannot be listed or some file of the effective sequence cannot be read or
   parsed in its role.  ([config_hosts_wf]: the names in the hosts files are well-formed DomainName
   values -- C16 -- which excludes the from_labels unwrap inside Zone::insert.) *)
Theorem C12_load_none_iff_some_file_bad : forall a f, config_hosts_wf a f ->
  (load a f = None <->
   (exists d, In d (a_zone_dirs a ++ a_hosts_dirs a) /\ alookup leqb d (fs_dirs f) = None) \/
   (exists r, In r (fst (zone_file_seq a f)) /\ read_zone (fs_read f r) = None) \/
   (exists r, In r (fst (hosts_file_seq a f)) /\ read_hosts (fs_read f r) = None)).
Proof. intros a f H. rewrite (load_none_iff_bad a f H). apply config_bad_spec. Qed.
Print Assumptions C12_load_none_iff_some_file_bad.

(* load_zone_configuration never panics *)
Theorem C12_load_total : forall a f, config_hosts_wf a f -> exists o, load_res a f = Ok o.
Proof.
  intros a f H. destruct (load_res_total a f H) as [[_ Hr]|(_ & zs & hz & zs' & _ & _ & _ & Hr)]; rewrite Hr; eauto.
Qed.
Print Assumptions C12_load_total.

(* The files are applied in this order: the -z (-a) files in argument order, then for every -Z (-A)
   directory in argument order its non-directory entries in byte-wise sorted order of their names
   ([dir_chunk]: a permutation of the listing's file names that is sorted; for distinct names there
   is exactly one such arrangement, [C12_sorted_unique]). *)
Theorem C12_dir_sorted_order : forall a f,
  (exists chunks, Forall2 (dir_chunk f) (a_zone_dirs a) chunks /\
                  fst (zone_file_seq a f) = map RFile (a_zone_files a) ++ concat chunks) /\
  (exists chunks, Forall2 (dir_chunk f) (a_hosts_dirs a) chunks /\
                  fst (hosts_file_seq a f) = map RFile (a_hosts_files a) ++ concat chunks).
Proof.
  intros a f. split.
  - unfold zone_file_seq. destruct (gather_dirs_spec f (a_zone_dirs a) (map RFile (a_zone_files a)) false) as (c & HF & ->). eauto.
  - unfold hosts_file_seq. destruct (gather_dirs_spec f (a_hosts_dirs a) (map RFile (a_hosts_files a)) false) as (c & HF & ->). eauto.
Qed.
Print Assumptions C12_dir_sorted_order.

Theorem C12_sorted_unique : forall l l', StronglySorted ble l -> StronglySorted ble l' -> Permutation l l' -> NoDup l -> l = l'.
Proof. exact sorted_perm_unique. Qed.
Print Assumptions C12_sorted_unique.

(* Hosts files: per name and address family the entry of the LAST file (in application order)
   defining it is the one in force.  ([hosts_unique]: a Hosts value has one entry per name and family;
   it holds of everything the parser builds, [C12_hosts_unique_parser].) *)
Theorem C12_hosts_last_wins : forall a f n,
  Forall hosts_unique (readable_hosts f (fst (hosts_file_seq a f))) ->
  alookup dname_eqb n (h_v4 (loaded_hosts a f)) =
    last_defined (fun h => alookup dname_eqb n (h_v4 h)) (readable_hosts f (fst (hosts_file_seq a f))) /\
  alookup dname_eqb n (h_v6 (loaded_hosts a f)) =
    last_defined (fun h => alookup dname_eqb n (h_v6 h)) (readable_hosts f (fst (hosts_file_seq a f))).
Proof.
  intros a f n H. rewrite loaded_hosts_fold. split.
  - rewrite (fold_hosts_merge_v4 n _ hosts_new H). destruct (last_defined _ _); reflexivity.
  - rewrite (fold_hosts_merge_v6 n _ hosts_new H). destruct (last_defined _ _); reflexivity.
Qed.
Print Assumptions C12_hosts_last_wins.

Theorem C12_hosts_unique_parser : forall es, hosts_unique (hosts_of_entries es).
Proof. exact hosts_of_entries_unique. Qed.
Print Assumptions C12_hosts_unique_parser.

(* The merged hosts become a zone with the root apex and no SOA whose records are exactly one A
   (AAAA) record with TTL HOSTS_TTL per v4 (v6) entry, owned by the entry's name, and no wildcard
   records; the conversion never panics. *)
Theorem C12_hosts_in_root_zone : forall h, hosts_wf h ->
  exists hz, hosts_to_zone h = Ok hz /\ z_apex hz = root_domain /\ z_soa hz = None /\
    zrepr hz (hosts_flat h) /\ f_wild (hosts_flat h) = [] /\
    forall p r, In (p, r) (f_norm (hosts_flat h)) <->
      (exists n a, In (n, a) (h_v4 h) /\ labels n = p ++ [[]] /\ r = rec_v4 a) \/
      (exists n a, In (n, a) (h_v6 h) /\ labels n = p ++ [[]] /\ r = rec_v6 a).
Proof.
  intros h H. destruct (hosts_to_zone_spec h H) as (hz & A & B & C & D). destruct (hosts_flat_records h H) as [E F].
  exists hz. auto 10.
Qed.
Print Assumptions C12_hosts_in_root_zone.

(* ... and in a loaded configuration the zone of every apex k is the chain of Zone::merge over the
   inputs with apex k in application order, where the inputs are the readable zone files followed by
   that hosts zone (root apex, no SOA) LAST.  In particular the root zone always exists, and its SOA
   -- like that of every zone -- is the SOA of the last input supplying one: the root zone is
   non-authoritative unless a root zone FILE has a SOA. *)
Theorem C12_load_by_apex : forall a f zs, config_hosts_wf a f -> load a f = Some zs ->
  exists hz, hosts_to_zone (loaded_hosts a f) = Ok hz /\ z_apex hz = root_domain /\ z_soa hz = None /\
    forall k, alookup dname_eqb k zs = fold_left merge_step (for_apex k (zone_inputs a f hz)) None.
Proof.
  intros a f zs Hwf Hl. destruct (load_by_apex a f zs Hwf Hl) as (hz & Hh & Hk).
  assert (Hhw : hosts_wf (loaded_hosts a f)).
  { rewrite loaded_hosts_fold. apply fold_hosts_merge_wf; [apply hosts_new_wf|exact Hwf]. }
  destruct (hosts_to_zone_spec _ Hhw) as (hz' & Hh' & Ha & Hs & _). rewrite Hh in Hh'. inversion Hh'; subst hz'.
  exists hz. auto.
Qed.
Print Assumptions C12_load_by_apex.

Theorem C12_chain_soa_is_last : forall l acc, Forall (fun z => z_apex z = z_apex acc) l ->
  exists m, fold_left merge_step l (Some acc) = Some m /\ z_apex m = z_apex acc /\
            z_soa m = match last_defined z_soa l with Some s => Some s | None => z_soa acc end.
Proof. exact merge_chain_soa. Qed.
Print Assumptions C12_chain_soa_is_last.

(* merge_union lifted to 1..k files of one apex, on flat zones: an ordinary record is in the zone
   iff some file defines it -- except that an apex SOA record is there only if no later file supplies
   a SOA; a wildcard record is in the zone iff some file defines it; nothing is there twice. *)
Theorem C12_merge_union : forall l z, flat_chain l = Some z ->
  (forall x, In x (f_norm z) <-> exists pre fa post, l = pre ++ fa :: post /\ In x (f_norm (fst fa)) /\ survives x post) /\
  (forall x, In x (f_wild z) <-> exists fa, In fa l /\ In x (f_wild (fst fa))) /\
  (Forall (fun fa => NoDup (f_norm (fst fa)) /\ NoDup (f_wild (fst fa))) l -> NoDup (f_norm z) /\ NoDup (f_wild z)).
Proof.
  intros l z H. split; [intro x; apply chain_norm; exact H|]. split; [intro x; apply chain_wild; exact H|].
  intro HF. eapply chain_nodup; eassumption.
Qed.
Print Assumptions C12_merge_union.

(* merge_one_soa lifted to 1..k files: exactly one SOA record at the apex, that of the last file
   supplying one (none if no file does) *)
Theorem C12_merge_one_soa : forall l z, Forall soa_ok l -> flat_chain l = Some z ->
  forall r, (In ([], r) (f_norm z) /\ zr_type r = RT_SOA) <-> exists so, last_defined snd l = Some so /\ r = soa_zrec so.
Proof. exact chain_one_soa. Qed.
Print Assumptions C12_merge_one_soa.

(* the side conditions of the two theorems above hold for files given by their insertions (what the
   zone-file parser produces: the SOA apart, no other SOA-typed record) and for the hosts zone *)
Theorem C12_file_side_conditions : forall apex s ops,
  (Forall (fun o => op_type o <> RT_SOA) ops -> soa_ok (flat_of_ops apex s ops, s)) /\
  NoDup (f_norm (flat_of_ops apex s ops)) /\ NoDup (f_wild (flat_of_ops apex s ops)).
Proof. intros apex s ops. split; [apply flat_of_ops_soa_ok|apply flat_of_ops_nodup]. Qed.
Print Assumptions C12_file_side_conditions.

Theorem C12_hosts_side_conditions : forall h, soa_ok (hosts_flat h, None).
Proof. exact hosts_flat_soa_ok. Qed.
Print Assumptions C12_hosts_side_conditions.

(* FULL STATEMENT WANTED (C12_zone_is_chain_of_files): the conclusion below without the first premise and
   with [zone_wf] instantiated by the invariant of record trees that Zone::insert / Zone::merge
   maintain, i.e. the record tree of every loaded zone holds exactly the records of the flat chain of
   its files, whose content C12_merge_union / C12_merge_one_soa describe.
   PROVED: the same for ANY invariant [zone_wf] under the explicit premise that Zone::merge preserves
   [zone_wf] and refines fz_merge on zones that represent flat zones.  MISSING: that premise
   (Zone/ZoneMergeProofs.v: merge_flat_union, zone_merge_one_soa).  Note that the premise without
   an invariant would be too strong: [zrepr] only constrains what lookups see, so a tree with a
   shadowed duplicate child label represents a flat zone although merging it brings the shadowed
   subtree to light.  The correspondence stream checks the composed statement on every case (oracle
   of vlib/p_c12.py: dump = union, one SOA, answers from the union). *)
Theorem C12_zone_is_chain_of_files_partial : forall zone_wf : zone -> Prop,
  (forall a b fa fb m, zone_wf a -> zone_wf b -> zrepr a fa -> zrepr b fb -> zone_merge a b = Some m ->
                       zone_wf m /\ zrepr m (fz_merge fa fb (zone_is_authoritative b))) ->
  forall a f zs (flat_of : zone -> fzone), config_hosts_wf a f -> load a f = Some zs ->
  exists hz, hosts_to_zone (loaded_hosts a f) = Ok hz /\ z_apex hz = root_domain /\ z_soa hz = None /\
    forall k, Forall (fun z => zone_wf z /\ zrepr z (flat_of z)) (for_apex k (zone_inputs a f hz)) ->
      match alookup dname_eqb k zs, flat_chain (map (ffile_of flat_of) (for_apex k (zone_inputs a f hz))) with
      | Some m, Some fm => z_apex m = k /\ zrepr m fm
      | None, None => for_apex k (zone_inputs a f hz) = []
      | _, _ => False
      end.
Proof. exact load_zone_repr. Qed.
Print Assumptions C12_zone_is_chain_of_files_partial.

(* The premise above is discharged with Zone/ZoneMergeProofs.v (which landed after this file was
   first written): the invariant is "unique child labels" ([wf_tree]); zones built by insertion --
   i.e. every zone a zone file or a hosts file yields -- satisfy it ([zone_build_wf_tree]). *)
Theorem C12_zone_is_chain_of_files :
  forall a f zs (flat_of : zone -> fzone), config_hosts_wf a f -> load a f = Some zs ->
  exists hz, hosts_to_zone (loaded_hosts a f) = Ok hz /\ z_apex hz = root_domain /\ z_soa hz = None /\
    forall k, Forall (fun z => wf_tree (z_records z) /\ zrepr z (flat_of z)) (for_apex k (zone_inputs a f hz)) ->
      match alookup dname_eqb k zs, flat_chain (map (ffile_of flat_of) (for_apex k (zone_inputs a f hz))) with
      | Some m, Some fm => z_apex m = k /\ zrepr m fm
      | None, None => for_apex k (zone_inputs a f hz) = []
      | _, _ => False
      end.
Proof. exact load_zone_repr_closed. Qed.
Print Assumptions C12_zone_is_chain_of_files.

Theorem C12_built_zones_are_wf : forall apex s ops z, zone_build apex s ops = Ok z -> wf_tree (z_records z).
Proof. exact zone_build_wf_tree. Qed.
Print Assumptions C12_built_zones_are_wf.

(* with the flat specification of C02: a zone that represents a flat zone fz answers every question
   under its apex as RFC 1034 4.3.2 / RFC 4592 do on fz (up to the order of type groups in an ANY
   answer), under deviation D1 (no_occlusion) -- with fz the flat chain of the files: from the union *)
Theorem C12_answers_from_union : forall z fz name qt p,
  zrepr z fz -> no_occlusion fz -> recs_ok fz -> wf_name name ->
  rel_path (labels (z_apex z)) name = Some p ->
  exists r, zone_resolve z name qt = Some (Ok r) /\
            zres_equiv r (flat_resolve (labels (z_apex z)) fz name p qt).
Proof. exact zone_answers_from_flat. Qed.
Print Assumptions C12_answers_from_union.

(* the hypotheses are satisfiable: a directory whose sorted order ("10" < "9") differs from its
   listing order, two SOAs for one apex, two hosts files overriding each other *)
Example C12_example :
  zone_file_seq ex_args ex_fs = ([RDirFile [122] [49; 48]; RDirFile [122] [57]], false) /\
  config_hosts_wf ex_args ex_fs /\
  option_map (fun zs => option_map (fun z => option_map soa_serial (z_soa z)) (alookup dname_eqb ex_apex zs)) (load ex_args ex_fs)
    = Some (Some (Some 1)) /\
  load ex_args ex_fs_bad = None.
Proof.
  split; [exact ex_sorted_order|]. split; [exact ex_hosts_wf|]. split; [vm_compute; reflexivity|apply ex_bad_is_none].
Qed.

(* ====================================================================== *)
(* configuration loaded from TEXT: C12 composed with C11 / C17 and C14      *)
(* (lemmas: Config/ConfigText.v)                                            *)
(* ====================================================================== *)
(* Above, a configuration file is what the parsers make of it.  Here the file system holds TEXT
   ([tfs]: a file is a list of Unicode scalar values, [None] = read_to_string fails), [parse_file]
   is zone_from_file / hosts_from_file of fs.rs -- read_to_string, then Zone::deserialise (the model
   of ZoneFile/ZoneFileModel.v, for any address codec [ip]; [zf_codec] is std's, Ip/IpModel.v) resp.
   Hosts::deserialise (Hosts/HostsModel.v) -- and [load_text ip a t] = [load a (fs_of_text ip t)].
   [tzone_seq a t] / [thosts_seq a t] are the effective file sequences (C12_dir_sorted_order); they do
   not depend on the parsers.  [tfs_read t r] is the text behind a path. *)
From RV Require Import Config.ConfigText.
From RV Require Hosts.HostsModel Hosts.HostsSpec ZoneFile.ZoneFileModel ZoneFile.ZoneRtLines ZoneFile.ZoneParseDenotes
     ZoneFile.ZfInstance ZoneFile.ZoneRtCodec.

(* the premise [config_hosts_wf] of the theorems above is no assumption for configurations read from
   text: every name Hosts::deserialise returns is a well-formed DomainName (an ASCII field read
   relative to the root: C16_join) *)
Theorem C12_text_hosts_names_wf :
  (forall data h, HostsModel.deserialise data = Ok h ->
     Forall wf_name (map fst (HostsModel.h_v4 h)) /\ Forall wf_name (map fst (HostsModel.h_v6 h)))
  /\ (forall ip a t, config_hosts_wf a (fs_of_text ip t)).
Proof. split; [exact HostsNames.deserialise_names_wf|exact text_config_hosts_wf]. Qed.
Print Assumptions C12_text_hosts_names_wf.

(* load_zone_configuration over texts never panics: each parser returns Ok or Err on EVERY text
   (C17_parse_zone_total, C14_parse_hosts_total -- so the catch-all "unparsable" branch of parse_file
   only ever stands for Err), and the loader returns on whatever they produce *)
Theorem C12_load_text_total : forall ip a t,
  (forall s, (exists z, ZoneFileModel.deserialise ip s = Ok z) \/ (exists e, ZoneFileModel.deserialise ip s = Err e))
  /\ (forall s, (exists h, HostsModel.deserialise s = Ok h) \/ (exists e, HostsModel.deserialise s = Err e))
  /\ exists o, load_res a (fs_of_text ip t) = Ok o.
Proof. exact load_text_total. Qed.
Print Assumptions C12_load_text_total.

(* None iff a -Z / -A directory cannot be listed, or a file of the effective sequence cannot be
   read, or its parser returns an error on its text; no premise *)
Theorem C12_load_text_none_iff : forall ip a t,
  load_text ip a t = None <->
  (exists d, In d (a_zone_dirs a ++ a_hosts_dirs a) /\ alookup leqb d (tfs_dirs t) = None) \/
  (exists r, In r (tzone_seq a t) /\
             (tfs_read t r = None \/ exists s e, tfs_read t r = Some s /\ ZoneFileModel.deserialise ip s = Err e)) \/
  (exists r, In r (thosts_seq a t) /\
             (tfs_read t r = None \/ exists s e, tfs_read t r = Some s /\ HostsModel.deserialise s = Err e)).
Proof. exact load_text_none_iff. Qed.
Print Assumptions C12_load_text_none_iff.

(* The composition.  Every zone file of the effective sequence is a rendering -- in ANY layout of the
   layout family -- of an abstract zone file in the scope of C11_parse_denotes that denotes
   (apex, SOA, insertions) ([zone_described]; [zdens] lists the denotations in application order);
   every hosts file is the rendering of a hosts syntax tree with valid lines, the scope of
   C14_hosts_parse_denotes ([hosts_described]; [hfiles]); every directory can be listed; the address
   codec is round-trip ([codec_rt]: proved for std's, C12_load_text_denotes_zf).  Then:
   - the configuration loads;
   - [hfl], the hosts' share, is a flat zone without wildcard records holding exactly one A (AAAA)
     record with TTL HOSTS_TTL per name that the LAST hosts file (in application order) defining it
     for that family maps to an address ([merged_v4] / [merged_v6] of the files' DENOTATIONS);
   - for every apex k the loaded zone represents (the relation of C02 / C12_answers_from_union) the
     flat chain of the inputs with apex k: the flat zones [flat_of_ops apex so ops] of the zone files'
     DENOTATIONS in application order, then, for the root, [hfl] (no SOA) LAST; an apex without input
     has no zone;
   - the inputs meet the side conditions of C12_merge_union / C12_merge_one_soa, which therefore say
     what that chain holds: the union, duplicates removed, the SOA of the last file supplying one
     (C12_load_text_records spells it out). *)
Theorem C12_load_text_denotes : forall ip, ZoneRtLines.codec_rt ip -> forall a t zdens hfiles,
  (forall d, In d (a_zone_dirs a ++ a_hosts_dirs a) -> alookup leqb d (tfs_dirs t) <> None) ->
  Forall2 (fun r d => exists ls, tfs_read t r = Some (ZoneParseDenotes.render ls)
                                 /\ ZoneParseDenotes.lines_ok ip ZoneParseDenotes.sp_init ls
                                 /\ ZoneParseDenotes.denote ls = Some d) (tzone_seq a t) zdens ->
  Forall2 (fun r hf => tfs_read t r = Some (HostsSpec.render hf)
                       /\ Forall (fun le => HostsSpec.valid_line (fst le)) hf) (thosts_seq a t) hfiles ->
  exists zs hfl,
    load_text ip a t = Some zs
    /\ (f_wild hfl = [] /\
        forall p r, In (p, r) (f_norm hfl) <->
          (exists n x, merged_v4 hfiles n = Some x /\ labels n = p ++ [[]] /\ r = rec_v4 x) \/
          (exists n x, merged_v6 hfiles n = Some x /\ labels n = p ++ [[]] /\ r = rec_v6 x))
    /\ Forall soa_ok (map snd (text_inputs zdens hfl))
    /\ Forall (fun fa => NoDup (f_norm (fst fa)) /\ NoDup (f_wild (fst fa))) (map snd (text_inputs zdens hfl))
    /\ forall k,
         match alookup dname_eqb k zs, flat_chain (inputs_for k (text_inputs zdens hfl)) with
         | Some m, Some fm => z_apex m = k /\ zrepr m fm
         | None, None => inputs_for k (text_inputs zdens hfl) = []
         | _, _ => False
         end.
Proof. exact load_text_denotes. Qed.
Print Assumptions C12_load_text_denotes.

(* ... with the content of the chain spelled out on the denotations: an ordinary record is in the
   zone loaded for apex k iff some input with that apex denotes it -- except that an apex SOA record is
   there only if no later input supplies a SOA; a wildcard record iff some input denotes it; nothing is
   there twice; exactly one SOA record at the apex, that of the last input supplying one *)
Theorem C12_load_text_records : forall ip, ZoneRtLines.codec_rt ip -> forall a t zdens hfiles,
  (forall d, In d (a_zone_dirs a ++ a_hosts_dirs a) -> alookup leqb d (tfs_dirs t) <> None) ->
  Forall2 (zone_described ip t) (tzone_seq a t) zdens ->
  Forall2 (hosts_described t) (thosts_seq a t) hfiles ->
  exists zs hfl,
    load_text ip a t = Some zs /\ hosts_flat_denotes hfiles hfl /\
    forall k m, alookup dname_eqb k zs = Some m ->
      let l := inputs_for k (text_inputs zdens hfl) in
      exists fm, z_apex m = k /\ zrepr m fm /\
        (forall x, In x (f_norm fm) <-> exists pre fa post, l = pre ++ fa :: post /\ In x (f_norm (fst fa)) /\ survives x post) /\
        (forall x, In x (f_wild fm) <-> exists fa, In fa l /\ In x (f_wild (fst fa))) /\
        NoDup (f_norm fm) /\ NoDup (f_wild fm) /\
        (forall r, (In ([], r) (f_norm fm) /\ zr_type r = RT_SOA) <-> exists so, last_defined snd l = Some so /\ r = soa_zrec so).
Proof. exact load_text_records. Qed.
Print Assumptions C12_load_text_records.

(* for the codec the drivers run (std's address parsers as modelled in Ip/IpModel.v) nothing is assumed *)
Theorem C12_load_text_denotes_zf : forall a t zdens hfiles,
  (forall d, In d (a_zone_dirs a ++ a_hosts_dirs a) -> alookup leqb d (tfs_dirs t) <> None) ->
  Forall2 (zone_described ZfInstance.zf_codec t) (tzone_seq a t) zdens ->
  Forall2 (hosts_described t) (thosts_seq a t) hfiles ->
  exists zs hfl,
    load_text_zf a t = Some zs /\ hosts_flat_denotes hfiles hfl
    /\ Forall soa_ok (map snd (text_inputs zdens hfl))
    /\ Forall (fun fa => NoDup (f_norm (fst fa)) /\ NoDup (f_wild (fst fa))) (map snd (text_inputs zdens hfl))
    /\ forall k,
         match alookup dname_eqb k zs, flat_chain (inputs_for k (text_inputs zdens hfl)) with
         | Some m, Some fm => z_apex m = k /\ zrepr m fm
         | None, None => inputs_for k (text_inputs zdens hfl) = []
         | _, _ => False
         end.
Proof. exact (load_text_denotes ZfInstance.zf_codec ZoneRtCodec.zf_codec_rt). Qed.
Print Assumptions C12_load_text_denotes_zf.

(* the hypotheses are satisfiable: the zone file "e. 5 IN A 1.2.3.4" (no SOA: apex = the root) and
   the hosts file "1.2.3.4 h" load into ONE root zone answering for both names; with the zone file
   replaced by "$INCLUDE x" (rejected by Zone::deserialise) nothing loads *)
Example C12_text_example :
  option_map (fun zs => option_map (fun z => (zone_resolve z ex_apex RT_A, zone_resolve z ex_host RT_A)) (alookup dname_eqb root_domain zs))
             (load_text_zf ex_targs ex_tfs)
  = Some (Some (Some (Ok (ZAnswer [{| rr_name := ex_apex; rr_type := RT_A; rr_class := RC_IN; rr_ttl := 5; rr_data := RD_A 16909060 |}])),
                Some (Ok (ZAnswer [{| rr_name := ex_host; rr_type := RT_A; rr_class := RC_IN; rr_ttl := HOSTS_TTL; rr_data := RD_A 16909060 |}]))))
  /\ load_text_zf ex_targs ex_tfs_bad = None /\ text_config_bad ZfInstance.zf_codec ex_targs ex_tfs_bad.
Proof. split; [exact ex_text_loads|exact ex_text_bad]. Qed.
