(* Properties/C05.v -- placeholder, being written *)
From RV Require Import Base.Prelude Name.NameModel Wire.WireTypes Cache.CacheModel Cache.CacheSpec Cache.CacheProofs.
Theorem C05_ttl0_not_stored_step : forall c now r, rr_ttl r = 0 -> shared_insert c now r = Ok c.
Proof. exact ttl0_not_stored_step. Qed.
Print Assumptions C05_ttl0_not_stored_step.
