(* Properties/C05.v -- "The cache never serves a record past its TTL".
   Statements only; each is closed by [exact lemma] and followed by Print Assumptions.

   Setting.  [run tb ops (with_desired_size d) 0] plays a history of SharedCache
   operations (insert, insert_all, get, get_without_checking_expiration, prune, clock
   advance) on the model of cache.rs, starting from an empty cache at virtual time 0.
   [tb] is the way PriorityQueue::pop breaks ties; every theorem holds for every [tb]
   satisfying [tie_ok].  [last_insert h k] is the (instant, TTL) of the last insertion
   of key k = (name, type, data) in history h that the shared cache did not skip (TTL > 0);
   [time_of h] is the clock after h.  Time is in nanoseconds, TTLs in seconds.

   Interpretation (reported): Cache::get drops records whose remaining *whole* seconds
   are 0, so "has not expired" in the last clause of the property is read as "has at
   least one whole second left" ([C05_last_second_withheld] shows the code really
   withholds a record during its last incomplete second). *)
From RV Require Import Base.Prelude Name.NameModel Wire.WireTypes
  Cache.CacheFacts Cache.CacheModel Cache.CacheSpec Cache.CacheInsert Cache.CacheCount Cache.CachePrune Cache.CacheProofs.

(* never_served_expired + ttl_not_exceeding_remaining: a record returned by get at step i
   was last inserted at t0 with TTL T; now < t0 + T; the reported TTL fits in the time left *)
Theorem C05_never_served_expired : forall tb, tie_ok tb ->
  forall desired ops c now outs i name qt rrs r,
  run tb ops (with_desired_size desired) 0 = Ok (c, now, outs) ->
  nth_error ops i = Some (Get name qt) -> nth_error outs i = Some (ORRs rrs) -> In r rrs ->
  exists t0 T,
    last_insert (firstn i ops) (rr_key r) = Some (t0, T) /\
    time_of (firstn i ops) < t0 + T * NS_PER_S /\
    rr_ttl r * NS_PER_S <= t0 + T * NS_PER_S - time_of (firstn i ops) /\
    1 <= rr_ttl r /\ rr_name r = name /\ rr_class r = RC_IN.
Proof. exact served_record_is_live. Qed.
Print Assumptions C05_never_served_expired.

(* the raw getter may return a record whose time is up, but never overstates the time left *)
Theorem C05_ttl_not_exceeding_remaining : forall tb, tie_ok tb ->
  forall desired ops c now outs i name qt rrs r,
  run tb ops (with_desired_size desired) 0 = Ok (c, now, outs) ->
  nth_error ops i = Some (GetRaw name qt) -> nth_error outs i = Some (ORRs rrs) -> In r rrs ->
  exists t0 T,
    last_insert (firstn i ops) (rr_key r) = Some (t0, T) /\
    rr_ttl r * NS_PER_S <= t0 + T * NS_PER_S - time_of (firstn i ops) /\
    rr_name r = name /\ rr_class r = RC_IN.
Proof. exact raw_record_ttl_bound. Qed.
Print Assumptions C05_ttl_not_exceeding_remaining.

(* ttl0_not_stored: a TTL-0 insert leaves the state untouched, and after any history
   every stored record stems from an insertion with TTL > 0 and expires exactly TTL later *)
Theorem C05_ttl0_not_stored_step : forall c now r, rr_ttl r = 0 -> shared_insert c now r = Ok c.
Proof. exact ttl0_not_stored_step. Qed.
Print Assumptions C05_ttl0_not_stored_step.

Theorem C05_ttl0_not_stored : forall tb, tie_ok tb ->
  forall desired ops c now outs k e,
  run tb ops (with_desired_size desired) 0 = Ok (c, now, outs) -> abs_map c k = Some e ->
  exists t0 T, last_insert ops k = Some (t0, T) /\ 0 < T /\ e = t0 + T * NS_PER_S.
Proof. exact stored_record_stamp. Qed.
Print Assumptions C05_ttl0_not_stored.

(* reinsert_restarts_no_duplicate: the new expiry is now + TTL whatever was stored
   before, nothing else changes, the record count does not grow; and no answer lists a
   (name, type, data) twice ([C05_live_record_is_returned], second conjunct) *)
Theorem C05_reinsert_restarts_no_duplicate : forall c now r c',
  Inv c -> 0 < rr_ttl r -> shared_insert c now r = Ok c' ->
  abs_map c' (rr_key r) = Some (now + rr_ttl r * NS_PER_S) /\
  (forall k, k <> rr_key r -> abs_map c' k = abs_map c k) /\
  (abs_map c (rr_key r) <> None -> c_size c' = c_size c).
Proof. exact reinsert_restarts. Qed.
Print Assumptions C05_reinsert_restarts_no_duplicate.

(* live_record_is_returned: a cached record (not evicted, not pruned) with at least one
   whole second left is returned for its type and for ANY, data unchanged, TTL = whole
   seconds left; [Inv c] holds after every history (C15_inv_after_history) *)
Theorem C05_live_record_is_returned : forall c now name t d e qt c' rrs,
  Inv c -> abs_map c (name, t, d) = Some e -> NS_PER_S <= e - now -> cache_qmatch qt t ->
  get c now name qt = (c', rrs) ->
  In {| rr_name := name; rr_type := t; rr_class := RC_IN; rr_ttl := remaining e now; rr_data := d |} rrs /\
  NoDup (map rr_key rrs).
Proof. exact live_record_is_returned. Qed.
Print Assumptions C05_live_record_is_returned.

Theorem C05_last_second_withheld : forall c now name qt c' rrs r e,
  Inv c -> get c now name qt = (c', rrs) -> abs_map c (rr_key r) = Some e -> e - now < NS_PER_S -> ~ In r rrs.
Proof. exact last_second_withheld. Qed.
Print Assumptions C05_last_second_withheld.

(* lookups are exactly the abstract answers (and every operation refines the abstract cache) *)
Theorem C05_step_refines : forall tb, tie_ok tb -> forall c now o,
  Inv c ->
  exists c' now' x, step tb c now o = Ok (c', now', x) /\ Inv c' /\ c_desired c' = c_desired c /\
    abs_step (abs_map c) (abs_lru c) now (c_desired c) o (abs_map c') (abs_lru c') now' x.
Proof. exact step_refines. Qed.
Print Assumptions C05_step_refines.

(* ---- the hypotheses are satisfiable: a history with re-insertion and partial expiry ---- *)
Definition ex_a : dname := {| labels := [[97]; []]; nlen := 3 |}.
Definition ex_rr (ttl : N) : rr :=
  {| rr_name := ex_a; rr_type := RT_A; rr_class := RC_IN; rr_ttl := ttl; rr_data := RD_A 16909060 |}.
Definition ex_history : list op :=
  [Insert (ex_rr 2); Advance 1500000000; Insert (ex_rr 300); Advance 2500000000; Get ex_a RT_A;
   Insert (ex_rr 0); Advance 296000000000; Get ex_a QT_Wildcard; Advance 500000001; Get ex_a RT_A].

Example C05_example :
  exists c now,
    run tb_first ex_history (with_desired_size 512) 0 =
    Ok (c, now, [OUnit; OUnit; OUnit; OUnit; ORRs [ex_rr 297]; OUnit; OUnit; ORRs [ex_rr 1]; OUnit; ORRs []]) /\
    last_insert (firstn 4 ex_history) (rr_key (ex_rr 297)) = Some (1500000000, 300) /\
    time_of (firstn 4 ex_history) = 4000000000.
Proof. eexists _, _. split; [vm_compute; reflexivity|]. split; vm_compute; reflexivity. Qed.

(* ---- several threads ---- *)
From RV Require Base.Locks Cache.CacheConcurrent.

(* The same for concurrent use (Base/Locks.v: any number of threads around the mutex, every event list
   a schedule; Cache/CacheConcurrent.v): for EVERY schedule, a get executed by any thread -- the k-th
   body to hold the mutex -- returns only records alive at the instant its body ran: last inserted, in
   lock order, at t0 with TTL T, now < t0 + T, the reported TTL within the time left.
   [CacheConcurrent.ops_of 0 ls] is the sequential history of the executed bodies (C15_concurrent_is_history). *)
Theorem C05_concurrent_get_is_live : forall tb, tie_ok tb -> forall d evs,
  (forall t o, In (Locks.CallW op Empty_set t o) evs -> CacheConcurrent.is_call o = true) ->
  let s := CacheConcurrent.crun tb d evs in
  let ls := rev (Locks.wlog _ _ _ _ s) in
  forall k l name qt rrs r,
    nth_error ls k = Some l -> Locks.l_w _ _ l = Get name qt -> Locks.l_out _ _ l = Some (ORRs rrs) -> In r rrs ->
    exists t0 T,
      last_insert (firstn (2 * k + 1)%nat (CacheConcurrent.ops_of 0 ls)) (rr_key r) = Some (t0, T) /\
      Locks.l_time _ _ l < t0 + T * NS_PER_S /\
      rr_ttl r * NS_PER_S <= t0 + T * NS_PER_S - Locks.l_time _ _ l /\
      1 <= rr_ttl r /\ rr_name r = name /\ rr_class r = RC_IN.
Proof. exact CacheConcurrent.concurrent_get_is_live. Qed.
Print Assumptions C05_concurrent_get_is_live.
