(* Properties/C19.v -- reload swaps the whole configuration or none of it.

   The model (Config/ConfigModel.v): the server's configuration is ONE value, [state = zones], the
   content of zones_lock.  A SIGUSR1 ([EvReload f], f = the file system as it is when the files are
   read) runs [load] -- C12's model of load_zone_configuration -- into a fresh value and assigns it
   only if it is [Some]; a query ([EvQuery q]) reads the state once and computes its whole reply
   from that value ([query], the model of resolve_and_build_response in authoritative-only mode).

   In [run] a reload and a query are single steps.  The second half of this file
   (the C19_concurrent_ theorems) removes that: Config/ConfigConcurrent.v puts reload_task and the request
   handlers around a reader-writer lock (Base/Locks.v) -- the handler holds the read guard over
   arbitrarily many reads of the configuration, with steps of other tasks in between; the reload
   loads without the lock and takes the write lock only to store a complete value -- and the
   statements hold for EVERY schedule.  That main.rs has critical sections of this shape is read
   from the source on every run (Base/TablesOk.zones_lock_sections_ok).
   What stays outside and is observed by the C19 stream against the real binary (vlib/p_c19.py,
   replies before / during / after every SIGUSR1, overlapping reloads): that tokio's RwLock
   provides the exclusion the model assumes, signal delivery, and that the server keeps answering
   (liveness). *)
From RV Require Import Base.Prelude Name.NameModel Wire.WireTypes Zone.ZoneModel Config.ConfigModel Config.ConfigProofs.

(* If every file loads the state becomes exactly the freshly loaded configuration; if any file or
   directory is unreadable or invalid ([load] = None, characterised by C12_load_none_iff_some_file_bad)
   the previous configuration stays fully in force. *)
Theorem C19_reload_all_or_nothing : forall a st f,
  (forall z, load a f = Some z -> reload a st f = z) /\
  (load a f = None -> reload a st f = st).
Proof. intros a st f. split; [intro z; apply reload_success|apply reload_failure]. Qed.
Print Assumptions C19_reload_all_or_nothing.

(* After a successful reload nothing of the old state survives: the new state is a function of the
   files alone (removed records are gone, added ones present, because the state IS [load a f]). *)
Theorem C19_reload_forgets_old : forall a st st' f,
  load a f <> None -> reload a st f = reload a st' f.
Proof. exact reload_forgets. Qed.
Print Assumptions C19_reload_forgets_old.

(* Any interleaving of queries and reloads: every query is answered, in order, and each reply is the
   reply [query s q] of exactly one state s of the history; every state of the history is the
   initial configuration or the result of ONE successful load -- never a mixture of two. *)
Theorem C19_query_sees_one_config : forall a st evs,
  Forall2 (fun q r => exists s, In s (states a st evs) /\ r = query s q) (queries evs) (run a st evs) /\
  (forall s, In s (states a st evs) -> s = st \/ exists f, In (EvReload f) evs /\ load a f = Some s).
Proof. intros a st evs. split; [apply run_one_state|intros s; apply states_origin]. Qed.
Print Assumptions C19_query_sees_one_config.

(* the hypotheses are satisfiable: a loadable and an unloadable file system for the same arguments *)
Example C19_example : forall st,
  reload ex_args st ex_fs_bad = st /\ load ex_args ex_fs <> None /\ reload ex_args st ex_fs = reload ex_args [] ex_fs.
Proof. exact ex_reload. Qed.

(* ====================================================================== *)
(* reload over TEXT: C19 composed with C12 / C11 / C14 (Config/ConfigText.v) *)
(* ====================================================================== *)
From RV Require Import Config.ConfigText.
From RV Require Hosts.HostsModel ZoneFile.ZoneFileModel.

(* One iteration of reload_task over the files as TEXT ([reload_text ip a st t] = reload after
   zone_from_file / hosts_from_file = read_to_string + Zone::deserialise / Hosts::deserialise on every
   file).  "Nothing" is characterised on the texts themselves: the previous state stays -- all of it --
   exactly when a directory cannot be listed, a file of the effective sequence cannot be read, or a
   parser returns an error on a file's text (one bad file among many good ones keeps everything);
   otherwise the state becomes the freshly loaded configuration, whatever it was before.  No premise:
   the parsers are total and the names they produce well formed. *)
Theorem C19_reload_text_all_or_nothing : forall ip a st t,
  let bad :=
    (exists d, In d (a_zone_dirs a ++ a_hosts_dirs a) /\ alookup leqb d (tfs_dirs t) = None) \/
    (exists r, In r (tzone_seq a t) /\
               (tfs_read t r = None \/ exists s e, tfs_read t r = Some s /\ ZoneFileModel.deserialise ip s = Err e)) \/
    (exists r, In r (thosts_seq a t) /\
               (tfs_read t r = None \/ exists s e, tfs_read t r = Some s /\ HostsModel.deserialise s = Err e)) in
  (bad -> load_text ip a t = None /\ reload_text ip a st t = st)
  /\ (~ bad -> exists z, load_text ip a t = Some z /\ reload_text ip a st t = z /\ forall st', reload_text ip a st' t = z).
Proof. exact reload_text_all_or_nothing. Qed.
Print Assumptions C19_reload_text_all_or_nothing.

(* any interleaving of queries and SIGUSR1s over text file systems: every reply is computed from ONE
   state of the history, and every state is the initial one or the COMPLETE load of one text file
   system none of whose files was bad *)
Theorem C19_text_query_sees_one_config : forall ip a st evs,
  Forall2 (fun q r => exists s, In s (states_text ip a st evs) /\ r = query s q)
          (flat_map (fun e => match e with TEvQuery q => [q] | TEvReload _ => [] end) evs) (run_text ip a st evs)
  /\ (forall s, In s (states_text ip a st evs) ->
        s = st \/ exists t, In (TEvReload t) evs /\ load_text ip a t = Some s /\ ~ text_config_bad ip a t).
Proof. exact run_text_one_config. Qed.
Print Assumptions C19_text_query_sees_one_config.

(* the hypotheses are satisfiable: a loadable and an unloadable text file system for the same arguments *)
Example C19_text_example : forall st,
  reload_text ZfInstance.zf_codec ex_targs st ex_tfs_bad = st
  /\ load_text_zf ex_targs ex_tfs <> None
  /\ reload_text ZfInstance.zf_codec ex_targs st ex_tfs = reload_text ZfInstance.zf_codec ex_targs [] ex_tfs.
Proof.
  intro st. split; [apply reload_failure; exact (proj1 ex_text_bad)|].
  assert (H : load_text_zf ex_targs ex_tfs <> None) by (vm_compute; discriminate).
  split; [exact H|]. apply reload_forgets. exact H.
Qed.

(* ====================================================================== *)
(* reload and queries as concurrent tasks around zones_lock                 *)
(* ====================================================================== *)
From RV Require Base.Locks Config.ConfigConcurrent.

(* [ConfigConcurrent.crun a F st0 cevs]: the server after the schedule [cevs] -- any list of: time
   passes; SIGUSR1 handled with the files as in f (the load happens outside the lock; only a
   successful load goes on to the write lock); handler t receives question q (and goes for the read
   lock); a task tries to acquire; a task takes its next step (the reload stores its value; a handler
   reads the configuration once more); a task releases.  [F seen q] is what a handler computes from
   the values it read; the only assumption is that on reads that all gave the same configuration it
   is [query] of that configuration.

   Every reply went to a question that was asked, and -- if the handler looked at the configuration
   at all -- is [query v q] for ONE configuration v, which is the initial one or the complete result
   [load a f] of one delivered SIGUSR1: entirely old or entirely new, never a mixture, wherever the
   reload falls between the handler's reads. *)
Theorem C19_concurrent_query_sees_one_config : forall a F,
  (forall s seen q, seen <> [] -> Forall (eq s) seen -> F seen q = query s q) ->
  forall st0 cevs t q seen o,
  In (Locks.RRet state state question (option (res unit answer)) t q seen o)
     (Locks.rets _ _ _ _ (ConfigConcurrent.crun a F st0 cevs)) ->
    (exists t', t = Datatypes.S t' /\ In (ConfigConcurrent.CQuery t' q) cevs) /\
    (seen <> [] ->
       exists v, o = Some (query v q) /\ In v (Locks.hist _ _ _ _ (ConfigConcurrent.crun a F st0 cevs)) /\
                 (v = st0 \/ exists f, In (ConfigConcurrent.CSignal f) cevs /\ load a f = Some v)) /\
    (seen = [] -> o = Some (F [] q)).
Proof. exact ConfigConcurrent.concurrent_query_sees_one_config. Qed.
Print Assumptions C19_concurrent_query_sees_one_config.

(* every configuration the server is ever in, under every schedule: the initial one or the complete
   result of one successful load *)
Theorem C19_concurrent_states_origin : forall a F st0 cevs v,
  In v (Locks.hist _ _ _ _ (ConfigConcurrent.crun a F st0 cevs)) ->
  v = st0 \/ exists f, In (ConfigConcurrent.CSignal f) cevs /\ load a f = Some v.
Proof. exact ConfigConcurrent.concurrent_states_origin. Qed.
Print Assumptions C19_concurrent_states_origin.

(* a SIGUSR1 whose load fails is, for the whole system, as if it had not been delivered *)
Theorem C19_concurrent_failed_reload_is_noop : forall a F st0 cevs1 f cevs2,
  load a f = None ->
  ConfigConcurrent.crun a F st0 (cevs1 ++ ConfigConcurrent.CSignal f :: cevs2) = ConfigConcurrent.crun a F st0 (cevs1 ++ cevs2).
Proof. exact ConfigConcurrent.concurrent_failed_reload_is_noop. Qed.
Print Assumptions C19_concurrent_failed_reload_is_noop.

(* the write lock excludes readers: while the reload task is inside its write section no handler is
   inside a read section (and vice versa) *)
Theorem C19_concurrent_writer_excludes_readers : forall a F st0 cevs t1 t2,
  let s := ConfigConcurrent.crun a F st0 cevs in
  Locks.holds_w _ _ _ _ (Locks.pcs _ _ _ _ s t1) -> ~ Locks.holds_r _ _ _ _ (Locks.pcs _ _ _ _ s t2).
Proof.
  intros a F st0 cevs t1 t2 s H1.
  exact (proj2 (Locks.mutual_exclusion _ _ _ _ _ _ st0 (flat_map (ConfigConcurrent.to_ev a) cevs) t1 t2 H1)).
Qed.
Print Assumptions C19_concurrent_writer_excludes_readers.

(* the model discriminates: a handler that took the read lock twice for one query could see two
   configurations; inside one section it cannot *)
Example C19_two_sections_can_differ :
  let s := Locks.run_sched nat nat unit (list nat) (fun _ _ z => (z, [])) (fun seen _ => seen)
             (Locks.init_sys nat nat unit (list nat) 0%nat)
             [Locks.CallR _ _ 1%nat tt; Locks.Acq _ _ 1%nat; Locks.Step _ _ 1%nat; Locks.Rel _ _ 1%nat;
              Locks.CallW _ _ 0%nat 7%nat; Locks.Acq _ _ 0%nat; Locks.Step _ _ 0%nat; Locks.Rel _ _ 0%nat;
              Locks.CallR _ _ 1%nat tt; Locks.Acq _ _ 1%nat; Locks.Step _ _ 1%nat; Locks.Rel _ _ 1%nat] in
  map (fun r => match r with Locks.RRet _ _ _ _ _ _ seen _ => seen | Locks.WRet _ _ _ _ _ => [] end) (Locks.rets _ _ _ _ s)
  = [[7%nat]; []; [0%nat]].
Proof. exact ConfigConcurrent.two_sections_can_differ. Qed.
