(* Properties/C19.v -- reload swaps the whole configuration or none of it.

   The model (Config/ConfigModel.v): the server's configuration is ONE value, [state = zones], the
   content of zones_lock.  A SIGUSR1 ([EvReload f], f = the file system as it is when the files are
   read) runs [load] -- C12's model of load_zone_configuration -- into a fresh value and assigns it
   only if it is [Some]; a query ([EvQuery q]) reads the state once and computes its whole reply
   from that value ([query], the model of resolve_and_build_response in authoritative-only mode).

   What is NOT in the model and is observed instead by the C19 stream against the real binary
   (vlib/p_c19.py, replies before / during / after every SIGUSR1): that tokio's RwLock makes the
   assignment atomic with respect to requests in flight, i.e. that the interleavings of the real
   process are the interleavings of [run].  In the model a reload and a query are single steps by
   construction. *)
From RV Require Import Base.Prelude Name.NameModel Wire.WireTypes Zone.ZoneModel Config.ConfigModel Config.ConfigProofs.

(* If every file loads the state becomes exactly the freshly loaded configuration; if any file or
   directory is unreadable or invalid ([load] = None, characterised by C12_load_none_iff_some_file_bad)
   the previous configuration stays fully in force. *)
Theorem C19_reload_all_or_nothing : forall a st f,
  (forall z, load a f = Some z -> reload a st f = z) /\
  (load a f = None -> reload a st f = st).
Proof. intros a st f. split; [intro z; apply reload_success|apply reload_failure]. Qed.
Print Assumptions C19_reload_all_or_nothing.

(* After a successful reload nothing of the old state survives: the new state is a function of the
   files alone (removed records are gone, added ones present, because the state IS [load a f]). *)
Theorem C19_reload_forgets_old : forall a st st' f,
  load a f <> None -> reload a st f = reload a st' f.
Proof. exact reload_forgets. Qed.
Print Assumptions C19_reload_forgets_old.

(* Any interleaving of queries and reloads: every query is answered, in order, and each reply is the
   reply [query s q] of exactly one state s of the history; every state of the history is the
   initial configuration or the result of ONE successful load -- never a mixture of two. *)
Theorem C19_query_sees_one_config : forall a st evs,
  Forall2 (fun q r => exists s, In s (states a st evs) /\ r = query s q) (queries evs) (run a st evs) /\
  (forall s, In s (states a st evs) -> s = st \/ exists f, In (EvReload f) evs /\ load a f = Some s).
Proof. intros a st evs. split; [apply run_one_state|intros s; apply states_origin]. Qed.
Print Assumptions C19_query_sees_one_config.

(* the hypotheses are satisfiable: a loadable and an unloadable file system for the same arguments *)
Example C19_example : forall st,
  reload ex_args st ex_fs_bad = st /\ load ex_args ex_fs <> None /\ reload ex_args st ex_fs = reload ex_args [] ex_fs.
Proof. exact ex_reload. Qed.
