(* Properties/C03.v -- property theorems for C03 (the wire decoder is total,
   bounded and accepts exactly well-formed messages); statements only.
   Each is closed by [exact lemma] and followed by Print Assumptions.

   [decode] is the model of Message::from_octets (Wire/WireModel.v); [Parses]
   is the relational grammar written from RFC 1035 section 4.1
   (Wire/WireGrammar.v).  Octets are [N] under the hypothesis that each is
   below 256 (DESIGN 3.2). *)
From RV Require Import Base.Prelude Base.Cursor Name.NameModel Name.NameSpec
  Wire.WireTypes Wire.WireModel Wire.WireGrammar Wire.WireDecodeProofs.

(* 1. total: never a panic, and the fuel of the model (16385 nested name
      decodings, 130 label-loop iterations) is never exhausted *)
Theorem C03_decode_total : forall bs,
  Forall (fun b => b < 256) bs -> decode bs <> Panic /\ decode bs <> OutOfFuel.
Proof. exact decode_total. Qed.
Print Assumptions C03_decode_total.

(* the hop bound behind it: a name starting at [pos] is decoded by at most
   min(pos, 16384) + 1 nested calls of DomainName::deserialise, because every
   pointer target is strictly below the start of the name being read and below
   2^14; any larger fuel changes nothing *)
Theorem C03_decode_name_hops : forall bs, Forall (fun b => b < 256) bs ->
  forall h pos, N.min pos 16384 < N.of_nat h ->
    decode_name h bs (at_offset bs pos) <> Panic /\ decode_name h bs (at_offset bs pos) <> OutOfFuel.
Proof. exact decode_name_hops. Qed.
Print Assumptions C03_decode_name_hops.

Theorem C03_decode_name_fuel_irrelevant : forall bs, Forall (fun b => b < 256) bs ->
  forall h1 h2 pos, N.min pos 16384 < N.of_nat h1 -> N.min pos 16384 < N.of_nat h2 ->
    decode_name h1 bs (at_offset bs pos) = decode_name h2 bs (at_offset bs pos).
Proof. exact decode_name_fuel_indep. Qed.
Print Assumptions C03_decode_name_fuel_irrelevant.

(* 2. bounded work: DESIGN T.2 ([decode_steps]: at most c * (|bs|+1) * 16384 cursor
      operations) is proved at the end of this file (section 2', c = 769); the
      hop bound above is the part of it that concerns the recursion depth. *)

(* 3. every error carries the first two octets as id when they exist, none otherwise *)
Theorem C03_decode_err_id : forall bs e, decode bs = Err e ->
  (2 <= llen bs -> exists a b, at_ bs 0 = Some a /\ at_ bs 1 = Some b /\ werr_id e = Some (a * 256 + b))
  /\ (llen bs < 2 -> werr_id e = None).
Proof. exact decode_err_id. Qed.
Print Assumptions C03_decode_err_id.

Theorem C03_decode_short : forall bs, llen bs < 2 -> decode bs = Err (CompletelyBusted, None).
Proof. exact decode_short. Qed.
Print Assumptions C03_decode_short.

(* 4. accepts exactly the well-formed messages, and decodes them to what the grammar says *)
Theorem C03_decode_sound : forall bs m,
  Forall (fun b => b < 256) bs -> decode bs = Ok m -> Parses bs m.
Proof. exact decode_sound. Qed.
Print Assumptions C03_decode_sound.

Theorem C03_decode_complete : forall bs m,
  Forall (fun b => b < 256) bs -> Parses bs m -> decode bs = Ok m.
Proof. exact decode_complete. Qed.
Print Assumptions C03_decode_complete.

Theorem C03_decode_exact : forall bs, Forall (fun b => b < 256) bs ->
  (forall m, decode bs = Ok m <-> Parses bs m)
  /\ ((exists e, decode bs = Err e) <-> ~ exists m, Parses bs m).
Proof.
  intros bs Hbs. split.
  - intro m. split; [apply decode_sound | apply decode_complete]; exact Hbs.
  - destruct (decode_total bs Hbs) as [HP HF]. split.
    + intros [e He] [m Hm]. apply (decode_complete bs m Hbs) in Hm. congruence.
    + intro Hno. destruct (decode bs) as [m|e| |] eqn:Ed; try contradiction.
      * exfalso. apply Hno. exists m. apply decode_sound; assumption.
      * exists e. reflexivity.
Qed.
Print Assumptions C03_decode_exact.

(* 5. what is decoded is a well-formed message value (names satisfy C16's wf_name,
      integers in range, RDATA shape fits the type code) *)
Theorem C03_decode_wf : forall bs m,
  Forall (fun b => b < 256) bs -> decode bs = Ok m -> wf_message m.
Proof. exact decode_wf. Qed.
Print Assumptions C03_decode_wf.

(* ---- the hypotheses are satisfiable: a response with two answers whose owner
        names are compression pointers to the question name ---- *)
Definition ex_bytes : list byte :=
  [18; 52; 133; 128; 0; 1; 0; 2; 0; 0; 0; 0; 3; 119; 119; 119; 7; 101; 120; 97; 109; 112; 108; 101; 3; 99; 111; 109; 0; 0; 1; 0; 1; 192; 12; 0; 1; 0; 1; 0; 0; 1; 44; 0; 4; 1; 2; 3; 4; 192; 12; 0; 15; 0; 1; 0; 0; 1; 44; 0; 20; 0; 10; 4; 109; 97; 105; 108; 7; 101; 120; 97; 109; 112; 108; 101; 3; 99; 111; 109; 0].

Definition ex_www : dname := {| labels := [[119; 119; 119]; [101; 120; 97; 109; 112; 108; 101]; [99; 111; 109]; []]; nlen := 17 |}.
Definition ex_mail : dname := {| labels := [[109; 97; 105; 108]; [101; 120; 97; 109; 112; 108; 101]; [99; 111; 109]; []]; nlen := 18 |}.

Definition ex_msg : message :=
  {| m_header := {| h_id := 4660; h_qr := true; h_opcode := 0; h_aa := true; h_tc := false; h_rd := true;
                    h_ra := true; h_rcode := 0 |};
     m_questions := [ {| q_name := ex_www; q_type := 1; q_class := 1 |} ];
     m_answers := [ {| rr_name := ex_www; rr_type := 1; rr_class := 1; rr_ttl := 300; rr_data := RD_A 16909060 |};
                    {| rr_name := ex_www; rr_type := 15; rr_class := 1; rr_ttl := 300; rr_data := RD_MX 10 ex_mail |} ];
     m_authority := []; m_additional := [] |}.

Lemma ex_bytes_small : Forall (fun b => b < 256) ex_bytes.
Proof.
  apply Forall_forall. intros b Hb.
  assert (H := proj1 (forallb_forall (fun b => b <? 256) ex_bytes) eq_refl b Hb).
  apply N.ltb_lt in H. exact H.
Qed.

Example C03_example_decodes : decode ex_bytes = Ok ex_msg.
Proof. vm_compute. reflexivity. Qed.

Example C03_example_parses : Parses ex_bytes ex_msg /\ wf_message ex_msg.
Proof.
  split; [apply C03_decode_sound | apply (C03_decode_wf ex_bytes)];
    first [exact ex_bytes_small | exact C03_example_decodes].
Qed.

(* a name that is a pointer to itself is rejected, with the id *)
Example C03_example_selfloop :
  decode [18; 52; 1; 0; 0; 1; 0; 0; 0; 0; 0; 0; 3; 119; 119; 119; 192; 12; 0; 1; 0; 1]
  = Err (DomainPointerInvalid, Some 4660).
Proof. vm_compute. reflexivity. Qed.

(* ------------------------------------------------------------------ *)
(* 2'. bounded work (DESIGN T.2, decode_steps)                          *)
(* ------------------------------------------------------------------ *)
From RV Require Import Wire.WireDecodeSteps.

(* [decode_c] (Wire/WireDecodeSteps.v) is the decoder written again with a
   counter of cursor operations (calls of next_u8 / next_u16 / next_u32 / take,
   the only primitives that read the buffer); its result component is [decode] *)
Theorem C03_decode_steps_result : forall bs, fst (decode_c bs) = decode bs.
Proof. exact decode_c_result. Qed.
Print Assumptions C03_decode_steps_result.

(* the number of cursor operations of one decoding is at most
   769 * (|bs| + 1) * 16384: no count field, pointer or label can make the
   decoder do more work than that *)
Theorem C03_decode_steps : forall bs, Forall (fun b => b < 256) bs ->
  snd (decode_c bs) <= 769 * (llen bs + 1) * 16384.
Proof. exact decode_steps. Qed.
Print Assumptions C03_decode_steps.

(* the part of it that concerns one name, with no hypothesis at all: a name
   whose first octet is at [cpos c] costs at most 256 operations (128 label
   iterations) per nested call and makes at most min (cpos c + 1, hops) calls *)
Theorem C03_decode_name_steps : forall bs h c,
  fst (decode_name_c h bs c) = decode_name h bs c
  /\ snd (decode_name_c h bs c) <= 256 * N.min (cpos c + 1) (N.of_nat h).
Proof. intros bs h c. split; [apply decode_name_c_fst | apply decode_name_c_cost]. Qed.
Print Assumptions C03_decode_name_steps.

(* a message that decodes has room for every entry it lists (5 octets at least
   per question, 11 per record, after the 12 of the header): the four counts
   cannot make the loops run longer than the input *)
Theorem C03_decode_ok_sizes : forall bs m, Forall (fun b => b < 256) bs -> decode bs = Ok m ->
  12 + 5 * llen (m_questions m)
     + 11 * (llen (m_answers m) + llen (m_authority m) + llen (m_additional m)) <= llen bs.
Proof. exact decode_ok_sizes. Qed.
Print Assumptions C03_decode_ok_sizes.

(* the counter on the example message: 7 operations for the header and the
   counts, 9 for the question (7 of them in its name), 14 and 21 for the two
   answers (9 each for the owner name: 2 for the pointer, 7 for its target) *)
Example C03_example_steps : decode_c ex_bytes = (Ok ex_msg, 51).
Proof. vm_compute. reflexivity. Qed.
