(* Properties/C03.v -- property theorems for C03; statements only. *)
From RV Require Import Base.Prelude Base.Cursor Name.NameModel Name.NameSpec
  Wire.WireTypes Wire.WireModel Wire.WireGrammar Wire.WireDecodeProofs.

Theorem C03_decode_short : forall bs, llen bs < 2 -> decode bs = Err (CompletelyBusted, None).
Proof. exact decode_short. Qed.
Print Assumptions C03_decode_short.
