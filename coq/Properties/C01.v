(* Properties/C01.v -- property theorems for C01 (local zone and hosts data always win),
   LOCAL PART: zones + cache, i.e. local::resolve_local and dns_resolver::resolve in
   authoritative-only mode.  Statements only; each is closed by [exact lemma] and followed by
   Print Assumptions.

   The property also speaks about the recursive and forwarding modes ("no upstream server is
   contacted for a question local data answers", "nothing from an upstream server is used for
   names the zone owns").  Those clauses -- done_means_no_upstream, log_names_not_owned (DESIGN
   section 5, C01 items 4) and the rcode mapping of the server -- are added by the resolver
   subsystem (Resolver/RecursiveModel.v), whose models call [resolve_local]; theorems below that
   will get a network-mode sibling carry the suffix [_local].

   Reading guide.  [owned_by zs n z]: [z] is the zone Zones::get picks for [n] (the longest
   configured apex enclosing it), it has a SOA, and [n] is not at/beneath one of its delegation
   points.  [guards_pass stack q]: the question passes the two guards every call starts with
   (recursion limit, duplicate question); [guards_pass [] q] always holds.  What a single zone
   answers for a name ([zones_resolve] = Zones::get + Zone::resolve) is C02's subject; the
   theorems here say what resolve_local makes of it. *)
From RV Require Import Base.Prelude Name.NameModel Name.NameSpec Wire.WireTypes Zone.ZoneModel
     Resolver.LocalModel Resolver.LocalSpec Resolver.LocalProofs.

(* 1. An owned name is answered by its zone alone: exactly the zone's RRs with the zone's SOA,
   marked authoritative; or a name error with the zone's SOA; or, when the zone holds an alias for
   the name, a reply that starts with the zone's CNAME RR and continues with the resolution of the
   target (deviation D2: the reply is authoritative iff the whole chain is).  Never a referral,
   never anything from the cache (the right-hand sides do not mention [cget] for the name). *)
Theorem C01_auth_zone_alone_local : forall zs cget f stack q z,
  owned_by zs (q_name q) z -> guards_pass stack q ->
  exists soa_rr, zone_soa_rr z = Some soa_rr /\
  exists r, zones_resolve zs (q_name q) (q_type q) = Some (z, r) /\
  match r with
  | Ok (ZAnswer rrs) => resolve_local zs cget (S f) stack q = Ok (LDone (Authoritative rrs soa_rr))
  | Ok ZNameError => resolve_local zs cget (S f) stack q = Ok (LDone (AuthoritativeNameError soa_rr))
  | Ok (ZCname c cr) =>
    resolve_local zs cget (S f) stack q =
    zcombine cr (subq q c) (resolve_local zs cget f (stack ++ [q]) (subq q c))
  | Ok (ZDelegation _) => False
  | Panic => resolve_local zs cget (S f) stack q = Panic
  | _ => False
  end.
Proof. exact auth_zone_alone. Qed.
Print Assumptions C01_auth_zone_alone_local.

Theorem C01_owned_never_referral : forall zs n z qt r,
  owned_by zs n z -> zones_resolve zs n qt = Some (z, r) -> forall ns, r <> Ok (ZDelegation ns).
Proof. exact owned_no_delegation. Qed.
Print Assumptions C01_owned_never_referral.

(* 2. Nothing cached is ever used for a name whose most specific zone is authoritative: two cache
   states that agree on all other names give the same result for every question, stack and fuel.
   (Stronger than asked: the names where the caches may differ include those beneath delegation
   points of authoritative zones.) *)
Theorem C01_cache_noninterference_local : forall zs c1 c2,
  cache_agree_outside (in_auth_zone zs) c1 c2 ->
  forall f stack q, resolve_local zs c1 f stack q = resolve_local zs c2 f stack q.
Proof. exact cache_noninterference. Qed.
Print Assumptions C01_cache_noninterference_local.

Theorem C01_cache_noninterference_owned_local : forall zs c1 c2,
  cache_agree_outside (owned_auth zs) c1 c2 ->
  forall f stack q, resolve_local zs c1 f stack q = resolve_local zs c2 f stack q.
Proof. exact cache_noninterference_owned. Qed.
Print Assumptions C01_cache_noninterference_owned_local.

(* ... nor is a less specific zone: the zone consulted for a name is the one with the longest apex
   enclosing it, and the zone phase is that zone's own lookup *)
Theorem C01_longest_zone_only : forall zs n qt z r,
  wf_name n -> zones_resolve zs n qt = Some (z, r) ->
  (exists k, In (k, z) zs /\ is_suffix (labels k) (labels n) /\
     forall k' z', In (k', z') zs -> wf_name k' -> is_suffix (labels k') (labels n) ->
                   (length (labels k') <= length (labels k))%nat)
  /\ r = match zone_resolve z n qt with Some r' => r' | None => Panic end.
Proof. exact longest_zone_only. Qed.
Print Assumptions C01_longest_zone_only.

(* 3. A non-authoritative zone (hosts file, blocklist) holding records of the asked name and type:
   exactly those records are the reply, whatever the cache holds. *)
Theorem C01_override_exact : forall zs cget f stack q z rrs,
  guards_pass stack q ->
  zones_resolve zs (q_name q) (q_type q) = Some (z, Ok (ZAnswer rrs)) ->
  z_soa z = None -> q_type q <> QT_Wildcard -> rrs <> [] ->
  resolve_local zs cget (S f) stack q = Ok (LDone (NonAuthoritative rrs None)).
Proof. exact override_exact. Qed.
Print Assumptions C01_override_exact.

(* For QTYPE * the zone's records come first, untouched, and cached records are merged in behind
   them by [prioritising_merge], which drops every RR whose (name, type) the zone has. *)
Theorem C01_override_any : forall zs cget f stack q z rrs l,
  guards_pass stack q ->
  zones_resolve zs (q_name q) (q_type q) = Some (z, Ok (ZAnswer rrs)) ->
  z_soa z = None -> q_type q = QT_Wildcard ->
  resolve_local zs cget (S f) stack q = Ok l ->
  exists from_cache,
    l = LPartial (prioritising_merge rrs from_cache) \/
    exists cq, l = LCname (prioritising_merge rrs from_cache) cq.
Proof. exact override_any. Qed.
Print Assumptions C01_override_any.

Theorem C01_prioritising_merge_spec : forall priority new,
  prioritising_merge_spec priority new (prioritising_merge priority new).
Proof. exact prioritising_merge_meets_spec. Qed.
Print Assumptions C01_prioritising_merge_spec.

(* 5. A name error is reported only when the authoritative zone selected for the *question name*
   returned NameError, with that zone's SOA.  In particular not through an alias: a CNAME whose
   target does not exist yields [Authoritative [cname RR] soa] (see [zcombine]).  The server's
   rcode mapping on top of this is the server subsystem's. *)
Theorem C01_nxdomain_only_from_auth_zone_local : forall zs cget f stack q s,
  resolve_local zs cget f stack q = Ok (LDone (AuthoritativeNameError s)) ->
  exists z, zones_resolve zs (q_name q) (q_type q) = Some (z, Ok ZNameError) /\ zone_soa_rr z = Some s
            /\ in_auth_zone zs (q_name q).
Proof. exact nxdomain_only_from_auth_zone. Qed.
Print Assumptions C01_nxdomain_only_from_auth_zone_local.

Theorem C01_nxdomain_resolved_local : forall zs cget q s,
  resolve_authoritative_only zs cget q = Ok (AuthoritativeNameError s) ->
  exists z, zones_resolve zs (q_name q) (q_type q) = Some (z, Ok ZNameError) /\ zone_soa_rr z = Some s
            /\ in_auth_zone zs (q_name q).
Proof. exact nxdomain_resolved. Qed.
Print Assumptions C01_nxdomain_resolved_local.

(* Totality: with LOCAL_FUEL the model never runs out of fuel (each recursive call pushes one
   question and the stack is bounded by RECURSION_LIMIT = 32), and it panics only if the zone
   model does (Zones::resolve's unwrap, from_labels(..).unwrap() on an over-long wildcard name,
   the non-CNAME-under-CNAME panic! -- C02's subject). *)
Theorem C01_no_panic_no_fuel : forall zs cget q,
  resolve_local zs cget LOCAL_FUEL [] q <> OutOfFuel /\
  (resolve_local zs cget LOCAL_FUEL [] q = Panic -> zone_panics zs).
Proof. intros zs cget q. split; [apply no_fuel|apply resolve_local_panic]. Qed.
Print Assumptions C01_no_panic_no_fuel.

Theorem C01_authoritative_only_total : forall zs cget q,
  resolve_authoritative_only zs cget q <> OutOfFuel /\
  (resolve_authoritative_only zs cget q = Panic -> zone_panics zs).
Proof. exact authoritative_only_total. Qed.
Print Assumptions C01_authoritative_only_total.

(* the hypotheses are satisfiable: a worked configuration (LocalProofs.LocalExample) *)
Example C01_example_owned : owned_by LocalExample.ex_zones LocalExample.n_wec LocalExample.z_ec.
Proof. exact LocalExample.ex_owned. Qed.
Example C01_example_caches_differ_only_at_owned_name :
  cache_agree_outside (in_auth_zone LocalExample.ex_zones) LocalExample.ex_cget LocalExample.ex_cget'
  /\ LocalExample.ex_cget LocalExample.n_wec RT_A <> LocalExample.ex_cget' LocalExample.n_wec RT_A.
Proof. split; [exact LocalExample.ex_agree|exact LocalExample.ex_differ]. Qed.

(* ====================================================================== *)
(* network modes: the recursive and the forwarding resolver                 *)
(* (lemmas: Resolver/RecursiveProofs.v, Resolver/ForwardingProofs.v)        *)
(* ====================================================================== *)
From RV Require Import Resolver.TransportModel Resolver.RecursiveModel Resolver.ForwardingModel
     Resolver.RecursiveProofs Resolver.ForwardingProofs.

(* 4a. done_means_no_upstream: a question that local resolution answers ([LDone]: an authoritative
   zone's answer or name error, an override from a hosts file / non-authoritative zone, a complete
   answer from zones + cache) is returned as it is by both network modes, and NOTHING else happens:
   the state -- cache, clock, exchange log, exchange counter -- is unchanged.  Every oracle. *)
Theorem C01_done_means_no_upstream_recursive :
  forall (cache : Type) (cache_get : cache -> dname -> N -> list rr) (cache_insert_all : cache -> list rr -> cache)
         (sort_names : list dname -> list dname) (zs : zones) (o : oracle) (pmode : protocol_mode) (port : N) fuel q st r,
  resolve_local zs (cache_get (fst st)) LOCAL_FUEL [] q = Ok (LDone r) ->
  resolve_recursive cache cache_get cache_insert_all sort_names zs o pmode port (S fuel) q st = (Ok r, st).
Proof. exact recursive_done_no_upstream. Qed.
Print Assumptions C01_done_means_no_upstream_recursive.

Theorem C01_done_means_no_upstream_forwarding :
  forall (cache : Type) (cache_get : cache -> dname -> N -> list rr) (cache_insert_all : cache -> list rr -> cache)
         (zs : zones) (o : oracle) (forwarder : addr) fuel q st r,
  resolve_local zs (cache_get (fst st)) LOCAL_FUEL [] q = Ok (LDone r) ->
  resolve_forwarding cache cache_get cache_insert_all zs o forwarder (S fuel) q st = (Ok r, st).
Proof. exact forwarding_done_no_upstream. Qed.
Print Assumptions C01_done_means_no_upstream_forwarding.

(* 4b. log_names_not_owned: no question sent upstream during a resolution -- for the question
   itself, for an alias target, for the address of a nameserver host -- is about a name that an
   authoritative zone owns ([owned_auth], Resolver/LocalSpec.v).  An alias leaving the zone sends
   the resolver upstream for the TARGET; a name beneath a delegation point of an authoritative
   zone is not owned by definition.  Every oracle, cache, fuel.  (Checked for a counterexample
   first: QTYPE * on an owned alias is answered by the zone with the CNAME record itself, and for
   every other type local resolution of an owned name is Done or an alias to follow --
   owned_local_cases.) *)
Theorem C01_log_names_not_owned_recursive :
  forall (cache : Type) (cache_get : cache -> dname -> N -> list rr) (cache_insert_all : cache -> list rr -> cache)
         (sort_names : list dname -> list dname) (zs : zones) (o : oracle) (pmode : protocol_mode) (port : N) fuel q st,
  exists new,
    ts_rlog (snd (snd (resolve_recursive cache cache_get cache_insert_all sort_names zs o pmode port fuel q st)))
    = new ++ ts_rlog (snd st)
    /\ Forall (fun e => ~ owned_auth zs (q_name (x_question e))) new.
Proof. exact recursive_log_names_not_owned. Qed.
Print Assumptions C01_log_names_not_owned_recursive.

Theorem C01_log_names_not_owned_forwarding :
  forall (cache : Type) (cache_get : cache -> dname -> N -> list rr) (cache_insert_all : cache -> list rr -> cache)
         (zs : zones) (o : oracle) (forwarder : addr) fuel q st,
  exists new,
    ts_rlog (snd (snd (resolve_forwarding cache cache_get cache_insert_all zs o forwarder fuel q st)))
    = new ++ ts_rlog (snd st)
    /\ Forall (fun e => ~ owned_auth zs (q_name (x_question e))) new.
Proof. exact forwarding_log_names_not_owned. Qed.
Print Assumptions C01_log_names_not_owned_forwarding.

(* what local resolution makes of a question about an owned name (the fact behind 4b) *)
Theorem C01_owned_local_cases : forall zs cget f stack q,
  owned_auth zs (q_name q) -> guards_pass stack q ->
  (exists r, resolve_local zs cget (S f) stack q = Ok (LDone r))
  \/ (exists rrs cq, resolve_local zs cget (S f) stack q = Ok (LCname rrs cq))
  \/ resolve_local zs cget (S f) stack q = Panic \/ resolve_local zs cget (S f) stack q = OutOfFuel.
Proof. exact owned_local_cases. Qed.
Print Assumptions C01_owned_local_cases.

(* 5. nxdomain_only_from_auth_zone in the network modes: the resolvers return
   AuthoritativeNameError only when local resolution did (then C01_nxdomain_only_from_auth_zone_local
   applies: an authoritative zone returned NameError for the question name), and nothing was sent.
   Whatever an upstream server says comes back as NonAuthoritative -- a name error it reports is an
   empty answer with its SOA. *)
Theorem C01_nxdomain_only_from_auth_zone_recursive :
  forall (cache : Type) (cache_get : cache -> dname -> N -> list rr) (cache_insert_all : cache -> list rr -> cache)
         (sort_names : list dname -> list dname) (zs : zones) (o : oracle) (pmode : protocol_mode) (port : N) fuel q st s st',
  resolve_recursive cache cache_get cache_insert_all sort_names zs o pmode port fuel q st = (Ok (AuthoritativeNameError s), st') ->
  resolve_local zs (cache_get (fst st)) LOCAL_FUEL [] q = Ok (LDone (AuthoritativeNameError s)) /\ st' = st.
Proof. exact recursive_nxdomain_only_local. Qed.
Print Assumptions C01_nxdomain_only_from_auth_zone_recursive.

Theorem C01_nxdomain_only_from_auth_zone_forwarding :
  forall (cache : Type) (cache_get : cache -> dname -> N -> list rr) (cache_insert_all : cache -> list rr -> cache)
         (zs : zones) (o : oracle) (forwarder : addr) fuel q st s st',
  resolve_forwarding cache cache_get cache_insert_all zs o forwarder fuel q st = (Ok (AuthoritativeNameError s), st') ->
  resolve_local zs (cache_get (fst st)) LOCAL_FUEL [] q = Ok (LDone (AuthoritativeNameError s)) /\ st' = st.
Proof. exact forwarding_nxdomain_only_local. Qed.
Print Assumptions C01_nxdomain_only_from_auth_zone_forwarding.

(* the hypothesis of 4a is met by the worked configuration of the local part: the owned name
   w.e.c. is answered locally, so the network modes return that answer with an untouched state *)
Example C01_example_done_no_upstream : forall (o : oracle) pmode port fuel ts,
  exists r,
    resolve_recursive scache sc_get sc_insert_all sort_names_ord LocalExample.ex_zones o pmode port (S fuel)
                      (LocalExample.qa LocalExample.n_wec) (sc_empty, ts) = (Ok r, (sc_empty, ts)).
Proof.
  intros o pmode port fuel ts.
  destruct (resolve_local LocalExample.ex_zones (sc_get sc_empty) LOCAL_FUEL [] (LocalExample.qa LocalExample.n_wec)) as [[r| | |]| | |] eqn:E;
    try (vm_compute in E; discriminate).
  exists r. apply recursive_done_no_upstream. exact E.
Qed.

(* ====================================================================== *)
(* 6. an upstream alias chain that leads into a locally authoritative name  *)
(*    is cut there (fix b2bc3c2; lemmas: Resolver/CutFacts.v)               *)
(* ====================================================================== *)
From RV Require Import Wire.WireModel Resolver.ValidateModel Resolver.Universe.

(* cut_at_local_authority, against the specification: it never panics, and
   - leaves the response as it is when it is a Delegation, or when every record of the Answer / CNAME
     response is owned by the question name or by a name no authoritative local zone encloses
     ([in_auth_zone]: the longest configured apex enclosing the name has a SOA);
   - otherwise makes it the CNAME response holding exactly the records BEFORE the first record [r]
     whose owner is another name inside an authoritative local zone, to be continued at that owner:
     the rest of the chain is resolved by the resolver itself -- for an owned name, by the zone
     (C01_auth_zone_alone_local), without asking upstream (C01_log_names_not_owned_recursive). *)
Theorem C01_cut_sound : forall zs q nr,
  exists nr', cut_at_local_authority zs q nr = Ok nr' /\
    ((nr' = nr /\ ((exists x y, nr = NRDelegation x y)
                   \/ forall r, In r (nr_rrs nr) -> rr_name r = q_name q \/ ~ in_auth_zone zs (rr_name r)))
     \/ (exists i r, (forall x y, nr <> NRDelegation x y) /\ nth_error (nr_rrs nr) i = Some r
           /\ rr_name r <> q_name q /\ in_auth_zone zs (rr_name r)
           /\ (forall x, In x (firstn i (nr_rrs nr)) -> rr_name x = q_name q \/ ~ in_auth_zone zs (rr_name x))
           /\ nr' = NRCname (firstn i (nr_rrs nr)) (rr_name r))).
Proof.
  intros zs q nr. destruct (cut_ok zs q nr) as (nr' & E & Hs). exists nr'. split; [exact E|].
  destruct Hs as [H|i r Hnd Hn Ho Hf].
  - left. split; [reflexivity|]. destruct nr as [rrs s|rrs c|rrs d]; [right|right|left; eauto]; intros r Hr;
      (destruct (H r Hr) as [(x & y & E')|H1]; [discriminate|apply owned_elsewhere_false_spec, H1]).
  - right. exists i, r. split; [exact Hnd|]. split; [exact Hn|].
    destruct (owned_elsewhere_true_spec _ _ _ Ho) as [H1 H2]. split; [exact H1|]. split; [exact H2|].
    split; [|reflexivity]. intros x Hx. apply owned_elsewhere_false_spec, Hf, Hx.
Qed.
Print Assumptions C01_cut_sound.

(* recursive mode, one upstream reply: resolve_with_nameserver_response caches and merges the
   response AFTER the cut -- so of an Answer / CNAME reply only records owned by the question name
   or by a name outside every authoritative local zone are cached or returned from that reply; the
   rest of its chain is the result of the nested resolution that starts at the first owner cut *)
Theorem C01_upstream_chain_cut_recursive :
  forall (cache : Type) (cache_insert_all : cache -> list rr -> cache) (zs : zones)
         (rec : list question -> question -> RM cache rres) stack combined nr q,
  exists nr', cut_at_local_authority zs q nr = Ok nr'
    /\ resolve_with_nameserver_response cache cache_insert_all zs rec stack combined nr q
       = resolve_with_response_match cache cache_insert_all rec stack combined nr' q
    /\ (exists i, nr_rrs nr' = firstn i (nr_rrs nr))
    /\ ((exists x y, nr' = NRDelegation x y)
        \/ forall r, In r (nr_rrs nr') -> rr_name r = q_name q \/ ~ in_auth_zone zs (rr_name r)).
Proof.
  intros cache cache_insert_all zs rec stack combined nr q.
  destruct (rwnr_cut cache cache_insert_all zs rec stack combined nr q) as (nr' & Hs & E & Er).
  exists nr'. split; [exact E|]. split; [exact Er|]. split; [exact (cut_shape_prefix _ _ _ _ Hs)|].
  destruct nr' as [rrs s|rrs c|rrs d]; [right|right|left; eauto]; intros r Hr;
    apply owned_elsewhere_false_spec; eapply (cut_sound zs q nr); try exact E; try exact Hr; discriminate.
Qed.
Print Assumptions C01_upstream_chain_cut_recursive.

(* ... and over a WHOLE recursive resolution, on a cache that remembers what was inserted: every
   argument of insert_all is a prefix of the records of a validated reply to some question q', and
   unless that reply is a referral (NS records and glue of a delegation; the cache is never read
   for a name inside an authoritative zone: C01_cache_noninterference_local) none of the records
   inserted is owned by another name inside an authoritative local zone *)
Theorem C01_upstream_cached_not_owned_recursive :
  forall (cache : Type) (cache_get : cache -> dname -> N -> list rr) (cache_insert_all : cache -> list rr -> cache)
         (sort_names : list dname -> list dname) (zs : zones) (o : oracle) (pmode : protocol_mode) (port : N)
         fuel q (c : cache) ts,
  let get' (c : cache * list (list rr)) := cache_get (fst c) in
  let ins' (c : cache * list (list rr)) rrs := (cache_insert_all (fst c) rrs, snd c ++ [rrs]) in
  Forall (fun rrs => exists q' resp mc nr i,
            validate_nameserver_response q' resp mc = Ok (Some nr) /\ rrs = firstn i (nr_rrs nr)
            /\ ((exists x y, nr = NRDelegation x y)
                \/ forall r, In r rrs -> rr_name r = q_name q' \/ ~ in_auth_zone zs (rr_name r)))
         (snd (fst (snd (resolve_recursive (cache * list (list rr)) get' ins' sort_names zs o pmode port fuel q ((c, []), ts))))).
Proof.
  intros cache cache_get cache_insert_all sort_names zs o pmode port fuel q c ts get' ins'.
  apply (recursive_cached_cut (cache * list (list rr)) get' ins' sort_names zs o pmode port
           (fun c' => Forall (fun rrs => exists q' resp mc nr i,
                                validate_nameserver_response q' resp mc = Ok (Some nr) /\ rrs = firstn i (nr_rrs nr)
                                /\ ((exists x y, nr = NRDelegation x y)
                                    \/ forall r, In r rrs -> rr_name r = q_name q' \/ ~ in_auth_zone zs (rr_name r))) (snd c'))).
  - intros c' q' resp mc nr i H Hv Hcut. subst ins'. cbn [snd]. apply Forall_app. split; [exact H|].
    constructor; [|constructor]. exists q', resp, mc, nr, i. split; [exact Hv|]. split; [reflexivity|].
    destruct Hcut as [Hd|Hn]; [left; exact Hd|right]. intros r Hr. apply owned_elsewhere_false_spec, Hn, Hr.
  - constructor.
Qed.
Print Assumptions C01_upstream_cached_not_owned_recursive.

(* forwarding mode, one reply of the forwarder: either no record of its answer section is owned by
   another name inside an authoritative local zone, and the section is cached and returned as
   before; or the records BEFORE the first such record [r] are cached and returned, followed by
   what the forwarding resolver itself makes of the question for [r]'s owner (question pushed on
   the stack; an error there is DeadEnd for that question) *)
Theorem C01_upstream_chain_cut_forwarding :
  forall (cache : Type) (cache_insert_all : cache -> list rr -> cache) (zs : zones) (o : oracle) (fa : addr)
         (rec : list question -> question -> RM cache rres) stack combined q st resp ts,
  query_nameserver o fa q true (snd st) = (Val (Some resp), ts) ->
  ((forall r, In r (m_answers resp) -> rr_name r = q_name q \/ ~ in_auth_zone zs (rr_name r))
   /\ forward_query cache cache_insert_all zs o fa rec stack combined q st
      = (Val (ROk (NonAuthoritative (prioritising_merge combined (m_answers resp)) (get_nxdomain_nodata_soa q resp 0))),
         (cache_insert_all (fst st) (m_answers resp), ts)))
  \/ (exists i r, nth_error (m_answers resp) i = Some r /\ rr_name r <> q_name q /\ in_auth_zone zs (rr_name r)
        /\ (forall x, In x (firstn i (m_answers resp)) -> rr_name x = q_name q \/ ~ in_auth_zone zs (rr_name x))
        /\ forward_query cache cache_insert_all zs o fa rec stack combined q st
           = fq_nested cache rec stack combined q (firstn i (m_answers resp)) (rr_name r)
                       (cache_insert_all (fst st) (firstn i (m_answers resp)), ts)).
Proof.
  intros cache cache_insert_all zs o fa rec stack combined q st resp ts Eq.
  destruct (fq_cases cache cache_insert_all zs o fa rec stack combined q st)
    as [(resp' & ts' & Eq' & Hn & E)|[(resp' & ts' & i & r & Eq' & Hn & Ho & Hp & E)|[(ts' & Eq' & E)|(w & ts' & Eq' & E)]]];
    rewrite Eq in Eq'; inversion Eq'; subst.
  - left. split; [|exact E]. intros r Hr. apply owned_elsewhere_false_spec, Hn, Hr.
  - right. exists i, r. split; [exact Hn|]. destruct (owned_elsewhere_true_spec _ _ _ Ho) as [H1 H2].
    split; [exact H1|]. split; [exact H2|]. split; [|exact E]. intros x Hx. apply owned_elsewhere_false_spec, Hp, Hx.
Qed.
Print Assumptions C01_upstream_chain_cut_forwarding.

(* ... and over a WHOLE forwarding resolution, on a cache that remembers what was inserted: every
   argument of insert_all is a prefix of the answer section of a reply the forwarder gave to some
   question q', holding no record owned by another name inside an authoritative local zone *)
Theorem C01_upstream_cached_not_owned_forwarding :
  forall (cache : Type) (cache_get : cache -> dname -> N -> list rr) (cache_insert_all : cache -> list rr -> cache)
         (zs : zones) (o : oracle) (fa : addr) fuel q (c : cache) ts,
  let get' (c : cache * list (list rr)) := cache_get (fst c) in
  let ins' (c : cache * list (list rr)) rrs := (cache_insert_all (fst c) rrs, snd c ++ [rrs]) in
  Forall (fun rrs => exists q' ts1 resp ts2 i,
            query_nameserver o fa q' true ts1 = (Val (Some resp), ts2) /\ rrs = firstn i (m_answers resp)
            /\ forall r, In r rrs -> rr_name r = q_name q' \/ ~ in_auth_zone zs (rr_name r))
         (snd (fst (snd (resolve_forwarding (cache * list (list rr)) get' ins' zs o fa fuel q ((c, []), ts))))).
Proof.
  intros cache cache_get cache_insert_all zs o fa fuel q c ts get' ins'.
  apply (forwarding_cached_cut (cache * list (list rr)) get' ins' zs o fa
           (fun c' => Forall (fun rrs => exists q' ts1 resp ts2 i,
                                query_nameserver o fa q' true ts1 = (Val (Some resp), ts2) /\ rrs = firstn i (m_answers resp)
                                /\ forall r, In r rrs -> rr_name r = q_name q' \/ ~ in_auth_zone zs (rr_name r)) (snd c'))).
  - intros c' q' ts1 resp ts2 i H Eq Hn. subst ins'. cbn [snd]. apply Forall_app. split; [exact H|].
    constructor; [|constructor]. exists q', ts1, resp, ts2, i. split; [exact Eq|]. split; [reflexivity|].
    intros r Hr. apply owned_elsewhere_false_spec, Hn, Hr.
  - constructor.
Qed.
Print Assumptions C01_upstream_cached_not_owned_forwarding.

(* ---- the old witness of finding upstream-chain-into-owned-name, replayed on the models ----
   local zones: the root hints (ns. at 10.0.0.1) and the AUTHORITATIVE zone ent.example.com. with
       a.ent.example.com. A 10.2.2.1
   upstream (10.0.0.1, also taken as the forwarder) answers portal.example.com. A with
       portal.example.com. CNAME a.ent.example.com.   a.ent.example.com. A 192.0.4.9
   Before the fix both modes returned upstream's 192.0.4.9 for the owned name; now the reply is cut
   after the CNAME, only the CNAME is cached, and the answer ends in the zone's 10.2.2.1 (with the
   zone's SOA, which the nested authoritative result carries), after ONE upstream exchange. *)
Definition c01_nm (ls : list label) : dname :=
  {| labels := ls ++ [[]]; nlen := fold_right (fun l acc => 1 + llen l + acc) 1 ls |}.
Definition c01_l_example : label := [101; 120; 97; 109; 112; 108; 101].
Definition c01_l_com : label := [99; 111; 109].
Definition c01_l_ent : label := [101; 110; 116].
Definition c01_root := c01_nm [].
Definition c01_ns := c01_nm [[110; 115]].                                               (* ns. *)
Definition c01_ent := c01_nm [c01_l_ent; c01_l_example; c01_l_com].                     (* ent.example.com. *)
Definition c01_a_ent := c01_nm [[97]; c01_l_ent; c01_l_example; c01_l_com].             (* a.ent.example.com. *)
Definition c01_portal := c01_nm [[112; 111; 114; 116; 97; 108]; c01_l_example; c01_l_com].  (* portal.example.com. *)
Definition c01_rr (n : dname) (t : N) (d : rdata) : rr :=
  {| rr_name := n; rr_type := t; rr_class := RC_IN; rr_ttl := 300; rr_data := d |}.
Definition c01_ip : N := 167772161.                                                     (* 10.0.0.1 *)
Definition c01_local_ip : N := 167903745.                                               (* 10.2.2.1 *)
Definition c01_upstream_ip : N := 3221226505.                                           (* 192.0.4.9 *)
Definition c01_soa : soa :=
  {| soa_mname := c01_ns; soa_rname := c01_ns; soa_serial := 1; soa_refresh := 60; soa_retry := 60;
     soa_expire := 60; soa_minimum := 300 |}.
Definition c01_zones : zones :=
  match (let* z1 := zone_insert false (zone_new c01_root None) c01_root RT_NS (RD_Name c01_ns) 3600 in
         let* z2 := zone_insert false z1 c01_ns RT_A (RD_A c01_ip) 3600 in
         let* e := zone_insert false (zone_new c01_ent (Some c01_soa)) c01_a_ent RT_A (RD_A c01_local_ip) 300 in
         Ok (zones_insert (zones_insert [] z2) e)) with
  | Ok zs => zs
  | _ => []
  end.
Definition c01_q (n : dname) : question := {| q_name := n; q_type := RT_A; q_class := RC_IN |}.
Definition c01_msg (q : question) (an : list rr) : list byte :=
  match encode (reply_message q {| sr_answers := an; sr_authority := []; sr_additional := []; sr_aa := true;
                                   sr_rcode := RCODE_NoError |}) with
  | Ok bs => bs
  | _ => []
  end.
Definition c01_upstream_answer : list rr :=
  [c01_rr c01_portal RT_CNAME (RD_Name c01_a_ent); c01_rr c01_a_ent RT_A (RD_A c01_upstream_ip)].
Definition c01_table : table :=
  [ ((inl c01_ip, c01_q c01_portal), c01_msg (c01_q c01_portal) c01_upstream_answer) ].
Definition c01_run (mode : resolver_mode) :=
  resolve_simple mode 53 c01_zones (table_oracle c01_table []) 200%nat (c01_q c01_portal) (sc_empty, tstate_init).
Definition c01_result : resolved :=
  NonAuthoritative [c01_rr c01_portal RT_CNAME (RD_Name c01_a_ent); c01_rr c01_a_ent RT_A (RD_A c01_local_ip)]
                   (Some (soa_to_rr c01_soa c01_ent)).

Example C01_upstream_chain_cut_witness_recursive :
  fst (c01_run (ModeRecursive OnlyV4)) = Ok c01_result
  /\ sc_get (fst (snd (c01_run (ModeRecursive OnlyV4)))) c01_a_ent RT_A = []          (* upstream's A record is not cached *)
  /\ sc_get (fst (snd (c01_run (ModeRecursive OnlyV4)))) c01_portal RT_CNAME
     = [c01_rr c01_portal RT_CNAME (RD_Name c01_a_ent)]
  /\ length (ts_rlog (snd (snd (c01_run (ModeRecursive OnlyV4))))) = 1%nat
  /\ in_auth_zone c01_zones c01_a_ent.
Proof.
  repeat split; try (vm_compute; reflexivity).
  eexists. split; [vm_compute; reflexivity|]. cbn. discriminate.
Qed.
Print Assumptions C01_upstream_chain_cut_witness_recursive.

Example C01_upstream_chain_cut_witness_forwarding :
  fst (c01_run (ModeForwarding (inl c01_ip, 53))) = Ok c01_result
  /\ sc_get (fst (snd (c01_run (ModeForwarding (inl c01_ip, 53))))) c01_a_ent RT_A = []
  /\ sc_get (fst (snd (c01_run (ModeForwarding (inl c01_ip, 53))))) c01_portal RT_CNAME
     = [c01_rr c01_portal RT_CNAME (RD_Name c01_a_ent)]
  /\ length (ts_rlog (snd (snd (c01_run (ModeForwarding (inl c01_ip, 53)))))) = 1%nat.
Proof. repeat split; vm_compute; reflexivity. Qed.
Print Assumptions C01_upstream_chain_cut_witness_forwarding.
