(* Properties/C01.v -- property theorems for C01 (local zone and hosts data always win),
   LOCAL PART: zones + cache, i.e. local::resolve_local and dns_resolver::resolve in
   authoritative-only mode.  Statements only; each is closed by [exact lemma] and followed by
   Print Assumptions.

   The property also speaks about the recursive and forwarding modes ("no upstream server is
   contacted for a question local data answers", "nothing from an upstream server is used for
   names the zone owns").  Those clauses -- done_means_no_upstream, log_names_not_owned (DESIGN
   section 5, C01 items 4) and the rcode mapping of the server -- are added by the resolver
   subsystem (Resolver/RecursiveModel.v), whose models call [resolve_local]; theorems below that
   will get a network-mode sibling carry the suffix [_local].

   Reading guide.  [owned_by zs n z]: [z] is the zone Zones::get picks for [n] (the longest
   configured apex enclosing it), it has a SOA, and [n] is not at/beneath one of its delegation
   points.  [guards_pass stack q]: the question passes the two guards every call starts with
   (recursion limit, duplicate question); [guards_pass [] q] always holds.  What a single zone
   answers for a name ([zones_resolve] = Zones::get + Zone::resolve) is C02's subject; the
   theorems here say what resolve_local makes of it. *)
From RV Require Import Base.Prelude Name.NameModel Name.NameSpec Wire.WireTypes Zone.ZoneModel
     Resolver.LocalModel Resolver.LocalSpec Resolver.LocalProofs.

(* 1. An owned name is answered by its zone alone: exactly the zone's RRs with the zone's SOA,
   marked authoritative; or a name error with the zone's SOA; or, when the zone holds an alias for
   the name, a reply that starts with the zone's CNAME RR and continues with the resolution of the
   target (deviation D2: the reply is authoritative iff the whole chain is).  Never a referral,
   never anything from the cache (the right-hand sides do not mention [cget] for the name). *)
Theorem C01_auth_zone_alone_local : forall zs cget f stack q z,
  owned_by zs (q_name q) z -> guards_pass stack q ->
  exists soa_rr, zone_soa_rr z = Some soa_rr /\
  exists r, zones_resolve zs (q_name q) (q_type q) = Some (z, r) /\
  match r with
  | Ok (ZAnswer rrs) => resolve_local zs cget (S f) stack q = Ok (LDone (Authoritative rrs soa_rr))
  | Ok ZNameError => resolve_local zs cget (S f) stack q = Ok (LDone (AuthoritativeNameError soa_rr))
  | Ok (ZCname c cr) =>
    resolve_local zs cget (S f) stack q =
    zcombine cr (subq q c) (resolve_local zs cget f (stack ++ [q]) (subq q c))
  | Ok (ZDelegation _) => False
  | Panic => resolve_local zs cget (S f) stack q = Panic
  | _ => False
  end.
Proof. exact auth_zone_alone. Qed.
Print Assumptions C01_auth_zone_alone_local.

Theorem C01_owned_never_referral : forall zs n z qt r,
  owned_by zs n z -> zones_resolve zs n qt = Some (z, r) -> forall ns, r <> Ok (ZDelegation ns).
Proof. exact owned_no_delegation. Qed.
Print Assumptions C01_owned_never_referral.

(* 2. Nothing cached is ever used for a name whose most specific zone is authoritative: two cache
   states that agree on all other names give the same result for every question, stack and fuel.
   (Stronger than asked: the names where the caches may differ include those beneath delegation
   points of authoritative zones.) *)
Theorem C01_cache_noninterference_local : forall zs c1 c2,
  cache_agree_outside (in_auth_zone zs) c1 c2 ->
  forall f stack q, resolve_local zs c1 f stack q = resolve_local zs c2 f stack q.
Proof. exact cache_noninterference. Qed.
Print Assumptions C01_cache_noninterference_local.

Theorem C01_cache_noninterference_owned_local : forall zs c1 c2,
  cache_agree_outside (owned_auth zs) c1 c2 ->
  forall f stack q, resolve_local zs c1 f stack q = resolve_local zs c2 f stack q.
Proof. exact cache_noninterference_owned. Qed.
Print Assumptions C01_cache_noninterference_owned_local.

(* ... nor is a less specific zone: the zone consulted for a name is the one with the longest apex
   enclosing it, and the zone phase is that zone's own lookup *)
Theorem C01_longest_zone_only : forall zs n qt z r,
  wf_name n -> zones_resolve zs n qt = Some (z, r) ->
  (exists k, In (k, z) zs /\ is_suffix (labels k) (labels n) /\
     forall k' z', In (k', z') zs -> wf_name k' -> is_suffix (labels k') (labels n) ->
                   (length (labels k') <= length (labels k))%nat)
  /\ r = match zone_resolve z n qt with Some r' => r' | None => Panic end.
Proof. exact longest_zone_only. Qed.
Print Assumptions C01_longest_zone_only.

(* 3. A non-authoritative zone (hosts file, blocklist) holding records of the asked name and type:
   exactly those records are the reply, whatever the cache holds. *)
Theorem C01_override_exact : forall zs cget f stack q z rrs,
  guards_pass stack q ->
  zones_resolve zs (q_name q) (q_type q) = Some (z, Ok (ZAnswer rrs)) ->
  z_soa z = None -> q_type q <> QT_Wildcard -> rrs <> [] ->
  resolve_local zs cget (S f) stack q = Ok (LDone (NonAuthoritative rrs None)).
Proof. exact override_exact. Qed.
Print Assumptions C01_override_exact.

(* For QTYPE * the zone's records come first, untouched, and cached records are merged in behind
   them by [prioritising_merge], which drops every RR whose (name, type) the zone has. *)
Theorem C01_override_any : forall zs cget f stack q z rrs l,
  guards_pass stack q ->
  zones_resolve zs (q_name q) (q_type q) = Some (z, Ok (ZAnswer rrs)) ->
  z_soa z = None -> q_type q = QT_Wildcard ->
  resolve_local zs cget (S f) stack q = Ok l ->
  exists from_cache,
    l = LPartial (prioritising_merge rrs from_cache) \/
    exists cq, l = LCname (prioritising_merge rrs from_cache) cq.
Proof. exact override_any. Qed.
Print Assumptions C01_override_any.

Theorem C01_prioritising_merge_spec : forall priority new,
  prioritising_merge_spec priority new (prioritising_merge priority new).
Proof. exact prioritising_merge_meets_spec. Qed.
Print Assumptions C01_prioritising_merge_spec.

(* 5. A name error is reported only when the authoritative zone selected for the *question name*
   returned NameError, with that zone's SOA.  In particular not through an alias: a CNAME whose
   target does not exist yields [Authoritative [cname RR] soa] (see [zcombine]).  The server's
   rcode mapping on top of this is the server subsystem's. *)
Theorem C01_nxdomain_only_from_auth_zone_local : forall zs cget f stack q s,
  resolve_local zs cget f stack q = Ok (LDone (AuthoritativeNameError s)) ->
  exists z, zones_resolve zs (q_name q) (q_type q) = Some (z, Ok ZNameError) /\ zone_soa_rr z = Some s
            /\ in_auth_zone zs (q_name q).
Proof. exact nxdomain_only_from_auth_zone. Qed.
Print Assumptions C01_nxdomain_only_from_auth_zone_local.

Theorem C01_nxdomain_resolved_local : forall zs cget q s,
  resolve_authoritative_only zs cget q = Ok (AuthoritativeNameError s) ->
  exists z, zones_resolve zs (q_name q) (q_type q) = Some (z, Ok ZNameError) /\ zone_soa_rr z = Some s
            /\ in_auth_zone zs (q_name q).
Proof. exact nxdomain_resolved. Qed.
Print Assumptions C01_nxdomain_resolved_local.

(* Totality: with LOCAL_FUEL the model never runs out of fuel (each recursive call pushes one
   question and the stack is bounded by RECURSION_LIMIT = 32), and it panics only if the zone
   model does (Zones::resolve's unwrap, from_labels(..).unwrap() on an over-long wildcard name,
   the non-CNAME-under-CNAME panic! -- C02's subject). *)
Theorem C01_no_panic_no_fuel : forall zs cget q,
  resolve_local zs cget LOCAL_FUEL [] q <> OutOfFuel /\
  (resolve_local zs cget LOCAL_FUEL [] q = Panic -> zone_panics zs).
Proof. intros zs cget q. split; [apply no_fuel|apply resolve_local_panic]. Qed.
Print Assumptions C01_no_panic_no_fuel.

Theorem C01_authoritative_only_total : forall zs cget q,
  resolve_authoritative_only zs cget q <> OutOfFuel /\
  (resolve_authoritative_only zs cget q = Panic -> zone_panics zs).
Proof. exact authoritative_only_total. Qed.
Print Assumptions C01_authoritative_only_total.

(* the hypotheses are satisfiable: a worked configuration (LocalProofs.LocalExample) *)
Example C01_example_owned : owned_by LocalExample.ex_zones LocalExample.n_wec LocalExample.z_ec.
Proof. exact LocalExample.ex_owned. Qed.
Example C01_example_caches_differ_only_at_owned_name :
  cache_agree_outside (in_auth_zone LocalExample.ex_zones) LocalExample.ex_cget LocalExample.ex_cget'
  /\ LocalExample.ex_cget LocalExample.n_wec RT_A <> LocalExample.ex_cget' LocalExample.n_wec RT_A.
Proof. split; [exact LocalExample.ex_agree|exact LocalExample.ex_differ]. Qed.

(* ====================================================================== *)
(* network modes: the recursive and the forwarding resolver                 *)
(* (lemmas: Resolver/RecursiveProofs.v, Resolver/ForwardingProofs.v)        *)
(* ====================================================================== *)
From RV Require Import Resolver.TransportModel Resolver.RecursiveModel Resolver.ForwardingModel
     Resolver.RecursiveProofs Resolver.ForwardingProofs.

(* 4a. done_means_no_upstream: a question that local resolution answers ([LDone]: an authoritative
   zone's answer or name error, an override from a hosts file / non-authoritative zone, a complete
   answer from zones + cache) is returned as it is by both network modes, and NOTHING else happens:
   the state -- cache, clock, exchange log, exchange counter -- is unchanged.  Every oracle. *)
Theorem C01_done_means_no_upstream_recursive :
  forall (cache : Type) (cache_get : cache -> dname -> N -> list rr) (cache_insert_all : cache -> list rr -> cache)
         (sort_names : list dname -> list dname) (zs : zones) (o : oracle) (pmode : protocol_mode) (port : N) fuel q st r,
  resolve_local zs (cache_get (fst st)) LOCAL_FUEL [] q = Ok (LDone r) ->
  resolve_recursive cache cache_get cache_insert_all sort_names zs o pmode port (S fuel) q st = (Ok r, st).
Proof. exact recursive_done_no_upstream. Qed.
Print Assumptions C01_done_means_no_upstream_recursive.

Theorem C01_done_means_no_upstream_forwarding :
  forall (cache : Type) (cache_get : cache -> dname -> N -> list rr) (cache_insert_all : cache -> list rr -> cache)
         (zs : zones) (o : oracle) (forwarder : addr) fuel q st r,
  resolve_local zs (cache_get (fst st)) LOCAL_FUEL [] q = Ok (LDone r) ->
  resolve_forwarding cache cache_get cache_insert_all zs o forwarder (S fuel) q st = (Ok r, st).
Proof. exact forwarding_done_no_upstream. Qed.
Print Assumptions C01_done_means_no_upstream_forwarding.

(* 4b. log_names_not_owned: no question sent upstream during a resolution -- for the question
   itself, for an alias target, for the address of a nameserver host -- is about a name that an
   authoritative zone owns ([owned_auth], Resolver/LocalSpec.v).  An alias leaving the zone sends
   the resolver upstream for the TARGET; a name beneath a delegation point of an authoritative
   zone is not owned by definition.  Every oracle, cache, fuel.  (Checked for a counterexample
   first: QTYPE * on an owned alias is answered by the zone with the CNAME record itself, and for
   every other type local resolution of an owned name is Done or an alias to follow --
   owned_local_cases.) *)
Theorem C01_log_names_not_owned_recursive :
  forall (cache : Type) (cache_get : cache -> dname -> N -> list rr) (cache_insert_all : cache -> list rr -> cache)
         (sort_names : list dname -> list dname) (zs : zones) (o : oracle) (pmode : protocol_mode) (port : N) fuel q st,
  exists new,
    ts_rlog (snd (snd (resolve_recursive cache cache_get cache_insert_all sort_names zs o pmode port fuel q st)))
    = new ++ ts_rlog (snd st)
    /\ Forall (fun e => ~ owned_auth zs (q_name (x_question e))) new.
Proof. exact recursive_log_names_not_owned. Qed.
Print Assumptions C01_log_names_not_owned_recursive.

Theorem C01_log_names_not_owned_forwarding :
  forall (cache : Type) (cache_get : cache -> dname -> N -> list rr) (cache_insert_all : cache -> list rr -> cache)
         (zs : zones) (o : oracle) (forwarder : addr) fuel q st,
  exists new,
    ts_rlog (snd (snd (resolve_forwarding cache cache_get cache_insert_all zs o forwarder fuel q st)))
    = new ++ ts_rlog (snd st)
    /\ Forall (fun e => ~ owned_auth zs (q_name (x_question e))) new.
Proof. exact forwarding_log_names_not_owned. Qed.
Print Assumptions C01_log_names_not_owned_forwarding.

(* what local resolution makes of a question about an owned name (the fact behind 4b) *)
Theorem C01_owned_local_cases : forall zs cget f stack q,
  owned_auth zs (q_name q) -> guards_pass stack q ->
  (exists r, resolve_local zs cget (S f) stack q = Ok (LDone r))
  \/ (exists rrs cq, resolve_local zs cget (S f) stack q = Ok (LCname rrs cq))
  \/ resolve_local zs cget (S f) stack q = Panic \/ resolve_local zs cget (S f) stack q = OutOfFuel.
Proof. exact owned_local_cases. Qed.
Print Assumptions C01_owned_local_cases.

(* 5. nxdomain_only_from_auth_zone in the network modes: the resolvers return
   AuthoritativeNameError only when local resolution did (then C01_nxdomain_only_from_auth_zone_local
   applies: an authoritative zone returned NameError for the question name), and nothing was sent.
   Whatever an upstream server says comes back as NonAuthoritative -- a name error it reports is an
   empty answer with its SOA. *)
Theorem C01_nxdomain_only_from_auth_zone_recursive :
  forall (cache : Type) (cache_get : cache -> dname -> N -> list rr) (cache_insert_all : cache -> list rr -> cache)
         (sort_names : list dname -> list dname) (zs : zones) (o : oracle) (pmode : protocol_mode) (port : N) fuel q st s st',
  resolve_recursive cache cache_get cache_insert_all sort_names zs o pmode port fuel q st = (Ok (AuthoritativeNameError s), st') ->
  resolve_local zs (cache_get (fst st)) LOCAL_FUEL [] q = Ok (LDone (AuthoritativeNameError s)) /\ st' = st.
Proof. exact recursive_nxdomain_only_local. Qed.
Print Assumptions C01_nxdomain_only_from_auth_zone_recursive.

Theorem C01_nxdomain_only_from_auth_zone_forwarding :
  forall (cache : Type) (cache_get : cache -> dname -> N -> list rr) (cache_insert_all : cache -> list rr -> cache)
         (zs : zones) (o : oracle) (forwarder : addr) fuel q st s st',
  resolve_forwarding cache cache_get cache_insert_all zs o forwarder fuel q st = (Ok (AuthoritativeNameError s), st') ->
  resolve_local zs (cache_get (fst st)) LOCAL_FUEL [] q = Ok (LDone (AuthoritativeNameError s)) /\ st' = st.
Proof. exact forwarding_nxdomain_only_local. Qed.
Print Assumptions C01_nxdomain_only_from_auth_zone_forwarding.

(* the hypothesis of 4a is met by the worked configuration of the local part: the owned name
   w.e.c. is answered locally, so the network modes return that answer with an untouched state *)
Example C01_example_done_no_upstream : forall (o : oracle) pmode port fuel ts,
  exists r,
    resolve_recursive scache sc_get sc_insert_all sort_names_ord LocalExample.ex_zones o pmode port (S fuel)
                      (LocalExample.qa LocalExample.n_wec) (sc_empty, ts) = (Ok r, (sc_empty, ts)).
Proof.
  intros o pmode port fuel ts.
  destruct (resolve_local LocalExample.ex_zones (sc_get sc_empty) LOCAL_FUEL [] (LocalExample.qa LocalExample.n_wec)) as [[r| | |]| | |] eqn:E;
    try (vm_compute in E; discriminate).
  exists r. apply recursive_done_no_upstream. exact E.
Qed.
