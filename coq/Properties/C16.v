(* Properties/C16.v -- property theorems for C16; statements only.
   Each is closed by [exact lemma] and followed by Print Assumptions. *)
From RV Require Import Base.Prelude Base.Cursor Name.NameModel Name.NameSpec Name.NameProofs Name.NameWireCase.

(* every constructor returns a well-formed name *)
Theorem C16_from_labels_wf : forall ls n,
  Forall wf_label ls -> from_labels ls = Some n -> wf_name n /\ labels n = ls.
Proof. exact from_labels_wf. Qed.
Print Assumptions C16_from_labels_wf.

(* input violating the limits is rejected, and only that *)
Theorem C16_from_labels_complete : forall ls,
  Forall wf_label ls -> (from_labels ls = None <-> ~ wf_labels ls).
Proof. exact from_labels_complete. Qed.
Print Assumptions C16_from_labels_complete.

(* dotted text: accepted exactly when it is "." or dot-terminated non-empty chunks within the limits *)
Theorem C16_dotted_complete : forall s n,
  Forall scalar s -> (from_dotted_string s = Some n <-> dotted_spec s n).
Proof. exact dotted_complete. Qed.
Print Assumptions C16_dotted_complete.

Theorem C16_dotted_wf : forall s n,
  Forall scalar s -> from_dotted_string s = Some n -> wf_name n.
Proof. exact dotted_wf. Qed.
Print Assumptions C16_dotted_wf.

(* the wire decoder, through any pointer chain.  The cursor's remaining octets are octets
   too (in Rust the cursor is a position in the same &[u8]; the model's cursor carries its
   own list, and without this hypothesis [decode_name 1 [] {| cpos := 0; crest := [1;300;0] |}]
   yields the label [300]) *)
Theorem C16_wire_wf : forall hops bs c n c',
  Forall (fun b => b < 256) bs -> Forall (fun b => b < 256) (crest c) ->
  decode_name hops bs c = Ok (n, c') -> wf_name n.
Proof. exact wire_wf. Qed.
Print Assumptions C16_wire_wf.

(* joining a relative name to an origin.  The result is always well formed; it ends with the
   origin's labels when the origin is ASCII and dot-free: the origin is re-read through its
   dotted text, so an origin label holding octet 200 comes back as its UTF-8 bytes [195;136]
   and one holding octet 46 is split in two (counterexamples: origins [[200];[]] and
   [[46;97];[]] with s = "x") *)
Theorem C16_join : forall o s n,
  wf_name o -> Forall scalar s -> from_relative_dotted_string o s = Some n ->
  wf_name n /\ (ends_with_dot s = false -> ascii_nodot o -> is_suffix (labels o) (labels n)).
Proof. exact join_wf. Qed.
Print Assumptions C16_join.

Theorem C16_make_subdomain : forall a o n,
  wf_name a -> wf_name o -> make_subdomain_of a o = Some n ->
  wf_name n /\ labels n = removelast (labels a) ++ labels o.
Proof. exact make_subdomain_wf. Qed.
Print Assumptions C16_make_subdomain.

(* ASCII letter case is irrelevant: text differing only in case gives the same name
   (hence equal, hashing alike, selecting the same zone and cache entry) *)
Theorem C16_case_insensitive : forall s s',
  same_modulo_case s s' -> from_dotted_string s = from_dotted_string s'.
Proof. exact dotted_case_insensitive. Qed.
Print Assumptions C16_case_insensitive.

Theorem C16_label_case_insensitive : forall os os',
  map lower os = map lower os' -> label_try_from os = label_try_from os'.
Proof. exact label_case_insensitive. Qed.
Print Assumptions C16_label_case_insensitive.

(* ASCII dot-free names read back from their dotted text *)
Theorem C16_dotted_roundtrip : forall n,
  wf_name n -> ascii_nodot n -> from_dotted_string (to_dotted_string n) = Some n.
Proof. exact dotted_roundtrip. Qed.
Print Assumptions C16_dotted_roundtrip.

(* the subdomain relation coincides with label-wise suffix *)
Theorem C16_subdomain_is_suffix : forall a b : dname,
  is_subdomain_of a b = true <-> is_suffix (labels b) (labels a).
Proof. exact subdomain_is_suffix. Qed.
Print Assumptions C16_subdomain_is_suffix.

(* zone selection: the zone returned is the one whose apex is the longest configured
   suffix of the name *)
Theorem C16_zones_get_longest_suffix : forall (Z : Type) (zs : list (dname * Z)) n z,
  wf_name n -> zones_get zs n = Some z ->
  exists k, In (k, z) zs /\ is_suffix (labels k) (labels n) /\
    forall k' z', In (k', z') zs -> wf_name k' -> is_suffix (labels k') (labels n) ->
                  (length (labels k') <= length (labels k))%nat.
Proof. exact zones_get_longest_suffix. Qed.
Print Assumptions C16_zones_get_longest_suffix.

(* case-insensitivity on the wire: byte strings that differ only in the ASCII case of the
   label octets of the name read at [pos] -- same length octets, same pointers, label octets
   equal after case folding, through every pointer followed ([name_case_variant], which
   follows the name grammar of RFC 1035 4.1.4) -- decode to the same result: the same name
   and next offset, or the same error.  (Lower-casing EVERY octet would not do: length
   octets 65..90 would change.) *)
Theorem C16_wire_case_insensitive : forall bs bs' pos,
  name_case_variant bs bs' pos -> decode_name_at bs pos = decode_name_at bs' pos.
Proof. exact wire_case_insensitive. Qed.
Print Assumptions C16_wire_case_insensitive.

(* the hypothesis is satisfiable by strings that really differ: at offset 13, "A" then a
   pointer to "WwW.eXamPlE" at offset 0, against "a" then a pointer to "wWw.ExAMpLe" *)
Example C16_wire_case_insensitive_ex :
  name_case_variant nwc_ex nwc_ex' 13 /\ nwc_ex <> nwc_ex' /\
  decode_name_at nwc_ex 13
  = Ok ({| labels := [[97]; [119;119;119]; [101;120;97;109;112;108;101]; []]; nlen := 15 |}, 17) /\
  decode_name_at nwc_ex' 13 = decode_name_at nwc_ex 13.
Proof.
  split; [exact nwc_ex_variant|]. split; [discriminate|]. split; vm_compute; reflexivity.
Qed.
