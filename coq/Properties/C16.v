(* Properties/C16.v -- property theorems for C16; statements only. *)
From RV Require Import Base.Prelude Name.NameModel Name.NameSpec Name.NameProofs.

(* the subdomain relation coincides with label-wise suffix *)
Theorem C16_subdomain_is_suffix : forall a b : dname,
  is_subdomain_of a b = true <-> is_suffix (labels b) (labels a).
Proof. exact subdomain_is_suffix. Qed.
Print Assumptions C16_subdomain_is_suffix.
