(* ZoneFile/ZoneSerialiseProofs.v -- proofs about ZoneFile/ZoneSerialiseModel.v (C13).
   This file holds the escape-level theorem: what serialise_octets writes for an octet
   string is read back by the tokeniser as exactly that octet string, for every octet
   0..255 and both quoting modes.  (zone_roundtrip is the follow-up.) *)
From RV Require Import Base.Prelude Name.NameModel Name.NameProofs ZoneFile.ZoneFileModel ZoneFile.ZoneFileSpec
     ZoneFile.ZoneSerialiseModel ZoneFile.ZoneFileProofs.

(* how serialise_octets writes one octet, as a [piece] of the layout specification *)
Definition piece_of (quoted : bool) (o : N) : piece :=
  if existsb (N.eqb o) zone_escape_set then PEscX o
  else if (o <? zone_escape_lo) || (zone_escape_hi <? o) || ((o =? zone_escape_space) && negb quoted)
       then PEscD o
       else PRaw o.

Definition ser_token (quoted : bool) (bs : list N) : wtoken :=
  {| wt_quoted := quoted; wt_pieces := map (piece_of quoted) bs |}.

(* finite sweeps over the 256 octets (re-checked against the constants that
   tools/tables.py reads from serialise.rs) *)
Lemma piece_of_text q o : o < 256 -> piece_text (piece_of q o) = esc_octet q o.
Proof.
  intro H. apply leqb_eq. revert o H. apply below_256. destruct q; vm_compute; reflexivity.
Qed.

Lemma piece_of_ok q o : o < 256 -> piece_ok q (piece_of q o) = true.
Proof. revert o. apply below_256. destruct q; vm_compute; reflexivity. Qed.

Lemma piece_of_octet q o : piece_octet (piece_of q o) = o.
Proof. unfold piece_of. repeat match goal with |- context [if ?b then _ else _] => destruct b end; reflexivity. Qed.

Lemma ser_token_text q bs : Forall (fun o => o < 256) bs -> wtoken_text (ser_token q bs) = serialise_octets bs q.
Proof.
  intro H. unfold wtoken_text, ser_token, serialise_octets. cbn [wt_quoted wt_pieces].
  assert (E : pieces_text (map (piece_of q) bs) = flat_map (esc_octet q) bs).
  { induction H as [|o t Ho Ht IH]; [reflexivity|]. cbn [map flat_map]. rewrite pieces_text_cons, IH, piece_of_text by exact Ho. reflexivity. }
  rewrite E. destruct q; [reflexivity|]. rewrite app_nil_r. reflexivity.
Qed.

Lemma ser_token_octets q bs : wtoken_octets (ser_token q bs) = bs.
Proof.
  unfold wtoken_octets, ser_token. cbn [wt_pieces]. induction bs as [|o t IH]; [reflexivity|].
  cbn [map]. rewrite piece_of_octet, IH. reflexivity.
Qed.

Lemma ser_token_ok q bs : Forall (fun o => o < 256) bs -> q = true \/ bs <> [] -> wtoken_ok (ser_token q bs) = true.
Proof.
  intros H Hne. unfold wtoken_ok, ser_token. cbn [wt_quoted wt_pieces]. apply andb_true_iff. split.
  - destruct Hne as [-> | Hne]; [reflexivity|]. destruct bs; [congruence|]. destruct q; reflexivity.
  - clear Hne. induction H as [|o t Ho Ht IH]; [reflexivity|]. cbn [map forallb].
    rewrite piece_of_ok by exact Ho. exact IH.
Qed.

(* C13 escape_roundtrip: the text serialise_octets writes for bs is read back as the single
   token bs -- every octet 0..255, quoted or not (an unquoted token cannot be empty) -- whatever
   ends the entry *)
Theorem escape_roundtrip bs quoted t rest :
  Forall (fun o => o < 256) bs -> quoted = true \/ bs <> [] -> terminator_ok t = true ->
  tokenise_entry (serialise_octets bs quoted ++ terminator_text t rest)
  = Ok ([dup bs], terminator_rest t rest).
Proof.
  intros H Hne Ht.
  pose proof (tokenise_render [ITok (ser_token quoted bs)] t rest) as R.
  unfold items_text in R. cbn [flat_map item_text items_tokens map layout_ok] in R.
  rewrite (ser_token_ok quoted bs H Hne), ser_token_text, ser_token_octets, app_nil_r in R by exact H.
  apply R; [reflexivity|exact Ht].
Qed.

(* ... and anywhere inside an entry: an entry whose tokens are written by serialise_octets and
   laid out in the layout family is read back as those octet strings *)
Theorem escape_roundtrip_entry items t rest :
  layout_ok false false items = Some false -> terminator_ok t = true ->
  tokenise_entry (items_text items ++ terminator_text t rest)
  = Ok (map dup (map wtoken_octets (items_tokens items)), terminator_rest t rest)
  /\ (forall q bs, Forall (fun o => o < 256) bs -> (q = true \/ bs <> []) ->
                   item_text (ITok (ser_token q bs)) = serialise_octets bs q
                   /\ wtoken_octets (ser_token q bs) = bs /\ wtoken_ok (ser_token q bs) = true).
Proof.
  intros Hl Ht. split; [apply tokenise_render; assumption|].
  intros q bs H Hne. split; [apply ser_token_text; exact H|split; [apply ser_token_octets|apply ser_token_ok; assumption]].
Qed.

(* what serialise_octets writes is printable ASCII: no white space but the space inside quotes,
   no control character, nothing above 126 *)
Lemma esc_octet_printable q o : o < 256 -> forallb (fun c => (32 <=? c) && (c <=? 126)) (esc_octet q o) = true.
Proof. revert o. apply below_256. destruct q; vm_compute; reflexivity. Qed.

Theorem serialise_octets_ascii bs q :
  Forall (fun o => o < 256) bs -> Forall (fun c => 32 <= c <= 126) (serialise_octets bs q).
Proof.
  intro H. unfold serialise_octets.
  assert (Hq : Forall (fun c => 32 <= c <= 126) (if q then [34] else [])) by (destruct q; repeat constructor; lia).
  apply Forall_app. split; [exact Hq|]. apply Forall_app. split; [|exact Hq].
  induction H as [|o t Ho Ht IH]; [constructor|]. cbn [flat_map]. apply Forall_app. split; [|exact IH].
  pose proof (esc_octet_printable q o Ho) as Hp. rewrite forallb_forall in Hp. apply Forall_forall. intros c Hc.
  apply Hp in Hc. apply andb_true_iff in Hc as [H1 H2]. apply N.leb_le in H1. apply N.leb_le in H2. lia.
Qed.

Example escape_roundtrip_ex :
  tokenise_entry (serialise_octets [0; 34; 92; 59; 40; 41; 32; 64; 127; 255; 97] false ++ terminator_text TNl [])
  = Ok ([dup [0; 34; 92; 59; 40; 41; 32; 64; 127; 255; 97]], []).
Proof. apply escape_roundtrip; [repeat constructor|right; discriminate|reflexivity]. Qed.
