(* ZoneFile/ZoneRtLines.v -- C13, line level: what Zone::serialise writes for a name, for
   an RDATA and for a whole record line is read back by the tokeniser and parse_rr as the
   same name / RDATA / record.

     show_dec_parse            decimal numbers (Display for u32/u16, then from_str)
     dom_text, serialise_domain_text, relative_name_roundtrip (dom_text_parse),
     dom_text_owner, dom_text_wild
                               names relative to the apex, "@", the absolute fall-backs
     tokenise_atoms            a line made of escaped / raw tokens separated by spaces
     rdata_text, rdata_parse   the eight RDATA shapes x 18 types
     record_line_entry         "<owner> <ttl> IN <TYPE> <rdata>\n"   -> ERR / EWildcardRR
     soa_line_entry            "@ IN SOA ...\n" / ". IN SOA ...\n"
     origin_line_entry         "$ORIGIN <apex>\n"

   The address codec (std's Ipv4Addr/Ipv6Addr Display and FromStr, outside /repo) enters
   through [codec_rt]; the instance for Ip/IpModel.v is proved in ZoneRoundTrip.v. *)
From Coq Require Import Permutation.
Set Default Timeout 120.
From RV Require Import Base.Prelude Name.NameModel Name.NameSpec Name.NameProofs Wire.WireTypes
     Zone.ZoneModel ZoneFile.ZoneFileModel ZoneFile.ZoneFileSpec ZoneFile.ZoneSerialiseModel
     ZoneFile.ZoneFileProofs ZoneFile.ZoneSerialiseProofs.

(* ====================================================================== *)
(* decimal numbers                                                         *)
(* ====================================================================== *)

Lemma ddf_acc fuel : forall n acc, dec_digits_fuel fuel n acc = dec_digits_fuel fuel n [] ++ acc.
Proof.
  induction fuel as [|f IH]; intros n acc; cbn [dec_digits_fuel]; cbv zeta; [reflexivity|].
  destruct (n <? 10); [reflexivity|].
  rewrite (IH (n / 10) (_ :: acc)), (IH (n / 10) [_]). rewrite <- app_assoc. reflexivity.
Qed.

Lemma digits_loop_app max a : forall b acc,
  digits_loop max (a ++ b) acc
  = match digits_loop max a acc with Some v => digits_loop max b v | None => None end.
Proof.
  induction a as [|c a IH]; intros b acc; cbn [app digits_loop]; [reflexivity|].
  destruct (to_digit c); [|reflexivity]. cbv zeta.
  destruct (acc * 10 + n <=? max); [apply IH|reflexivity].
Qed.

Lemma ddf_digits max f : forall n, n < 10 ^ N.of_nat f -> n <= max ->
  digits_loop max (dec_digits_fuel f n []) 0 = Some n.
Proof.
  induction f as [|f IH]; intros n Hn Hmax.
  - cbn in Hn. assert (n = 0) by lia. subst. reflexivity.
  - cbn [dec_digits_fuel]; cbv zeta.
    assert (Hm : n mod 10 < 10) by (apply N.mod_lt; lia).
    destruct (n <? 10) eqn:E.
    + apply N.ltb_lt in E. cbn [digits_loop]. rewrite (to_digit_48 _ Hm). cbv zeta.
      rewrite (N.mod_small n 10 E).
      replace (0 * 10 + n <=? max) with true by (symmetry; apply N.leb_le; lia).
      f_equal; try lia.
    + apply N.ltb_ge in E. rewrite ddf_acc, digits_loop_app.
      rewrite Nat2N.inj_succ, N.pow_succ_r' in Hn.
      assert (Hd : n / 10 < 10 ^ N.of_nat f) by (apply N.div_lt_upper_bound; lia).
      pose proof (N.div_mod n 10 ltac:(lia)) as Hdm.
      assert (Hle : n / 10 <= max) by (apply N.div_le_upper_bound; lia).
      rewrite (IH (n / 10) Hd Hle). cbn [digits_loop]. rewrite (to_digit_48 _ Hm). cbv zeta.
      replace (n / 10 * 10 + n mod 10) with n by lia.
      replace (n <=? max) with true by (symmetry; apply N.leb_le; lia). reflexivity.
Qed.

Definition isd (c : N) : Prop := is_digit c = true.

Lemma isd_48 x : x < 10 -> isd (48 + x).
Proof. intro H. unfold isd, is_digit. apply andb_true_iff. split; apply N.leb_le; lia. Qed.

Lemma ddf_isd f : forall n acc, Forall isd acc -> Forall isd (dec_digits_fuel f n acc).
Proof.
  induction f as [|f IH]; intros n acc Ha; cbn [dec_digits_fuel]; cbv zeta; [exact Ha|].
  assert (Hc : Forall isd (48 + n mod 10 :: acc)).
  { constructor; [apply isd_48, N.mod_lt; lia|exact Ha]. }
  destruct (n <? 10); [exact Hc|apply IH; exact Hc].
Qed.

Lemma ddf_ne f n acc : dec_digits_fuel (S f) n acc <> [].
Proof.
  cbn [dec_digits_fuel]; cbv zeta. destruct (n <? 10); [discriminate|].
  rewrite ddf_acc. intro H. apply app_eq_nil in H as [_ H]. discriminate.
Qed.

Lemma show_dec_isd n : Forall isd (show_dec n).
Proof. unfold show_dec. apply ddf_isd. constructor. Qed.

Lemma show_dec_ne n : show_dec n <> [].
Proof. unfold show_dec. apply (ddf_ne 39). Qed.

Lemma isd_range c : isd c -> 48 <= c <= 57.
Proof.
  unfold isd, is_digit. intro H. apply andb_true_iff in H as [H1 H2].
  apply N.leb_le in H1. apply N.leb_le in H2. lia.
Qed.

Lemma uint_digits max s : s <> [] -> Forall isd s -> uint_from_str max s = digits_loop max s 0.
Proof.
  intros Hne Hd. destruct s as [|c t]; [contradiction|].
  apply Forall_cons_iff in Hd as [Hc _]. apply isd_range in Hc.
  unfold uint_from_str.
  assert (E43 : (c =? 43) = false) by (apply N.eqb_neq; lia).
  assert (E45 : (c =? 45) = false) by (apply N.eqb_neq; lia).
  rewrite E43, E45. destruct t; reflexivity.
Qed.

Lemma pow_10_40 : 4294967296 < 10 ^ N.of_nat 40.
Proof. vm_compute. reflexivity. Qed.

(* Display for an unsigned integer, then FromStr with any bound not below it *)
Lemma show_dec_parse max n : n < 4294967296 -> n <= max -> uint_from_str max (show_dec n) = Some n.
Proof.
  intros Hn Hmax. rewrite uint_digits by (apply show_dec_ne || apply show_dec_isd).
  unfold show_dec. apply ddf_digits; [|exact Hmax]. pose proof pow_10_40. lia.
Qed.

Lemma show_dec_all_digits n : all_digits (show_dec n) = true.
Proof.
  unfold all_digits. apply forallb_forall. intros c Hc.
  pose proof (show_dec_isd n) as H. rewrite Forall_forall in H. apply H. exact Hc.
Qed.

(* ====================================================================== *)
(* characters                                                              *)
(* ====================================================================== *)

Lemma sweep_imp (p q : N -> bool) :
  forallb (fun c => implb (p c) (q c)) (map N.of_nat (seq 0 256)) = true ->
  forall c, c < 256 -> p c = true -> q c = true.
Proof.
  intros H c Hc Hp. pose proof (below_256 _ H c Hc) as Hi. cbv beta in Hi. rewrite Hp in Hi. exact Hi.
Qed.

Lemma digit_plain c : isd c -> plain_char c = true.
Proof.
  intro H. pose proof (isd_range c H). apply (sweep_imp is_digit plain_char); [vm_compute; reflexivity|lia|exact H].
Qed.

Lemma digits_plain_token s : s <> [] -> Forall isd s -> plain_token s = true.
Proof.
  intros Hne Hd. unfold plain_token. apply andb_true_iff. split; [destruct s; [contradiction|reflexivity]|].
  apply forallb_forall. intros c Hc. rewrite Forall_forall in Hd. apply digit_plain, Hd, Hc.
Qed.

Lemma show_dec_plain n : plain_token (show_dec n) = true.
Proof. apply digits_plain_token; [apply show_dec_ne|apply show_dec_isd]. Qed.

Definition noupper (s : list N) : Prop := Forall (fun c => is_upper c = false) s.

(* ====================================================================== *)
(* record type mnemonics                                                   *)
(* ====================================================================== *)

Lemma rtype_from_str_upper s t : rtype_from_str s = Some t -> exists c r, s = c :: r /\ is_upper c = true.
Proof.
  unfold rtype_from_str. destruct (find (fun p => leqb s (snd p)) rtype_table) as [p|] eqn:F.
  - intros _. apply find_some in F as [Hin Heq]. apply leqb_eq in Heq. subst s.
    assert (Hall : forallb (fun p : N * list N => match snd p with c :: _ => is_upper c | [] => false end) rtype_table = true)
      by (vm_compute; reflexivity).
    rewrite forallb_forall in Hall. specialize (Hall p Hin). destruct (snd p) as [|c r]; [discriminate|]. eauto.
  - destruct s as [|c r]; [discriminate|]. unfold rtype_unknown_prefix. cbn [strip_prefix].
    destruct (84 =? c) eqn:E; [|discriminate]. apply N.eqb_eq in E. subst c. intros _. exists 84, r. split; reflexivity.
Qed.

Lemma noupper_not_type s : noupper s -> rtype_from_str s = None.
Proof.
  intro H. destruct (rtype_from_str s) as [t|] eqn:E; [|reflexivity].
  apply rtype_from_str_upper in E as (c & r & -> & Hc). apply Forall_cons_iff in H as [H _]. congruence.
Qed.

Definition known_types : list N := [1; 2; 3; 4; 5; 6; 7; 8; 9; 10; 11; 12; 13; 14; 15; 16; 28; 33].

Lemma known_cases ty : rtype_known ty = true -> In ty known_types.
Proof.
  unfold rtype_known. intro H. apply existsb_exists in H as (p & Hin & E). apply N.eqb_eq in E. subst ty.
  change known_types with (map fst rtype_table). apply in_map. exact Hin.
Qed.

Lemma show_rtype_parse ty : rtype_known ty = true -> rtype_from_str (show_rtype ty) = Some ty.
Proof.
  intro H. apply known_cases in H. unfold known_types in H.
  repeat (destruct H as [<-|H]; [vm_compute; reflexivity|]). destruct H.
Qed.

Lemma show_rtype_plain ty : rtype_known ty = true -> plain_token (show_rtype ty) = true.
Proof.
  intro H. apply known_cases in H. unfold known_types in H.
  repeat (destruct H as [<-|H]; [vm_compute; reflexivity|]). destruct H.
Qed.

(* ====================================================================== *)
(* atoms: the tokens Zone::serialise writes                                *)
(* ====================================================================== *)

Inductive atom :=
| ARaw (s : list N)          (* written as it is: numbers, mnemonics, addresses *)
| AUnq (s : list N)          (* serialise_octets s false: names *)
| AQuo (s : list N).         (* serialise_octets s true: octet strings *)

Definition atom_text (a : atom) : list N :=
  match a with ARaw s => s | AUnq s => serialise_octets s false | AQuo s => serialise_octets s true end.
Definition atom_tok (a : atom) : list N := match a with ARaw s | AUnq s | AQuo s => s end.
Definition atom_w (a : atom) : wtoken :=
  match a with ARaw s => rawtok s | AUnq s => ser_token false s | AQuo s => ser_token true s end.
Definition octets (s : list N) : Prop := Forall (fun o => o < 256) s.
Definition atom_ok (a : atom) : Prop :=
  match a with
  | ARaw s => plain_token s = true
  | AUnq s => octets s /\ s <> []
  | AQuo s => octets s
  end.

Lemma atom_w_text a : atom_ok a -> wtoken_text (atom_w a) = atom_text a.
Proof.
  destruct a as [s|s|s]; cbn [atom_ok atom_w atom_text].
  - intros _. apply (item_text_raw s).
  - intros [H _]. apply ser_token_text. exact H.
  - intro H. apply ser_token_text. exact H.
Qed.

Lemma atom_w_octets a : wtoken_octets (atom_w a) = atom_tok a.
Proof. destruct a; cbn [atom_w atom_tok]; [apply octets_raw|apply ser_token_octets|apply ser_token_octets]. Qed.

Lemma atom_w_ok a : atom_ok a -> wtoken_ok (atom_w a) = true.
Proof.
  destruct a as [s|s|s]; cbn [atom_ok atom_w].
  - apply rawtok_ok.
  - intros [H Hne]. apply ser_token_ok; [exact H|right; exact Hne].
  - intro H. apply ser_token_ok; [exact H|left; reflexivity].
Qed.

(* first token, [k] extra spaces, then the other tokens each preceded by one space *)
Definition line_items (a0 : atom) (k : nat) (rest : list atom) : list item :=
  ITok (atom_w a0) :: repeat (IWs 32) k ++ flat_map (fun a => [IWs 32; ITok (atom_w a)]) rest.
Definition line_text (a0 : atom) (k : nat) (rest : list atom) : list N :=
  atom_text a0 ++ repeat 32 k ++ flat_map (fun a => 32 :: atom_text a) rest.

Lemma layout_tail rest : Forall atom_ok rest -> forall g,
  layout_ok false g (flat_map (fun a => [IWs 32; ITok (atom_w a)]) rest) = Some false.
Proof.
  induction 1 as [|a rest Ha _ IH]; intro g; [reflexivity|].
  cbn [flat_map app layout_ok]. change (ws_char 32) with true. cbn iota.
  rewrite (atom_w_ok a Ha). apply IH.
Qed.

Lemma layout_pad k tail : forall g,
  layout_ok false g (repeat (IWs 32) k ++ tail) = match k with O => layout_ok false g tail | S _ => layout_ok false false tail end.
Proof.
  induction k as [|k IH]; intro g; [reflexivity|].
  cbn [repeat app layout_ok]. change (ws_char 32) with true. cbn iota. rewrite IH. destruct k; reflexivity.
Qed.

Lemma line_items_ok a0 k rest : atom_ok a0 -> Forall atom_ok rest ->
  layout_ok false false (line_items a0 k rest) = Some false.
Proof.
  intros H0 Hr. unfold line_items. cbn [layout_ok]. rewrite (atom_w_ok a0 H0), layout_pad.
  destruct k; apply layout_tail; exact Hr.
Qed.

Lemma items_text_app a b : items_text (a ++ b) = items_text a ++ items_text b.
Proof. unfold items_text. apply flat_map_app. Qed.

Lemma items_text_repeat k : items_text (repeat (IWs 32) k) = repeat 32 k.
Proof. induction k as [|k IH]; [reflexivity|]. cbn [repeat]. unfold items_text in *. cbn [flat_map item_text app]. rewrite IH. reflexivity. Qed.

Lemma line_items_text a0 k rest : atom_ok a0 -> Forall atom_ok rest ->
  items_text (line_items a0 k rest) = line_text a0 k rest.
Proof.
  intros H0 Hr. unfold line_items, line_text.
  change (ITok (atom_w a0) :: repeat (IWs 32) k ++ flat_map (fun a => [IWs 32; ITok (atom_w a)]) rest)
    with ([ITok (atom_w a0)] ++ repeat (IWs 32) k ++ flat_map (fun a => [IWs 32; ITok (atom_w a)]) rest).
  rewrite !items_text_app, items_text_repeat.
  f_equal; [unfold items_text; cbn [flat_map item_text]; rewrite app_nil_r; apply atom_w_text; exact H0|].
  f_equal. induction Hr as [|a rest Ha _ IH]; [reflexivity|].
  cbn [flat_map]. unfold items_text in *. cbn [flat_map app item_text]. rewrite (atom_w_text a Ha), <- IH. reflexivity.
Qed.

Lemma items_tokens_repeat k tail : items_tokens (repeat (IWs 32) k ++ tail) = items_tokens tail.
Proof. induction k as [|k IH]; [reflexivity|]. cbn [repeat app items_tokens]. exact IH. Qed.

Lemma line_items_tokens a0 k rest :
  map wtoken_octets (items_tokens (line_items a0 k rest)) = map atom_tok (a0 :: rest).
Proof.
  unfold line_items. cbn [items_tokens map]. rewrite atom_w_octets, items_tokens_repeat. f_equal.
  induction rest as [|a rest IH]; [reflexivity|]. cbn [flat_map app items_tokens map]. rewrite atom_w_octets, IH. reflexivity.
Qed.

(* a line of tokens separated by spaces, ended by a newline, is read back as these tokens *)
Theorem tokenise_atoms a0 k rest tail : atom_ok a0 -> Forall atom_ok rest ->
  tokenise_entry (line_text a0 k rest ++ 10 :: tail) = Ok (map dup (map atom_tok (a0 :: rest)), tail).
Proof.
  intros H0 Hr. rewrite <- (line_items_text a0 k rest H0 Hr).
  pose proof (tokenise_render (line_items a0 k rest) TNl tail (line_items_ok a0 k rest H0 Hr) eq_refl) as R.
  cbn [terminator_text terminator_rest] in R. rewrite R, line_items_tokens. reflexivity.
Qed.

Lemma tail_text rest : rest <> [] ->
  flat_map (fun a => 32 :: atom_text a) rest = 32 :: render_simple (map atom_text rest).
Proof.
  induction rest as [|a rest IH]; intro H; [contradiction|].
  cbn [flat_map map render_simple]. destruct rest as [|b rest].
  - cbn [flat_map map]. rewrite app_nil_r. reflexivity.
  - rewrite IH by discriminate. cbn [map app]. reflexivity.
Qed.
