(* ZoneFile/ZoneRtLines.v -- C13, line level: what Zone::serialise writes for a name, for
   an RDATA and for a whole record line is read back by the tokeniser and parse_rr as the
   same name / RDATA / record.

     show_dec_parse            decimal numbers (Display for u32/u16, then from_str)
     dom_text, serialise_domain_text, relative_name_roundtrip (dom_text_parse),
     dom_text_owner, dom_text_wild
                               names relative to the apex, "@", the absolute fall-backs
     tokenise_atoms            a line made of escaped / raw tokens separated by spaces
     rdata_text, rdata_parse   the eight RDATA shapes x 18 types
     record_line_entry         "<owner> <ttl> IN <TYPE> <rdata>\n"   -> ERR / EWildcardRR
     soa_line_entry            "@ IN SOA ...\n" / ". IN SOA ...\n"
     origin_line_entry         "$ORIGIN <apex>\n"

   The address codec (std's Ipv4Addr/Ipv6Addr Display and FromStr, outside /repo) enters
   through [codec_rt]; the instance for Ip/IpModel.v is proved in ZoneRoundTrip.v. *)
From Coq Require Import Permutation.
Set Default Timeout 120.
From RV Require Import Base.Prelude Name.NameModel Name.NameSpec Name.NameProofs Wire.WireTypes
     Zone.ZoneModel ZoneFile.ZoneFileModel ZoneFile.ZoneFileSpec ZoneFile.ZoneSerialiseModel
     ZoneFile.ZoneFileProofs ZoneFile.ZoneSerialiseProofs.

(* ====================================================================== *)
(* decimal numbers                                                         *)
(* ====================================================================== *)

Lemma ddf_acc fuel : forall n acc, dec_digits_fuel fuel n acc = dec_digits_fuel fuel n [] ++ acc.
Proof.
  induction fuel as [|f IH]; intros n acc; cbn [dec_digits_fuel]; cbv zeta; [reflexivity|].
  destruct (n <? 10); [reflexivity|].
  rewrite (IH (n / 10) (_ :: acc)), (IH (n / 10) [_]). rewrite <- app_assoc. reflexivity.
Qed.

Lemma digits_loop_app max a : forall b acc,
  digits_loop max (a ++ b) acc
  = match digits_loop max a acc with Some v => digits_loop max b v | None => None end.
Proof.
  induction a as [|c a IH]; intros b acc; cbn [app digits_loop]; [reflexivity|].
  destruct (to_digit c); [|reflexivity]. cbv zeta.
  destruct (acc * 10 + n <=? max); [apply IH|reflexivity].
Qed.

Lemma ddf_digits max f : forall n, n < 10 ^ N.of_nat f -> n <= max ->
  digits_loop max (dec_digits_fuel f n []) 0 = Some n.
Proof.
  induction f as [|f IH]; intros n Hn Hmax.
  - cbn in Hn. assert (n = 0) by lia. subst. reflexivity.
  - cbn [dec_digits_fuel]; cbv zeta.
    assert (Hm : n mod 10 < 10) by (apply N.mod_lt; lia).
    destruct (n <? 10) eqn:E.
    + apply N.ltb_lt in E. cbn [digits_loop]. rewrite (to_digit_48 _ Hm). cbv zeta.
      rewrite (N.mod_small n 10 E).
      replace (0 * 10 + n <=? max) with true by (symmetry; apply N.leb_le; lia).
      f_equal; try lia.
    + apply N.ltb_ge in E. rewrite ddf_acc, digits_loop_app.
      rewrite Nat2N.inj_succ, N.pow_succ_r' in Hn.
      assert (Hd : n / 10 < 10 ^ N.of_nat f) by (apply N.div_lt_upper_bound; lia).
      pose proof (N.div_mod n 10 ltac:(lia)) as Hdm.
      assert (Hle : n / 10 <= max) by (apply N.div_le_upper_bound; lia).
      rewrite (IH (n / 10) Hd Hle). cbn [digits_loop]. rewrite (to_digit_48 _ Hm). cbv zeta.
      replace (n / 10 * 10 + n mod 10) with n by lia.
      replace (n <=? max) with true by (symmetry; apply N.leb_le; lia). reflexivity.
Qed.

Definition isd (c : N) : Prop := is_digit c = true.

Lemma isd_48 x : x < 10 -> isd (48 + x).
Proof. intro H. unfold isd, is_digit. apply andb_true_iff. split; apply N.leb_le; lia. Qed.

Lemma ddf_isd f : forall n acc, Forall isd acc -> Forall isd (dec_digits_fuel f n acc).
Proof.
  induction f as [|f IH]; intros n acc Ha; cbn [dec_digits_fuel]; cbv zeta; [exact Ha|].
  assert (Hc : Forall isd (48 + n mod 10 :: acc)).
  { constructor; [apply isd_48, N.mod_lt; lia|exact Ha]. }
  destruct (n <? 10); [exact Hc|apply IH; exact Hc].
Qed.

Lemma ddf_ne f n acc : dec_digits_fuel (S f) n acc <> [].
Proof.
  cbn [dec_digits_fuel]; cbv zeta. destruct (n <? 10); [discriminate|].
  rewrite ddf_acc. intro H. apply app_eq_nil in H as [_ H]. discriminate.
Qed.

Lemma show_dec_isd n : Forall isd (show_dec n).
Proof. unfold show_dec. apply ddf_isd. constructor. Qed.

Lemma show_dec_ne n : show_dec n <> [].
Proof. unfold show_dec. apply (ddf_ne 39). Qed.

Lemma isd_range c : isd c -> 48 <= c <= 57.
Proof.
  unfold isd, is_digit. intro H. apply andb_true_iff in H as [H1 H2].
  apply N.leb_le in H1. apply N.leb_le in H2. lia.
Qed.

Lemma uint_digits max s : s <> [] -> Forall isd s -> uint_from_str max s = digits_loop max s 0.
Proof.
  intros Hne Hd. destruct s as [|c t]; [contradiction|].
  apply Forall_cons_iff in Hd as [Hc _]. apply isd_range in Hc.
  unfold uint_from_str.
  assert (E43 : (c =? 43) = false) by (apply N.eqb_neq; lia).
  assert (E45 : (c =? 45) = false) by (apply N.eqb_neq; lia).
  rewrite E43, E45. destruct t; reflexivity.
Qed.

Lemma pow_10_40 : 4294967296 < 10 ^ N.of_nat 40.
Proof. vm_compute. reflexivity. Qed.

(* Display for an unsigned integer, then FromStr with any bound not below it *)
Lemma show_dec_parse max n : n < 4294967296 -> n <= max -> uint_from_str max (show_dec n) = Some n.
Proof.
  intros Hn Hmax. rewrite uint_digits by (apply show_dec_ne || apply show_dec_isd).
  unfold show_dec. apply ddf_digits; [|exact Hmax]. pose proof pow_10_40. lia.
Qed.

Lemma show_dec_all_digits n : all_digits (show_dec n) = true.
Proof.
  unfold all_digits. apply forallb_forall. intros c Hc.
  pose proof (show_dec_isd n) as H. rewrite Forall_forall in H. apply H. exact Hc.
Qed.

(* ====================================================================== *)
(* characters                                                              *)
(* ====================================================================== *)

Lemma sweep_imp (p q : N -> bool) :
  forallb (fun c => implb (p c) (q c)) (map N.of_nat (seq 0 256)) = true ->
  forall c, c < 256 -> p c = true -> q c = true.
Proof.
  intros H c Hc Hp. pose proof (below_256 _ H c Hc) as Hi. cbv beta in Hi. rewrite Hp in Hi. exact Hi.
Qed.

Lemma digit_plain c : isd c -> plain_char c = true.
Proof.
  intro H. pose proof (isd_range c H). apply (sweep_imp is_digit plain_char); [vm_compute; reflexivity|lia|exact H].
Qed.

Lemma digits_plain_token s : s <> [] -> Forall isd s -> plain_token s = true.
Proof.
  intros Hne Hd. unfold plain_token. apply andb_true_iff. split; [destruct s; [contradiction|reflexivity]|].
  apply forallb_forall. intros c Hc. rewrite Forall_forall in Hd. apply digit_plain, Hd, Hc.
Qed.

Lemma show_dec_plain n : plain_token (show_dec n) = true.
Proof. apply digits_plain_token; [apply show_dec_ne|apply show_dec_isd]. Qed.

Definition noupper (s : list N) : Prop := Forall (fun c => is_upper c = false) s.

(* ====================================================================== *)
(* record type mnemonics                                                   *)
(* ====================================================================== *)

Lemma rtype_from_str_upper s t : rtype_from_str s = Some t -> exists c r, s = c :: r /\ is_upper c = true.
Proof.
  unfold rtype_from_str. destruct (find (fun p => leqb s (snd p)) rtype_table) as [p|] eqn:F.
  - intros _. apply find_some in F as [Hin Heq]. apply leqb_eq in Heq. subst s.
    assert (Hall : forallb (fun p : N * list N => match snd p with c :: _ => is_upper c | [] => false end) rtype_table = true)
      by (vm_compute; reflexivity).
    rewrite forallb_forall in Hall. specialize (Hall p Hin). destruct (snd p) as [|c r]; [discriminate|]. eauto.
  - destruct s as [|c r]; [discriminate|]. unfold rtype_unknown_prefix. cbn [strip_prefix].
    destruct (84 =? c) eqn:E; [|discriminate]. apply N.eqb_eq in E. subst c. intros _. exists 84, r. split; reflexivity.
Qed.

Lemma noupper_not_type s : noupper s -> rtype_from_str s = None.
Proof.
  intro H. destruct (rtype_from_str s) as [t|] eqn:E; [|reflexivity].
  apply rtype_from_str_upper in E as (c & r & -> & Hc). apply Forall_cons_iff in H as [H _]. congruence.
Qed.

Definition known_types : list N := [1; 2; 3; 4; 5; 6; 7; 8; 9; 10; 11; 12; 13; 14; 15; 16; 28; 33].

Lemma known_cases ty : rtype_known ty = true -> In ty known_types.
Proof.
  unfold rtype_known. intro H. apply existsb_exists in H as (p & Hin & E). apply N.eqb_eq in E. subst ty.
  change known_types with (map fst rtype_table). apply in_map. exact Hin.
Qed.

Lemma show_rtype_parse ty : rtype_known ty = true -> rtype_from_str (show_rtype ty) = Some ty.
Proof.
  intro H. apply known_cases in H. unfold known_types in H.
  repeat (destruct H as [<-|H]; [vm_compute; reflexivity|]). destruct H.
Qed.

Lemma show_rtype_plain ty : rtype_known ty = true -> plain_token (show_rtype ty) = true.
Proof.
  intro H. apply known_cases in H. unfold known_types in H.
  repeat (destruct H as [<-|H]; [vm_compute; reflexivity|]). destruct H.
Qed.

(* ====================================================================== *)
(* atoms: the tokens Zone::serialise writes                                *)
(* ====================================================================== *)

Inductive atom :=
| ARaw (s : list N)          (* written as it is: numbers, mnemonics, addresses *)
| AUnq (s : list N)          (* serialise_octets s false: names *)
| AQuo (s : list N).         (* serialise_octets s true: octet strings *)

Definition atom_text (a : atom) : list N :=
  match a with ARaw s => s | AUnq s => serialise_octets s false | AQuo s => serialise_octets s true end.
Definition atom_tok (a : atom) : list N := match a with ARaw s | AUnq s | AQuo s => s end.
Definition atom_w (a : atom) : wtoken :=
  match a with ARaw s => rawtok s | AUnq s => ser_token false s | AQuo s => ser_token true s end.
Definition octets (s : list N) : Prop := Forall (fun o => o < 256) s.
Definition atom_ok (a : atom) : Prop :=
  match a with
  | ARaw s => plain_token s = true
  | AUnq s => octets s /\ s <> []
  | AQuo s => octets s
  end.

Lemma atom_w_text a : atom_ok a -> wtoken_text (atom_w a) = atom_text a.
Proof.
  destruct a as [s|s|s]; cbn [atom_ok atom_w atom_text].
  - intros _. apply (item_text_raw s).
  - intros [H _]. apply ser_token_text. exact H.
  - intro H. apply ser_token_text. exact H.
Qed.

Lemma atom_w_octets a : wtoken_octets (atom_w a) = atom_tok a.
Proof. destruct a; cbn [atom_w atom_tok]; [apply octets_raw|apply ser_token_octets|apply ser_token_octets]. Qed.

Lemma atom_w_ok a : atom_ok a -> wtoken_ok (atom_w a) = true.
Proof.
  destruct a as [s|s|s]; cbn [atom_ok atom_w].
  - apply rawtok_ok.
  - intros [H Hne]. apply ser_token_ok; [exact H|right; exact Hne].
  - intro H. apply ser_token_ok; [exact H|left; reflexivity].
Qed.

(* first token, [k] extra spaces, then the other tokens each preceded by one space *)
Definition line_items (a0 : atom) (k : nat) (rest : list atom) : list item :=
  ITok (atom_w a0) :: repeat (IWs 32) k ++ flat_map (fun a => [IWs 32; ITok (atom_w a)]) rest.
Definition line_text (a0 : atom) (k : nat) (rest : list atom) : list N :=
  atom_text a0 ++ repeat 32 k ++ flat_map (fun a => 32 :: atom_text a) rest.

Lemma layout_tail rest : Forall atom_ok rest -> forall g,
  layout_ok false g (flat_map (fun a => [IWs 32; ITok (atom_w a)]) rest) = Some false.
Proof.
  induction 1 as [|a rest Ha _ IH]; intro g; [reflexivity|].
  cbn [flat_map app layout_ok]. change (ws_char 32) with true. cbn iota.
  rewrite (atom_w_ok a Ha). apply IH.
Qed.

Lemma layout_pad k tail : forall g,
  layout_ok false g (repeat (IWs 32) k ++ tail) = match k with O => layout_ok false g tail | S _ => layout_ok false false tail end.
Proof.
  induction k as [|k IH]; intro g; [reflexivity|].
  cbn [repeat app layout_ok]. change (ws_char 32) with true. cbn iota. rewrite IH. destruct k; reflexivity.
Qed.

Lemma line_items_ok a0 k rest : atom_ok a0 -> Forall atom_ok rest ->
  layout_ok false false (line_items a0 k rest) = Some false.
Proof.
  intros H0 Hr. unfold line_items. cbn [layout_ok]. rewrite (atom_w_ok a0 H0), layout_pad.
  destruct k; apply layout_tail; exact Hr.
Qed.

Lemma items_text_app a b : items_text (a ++ b) = items_text a ++ items_text b.
Proof. unfold items_text. apply flat_map_app. Qed.

Lemma items_text_repeat k : items_text (repeat (IWs 32) k) = repeat 32 k.
Proof. induction k as [|k IH]; [reflexivity|]. cbn [repeat]. unfold items_text in *. cbn [flat_map item_text app]. rewrite IH. reflexivity. Qed.

Lemma line_items_text a0 k rest : atom_ok a0 -> Forall atom_ok rest ->
  items_text (line_items a0 k rest) = line_text a0 k rest.
Proof.
  intros H0 Hr. unfold line_items, line_text.
  change (ITok (atom_w a0) :: repeat (IWs 32) k ++ flat_map (fun a => [IWs 32; ITok (atom_w a)]) rest)
    with ([ITok (atom_w a0)] ++ repeat (IWs 32) k ++ flat_map (fun a => [IWs 32; ITok (atom_w a)]) rest).
  rewrite !items_text_app, items_text_repeat.
  f_equal; [unfold items_text; cbn [flat_map item_text]; rewrite app_nil_r; apply atom_w_text; exact H0|].
  f_equal. induction Hr as [|a rest Ha _ IH]; [reflexivity|].
  cbn [flat_map]. unfold items_text in *. cbn [flat_map app item_text]. rewrite (atom_w_text a Ha), <- IH. reflexivity.
Qed.

Lemma items_tokens_repeat k tail : items_tokens (repeat (IWs 32) k ++ tail) = items_tokens tail.
Proof. induction k as [|k IH]; [reflexivity|]. cbn [repeat app items_tokens]. exact IH. Qed.

Lemma line_items_tokens a0 k rest :
  map wtoken_octets (items_tokens (line_items a0 k rest)) = map atom_tok (a0 :: rest).
Proof.
  unfold line_items. cbn [items_tokens map]. rewrite atom_w_octets, items_tokens_repeat. f_equal.
  induction rest as [|a rest IH]; [reflexivity|]. cbn [flat_map app items_tokens map]. rewrite atom_w_octets, IH. reflexivity.
Qed.

(* a line of tokens separated by spaces, ended by a newline, is read back as these tokens *)
Theorem tokenise_atoms a0 k rest tail : atom_ok a0 -> Forall atom_ok rest ->
  tokenise_entry (line_text a0 k rest ++ 10 :: tail) = Ok (map dup (map atom_tok (a0 :: rest)), tail).
Proof.
  intros H0 Hr. rewrite <- (line_items_text a0 k rest H0 Hr).
  pose proof (tokenise_render (line_items a0 k rest) TNl tail (line_items_ok a0 k rest H0 Hr) eq_refl) as R.
  cbn [terminator_text terminator_rest] in R. rewrite R, line_items_tokens. reflexivity.
Qed.

Lemma tail_text rest : rest <> [] ->
  flat_map (fun a => 32 :: atom_text a) rest = 32 :: render_simple (map atom_text rest).
Proof.
  induction rest as [|a rest IH]; intro H; [contradiction|].
  cbn [flat_map map render_simple]. destruct rest as [|b rest].
  - cbn [flat_map map]. rewrite app_nil_r. reflexivity.
  - rewrite IH by discriminate. cbn [map app]. reflexivity.
Qed.

(* ====================================================================== *)
(* names                                                                   *)
(* ====================================================================== *)

(* a name the zone-file syntax can express: well formed, labels ASCII and dot-free (D7) *)
Definition name_ok (n : dname) : Prop := wf_name n /\ ascii_nodot n.

Definition mk (front : list label) : dname := {| labels := front ++ [[]]; nlen := sum_lens (front ++ [[]]) |}.

Lemma name_ok_dest n : name_ok n ->
  exists front, n = mk front /\ good_front front /\ Forall ascii_label front /\ sum_lens (front ++ [[]]) <= 255.
Proof.
  intros [Hw Ha]. destruct (wf_name_dest n Hw) as (front & -> & Hf & Hs). exists front.
  unfold ascii_nodot in Ha. cbn [labels] in Ha. apply Forall_app in Ha as [Ha _]. auto.
Qed.

Lemma root_name_ok : name_ok root_domain.
Proof. split; [apply root_wf|]. unfold ascii_nodot. cbn. repeat constructor. Qed.

(* lower-case ASCII: what the text of such a name is made of *)
Definition lc (c : N) : Prop := c < 128 /\ is_upper c = false.

Lemma dotjoin_app a b : dotjoin (a ++ b) = dotjoin a ++ dotjoin b.
Proof. unfold dotjoin. rewrite map_app, concat_app. reflexivity. Qed.

Lemma dotjoin_cons l t : dotjoin (l :: t) = l ++ 46 :: dotjoin t.
Proof. unfold dotjoin. cbn [map concat]. rewrite <- app_assoc. reflexivity. Qed.

Lemma join_dots_snoc pre l : join_dots (pre ++ [l]) = dotjoin pre ++ l.
Proof.
  induction pre as [|x pre IH]; [reflexivity|].
  rewrite dotjoin_cons, <- app_assoc. cbn [app]. rewrite <- IH. cbn [join_dots].
  destruct (pre ++ [l]) eqn:E; [destruct pre; discriminate|reflexivity].
Qed.

Lemma join_dots_dot pre rest : pre <> [] -> join_dots pre ++ 46 :: rest = dotjoin pre ++ rest.
Proof.
  intro H. destruct (exists_last H) as (p & l & ->).
  rewrite join_dots_snoc, dotjoin_app, dotjoin_cons. change (dotjoin []) with (@nil N).
  rewrite <- !app_assoc. reflexivity.
Qed.

Lemma dotjoin_forall (P : N -> Prop) front : P 46 -> Forall (Forall P) front -> Forall P (dotjoin front).
Proof.
  intros H46 H. induction H as [|l t Hl _ IH]; [constructor|].
  rewrite dotjoin_cons. apply Forall_app. split; [exact Hl|constructor; assumption].
Qed.

Lemma join_dots_forall (P : N -> Prop) pre : P 46 -> Forall (Forall P) pre -> Forall P (join_dots pre).
Proof.
  intros H46 H. destruct pre as [|x p]; [constructor|].
  destruct (exists_last (l := x :: p) ltac:(discriminate)) as (q & l & E). rewrite E in *.
  rewrite join_dots_snoc. apply Forall_app in H as [Hq Hl]. apply Forall_cons_iff in Hl as [Hl _].
  apply Forall_app. split; [apply dotjoin_forall; assumption|exact Hl].
Qed.

Lemma lc_46 : lc 46.
Proof. split; [lia|reflexivity]. Qed.

Lemma front_lc front : good_front front -> Forall ascii_label front -> Forall (Forall lc) front.
Proof.
  intros Hf Ha. unfold good_front in Hf. rewrite Forall_forall in *. intros l Hl.
  destruct (Hf l Hl) as [_ [_ Hw]]. specialize (Ha l Hl). unfold ascii_label in Ha.
  rewrite Forall_forall in *. intros c Hc. split; [apply (Ha c Hc)|apply (Hw c Hc)].
Qed.

Lemma last_opt_snoc {A} (s : list A) c : last_opt (s ++ [c]) = Some c.
Proof.
  induction s as [|x s IH]; [reflexivity|]. cbn [app last_opt].
  destruct (s ++ [c]) eqn:E; [destruct s; discriminate|]. exact IH.
Qed.

Lemma is_root_front front len : good_front front -> front <> [] ->
  is_root {| labels := front ++ [[]]; nlen := len |} = false.
Proof.
  intros Hf Hne. destruct front as [|l f]; [contradiction|]. apply Forall_cons_iff in Hf as [[Hl _] _].
  unfold is_root. cbn [labels app]. destruct l; [contradiction|]. cbn [label_is_empty]. apply andb_false_r.
Qed.

Lemma to_dotted_mk front : good_front front -> front <> [] -> to_dotted_string (mk front) = dotjoin front.
Proof. intros Hf Hne. apply to_dotted_nonroot; [exact Hne|apply good_front_nonempty; exact Hf]. Qed.

Lemma dotjoin_last front : front <> [] -> exists X, dotjoin front = X ++ [46].
Proof.
  intro H. destruct (exists_last H) as (p & l & ->). rewrite dotjoin_app, dotjoin_cons.
  change (dotjoin []) with (@nil N). exists (dotjoin p ++ l). rewrite <- app_assoc. reflexivity.
Qed.

Lemma to_dotted_last n : name_ok n -> exists X, to_dotted_string n = X ++ [46].
Proof.
  intro H. destruct (name_ok_dest n H) as (front & -> & Hf & _ & _).
  destruct front as [|l f] eqn:E; [exists []; reflexivity|]. rewrite <- E in *.
  rewrite to_dotted_mk by (try assumption; subst; discriminate). apply dotjoin_last. subst; discriminate.
Qed.

Lemma to_dotted_lc n : name_ok n -> Forall lc (to_dotted_string n).
Proof.
  intro H. destruct (name_ok_dest n H) as (front & -> & Hf & Ha & _).
  destruct front as [|l f] eqn:E; [constructor; [apply lc_46|constructor]|]. rewrite <- E in *.
  rewrite to_dotted_mk by (try assumption; subst; discriminate).
  apply dotjoin_forall; [apply lc_46|apply front_lc; assumption].
Qed.

Lemma lc_ascii s : Forall lc s -> forallb is_ascii s = true.
Proof.
  intro H. apply forallb_forall. intros c Hc. rewrite Forall_forall in H. destruct (H c Hc) as [Hlt _].
  unfold is_ascii. apply N.ltb_lt. exact Hlt.
Qed.

Lemma lc_octets s : Forall lc s -> octets s.
Proof. unfold octets. apply Forall_impl. intros c [H _]. lia. Qed.

Lemma lc_noupper s : Forall lc s -> noupper s.
Proof. unfold noupper. apply Forall_impl. intros c [_ H]. exact H. Qed.

Lemma lc_utf8 s : Forall lc s -> utf8 s = s.
Proof. intro H. apply utf8_ascii. revert H. apply Forall_impl. intros c [H _]. exact H. Qed.

(* an absolute name is read back whatever the origin *)
Lemma parse_domain_abs origin n : name_ok n -> parse_domain origin (to_dotted_string n) = Ok n.
Proof.
  intro H. destruct (to_dotted_last n H) as [X E]. pose proof (to_dotted_lc n H) as Hlc.
  unfold parse_domain.
  assert (E1 : is_nil (to_dotted_string n) = false) by (rewrite E; destruct X; reflexivity).
  assert (E3 : leqb (to_dotted_string n) S_AT = false).
  { apply leqb_false. rewrite E. intro F. change S_AT with ([] ++ [64]) in F. apply app_inj_tail in F as [_ F]. discriminate. }
  rewrite E1, (lc_ascii _ Hlc), E3. cbn [negb]. unfold last_char. rewrite E, last_opt_snoc. cbn [bind].
  change (46 =? 46) with true. cbn iota. rewrite <- E, dotted_roundtrip by apply H. reflexivity.
Qed.

Lemma parse_domain_at apex : parse_domain (Some apex) S_AT = Ok apex.
Proof. reflexivity. Qed.

Lemma from_rel_nonempty o s : s <> [] ->
  from_relative_dotted_string o s
  = if ends_with_dot s then from_dotted_string s
    else if starts_dot (to_dotted_string o) then from_dotted_string (s ++ to_dotted_string o)
         else from_dotted_string (s ++ 46 :: to_dotted_string o).
Proof. intro H. unfold from_relative_dotted_string. destruct s; [contradiction|]. rewrite match_dot. reflexivity. Qed.

Lemma ends_with_dot_snoc X c : c <> 46 -> ends_with_dot (X ++ [c]) = false.
Proof.
  intro Hc. unfold ends_with_dot. rewrite rev_app_distr. change (rev [c] ++ rev X) with (c :: rev X).
  rewrite match_dot, (starts_dot_cons _ _ Hc). reflexivity.
Qed.

(* a name strictly beneath the origin, written without it *)
Lemma parse_domain_rel pre afront :
  name_ok (mk (pre ++ afront)) -> name_ok (mk afront) -> afront <> [] -> pre <> [] -> join_dots pre <> S_AT ->
  parse_domain (Some (mk afront)) (join_dots pre) = Ok (mk (pre ++ afront)).
Proof.
  intros Hn Ha Hane Hpne Hat.
  destruct (name_ok_dest _ Hn) as (nf & En & Hnf & Hna & _).
  assert (nf = pre ++ afront).
  { unfold mk in En. inversion En as [[E1 E2]]. apply app_inj_tail in E1 as [E1 _]. symmetry. exact E1. }
  subst nf. clear En.
  destruct (name_ok_dest _ Ha) as (af & Ea & Haf & Haa & _).
  assert (af = afront).
  { unfold mk in Ea. inversion Ea as [[E1 E2]]. apply app_inj_tail in E1 as [E1 _]. symmetry. exact E1. }
  subst af. clear Ea.
  pose proof (front_lc _ Hnf Hna) as Hlc. apply Forall_app in Hlc as [Hlcp _].
  pose proof (join_dots_forall lc pre lc_46 Hlcp) as Htxt.
  (* the last character is not a dot *)
  destruct (exists_last Hpne) as (p & l & Ep).
  assert (Hl : l <> [] /\ ~ In 46 l).
  { unfold good_front in Hnf. rewrite Ep, <- app_assoc in Hnf, Hna. apply Forall_app in Hnf as [_ Hnf]. apply Forall_app in Hna as [_ Hna].
    apply Forall_cons_iff in Hnf as [[Hne _] _]. apply Forall_cons_iff in Hna as [Hal _].
    split; [exact Hne|apply ascii_label_nodot; exact Hal]. }
  destruct Hl as [Hlne Hlnd]. destruct (exists_last Hlne) as (l' & c & El).
  assert (Hc : c <> 46) by (intro; subst c; apply Hlnd; rewrite El; apply in_or_app; right; left; reflexivity).
  assert (Etxt : join_dots pre = (dotjoin p ++ l') ++ [c]).
  { rewrite Ep, join_dots_snoc, El, app_assoc. reflexivity. }
  unfold parse_domain.
  assert (E1 : is_nil (join_dots pre) = false) by (rewrite Etxt; destruct (dotjoin p ++ l'); reflexivity).
  rewrite E1, (lc_ascii _ Htxt), (leqb_false _ _ Hat). cbn [negb]. unfold last_char. rewrite Etxt at 1. rewrite last_opt_snoc. cbn [bind].
  rewrite (proj2 (N.eqb_neq c 46) Hc).
  rewrite from_rel_nonempty by (rewrite Etxt; destruct (dotjoin p ++ l'); discriminate).
  assert (Eed : ends_with_dot (join_dots pre) = false).
  { rewrite Etxt. apply ends_with_dot_snoc. exact Hc. }
  rewrite Eed. rewrite (to_dotted_mk afront Haf Hane).
  assert (Esd : starts_dot (dotjoin afront) = false).
  { destruct afront as [|a0 af]; [contradiction|]. apply Forall_cons_iff in Haf as [[Hne0 _] _]. apply Forall_cons_iff in Haa as [Ha0 _].
    rewrite dotjoin_cons. destruct a0 as [|b a0]; [contradiction|]. apply Forall_cons_iff in Ha0 as [[_ Hb] _].
    cbn [app]. apply starts_dot_cons. exact Hb. }
  rewrite Esd, (join_dots_dot pre (dotjoin afront) Hpne), <- dotjoin_app.
  pose proof (dotted_roundtrip _ (proj1 Hn) (proj2 Hn)) as Ed.
  rewrite (to_dotted_mk _ Hnf) in Ed by (destruct pre; [contradiction|discriminate]).
  unfold label, byte in *. rewrite Ed. reflexivity.
Qed.

(* ---- owners: parse_domain_or_wildcard ---- *)

Lemma pdw_plain o s : s <> [] -> s <> S_STAR -> (forall t, s <> 42 :: 46 :: t) ->
  parse_domain_or_wildcard o s = let* name := parse_domain o s in normal_or_star name.
Proof.
  intros Hne Hs Hsd. unfold parse_domain_or_wildcard.
  destruct s as [|c0 [|c1 t]]; [contradiction| |]; cbn [is_nil]; rewrite (leqb_false _ _ Hs);
    cbn [len_ge len_is idx nth_error bind]; [reflexivity|].
  destruct (N.eqb_spec c0 42) as [->|H0]; cbn [bind]; [|reflexivity].
  destruct (N.eqb_spec c1 46) as [->|H1]; [exfalso; exact (Hsd t eq_refl)|reflexivity].
Qed.

Lemma pdw_star_dot o s : s <> [] ->
  parse_domain_or_wildcard o (42 :: 46 :: s) = let* name := parse_domain o s in Ok (MWildcard name).
Proof.
  intro Hne. unfold parse_domain_or_wildcard. cbn [is_nil].
  assert (E : leqb (42 :: 46 :: s) S_STAR = false) by (apply leqb_false; discriminate).
  rewrite E. cbn [len_ge idx nth_error bind]. change (42 =? 42) with true. cbn iota. cbn [bind].
  change (46 =? 46) with true. cbn iota. destruct s as [|x s]; [contradiction|]. reflexivity.
Qed.

Definition first_label (n : dname) : label := match labels n with l :: _ => l | [] => [] end.

Lemma normal_or_star_normal n : first_label n <> S_STAR -> normal_or_star n = Ok (MNormal n).
Proof.
  unfold first_label, normal_or_star. intro H.
  destruct (labels n) as [|l0 [|l1 t]]; cbn [len_ge idx nth_error bind]; try reflexivity.
  rewrite (leqb_false _ _ H). reflexivity.
Qed.

(* a text that starts with a label other than "*" is not the wildcard syntax *)
Lemma not_star_text l0 rest : l0 <> [] -> l0 <> S_STAR -> ~ In 46 l0 -> (rest = [] \/ exists r, rest = 46 :: r) ->
  l0 ++ rest <> [] /\ l0 ++ rest <> S_STAR /\ forall t, l0 ++ rest <> 42 :: 46 :: t.
Proof.
  intros Hne Hs Hnd Hrest. destruct l0 as [|c0 l0]; [contradiction|]. split; [discriminate|]. split.
  - destruct Hrest as [->|[r ->]].
    + rewrite app_nil_r. exact Hs.
    + intro F. destruct l0; discriminate.
  - intros t F. cbn [app] in F. inversion F as [[F0 F1]]. subst c0.
    destruct l0 as [|c1 l0].
    + apply Hs. reflexivity.
    + cbn [app] in F1. inversion F1. subst c1. apply Hnd. right. left. reflexivity.
Qed.

(* ====================================================================== *)
(* serialise_domain                                                        *)
(* ====================================================================== *)

(* the origin in force when the records of Zone::serialise's output are read: the apex if a
   "$ORIGIN" line was written, none otherwise *)
Definition zorigin (z : zone) : option dname :=
  if zone_is_authoritative z && negb (is_root (z_apex z)) then Some (z_apex z) else None.

(* the text serialise_domain writes before escaping *)
Definition dom_text (z : zone) (name : dname) : list N :=
  let apex := z_apex z in
  if is_root apex || negb (zone_is_authoritative z) || negb (is_subdomain_of name apex)
  then to_dotted_string name
  else if dname_eqb name apex then S_AT
  else
    let relative := join_dots (firstn (length (labels name) - length (labels apex)) (labels name)) in
    if leqb relative S_AT then to_dotted_string name else relative.

Inductive dom_case (z : zone) (name : dname) : list N -> Prop :=
| DC_abs : dom_case z name (to_dotted_string name)
| DC_at : zorigin z = Some name -> dom_case z name S_AT
| DC_rel pre afront : zorigin z = Some (mk afront) -> name = mk (pre ++ afront) -> afront <> [] -> pre <> [] ->
                      join_dots pre <> S_AT -> dom_case z name (join_dots pre).

Lemma firstn_app_len {A} (a b : list A) : firstn (length (a ++ b) - length b) (a ++ b) = a.
Proof.
  rewrite app_length. replace (length a + length b - length b)%nat with (length a + 0)%nat by lia.
  rewrite firstn_app_2. cbn [firstn]. apply app_nil_r.
Qed.

Lemma mk_inj a b : mk a = mk b -> a = b.
Proof. unfold mk. intro H. injection H as E E2. apply app_inj_tail in E as [E _]. exact E. Qed.

Lemma dom_text_case z name : name_ok (z_apex z) -> name_ok name ->
  dom_case z name (dom_text z name) /\
  serialise_domain z name = Ok (serialise_octets (dom_text z name) false).
Proof.
  intros Ha Hn. unfold dom_text, serialise_domain.
  destruct (is_root (z_apex z) || negb (zone_is_authoritative z) || negb (is_subdomain_of name (z_apex z))) eqn:C.
  { split; [constructor|]. cbn [bind]. rewrite (lc_utf8 _ (to_dotted_lc name Hn)). reflexivity. }
  apply orb_false_iff in C as [C Hsub]. apply orb_false_iff in C as [Hroot Hauth].
  apply negb_false_iff in Hsub. apply negb_false_iff in Hauth.
  assert (Ho : zorigin z = Some (z_apex z)) by (unfold zorigin; rewrite Hauth, Hroot; reflexivity).
  destruct (dname_eqb name (z_apex z)) eqn:Eeq.
  { apply dname_eqb_eq in Eeq. split; [apply DC_at; rewrite Ho, Eeq; reflexivity|]. reflexivity. }
  destruct (name_ok_dest _ Ha) as (afront & Eapex & Haf & Haa & _).
  destruct (name_ok_dest _ Hn) as (nfront & Ename & Hnf & Hna & _).
  apply subdomain_is_suffix in Hsub as [pre Hpre]. rewrite Eapex, Ename in Hpre. cbn [mk labels] in Hpre.
  rewrite app_assoc in Hpre. apply app_inj_tail in Hpre as [Hpre _]. subst nfront.
  assert (Hane : afront <> []).
  { intro E. subst afront. rewrite Eapex in Hroot. discriminate. }
  assert (Hpne : pre <> []).
  { intro E. subst pre. cbn [app] in Ename. rewrite Ename, Eapex in Eeq.
    assert (X : dname_eqb (mk afront) (mk afront) = true) by (apply dname_eqb_eq; reflexivity). congruence. }
  assert (Ekeep : firstn (length (labels name) - length (labels (z_apex z))) (labels name) = pre).
  { rewrite Ename, Eapex. cbn [mk labels]. rewrite <- app_assoc. apply firstn_app_len. }
  rewrite Ekeep.
  assert (Elen : Nat.ltb (length (labels name)) (length (labels (z_apex z))) || (nlen name <? nlen (z_apex z)) = false).
  { rewrite Ename, Eapex. cbn [mk labels nlen]. apply orb_false_iff. split.
    - apply PeanoNat.Nat.ltb_ge. rewrite !app_length. lia.
    - apply N.ltb_ge. rewrite !sum_lens_app. lia. }
  rewrite Elen. cbv zeta.
  assert (Erel : to_dotted_string {| labels := pre; nlen := nlen name - nlen (z_apex z) |} = join_dots pre).
  { unfold to_dotted_string.
    assert (R : is_root {| labels := pre; nlen := nlen name - nlen (z_apex z) |} = false).
    { destruct pre as [|l0 p]; [contradiction|]. unfold good_front in Hnf. cbn [app] in Hnf. apply Forall_cons_iff in Hnf as [[Hl0 _] _].
      unfold is_root. cbn [labels]. destruct l0; [contradiction|]. cbn [label_is_empty]. apply andb_false_r. }
    rewrite R. reflexivity. }
  rewrite Erel.
  destruct (leqb (join_dots pre) S_AT) eqn:Eat.
  { split; [constructor|]. cbn [bind]. rewrite (lc_utf8 _ (to_dotted_lc name Hn)). reflexivity. }
  split.
  - apply DC_rel with (afront := afront); try assumption; [congruence|].
    intro F. rewrite F in Eat. discriminate.
  - cbn [bind]. rewrite lc_utf8; [reflexivity|].
    apply join_dots_forall; [apply lc_46|]. pose proof (front_lc _ Hnf Hna) as Hlc. apply Forall_app in Hlc. apply Hlc.
Qed.

Lemma serialise_domain_text z name : name_ok (z_apex z) -> name_ok name ->
  serialise_domain z name = Ok (serialise_octets (dom_text z name) false).
Proof. intros Ha Hn. apply (dom_text_case z name Ha Hn). Qed.

(* the text is non-empty lower-case ASCII *)
Lemma dom_text_lc z name : name_ok (z_apex z) -> name_ok name -> dom_text z name <> [] /\ Forall lc (dom_text z name).
Proof.
  intros Ha Hn. destruct (dom_text_case z name Ha Hn) as [Hc _].
  destruct Hc as [|Ho|pre afront Ho En Hane Hpne Hat].
  - destruct (to_dotted_last name Hn) as [X E]. split; [rewrite E; destruct X; discriminate|apply to_dotted_lc; exact Hn].
  - split; [discriminate|]. constructor; [split; [lia|reflexivity]|constructor].
  - destruct (name_ok_dest _ Hn) as (nf & En' & Hnf & Hna & _). rewrite En in En'. apply mk_inj in En'. subst nf.
    pose proof (front_lc _ Hnf Hna) as Hlc. apply Forall_app in Hlc as [Hlcp _]. split.
    + destruct pre as [|l0 p]; [contradiction|]. unfold good_front in Hnf. cbn [app] in Hnf. apply Forall_cons_iff in Hnf as [[Hl0 _] _].
      destruct l0; [contradiction|]. cbn [join_dots]. destruct p; discriminate.
    + apply join_dots_forall; [apply lc_46|exact Hlcp].
Qed.

(* C13 relative_name_roundtrip: what serialise_domain wrote for a name is read back as that
   name under the origin in force -- relative to the apex, "@", or absolute (root apex, not
   authoritative, outside the apex, or the relative part being the single label "@") *)
Theorem dom_text_parse z name : name_ok (z_apex z) -> name_ok name ->
  parse_domain (zorigin z) (dom_text z name) = Ok name.
Proof.
  intros Ha Hn. destruct (dom_text_case z name Ha Hn) as [Hc _].
  destruct Hc as [|Ho|pre afront Ho En Hane Hpne Hat].
  - apply parse_domain_abs. exact Hn.
  - rewrite Ho. apply parse_domain_at.
  - rewrite Ho, En. apply parse_domain_rel; try assumption; [rewrite <- En; exact Hn|].
    unfold zorigin in Ho. destruct (zone_is_authoritative z && negb (is_root (z_apex z))); [|discriminate].
    injection Ho as E. rewrite <- E. exact Ha.
Qed.

(* in owner position: an ordinary owner whose leftmost label is not "*" ... *)
Theorem dom_text_owner z name : name_ok (z_apex z) -> name_ok name -> first_label name <> S_STAR ->
  parse_domain_or_wildcard (zorigin z) (dom_text z name) = Ok (MNormal name).
Proof.
  intros Ha Hn Hfl.
  assert (Hns : dom_text z name <> [] /\ dom_text z name <> S_STAR /\ forall t, dom_text z name <> 42 :: 46 :: t).
  { destruct (dom_text_case z name Ha Hn) as [Hc _].
    destruct (name_ok_dest _ Hn) as (nf & En' & Hnf & Hna & _).
    destruct Hc as [|Ho|pre afront Ho En Hane Hpne Hat].
    - subst name. destruct nf as [|l0 f] eqn:E.
      + change (to_dotted_string (mk [])) with [46]. repeat split; discriminate.
      + rewrite <- E in *. rewrite to_dotted_mk by (try assumption; subst; discriminate). subst nf.
        rewrite dotjoin_cons. unfold good_front in Hnf. apply Forall_cons_iff in Hnf as [[Hl0 _] _]. apply Forall_cons_iff in Hna as [Hal0 _].
        apply not_star_text; [exact Hl0|exact Hfl|apply ascii_label_nodot; exact Hal0|right; eauto].
    - repeat split; discriminate.
    - rewrite En in En'. apply mk_inj in En'. subst nf.
      destruct pre as [|l0 p]; [contradiction|]. unfold good_front in Hnf. cbn [app] in Hnf, Hna.
      apply Forall_cons_iff in Hnf as [[Hl0 _] _]. apply Forall_cons_iff in Hna as [Hal0 _].
      assert (Hfl' : l0 <> S_STAR) by (rewrite En in Hfl; exact Hfl).
      destruct p as [|l1 p].
      + cbn [join_dots]. rewrite <- (app_nil_r l0). apply not_star_text; [exact Hl0|exact Hfl'|apply ascii_label_nodot; exact Hal0|left; reflexivity].
      + change (join_dots (l0 :: l1 :: p)) with (l0 ++ 46 :: join_dots (l1 :: p)).
        apply not_star_text; [exact Hl0|exact Hfl'|apply ascii_label_nodot; exact Hal0|right; eauto]. }
  destruct Hns as (H1 & H2 & H3). rewrite (pdw_plain _ _ H1 H2 H3), (dom_text_parse z name Ha Hn). cbn [bind].
  apply normal_or_star_normal. exact Hfl.
Qed.

(* ... and "*." before it is the wildcard at that name *)
Theorem dom_text_wild z name : name_ok (z_apex z) -> name_ok name ->
  parse_domain_or_wildcard (zorigin z) (42 :: 46 :: dom_text z name) = Ok (MWildcard name).
Proof.
  intros Ha Hn. rewrite pdw_star_dot by (apply (dom_text_lc z name Ha Hn)).
  rewrite (dom_text_parse z name Ha Hn). reflexivity.
Qed.

(* ====================================================================== *)
(* RDATA                                                                   *)
(* ====================================================================== *)

Definition v6_ok (g : list N) : Prop := length g = 8%nat /\ Forall (fun x => x < 65536) g.

(* what the address codec must satisfy: Display then FromStr is the identity, and Display
   writes characters that need no escaping (proved for Ip/IpModel.v in ZoneRoundTrip.v) *)
Definition codec_rt (ip : ipcodec) : Prop :=
  (forall a, a < 4294967296 -> parse_v4 ip (show_v4 ip a) = Some a /\ plain_token (show_v4 ip a) = true) /\
  (forall g, v6_ok g -> parse_v6 ip (show_v6 ip g) = Some g /\ plain_token (show_v6 ip g) = true).

(* RDATA the zone-file syntax can express: names as above, integers in their ranges, octet
   strings of octets *)
Definition rdata_ok (d : rdata) : Prop :=
  match d with
  | RD_A a => a < 4294967296
  | RD_Name n => name_ok n
  | RD_SOA m r a b c d e =>
    name_ok m /\ name_ok r /\ a < 4294967296 /\ b < 4294967296 /\ c < 4294967296 /\ d < 4294967296 /\ e < 4294967296
  | RD_Octets os => octets os
  | RD_MINFO r e => name_ok r /\ name_ok e
  | RD_MX p e => p < 65536 /\ name_ok e
  | RD_AAAA g => v6_ok g
  | RD_SRV p w po t => p < 65536 /\ w < 65536 /\ po < 65536 /\ name_ok t
  end.

Definition nouppb (s : list N) : bool := forallb (fun c => negb (is_upper c)) s.
Lemma noupper_b s : noupper s -> nouppb s = true.
Proof.
  intro H. apply forallb_forall. intros c Hc. unfold noupper in H. rewrite Forall_forall in H.
  rewrite (H c Hc). reflexivity.
Qed.

Lemma noupper_keywords s : noupper s ->
  leqb s S_ORIGIN = false /\ leqb s S_INCLUDE = false /\ leqb s S_IN = false.
Proof.
  intro H. apply noupper_b in H.
  repeat split; apply leqb_false; intro E; subst s; vm_compute in H; discriminate.
Qed.

Ltac nclosed :=
  repeat match goal with
         | |- context [N.eqb ?a ?b] =>
           let v := eval vm_compute in (N.eqb a b) in
           lazymatch v with true => idtac | false => idtac end;
           change (N.eqb a b) with v
         end.

Lemma line_shape (X P A B C R : list N) :
  (X ++ P) ++ sp ++ A ++ sp ++ B ++ sp ++ C ++ sp ++ R ++ nl
  = (X ++ P ++ (32 :: A) ++ (32 :: B) ++ (32 :: C) ++ 32 :: R) ++ [10].
Proof. unfold sp, nl. repeat rewrite <- app_assoc. cbn [app]. repeat rewrite <- app_assoc. reflexivity. Qed.

Section WithCodec.
  Variable ip : ipcodec.
  Hypothesis Hip : codec_rt ip.

  Definition nm (z : zone) (n : dname) : atom := AUnq (dom_text z n).
  Definition num (n : N) : atom := ARaw (show_dec n).

  (* the tokens of an RDATA *)
  Definition rd_atoms (z : zone) (d : rdata) : list atom :=
    match d with
    | RD_A a => [ARaw (show_v4 ip a)]
    | RD_Name n => [nm z n]
    | RD_SOA m r a b c d e => [nm z m; nm z r; num a; num b; num c; num d; num e]
    | RD_Octets os => [AQuo os]
    | RD_MINFO r e => [nm z r; nm z e]
    | RD_MX p e => [num p; nm z e]
    | RD_AAAA g => [ARaw (show_v6 ip g)]
    | RD_SRV p w po t => [num p; num w; num po; nm z t]
    end.

  Lemma nm_ok z n : name_ok (z_apex z) -> name_ok n -> atom_ok (nm z n).
  Proof.
    intros Ha Hn. destruct (dom_text_lc z n Ha Hn) as [Hne Hlc]. split; [apply lc_octets; exact Hlc|exact Hne].
  Qed.
  Lemma num_ok n : atom_ok (num n).
  Proof. apply show_dec_plain. Qed.

  Lemma rd_atoms_ok z d : name_ok (z_apex z) -> rdata_ok d -> Forall atom_ok (rd_atoms z d) /\ rd_atoms z d <> [].
  Proof.
    intros Ha Hd. split; [|destruct d; discriminate].
    destruct d; cbn [rd_atoms rdata_ok] in *;
      repeat match goal with H : _ /\ _ |- _ => destruct H end;
      repeat first [apply Forall_nil | apply Forall_cons]; try apply num_ok; try (apply nm_ok; assumption).
    - exact (proj2 (proj1 Hip _ Hd)).
    - exact Hd.
    - exact (proj2 (proj2 Hip _ Hd)).
  Qed.

  (* serialise_rdata writes these tokens separated by single spaces *)
  Lemma rdata_text z d : name_ok (z_apex z) -> rdata_ok d ->
    serialise_rdata ip z d = Ok (render_simple (map atom_text (rd_atoms z d))).
  Proof.
    intros Ha Hd.
    destruct d; cbn [rd_atoms rdata_ok serialise_rdata] in *;
      repeat match goal with H : _ /\ _ |- _ => destruct H end;
      rewrite ?serialise_domain_text by assumption; cbn [bind]; reflexivity.
  Qed.

  Ltac rd_finish Ha :=
    cbn [rd_atoms map atom_tok nm num len_is idx nth_error bind fst snd dup];
    rewrite ?(fun n Hn => dom_text_parse _ n Ha Hn) by assumption;
    rewrite ?show_dec_parse by (unfold U32_MAX, U16_MAX; lia);
    cbn [opt_of_res bind]; try reflexivity.

  (* ... and the parser reads type + these tokens back as the RDATA, for the 18 types *)
  Lemma rdata_parse z ty d :
    name_ok (z_apex z) -> rtype_known ty = true -> shape_of_rdata d = shape_of_type ty -> rdata_ok d ->
    try_parse_rtype_with_data ip (zorigin z) (map dup (show_rtype ty :: map atom_tok (rd_atoms z d))) = Ok (Some (ty, d)).
  Proof.
    intros Ha Hk Hs Hd. unfold try_parse_rtype_with_data. cbn [map is_nil idx nth_error bind].
    change (fst (dup (show_rtype ty))) with (show_rtype ty). rewrite (show_rtype_parse ty Hk).
    apply known_cases in Hk. unfold known_types in Hk.
    repeat (destruct Hk as [<-|Hk];
            [ destruct d; cbv in Hs; try discriminate Hs; cbn [rdata_ok] in Hd;
              repeat match goal with H : _ /\ _ |- _ => destruct H end;
              cbv [is_name_type is_octets_type]; nclosed; cbn [orb andb negb]; rd_finish Ha | ]);
      try destruct Hk.
    - (* A *) rewrite (proj1 (proj1 Hip addr Hd)). reflexivity.
    - (* AAAA *) rewrite (proj1 (proj2 Hip segs Hd)). reflexivity.
  Qed.

  (* ---- one record line ---- *)

  Lemma parse_rr_5 origin pd pt o ttl ty rd td w n :
    try_parse_rtype_with_data ip origin (ty :: rd) = Ok (Some td) ->
    parse_domain_or_wildcard origin (fst o) = Ok w -> uint_from_str U32_MAX (fst ttl) = Some n ->
    parse_rr ip origin pd pt (o :: ttl :: T_IN :: ty :: rd) = Ok (to_rr w td n).
  Proof.
    intros Htd Hw Hn. unfold parse_rr. cbn [is_nil].
    unfold try_from at 1. cbn [len_ge slice_from skipn bind]. rewrite Htd. cbn [bind].
    unfold parse_rr_4. cbn [idx nth_error bind]. rewrite Hw. cbn [bind].
    change (leqb (fst T_IN) S_IN) with true. cbn iota. unfold parse_u32. rewrite Hn. reflexivity.
  Qed.

  Lemma parse_entry_rr origin pd pt s t0 toks rest :
    tokenise_entry s = Ok (t0 :: toks, rest) -> leqb (fst t0) S_ORIGIN = false -> leqb (fst t0) S_INCLUDE = false ->
    parse_entry ip origin pd pt s = let* e := parse_rr ip origin pd pt (t0 :: toks) in Ok (Some e, rest).
  Proof.
    intros Ht H1 H2. unfold parse_entry. cbn [parse_entry_loop]. rewrite Ht.
    cbn [bind fst snd is_nil idx nth_error]. rewrite H1, H2. reflexivity.
  Qed.

  (* a record the zone-file syntax can express *)
  Definition zrec_ok (zr : zrec) : Prop :=
    rtype_known (zr_type zr) = true /\ shape_of_rdata (zr_data zr) = shape_of_type (zr_type zr)
    /\ rdata_ok (zr_data zr) /\ zr_ttl zr < 4294967296.

  Definition rec_entry (w : mwild) (zr : zrec) : entry := to_rr w (zr_type zr, zr_data zr) (zr_ttl zr).

  Ltac lnorm := unfold sp, nl; repeat (rewrite <- app_assoc || rewrite app_nil_r); cbn [app].

  (* "<owner>[  ] <ttl> IN <TYPE> <rdata>\n" is parsed back to the record, whatever owner and
     TTL the previous record had *)
  Lemma record_line_entry z otxt pad w zr :
    name_ok (z_apex z) -> zrec_ok zr -> octets otxt -> otxt <> [] -> noupper otxt ->
    parse_domain_or_wildcard (zorigin z) otxt = Ok w ->
    exists body, record_line ip z (serialise_octets otxt false ++ repeat 32 pad) zr = Ok (body ++ [10]) /\
      forall pd pt rest, parse_entry ip (zorigin z) pd pt (body ++ 10 :: rest) = Ok (Some (rec_entry w zr), rest).
  Proof.
    intros Ha (Hk & Hs & Hd & Httl) Ho Hone Hnu Hw.
    destruct (rd_atoms_ok z _ Ha Hd) as [Hrok Hrne].
    exists (line_text (AUnq otxt) pad ([num (zr_ttl zr); ARaw S_IN; ARaw (show_rtype (zr_type zr))] ++ rd_atoms z (zr_data zr))).
    split.
    - unfold record_line. rewrite (rdata_text z _ Ha Hd). cbn [bind]. f_equal.
      unfold line_text. rewrite flat_map_app. cbn [flat_map atom_text num]. rewrite (tail_text _ Hrne).
      lnorm. reflexivity.
    - intros pd pt rest.
      assert (Hrest : Forall atom_ok ([num (zr_ttl zr); ARaw S_IN; ARaw (show_rtype (zr_type zr))] ++ rd_atoms z (zr_data zr))).
      { apply Forall_app. split; [|exact Hrok]. repeat constructor; [apply num_ok|apply show_rtype_plain; exact Hk]. }
      pose proof (tokenise_atoms (AUnq otxt) pad _ rest (conj Ho Hone) Hrest) as Ht.
      cbn [map atom_tok app num] in Ht.
      destruct (noupper_keywords otxt Hnu) as (K1 & K2 & _).
      rewrite (parse_entry_rr _ _ _ _ _ _ _ Ht K1 K2).
      pose proof (rdata_parse z _ _ Ha Hk Hs Hd) as Htd. cbn [map] in Htd.
      assert (Hn : uint_from_str U32_MAX (show_dec (zr_ttl zr)) = Some (zr_ttl zr))
        by (apply show_dec_parse; [exact Httl|unfold U32_MAX; lia]).
      pose proof (parse_rr_5 (zorigin z) pd pt (dup otxt) (dup (show_dec (zr_ttl zr))) (dup (show_rtype (zr_type zr)))
                             (map dup (map atom_tok (rd_atoms z (zr_data zr)))) (zr_type zr, zr_data zr) w (zr_ttl zr)
                             Htd Hw Hn) as H5.
      match goal with
      | |- bind ?X _ = _ => replace X with (@Ok zerr entry (to_rr w (zr_type zr, zr_data zr) (zr_ttl zr))) by (symmetry; exact H5)
      end. reflexivity.
  Qed.

  (* ---- the SOA line and the $ORIGIN line ---- *)

  Definition soa_ok (s : soa) : Prop := rdata_ok (soa_to_rdata s).

  Definition soa_rr (apex : dname) (s : soa) : rr :=
    {| rr_name := apex; rr_type := RT_SOA; rr_class := RC_IN; rr_ttl := soa_minimum s; rr_data := soa_to_rdata s |}.

  Lemma is_root_root n : name_ok n -> is_root n = true -> n = root_domain.
  Proof.
    intros Hn Hr. destruct (name_ok_dest n Hn) as (front & -> & Hf & _ & _).
    destruct front as [|l f]; [reflexivity|]. unfold mk in Hr. rewrite is_root_front in Hr by (try assumption; discriminate). discriminate.
  Qed.

  (* "@ IN SOA ..." (apex not the root) / ". IN SOA ..." *)
  Lemma soa_line_entry z s :
    name_ok (z_apex z) -> soa_ok s -> first_label (z_apex z) <> S_STAR -> z_soa z = Some s ->
    exists body,
      (let* rd := serialise_rdata ip z (soa_to_rdata s) in
       Ok ((if negb (is_root (z_apex z)) then S_AT else serialise_octets (utf8 (to_dotted_string (z_apex z))) false)
             ++ sp ++ S_IN ++ sp ++ S_SOA ++ sp ++ rd ++ nl)) = Ok (body ++ [10]) /\
      forall pd pt rest, parse_entry ip (zorigin z) pd pt (body ++ 10 :: rest) = Ok (Some (ERR (soa_rr (z_apex z) s)), rest).
  Proof.
    intros Ha Hs Hfl Hz. unfold soa_ok in Hs.
    destruct (rd_atoms_ok z _ Ha Hs) as [Hrok Hrne].
    set (a0 := if negb (is_root (z_apex z)) then ARaw S_AT else AUnq [46]).
    exists (line_text a0 0 ([ARaw S_IN; ARaw S_SOA] ++ rd_atoms z (soa_to_rdata s))).
    assert (Ha0 : atom_ok a0).
    { unfold a0. destruct (negb (is_root (z_apex z))); [reflexivity|]. split; [repeat constructor; lia|discriminate]. }
    assert (Eroot : is_root (z_apex z) = true -> z_apex z = root_domain) by (apply is_root_root; exact Ha).
    split.
    - rewrite (rdata_text z _ Ha Hs). cbn [bind]. f_equal.
      unfold line_text. rewrite flat_map_app. cbn [flat_map atom_text repeat]. rewrite (tail_text _ Hrne).
      unfold a0. destruct (is_root (z_apex z)) eqn:Er; cbn [negb atom_text].
      + rewrite (Eroot eq_refl). change (utf8 (to_dotted_string root_domain)) with [46]. lnorm. reflexivity.
      + lnorm. reflexivity.
    - intros pd pt rest.
      assert (Hrest : Forall atom_ok ([ARaw S_IN; ARaw S_SOA] ++ rd_atoms z (soa_to_rdata s))).
      { apply Forall_app. split; [|exact Hrok]. repeat constructor. }
      pose proof (tokenise_atoms a0 0 _ rest Ha0 Hrest) as Ht. cbn [map atom_tok app] in Ht.
      assert (Hauth : zone_is_authoritative z = true) by (unfold zone_is_authoritative; rewrite Hz; reflexivity).
      (* the owner token and what it denotes *)
      assert (Hown : noupper (atom_tok a0) /\ all_digits (atom_tok a0) = false /\
                     parse_domain_or_wildcard (zorigin z) (atom_tok a0) = Ok (MNormal (z_apex z))).
      { unfold a0, zorigin. rewrite Hauth. destruct (is_root (z_apex z)) eqn:Er; cbn [negb andb atom_tok].
        - rewrite (Eroot eq_refl). split; [repeat constructor|]. split; reflexivity.
        - split; [repeat constructor|]. split; [reflexivity|].
          rewrite pdw_plain by discriminate. rewrite parse_domain_at. cbn [bind]. apply normal_or_star_normal. exact Hfl. }
      destruct Hown as (Hnu & Had & Hpdw).
      destruct (noupper_keywords _ Hnu) as (K1 & K2 & K3).
      rewrite (parse_entry_rr _ _ _ _ _ _ _ Ht K1 K2).
      assert (Hk : rtype_known RT_SOA = true) by reflexivity.
      pose proof (rdata_parse z RT_SOA (soa_to_rdata s) Ha Hk eq_refl Hs) as Htd.
      change (show_rtype RT_SOA) with S_SOA in Htd. cbn [map] in Htd.
      assert (Hf : parse_rr ip (zorigin z) pd pt
                            (shape_tokens ShOwnerClass (dup (atom_tok a0)) (dup [48]) (dup S_SOA)
                                          (map dup (map atom_tok (rd_atoms z (soa_to_rdata s)))))
                   = denote_rr ShOwnerClass (zorigin z) pd pt (dup (atom_tok a0)) 0 (RT_SOA, soa_to_rdata s)).
      { apply parse_rr_forms; [exact Htd| |exact Had|exact K3|reflexivity|reflexivity].
        intros q Hq. cbn [type_pos] in Hq. assert (q = 3%nat) by lia. subst q. apply try_from_not_type.
        cbn [shape_tokens nth_error rd_atoms soa_to_rdata map atom_tok nm dup fst].
        apply noupper_not_type. apply lc_noupper. apply (dom_text_lc z (soa_mname s) Ha). apply Hs. }
      match goal with
      | |- bind ?X _ = _ =>
        replace X with (denote_rr ShOwnerClass (zorigin z) pd pt (dup (atom_tok a0)) 0 (RT_SOA, soa_to_rdata s))
          by (symmetry; exact Hf)
      end.
      unfold denote_rr. cbn [has_owner has_ttl fst dup]. rewrite Hpdw. cbn [bind].
      unfold with_prev_ttl. destruct pt; cbn [fst]; [|change (RT_SOA =? RT_SOA) with true; cbn iota];
        unfold to_rr, soa_rr, soa_to_rdata; cbn [fst snd bind]; reflexivity.
  Qed.

  (* "$ORIGIN <apex>" *)
  Lemma origin_line_entry apex origin :
    name_ok apex ->
    forall pd pt rest,
      parse_entry ip origin pd pt ((S_ORIGIN ++ sp ++ serialise_octets (utf8 (to_dotted_string apex)) false) ++ 10 :: rest)
      = Ok (Some (EOrigin apex), rest).
  Proof.
    intros Ha pd pt rest.
    pose proof (to_dotted_lc apex Ha) as Hlc. rewrite (lc_utf8 _ Hlc).
    destruct (to_dotted_last apex Ha) as [X EX].
    assert (Ha1 : atom_ok (AUnq (to_dotted_string apex))).
    { split; [apply lc_octets; exact Hlc|rewrite EX; destruct X; discriminate]. }
    pose proof (tokenise_atoms (ARaw S_ORIGIN) 0 [AUnq (to_dotted_string apex)] rest eq_refl (Forall_cons _ Ha1 (Forall_nil _))) as Ht.
    unfold line_text in Ht. cbn [flat_map atom_text repeat map atom_tok] in Ht.
    replace ((S_ORIGIN ++ sp ++ serialise_octets (to_dotted_string apex) false) ++ 10 :: rest)
      with ((S_ORIGIN ++ [] ++ (32 :: serialise_octets (to_dotted_string apex) false) ++ []) ++ 10 :: rest)
      by (lnorm; reflexivity).
    unfold parse_entry. cbn [parse_entry_loop]. rewrite Ht. cbn [bind fst snd is_nil idx nth_error dup].
    change (leqb S_ORIGIN S_ORIGIN) with true. cbn iota.
    unfold parse_origin. cbn [len_is negb idx nth_error bind fst dup].
    change (leqb S_ORIGIN S_ORIGIN) with true. cbn [negb]. rewrite (parse_domain_abs origin apex Ha). reflexivity.
  Qed.
End WithCodec.
