(* ZoneFile/ZfIpStub.v -- a stand-in instance of [ipcodec] (std's Ipv4Addr / Ipv6Addr
   FromStr and Display, transcribed from core::net::parser and core::net::display of
   the installed toolchain) so that the zonefile model driver can run before
   Ip/IpModel.v exists.  To be replaced by the instance from Ip.IpModel in
   Extract/ExtractZonefile.v.  No theorem depends on this file: the zone-file
   theorems hold for every codec. *)
From RV Require Import Base.Prelude Name.NameModel ZoneFile.ZoneFileModel.

Definition hex_digit (c : N) : option N :=
  if is_digit c then Some (c - 48)
  else if (97 <=? c) && (c <=? 102) then Some (c - 87)
  else if (65 <=? c) && (c <=? 70) then Some (c - 55)
  else None.
Definition digit_of (radix : N) (c : N) : option N :=
  if radix =? 16 then hex_digit c else to_digit c.

(* the greedy digit loop of read_number: value (None once it overflowed), count, rest *)
Fixpoint num_loop (radix maxv : N) (s : list N) (acc : option N) (cnt : nat) : option N * nat * list N :=
  match s with
  | [] => (acc, cnt, s)
  | c :: t => match digit_of radix c with
              | Some d =>
                let acc' := match acc with
                            | Some a => let v := a * radix + d in if v <=? maxv then Some v else None
                            | None => None
                            end in
                num_loop radix maxv t acc' (S cnt)
              | None => (acc, cnt, s)
              end
  end.

(* Parser::read_number(radix, Some(max_digits), allow_zero_prefix) for a type with maximum maxv *)
Definition read_num (radix : N) (max_digits : nat) (maxv : N) (allow_zero_prefix : bool) (s : list N)
  : option (N * list N) :=
  let has_leading_zero := match s with 48 :: _ => true | _ => false end in
  let '(v, cnt, rest) := num_loop radix maxv s (Some 0) O in
  match v with
  | None => None
  | Some x =>
    if Nat.eqb cnt 0 then None
    else if Nat.ltb max_digits cnt then None
    else if negb allow_zero_prefix && has_leading_zero && Nat.ltb 1 cnt then None
    else Some (x, rest)
  end.

Definition read_sep (sep : N) (first : bool) (s : list N) : option (list N) :=
  if first then Some s else match s with c :: t => if c =? sep then Some t else None | [] => None end.

(* read_ipv4_addr *)
Definition read_ipv4 (s : list N) : option (N * list N) :=
  match read_num 10 3 255 false s with
  | Some (a, s1) =>
    match read_sep 46 false s1 with
    | Some s1' =>
      match read_num 10 3 255 false s1' with
      | Some (b, s2) =>
        match read_sep 46 false s2 with
        | Some s2' =>
          match read_num 10 3 255 false s2' with
          | Some (c, s3) =>
            match read_sep 46 false s3 with
            | Some s3' =>
              match read_num 10 3 255 false s3' with
              | Some (d, s4) => Some (u32_be a b c d, s4)
              | None => None
              end
            | None => None
            end
          | None => None
          end
        | None => None
        end
      | None => None
      end
    | None => None
    end
  | None => None
  end.

(* Ipv4Addr::from_str: at most 15 bytes, the whole input must be consumed *)
Definition stub_parse_v4 (s : list N) : option N :=
  if 15 <? llen (utf8 s) then None
  else match read_ipv4 s with
       | Some (a, []) => Some a
       | _ => None
       end.

(* read_groups of read_ipv6_addr; [remaining] = limit - i *)
Fixpoint read_groups (remaining : nat) (first : bool) (s : list N) : list N * bool * list N :=
  match remaining with
  | O => ([], false, s)
  | S r =>
    match read_sep 58 first s with
    | None => ([], false, s)
    | Some s1 =>
      match (match r with O => None | S _ => read_ipv4 s1 end) with
      | Some (a, rest) => ([a / 65536; a mod 65536], true, rest)
      | None =>
        match read_num 16 4 65535 true s1 with
        | Some (g, rest) => let '(gs, v4, rest') := read_groups r false rest in (g :: gs, v4, rest')
        | None => ([], false, s)
        end
      end
    end
  end.

Definition stub_parse_v6 (s : list N) : option (list N) :=
  let '(head, head_v4, rest) := read_groups 8 true s in
  if Nat.eqb (length head) 8 then (if is_nil rest then Some head else None)
  else if head_v4 then None
  else match rest with
       | 58 :: 58 :: rest2 =>
         let limit := (8 - (length head + 1))%nat in
         let '(tail, _, rest3) := read_groups limit true rest2 in
         if is_nil rest3
         then Some (head ++ repeat 0 (8 - length head - length tail) ++ tail)
         else None
       | _ => None
       end.

(* Display *)
Definition stub_show_v4 (a : N) : list N :=
  show_dec ((a / 16777216) mod 256) ++ [46] ++ show_dec ((a / 65536) mod 256) ++ [46]
           ++ show_dec ((a / 256) mod 256) ++ [46] ++ show_dec (a mod 256).

Definition hex_char (d : N) : N := if d <? 10 then 48 + d else 87 + d.
Definition show_hex (n : N) : list N :=
  if n <? 16 then [hex_char n]
  else if n <? 256 then [hex_char (n / 16); hex_char (n mod 16)]
  else if n <? 4096 then [hex_char (n / 256); hex_char ((n / 16) mod 16); hex_char (n mod 16)]
  else [hex_char ((n / 4096) mod 16); hex_char ((n / 256) mod 16); hex_char ((n / 16) mod 16); hex_char (n mod 16)].

Fixpoint join_colon (segs : list N) : list N :=
  match segs with
  | [] => []
  | [x] => show_hex x
  | x :: t => show_hex x ++ 58 :: join_colon t
  end.

(* the longest run of zero segments, the first one among equals: (start, len) *)
Fixpoint zero_span (segs : list N) (i : nat) (cur_start cur_len best_start best_len : nat) : nat * nat :=
  match segs with
  | [] => (best_start, best_len)
  | x :: t =>
    if x =? 0 then
      let cs := if Nat.eqb cur_len 0 then i else cur_start in
      let cl := S cur_len in
      if Nat.ltb best_len cl then zero_span t (S i) cs cl cs cl
      else zero_span t (S i) cs cl best_start best_len
    else zero_span t (S i) 0 0 best_start best_len
  end.

Definition stub_show_v6 (segs : list N) : list N :=
  match segs with
  | [0; 0; 0; 0; 0; 65535; g; h] =>
    [58; 58; 102; 102; 102; 102; 58] ++ stub_show_v4 (g * 65536 + h)       (* "::ffff:" *)
  | _ =>
    let '(start, len) := zero_span segs 0 0 0 0 0 in
    if Nat.ltb 1 len
    then join_colon (firstn start segs) ++ [58; 58] ++ join_colon (skipn (start + len) segs)
    else join_colon segs
  end.

Definition stub_codec : ipcodec :=
  {| parse_v4 := stub_parse_v4; parse_v6 := stub_parse_v6; show_v4 := stub_show_v4; show_v6 := stub_show_v6 |}.
