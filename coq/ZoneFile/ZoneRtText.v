(* ZoneFile/ZoneRtText.v -- C13, "normalising twice changes nothing more", literally: for the
   MODEL's own record order (names sorted by the derived Ord; under a name the type groups in the
   insertion order of the association list standing for the HashMap; inside a group Vec order),
   the zone z' read back from the text of z serialises to the very same text.

   The piece ZoneRoundTrip.v lacks is the ORDER of the type groups of z': the abstraction
   relation R speaks about each type group separately.  Here:

     1. the derived Ord of DomainName is a total order, so the sorted list of a set of names
        does not depend on the order the names were met in (sort_names_unique);
     2. node_insert_keys: the key order of the type map at a node after an insertion --
        HashMap::entry(type).or_default() appends a new key, keeps an old one (structural, on
        the tree; independent of R);
     3. keys_build: hence, for a zone built by a list of insertions, the key order at a node is
        the order of first occurrence of the types among the insertions reaching that node;
     4. for z' = the zone built from the records of the text of z (ZoneRtLoop.text_ops), those
        insertions are the records of the node of z, in the order z's map lists them: the
        non-empty type groups of z' come in the order of z's (same_flat);
     5. the serialiser reads the record lists only through the sorted name set and the
        per-name look-ups (serialise_with_lookups), whence the text.  *)
From Coq Require Import Permutation Sorted.
Set Default Timeout 120.
From RV Require Import Base.Prelude Name.NameModel Name.NameSpec Name.NameProofs Wire.WireTypes
     Zone.ZoneModel Zone.ZoneFlat Zone.ZoneProofs Zone.ZoneMergeProofs
     ZoneFile.ZoneFileModel ZoneFile.ZoneFileSpec ZoneFile.ZoneSerialiseModel ZoneFile.ZfInstance
     ZoneFile.ZoneFileProofs ZoneFile.ZoneSerialiseProofs ZoneFile.ZoneRtLines ZoneFile.ZoneRtLoop
     ZoneFile.ZoneRoundTrip ZoneFile.ZoneRtOrder ZoneFile.ZoneRtLoaded ZoneFile.ZoneRtCodec
     ZoneFile.ZoneRtFinal.

(* ====================================================================== *)
(* 1. the derived Ord of DomainName is a total order                        *)
(* ====================================================================== *)

Section ListCmp.
  Context {A : Type} (cmp : A -> A -> comparison).
  Hypothesis cmp_eq : forall x y, cmp x y = Eq -> x = y.
  Hypothesis cmp_refl : forall x, cmp x x = Eq.
  Hypothesis cmp_opp : forall x y, cmp y x = CompOpp (cmp x y).
  Hypothesis cmp_trans : forall x y z, cmp x y = Lt -> cmp y z = Lt -> cmp x z = Lt.

  Lemma list_cmp_eq : forall a b, list_cmp cmp a b = Eq -> a = b.
  Proof.
    induction a as [|x a IH]; intros [|y b] H; cbn [list_cmp] in H; try discriminate; [reflexivity|].
    destruct (cmp x y) eqn:E; try discriminate. apply cmp_eq in E. subst y. f_equal. apply IH, H.
  Qed.

  Lemma list_cmp_refl : forall a, list_cmp cmp a a = Eq.
  Proof. induction a as [|x a IH]; cbn [list_cmp]; [reflexivity|]. rewrite cmp_refl. exact IH. Qed.

  Lemma list_cmp_opp : forall a b, list_cmp cmp b a = CompOpp (list_cmp cmp a b).
  Proof.
    induction a as [|x a IH]; intros [|y b]; cbn [list_cmp]; try reflexivity.
    rewrite (cmp_opp x y). destruct (cmp x y); cbn [CompOpp]; [apply IH|reflexivity|reflexivity].
  Qed.

  Lemma list_cmp_trans : forall a b c,
    list_cmp cmp a b = Lt -> list_cmp cmp b c = Lt -> list_cmp cmp a c = Lt.
  Proof.
    induction a as [|x a IH]; intros [|y b] [|z c] H1 H2; cbn [list_cmp] in *; try discriminate; try reflexivity.
    destruct (cmp x y) eqn:E1; try discriminate.
    - apply cmp_eq in E1. subst y. destruct (cmp x z); try discriminate; [|reflexivity]. eapply IH; eassumption.
    - destruct (cmp y z) eqn:E2; try discriminate.
      + apply cmp_eq in E2. subst z. rewrite E1. reflexivity.
      + rewrite (cmp_trans _ _ _ E1 E2). reflexivity.
  Qed.
End ListCmp.

Lemma ncmp_trans x y z : N.compare x y = Lt -> N.compare y z = Lt -> N.compare x z = Lt.
Proof. rewrite !N.compare_lt_iff. lia. Qed.

Lemma label_cmp_eq a b : label_cmp a b = Eq -> a = b.
Proof. apply list_cmp_eq. apply N.compare_eq. Qed.
Lemma label_cmp_refl a : label_cmp a a = Eq.
Proof. apply list_cmp_refl. apply N.compare_refl. Qed.
Lemma label_cmp_opp a b : label_cmp b a = CompOpp (label_cmp a b).
Proof. apply list_cmp_opp. intros x y. apply N.compare_antisym. Qed.
Lemma label_cmp_trans a b c : label_cmp a b = Lt -> label_cmp b c = Lt -> label_cmp a c = Lt.
Proof. apply list_cmp_trans; [apply N.compare_eq|apply ncmp_trans]. Qed.

Lemma dname_cmp_eq a b : dname_cmp a b = Eq -> a = b.
Proof.
  unfold dname_cmp. destruct (list_cmp label_cmp (labels a) (labels b)) eqn:E; try discriminate.
  intro H. apply (list_cmp_eq label_cmp label_cmp_eq) in E. apply N.compare_eq in H.
  destruct a, b. cbn in *. subst. reflexivity.
Qed.

Lemma dname_cmp_refl a : dname_cmp a a = Eq.
Proof. unfold dname_cmp. rewrite (list_cmp_refl label_cmp label_cmp_refl). apply N.compare_refl. Qed.

Lemma dname_cmp_opp a b : dname_cmp b a = CompOpp (dname_cmp a b).
Proof.
  unfold dname_cmp. rewrite (list_cmp_opp label_cmp label_cmp_opp (labels a) (labels b)).
  destruct (list_cmp label_cmp (labels a) (labels b)); cbn [CompOpp]; try reflexivity. apply N.compare_antisym.
Qed.

Lemma dname_cmp_trans a b c : dname_cmp a b = Lt -> dname_cmp b c = Lt -> dname_cmp a c = Lt.
Proof.
  unfold dname_cmp. intros H1 H2.
  destruct (list_cmp label_cmp (labels a) (labels b)) eqn:E1; try discriminate;
    destruct (list_cmp label_cmp (labels b) (labels c)) eqn:E2; try discriminate.
  - apply (list_cmp_eq label_cmp label_cmp_eq) in E1. rewrite E1, E2. eapply ncmp_trans; eassumption.
  - apply (list_cmp_eq label_cmp label_cmp_eq) in E1. rewrite E1, E2. reflexivity.
  - apply (list_cmp_eq label_cmp label_cmp_eq) in E2. rewrite <- E2, E1. reflexivity.
  - rewrite (list_cmp_trans label_cmp label_cmp_eq label_cmp_trans _ _ _ E1 E2). reflexivity.
Qed.

Lemma dname_leb_total a b : dname_leb a b = false -> dname_leb b a = true.
Proof. unfold dname_leb. rewrite (dname_cmp_opp a b). destruct (dname_cmp a b); cbn [CompOpp]; congruence. Qed.

Lemma dname_leb_refl a : dname_leb a a = true.
Proof. unfold dname_leb. rewrite dname_cmp_refl. reflexivity. Qed.

Lemma dname_leb_antisym a b : dname_leb a b = true -> dname_leb b a = true -> a = b.
Proof.
  unfold dname_leb. rewrite (dname_cmp_opp a b). destruct (dname_cmp a b) eqn:E; cbn [CompOpp]; try discriminate.
  intros _ _. apply dname_cmp_eq, E.
Qed.

Lemma dname_leb_trans a b c : dname_leb a b = true -> dname_leb b c = true -> dname_leb a c = true.
Proof.
  unfold dname_leb. destruct (dname_cmp a b) eqn:E1; try discriminate; destruct (dname_cmp b c) eqn:E2; try discriminate; intros _ _.
  - apply dname_cmp_eq in E1. subst b. rewrite E2. reflexivity.
  - apply dname_cmp_eq in E1. subst b. rewrite E2. reflexivity.
  - apply dname_cmp_eq in E2. subst c. rewrite E1. reflexivity.
  - rewrite (dname_cmp_trans _ _ _ E1 E2). reflexivity.
Qed.

Definition dle (a b : dname) : Prop := dname_leb a b = true.

Lemma insert_sorted_sorted x : forall l, StronglySorted dle l -> StronglySorted dle (insert_sorted x l).
Proof.
  induction l as [|y t IH]; intro H; cbn [insert_sorted]; [repeat constructor|].
  apply StronglySorted_inv in H as [Ht Hy].
  destruct (dname_leb x y) eqn:E.
  - constructor; [constructor; assumption|]. constructor; [exact E|].
    revert Hy. apply Forall_impl. intros z Hz. eapply dname_leb_trans; eassumption.
  - constructor; [apply IH, Ht|].
    apply (Permutation_Forall (Permutation_sym (insert_sorted_perm x t))). constructor; [|exact Hy].
    apply dname_leb_total, E.
Qed.

Lemma sort_names_sorted l : StronglySorted dle (sort_names l).
Proof. induction l as [|x t IH]; [constructor|]. unfold sort_names in *. cbn [fold_right]. apply insert_sorted_sorted, IH. Qed.

Lemma sorted_unique : forall l1 l2, StronglySorted dle l1 -> StronglySorted dle l2 -> Permutation l1 l2 -> l1 = l2.
Proof.
  induction l1 as [|x t1 IH]; intros l2 S1 S2 P.
  - apply Permutation_nil in P. subst. reflexivity.
  - destruct l2 as [|y t2]; [apply Permutation_sym, Permutation_nil in P; discriminate|].
    apply StronglySorted_inv in S1 as [S1 F1]. apply StronglySorted_inv in S2 as [S2 F2].
    rewrite Forall_forall in F1, F2.
    assert (Hxy : dle x y).
    { assert (Hin : In y (x :: t1)) by (apply (Permutation_in _ (Permutation_sym P)); left; reflexivity).
      destruct Hin as [->|Hin]; [apply dname_leb_refl|apply F1, Hin]. }
    assert (Hyx : dle y x).
    { assert (Hin : In x (y :: t2)) by (apply (Permutation_in _ P); left; reflexivity).
      destruct Hin as [->|Hin]; [apply dname_leb_refl|apply F2, Hin]. }
    pose proof (dname_leb_antisym _ _ Hxy Hyx) as E. subst y. f_equal.
    apply IH; [assumption|assumption|]. eapply Permutation_cons_inv. exact P.
Qed.

(* the sorted list of a duplicate-free list of names depends on the set only *)
Theorem sort_names_unique l1 l2 : NoDup l1 -> NoDup l2 -> (forall x, In x l1 <-> In x l2) ->
  sort_names l1 = sort_names l2.
Proof.
  intros N1 N2 H. apply sorted_unique; try apply sort_names_sorted.
  eapply Permutation_trans; [apply sort_names_perm|]. eapply Permutation_trans; [|apply Permutation_sym, sort_names_perm].
  apply NoDup_Permutation; assumption.
Qed.

Lemma zone_ds_ext recs wrecs recs' wrecs' :
  (forall x, In x (map fst recs ++ map fst wrecs) <-> In x (map fst recs' ++ map fst wrecs')) ->
  zone_ds recs wrecs = zone_ds recs' wrecs'.
Proof.
  intro H. unfold zone_ds.
  destruct (dedup_names_spec (map fst recs ++ map fst wrecs) [] (NoDup_nil _)) as [N1 M1].
  destruct (dedup_names_spec (map fst recs' ++ map fst wrecs') [] (NoDup_nil _)) as [N2 M2].
  apply sort_names_unique; [exact N1|exact N2|]. intro x. rewrite M1, M2, H. reflexivity.
Qed.

(* ====================================================================== *)
(* 2. the key order of a type map under insertion                           *)
(* ====================================================================== *)

(* HashMap::entry(t).or_default() on the association list: a new key goes last *)
Definition push_key (l : list N) (t : N) : list N := if existsb (N.eqb t) l then l else l ++ [t].

Lemma existsb_key_lookup {V} t (m : list (N * V)) :
  existsb (N.eqb t) (map fst m) = match alookup N.eqb t m with Some _ => true | None => false end.
Proof.
  induction m as [|[k v] m IH]; cbn [map fst existsb alookup]; [reflexivity|].
  destruct (t =? k); [reflexivity|exact IH].
Qed.

Lemma rmap_insert_keys m r : map fst (rmap_insert m r) = push_key (map fst m) (zr_type r).
Proof.
  unfold rmap_insert, push_key. rewrite existsb_key_lookup.
  destruct (alookup N.eqb (zr_type r) m) as [entries|].
  - destruct (existsb (zrec_eqb r) entries); [reflexivity|apply areplace_keys].
  - rewrite map_app. reflexivity.
Qed.

(* the keys of the ordinary / wildcard type map of the node at a (reversed) path *)
Definition keys_at (w : bool) (rq : list label) (nd : node) : list N :=
  match node_at rq nd with Some n => map fst (sel w n) | None => [] end.

Lemma keys_at_cons w l rq nd :
  keys_at w (l :: rq) nd = match alookup leqb l (n_children nd) with Some c => keys_at w rq c | None => [] end.
Proof. unfold keys_at. cbn [node_at]. destruct (alookup leqb l (n_children nd)); reflexivity. Qed.

Lemma keys_at_new w rq nsd : keys_at w rq (node_new nsd) = [].
Proof. destruct rq; [destruct w; reflexivity|rewrite keys_at_cons; reflexivity]. Qed.

Lemma lleqb_cons l a l' b : lleqb (l :: a) (l' :: b) = leqb l l' && lleqb a b.
Proof. reflexivity. Qed.

Lemma node_insert_keys w r : forall rp nd nd', node_insert w rp r nd = Ok nd' ->
  forall w' rq, keys_at w' rq nd'
                = if Bool.eqb w w' && lleqb rp rq then push_key (keys_at w' rq nd) (zr_type r) else keys_at w' rq nd.
Proof.
  induction rp as [|l rest IH]; intros [nsd this wild ch] nd' H w' rq; cbn [node_insert n_nsdname n_this n_wild n_children] in H.
  - destruct rq as [|l' rq'].
    + unfold keys_at. cbn [node_at lleqb]. rewrite andb_true_r.
      destruct w; inversion H; subst; destruct w'; cbn [Bool.eqb sel wmap n_wild n_this]; try reflexivity; apply rmap_insert_keys.
    + cbn [lleqb]. rewrite andb_false_r. rewrite !keys_at_cons.
      destruct w; inversion H; subst; reflexivity.
  - destruct (alookup leqb l ch) as [child|] eqn:El.
    + destruct (node_insert w rest r child) as [child'| | |] eqn:Ec; cbn [bind] in H; try discriminate.
      inversion H; subst; clear H. destruct rq as [|l' rq'].
      * cbn [lleqb]. rewrite andb_false_r. destruct w'; reflexivity.
      * rewrite lleqb_cons, !keys_at_cons. cbn [n_children].
        destruct (leqb l l') eqn:E.
        -- apply leqb_eq in E. subst l'. rewrite (alookup_areplace_same leqb _ _ _ _ El), El.
           cbn [andb]. apply (IH _ _ Ec).
        -- cbn [andb]. rewrite andb_false_r.
           rewrite (alookup_areplace_other leqb leqb_eq); [reflexivity|].
           intros ->. rewrite leqb_refl in E. discriminate.
    + destruct (from_labels (l :: labels nsd)) as [nsd'|]; [|discriminate].
      destruct (node_insert w rest r (node_new nsd')) as [child'| | |] eqn:Ec; cbn [bind] in H; try discriminate.
      inversion H; subst; clear H. destruct rq as [|l' rq'].
      * cbn [lleqb]. rewrite andb_false_r. destruct w'; reflexivity.
      * rewrite lleqb_cons, !keys_at_cons. cbn [n_children].
        destruct (leqb l l') eqn:E.
        -- apply leqb_eq in E. subst l'. rewrite (alookup_app_new leqb leqb_eq _ _ _ El), El.
           cbn [andb]. rewrite (IH _ _ Ec), keys_at_new. reflexivity.
        -- cbn [andb]. rewrite andb_false_r.
           rewrite (alookup_app_other leqb leqb_eq); [reflexivity|].
           intros ->. rewrite leqb_refl in E. discriminate.
Qed.

(* ====================================================================== *)
(* 3. zones built by a list of insertions                                   *)
(* ====================================================================== *)

(* the insertion reaches the (ordinary / wildcard) type map of the owner with relative path q *)
Definition hitsn (apexl : list label) (w : bool) (q : path) (o : zop) : bool :=
  Bool.eqb (op_wild o) w && match rel_path apexl (op_name o) with Some p => lleqb p q | None => false end.

Definition keysZ (w : bool) (q : path) (z : zone) : list N := keys_at w (rev q) (z_records z).

Lemma lleqb_rev p q : lleqb (rev p) (rev q) = lleqb p q.
Proof.
  destruct (lleqb p q) eqn:E.
  - apply lleqb_eq in E. subst. apply lleqb_refl.
  - apply lleqb_false. intro F. apply (f_equal (@rev _)) in F. rewrite !rev_involutive in F. subst.
    rewrite lleqb_refl in E. discriminate.
Qed.

Lemma zone_apply_keys z o z' : zone_apply z o = Ok z' -> forall w q,
  keysZ w q z' = if hitsn (labels (z_apex z)) w q o then push_key (keysZ w q z) (op_type o) else keysZ w q z.
Proof.
  unfold zone_apply, zone_insert, hitsn. rewrite relative_rp_rel.
  destruct (rel_path (labels (z_apex z)) (op_name o)) as [p|]; cbn [option_map].
  - destruct (node_insert _ (rev p) _ (z_records z)) as [nd| | |] eqn:En; cbn [bind]; try discriminate.
    intros H w q. inversion H; subst; clear H. unfold keysZ. cbn [z_records].
    rewrite (node_insert_keys _ _ _ _ _ En), lleqb_rev. reflexivity.
  - intros H w q. inversion H; subst. rewrite andb_false_r. reflexivity.
Qed.

Lemma keys_build w q : forall ops z z', zone_apply_all z ops = Ok z' ->
  keysZ w q z' = fold_left push_key (map op_type (filter (hitsn (labels (z_apex z)) w q) ops)) (keysZ w q z).
Proof.
  induction ops as [|o ops IH]; intros z z' H; cbn [zone_apply_all] in H; [inversion H; reflexivity|].
  destruct (zone_apply z o) as [z1| | |] eqn:E; cbn [bind] in H; try discriminate.
  rewrite (IH _ _ H). assert (Ha : z_apex z1 = z_apex z) by (unfold zone_apply in E; eapply zone_insert_apex; exact E).
  rewrite Ha, (zone_apply_keys _ _ _ E). cbn [filter].
  destruct (hitsn (labels (z_apex z)) w q o); reflexivity.
Qed.

Definition init_keys (s : option soa) (w : bool) (q : path) : list N :=
  match s, w, q with Some _, false, [] => [RT_SOA] | _, _, _ => [] end.

Lemma keys_new apex s w q : keysZ w q (zone_new apex s) = init_keys s w q.
Proof.
  unfold keysZ. destruct q as [|l q].
  - destruct s, w; reflexivity.
  - assert (E : init_keys s w (l :: q) = []) by (destruct s, w; reflexivity). rewrite E.
    cbn [rev]. destruct (rev q ++ [l]) as [|x r] eqn:Er; [destruct (rev q); discriminate|].
    rewrite keys_at_cons. destruct s; reflexivity.
Qed.

(* ====================================================================== *)
(* 4. the insertions made by the text that reach one owner                  *)
(* ====================================================================== *)

Lemma filter_hitsn_block apexl w q d p zrs : d = mkname (p ++ apexl) ->
  filter (hitsn apexl w q) (map (op_of_rr w) (map (fun zr => zr_to_rr zr d) zrs))
  = if lleqb p q then map (fun zr => op_of_rr w (zr_to_rr zr d)) zrs else [].
Proof.
  intros ->. assert (Hrp : rel_path apexl (mkname (p ++ apexl)) = Some p) by (apply rel_path_intro; reflexivity).
  induction zrs as [|zr zrs IH]; cbn [map filter]; [destruct (lleqb p q); reflexivity|].
  unfold hitsn at 1. cbn [op_of_rr zr_to_rr op_wild op_name rr_name]. rewrite Hrp, Bool.eqb_reflx. cbn [andb].
  destruct (lleqb p q); [cbn [map]; rewrite IH; reflexivity|exact IH].
Qed.

Lemma filter_hitsn_other apexl w q rrs : filter (hitsn apexl w q) (map (op_of_rr (negb w)) rrs) = [].
Proof.
  induction rrs as [|r rrs IH]; [reflexivity|]. cbn [map filter]. unfold hitsn at 1. cbn [op_of_rr op_wild].
  destruct w; cbn [negb Bool.eqb andb]; exact IH.
Qed.

Section TextKeys.
  Variables (apexl : list label) (recs wrecs : list (dname * list zrec)).
  Hypothesis Hkeys : forall d, In d (zone_ds recs wrecs) -> exists p, d = mkname (p ++ apexl).

  Lemma hitsn_blocks w q (blk : dname -> list zrec) :
    (forall d, ~ In d (zone_ds recs wrecs) -> blk d = []) ->
    filter (hitsn apexl w q) (map (op_of_rr w) (flat_map (fun d => map (fun zr => zr_to_rr zr d) (blk d)) (zone_ds recs wrecs)))
    = map (fun zr => op_of_rr w (zr_to_rr zr (mkname (q ++ apexl)))) (blk (mkname (q ++ apexl))).
  Proof.
    intro Habs. rewrite map_flat_map, filter_flat_map.
    rewrite (flat_map_one _ (zone_ds recs wrecs) (mkname (q ++ apexl))).
    - rewrite (filter_hitsn_block _ w q _ q _ eq_refl), lleqb_refl. reflexivity.
    - apply (zone_ds_spec recs wrecs).
    - intros d Hd Hne. destruct (Hkeys d Hd) as [p Hp]. rewrite (filter_hitsn_block _ w q d p _ Hp).
      rewrite lleqb_false; [reflexivity|]. intros ->. contradiction.
    - intro Hnot. rewrite (Habs _ Hnot). reflexivity.
  Qed.

  Lemma lookup_absent' d l : ~ In d (map fst l) -> lookup d l = [].
  Proof.
    intro H. unfold lookup. destruct (alookup dname_eqb d l) as [zrs|] eqn:E; [|reflexivity].
    apply alookup_some in E. exfalso. apply H. apply in_map_iff. exists (d, zrs). auto.
  Qed.

  (* the types, in text order, of the records the text holds for the owner q.apex *)
  Lemma text_ops_types w q :
    map op_type (filter (hitsn apexl w q) (text_ops recs wrecs))
    = map zr_type (if w then lookup (mkname (q ++ apexl)) wrecs else filter nonsoa (lookup (mkname (q ++ apexl)) recs)).
  Proof.
    unfold text_ops. rewrite filter_app, map_app. unfold block_rrs, block_wrrs. destruct w.
    - rewrite (filter_hitsn_other apexl true q). cbn [map app].
      rewrite (hitsn_blocks true q (fun d => lookup d wrecs)).
      2: { intros d Hd. apply lookup_absent'. intro F. apply Hd. apply (zone_ds_spec recs wrecs). apply in_or_app. right. exact F. }
      rewrite map_map. reflexivity.
    - change (map (op_of_rr true)) with (map (op_of_rr (negb false))).
      rewrite (filter_hitsn_other apexl false q). cbn [map]. rewrite app_nil_r.
      rewrite (hitsn_blocks false q (fun d => filter nonsoa (lookup d recs))).
      2: { intros d Hd. rewrite lookup_absent'; [reflexivity|]. intro F. apply Hd. apply (zone_ds_spec recs wrecs). apply in_or_app. left. exact F. }
      rewrite map_map. reflexivity.
  Qed.
End TextKeys.

(* ====================================================================== *)
(* 5. type maps with the same groups, the second one's keys in the order    *)
(*    in which the first one's records list the types                       *)
(* ====================================================================== *)

Definition ns_key (t : N) : bool := negb (t =? RT_SOA).
Definition keep_ns (kv : N * list zrec) : bool := ns_key (fst kv).
Definition keep (kv : N * list zrec) : bool := ns_key (fst kv) && negb (is_nil (snd kv)).

Lemma existsb_eqb_In t l : existsb (N.eqb t) l = true <-> In t l.
Proof.
  rewrite existsb_exists. split.
  - intros (x & Hx & E). apply N.eqb_eq in E. subst. exact Hx.
  - intro H. exists t. split; [exact H|apply N.eqb_refl].
Qed.

Lemma existsb_eqb_notin t l : ~ In t l -> existsb (N.eqb t) l = false.
Proof. intro H. destruct (existsb (N.eqb t) l) eqn:E; [|reflexivity]. apply existsb_eqb_In in E. contradiction. Qed.

Lemma rget_in m kv : NoDup (map fst m) -> In kv m -> rget (fst kv) m = snd kv.
Proof.
  induction m as [|[k l] m IH]; intros Hnd Hin; [destruct Hin|]. cbn [map fst] in Hnd. inversion Hnd as [|? ? Hnot Hnd']; subst.
  unfold rget. cbn [alookup]. destruct Hin as [<-|Hin].
  - cbn [fst snd]. rewrite N.eqb_refl. reflexivity.
  - destruct (N.eqb_spec (fst kv) k) as [E|Hne].
    + exfalso. apply Hnot. rewrite <- E. apply in_map. exact Hin.
    + apply (IH Hnd' Hin).
Qed.

Lemma flat_rget_sub m L : NoDup (map fst m) -> (forall kv, In kv L -> In kv m) ->
  flat_map (fun t => rget t m) (map fst L) = flat_map snd L.
Proof.
  intros Hnd. induction L as [|kv L IH]; intro H; cbn [map flat_map]; [reflexivity|].
  rewrite (rget_in m kv Hnd (H kv (or_introl eq_refl))), IH; [reflexivity|]. intros x Hx. apply H. right. exact Hx.
Qed.

Lemma map_fst_filter (f : N -> bool) (m : rmap) : map fst (filter (fun kv => f (fst kv)) m) = filter f (map fst m).
Proof.
  induction m as [|kv m IH]; cbn [filter map]; [reflexivity|]. destruct (f (fst kv)); cbn [map]; rewrite IH; reflexivity.
Qed.

Lemma nonsoa_flat m : wf_rmap m -> filter nonsoa (flat_map snd m) = flat_map snd (filter keep_ns m).
Proof.
  intros [_ Hall]. induction m as [|[k l] m IH]; [reflexivity|]. apply Forall_cons_iff in Hall as [[Hl _] Hall].
  cbn [flat_map snd filter]. rewrite filter_app, (IH Hall). cbn [fst snd] in Hl. rewrite (filter_nonsoa_typed k l Hl).
  unfold keep_ns, ns_key. cbn [fst]. destruct (k =? RT_SOA); cbn [negb flat_map snd]; reflexivity.
Qed.

Lemma keep_flat m : flat_map snd (filter keep m) = flat_map snd (filter keep_ns m).
Proof.
  unfold keep, keep_ns. induction m as [|[k l] m IH]; [reflexivity|]. cbn [filter fst snd].
  destruct (ns_key k); cbn [andb]; [|exact IH].
  destruct l as [|r l]; cbn [is_nil negb flat_map snd]; [exact IH|]. rewrite IH. reflexivity.
Qed.

Lemma fold_push_present k : forall L acc, Forall (fun r => zr_type r = k) L -> In k acc ->
  fold_left push_key (map zr_type L) acc = acc.
Proof.
  induction L as [|r L IH]; intros acc H Hin; cbn [map fold_left]; [reflexivity|].
  apply Forall_cons_iff in H as [Hr HL]. unfold push_key at 2. rewrite Hr, (proj2 (existsb_eqb_In k acc) Hin). apply IH; assumption.
Qed.

Lemma fold_push_same k L acc : Forall (fun r => zr_type r = k) L -> ~ In k acc ->
  fold_left push_key (map zr_type L) acc = if is_nil L then acc else acc ++ [k].
Proof.
  intros H Hn. destruct L as [|r L]; [reflexivity|]. cbn [map fold_left is_nil].
  apply Forall_cons_iff in H as [Hr HL]. unfold push_key at 2. rewrite Hr, (existsb_eqb_notin k acc Hn).
  apply (fold_push_present k); [exact HL|]. apply in_or_app. right. left. reflexivity.
Qed.

Lemma fold_push_types : forall m, wf_rmap m -> forall acc, (forall t, In t acc -> ~ In t (map fst m)) ->
  fold_left push_key (map zr_type (flat_map snd (filter keep_ns m))) acc = acc ++ map fst (filter keep m).
Proof.
  unfold keep, keep_ns. induction m as [|[k l] m IH]; intros [Hk Hall] acc Hd; [symmetry; apply app_nil_r|].
  cbn [map fst] in Hk. inversion Hk as [|? ? Hnot Hk']; subst. apply Forall_cons_iff in Hall as [[Hl _] Hall]. cbn [fst snd] in Hl.
  assert (Hd' : forall t, In t acc -> ~ In t (map fst m)) by (intros t Ht F; apply (Hd t Ht); right; exact F).
  cbn [filter fst snd]. destruct (ns_key k); cbn [andb].
  2: { apply (IH (conj Hk' Hall) acc Hd'). }
  cbn [flat_map snd]. rewrite map_app, fold_left_app.
  rewrite (fold_push_same k l acc Hl). 2: { intro F. apply (Hd k F). left. reflexivity. }
  destruct l as [|r l]; cbn [is_nil negb]; [apply (IH (conj Hk' Hall) acc Hd')|].
  rewrite (IH (conj Hk' Hall)); [cbn [map fst]; rewrite <- app_assoc; reflexivity|].
  intros t Ht. apply in_app_or in Ht as [Ht|[<-|[]]]; [apply Hd', Ht|exact Hnot].
Qed.

Lemma filter_fold_push : forall L acc, ~ In RT_SOA L ->
  filter ns_key (fold_left push_key L acc) = fold_left push_key L (filter ns_key acc).
Proof.
  induction L as [|t L IH]; intros acc Hn; cbn [fold_left]; [reflexivity|].
  rewrite IH by (intro F; apply Hn; right; exact F). f_equal.
  assert (Ht : ns_key t = true).
  { unfold ns_key. apply negb_true_iff, N.eqb_neq. intro E. apply Hn. left. exact E. }
  unfold push_key.
  assert (Ex : existsb (N.eqb t) (filter ns_key acc) = existsb (N.eqb t) acc).
  { induction acc as [|x acc IHa]; [reflexivity|]. cbn [filter existsb].
    destruct (ns_key x) eqn:Ex; cbn [existsb]; rewrite IHa; [reflexivity|].
    destruct (N.eqb_spec t x) as [->|]; [congruence|reflexivity]. }
  rewrite Ex. destruct (existsb (N.eqb t) acc); [reflexivity|]. rewrite filter_app. cbn [filter]. rewrite Ht. reflexivity.
Qed.

Lemma types_nonsoa L : ~ In RT_SOA (map zr_type (filter nonsoa L)).
Proof.
  intro H. apply in_map_iff in H as (r & E & Hr). apply filter_In in Hr as [_ Hr]. unfold nonsoa in Hr.
  rewrite E, N.eqb_refl in Hr. discriminate.
Qed.

(* m' holds the groups of m; its keys other than SOA come in the order in which the records of m
   other than SOA list their types: the two maps list the same records other than SOA *)
Lemma same_flat_ns m m' : wf_rmap m -> wf_rmap m' -> (forall t, rget t m' = rget t m) ->
  filter ns_key (map fst m') = fold_left push_key (map zr_type (filter nonsoa (flat_map snd m))) [] ->
  filter nonsoa (flat_map snd m') = filter nonsoa (flat_map snd m).
Proof.
  intros Hm Hm' Hg Hk.
  rewrite (nonsoa_flat m' Hm'), <- (flat_rget_sub m' (filter keep_ns m') (proj1 Hm')).
  2: { intros kv Hkv. apply filter_In in Hkv. apply Hkv. }
  unfold keep_ns at 1. rewrite (map_fst_filter ns_key m'), Hk.
  rewrite (nonsoa_flat m Hm), (fold_push_types m Hm []) by (intros t []). cbn [app].
  rewrite (flat_map_ext _ (fun t => rget t m)) by exact Hg.
  rewrite (flat_rget_sub m (filter keep m) (proj1 Hm)).
  2: { intros kv Hkv. apply filter_In in Hkv. apply Hkv. }
  apply keep_flat.
Qed.

Lemma flat_nil_iff m : wf_rmap m -> (flat_map snd m = [] <-> forall t, rget t m = []).
Proof.
  intro Hm. split.
  - intros E t. rewrite <- (of_type_flat t m Hm), E. reflexivity.
  - intro H. destruct (flat_map snd m) as [|r l] eqn:E; [reflexivity|]. exfalso.
    assert (Hin : In r (flat_map snd m)) by (rewrite E; left; reflexivity).
    apply (In_flat_rget r m Hm) in Hin. rewrite H in Hin. destruct Hin.
Qed.

Lemma nonsoa_id L : of_type RT_SOA L = [] -> filter nonsoa L = L.
Proof.
  induction L as [|r L IH]; [reflexivity|]. unfold of_type, nonsoa in *. cbn [filter].
  destruct (zr_type r =? RT_SOA); [discriminate|]. cbn [negb]. intro H. rewrite (IH H). reflexivity.
Qed.

(* ====================================================================== *)
(* 6. looking a name up in the model's own all_records                      *)
(* ====================================================================== *)

Definition flat_at (w : bool) (q : path) (nd : node) : list zrec :=
  match node_at (rev q) nd with Some n => flat_map snd (sel w n) | None => [] end.

Section OwnLookup.
  Variables (apexl : list label) (nd : node) (fz : fzone) (w : bool).
  Hypothesis HR : R apexl nd fz.
  Hypothesis Hwf : wf_tree nd.

  Lemma alookup_all_of q :
    alookup dname_eqb (mkname (q ++ apexl)) (all_of w nd)
    = if is_nil (flat_at w q nd) then None else Some (flat_at w q nd).
  Proof.
    pose proof (all_of_ent_at apexl nd fz w HR Hwf) as EL.
    destruct (alookup dname_eqb (mkname (q ++ apexl)) (all_of w nd)) as [zrs|] eqn:E.
    - apply alookup_some in E. rewrite EL in E. apply in_flat_map in E as ([rq n] & Hin & He).
      unfold ent_at in He. cbn [fst snd] in He.
      destruct (flat_map snd (sel w n)) as [|r0 l0] eqn:Ef; cbn [is_nil] in He; [destruct He|].
      destruct He as [He|[]]. inversion He as [[E1 E2]]. apply app_inv_tail in E1.
      destruct (nodes_of_at nd [] rq n Hwf Hin) as (rq' & Erq & Hat). cbn [app] in Erq. subst rq'.
      assert (Eq : rev q = rq) by (apply (f_equal (@rev _)) in E1; rewrite ?rev_involutive in E1; congruence).
      unfold flat_at. rewrite Eq, Hat, Ef. reflexivity.
    - unfold flat_at. destruct (node_at (rev q) nd) as [n|] eqn:Hat; [|reflexivity].
      destruct (flat_map snd (sel w n)) as [|r0 l0] eqn:Ef; [reflexivity|]. exfalso.
      apply (alookup_none _ _ (r0 :: l0) E). rewrite EL. apply in_flat_map. exists (rev q, n).
      split; [apply (nodes_of_complete (rev q) nd [] n Hat)|].
      unfold ent_at. cbn [fst snd]. rewrite rev_involutive, Ef. left. reflexivity.
  Qed.

  Lemma lookup_all_of q : lookup (mkname (q ++ apexl)) (all_of w nd) = flat_at w q nd.
  Proof.
    unfold lookup. rewrite alookup_all_of. destruct (flat_at w q nd); reflexivity.
  Qed.

  Lemma all_of_key d : In d (map fst (all_of w nd)) <-> exists q, d = mkname (q ++ apexl) /\ flat_at w q nd <> [].
  Proof.
    split.
    - intro H. apply in_map_iff in H as ([d' zrs] & E & Hin). cbn [fst] in E. subst d'.
      destruct (all_records_describes apexl nd fz w HR Hwf) as [D _].
      destruct (ds_recs _ _ _ D d zrs Hin) as (p & -> & _). exists p. split; [reflexivity|].
      intro F. pose proof (alookup_all_of p) as A. rewrite F in A. cbn [is_nil] in A.
      exact (alookup_none _ _ zrs A Hin).
    - intros (q & -> & Hne). pose proof (alookup_all_of q) as A.
      destruct (flat_at w q nd) as [|r l]; [contradiction|]. cbn [is_nil] in A.
      apply alookup_some in A. apply in_map_iff. exists (mkname (q ++ apexl), r :: l). auto.
  Qed.
End OwnLookup.

(* ====================================================================== *)
(* 7. the serialiser reads the record lists through the sorted name set and *)
(*    the per-name look-ups only (SOA records are skipped)                  *)
(* ====================================================================== *)

Section Lookups.
  Variable ip : ipcodec.

  Lemma normal_lines_nonsoa z o zrs : normal_lines ip z o (filter nonsoa zrs) = normal_lines ip z o zrs.
  Proof.
    induction zrs as [|zr zrs IH]; [reflexivity|]. cbn [filter]. unfold nonsoa at 1.
    cbn [normal_lines]. destruct (zr_type zr =? RT_SOA) eqn:E; cbn [negb]; [exact IH|].
    cbn [normal_lines]. rewrite E, IH. reflexivity.
  Qed.

  Lemma normal_lines_lookup z o d recs :
    match alookup dname_eqb d recs with Some zrs => normal_lines ip z o zrs | None => Ok [] end
    = normal_lines ip z o (filter nonsoa (lookup d recs)).
  Proof. unfold lookup. rewrite normal_lines_nonsoa. destruct (alookup dname_eqb d recs); reflexivity. Qed.

  Lemma domain_blocks_lookups z recs wrecs recs' wrecs' : forall ds,
    (forall d, In d ds -> filter nonsoa (lookup d recs') = filter nonsoa (lookup d recs)
                          /\ alookup dname_eqb d wrecs' = alookup dname_eqb d wrecs) ->
    domain_blocks ip z recs' wrecs' ds = domain_blocks ip z recs wrecs ds.
  Proof.
    induction ds as [|d ds IH]; intro H; cbn [domain_blocks]; [reflexivity|].
    rewrite IH by (intros x Hx; apply H; right; exact Hx). f_equal.
    destruct (H d (or_introl eq_refl)) as [H1 H2]. unfold domain_block. rewrite H2.
    destruct (serialise_domain z d); cbn [bind]; try reflexivity.
    rewrite !normal_lines_lookup, H1. reflexivity.
  Qed.

  Lemma serialise_with_lookups z recs wrecs recs' wrecs' :
    zone_ds recs' wrecs' = zone_ds recs wrecs ->
    (forall d, In d (zone_ds recs wrecs) -> filter nonsoa (lookup d recs') = filter nonsoa (lookup d recs)
                                           /\ alookup dname_eqb d wrecs' = alookup dname_eqb d wrecs) ->
    zone_serialise_with ip z recs' wrecs' = zone_serialise_with ip z recs wrecs.
  Proof.
    intros Hds H. unfold zone_serialise_with. fold (zone_ds recs wrecs). fold (zone_ds recs' wrecs').
    rewrite Hds, (domain_blocks_lookups z recs wrecs recs' wrecs' _ H). reflexivity.
  Qed.
End Lookups.

(* ====================================================================== *)
(* 8. the text of the zone read back is the text it was read from           *)
(* ====================================================================== *)

Lemma init_keys_ns s w q : filter ns_key (init_keys s w q) = [].
Proof. destruct s, w, q; reflexivity. Qed.

Section TextIdempotent.
  Variable ip : ipcodec.
  Hypothesis Hip : codec_rt ip.

  Section Nodes.
    Variables (apex : dname) (s : option soa) (ops : list zop) (z z' : zone).
    Hypothesis Hh : head_ok apex s.
    Hypothesis Hops : Forall op_src_ok ops.
    Hypothesis Hbuild : zone_build apex s ops = Ok z.
    Let recs := zone_all_records z.
    Let wrecs := zone_all_wildcard_records z.
    Hypothesis Hbuild' : zone_build apex s (text_ops recs wrecs) = Ok z'.
    Hypothesis HR' : R (labels apex) (z_records z') (flat_of_ops apex s (text_ops recs wrecs)).
    Hypothesis Hsame : zone_same z z'.

    Let fz := flat_of_ops apex s ops.
    Let fz' := flat_of_ops apex s (text_ops recs wrecs).

    Lemma own_nodes :
      R (labels apex) (z_records z) fz /\ fz_ok s fz /\ wf_tree (z_records z) /\ wf_tree (z_records z') /\
      describes (labels apex) (f_norm fz) recs /\ describes (labels apex) (f_wild fz) wrecs.
    Proof.
      assert (Hb : built z) by (exists apex, s, ops; auto).
      destruct (built_data z apex s ops Hh Hops Hbuild) as (Ea & Es & HR0 & Hok).
      destruct (admissible_src_ok z apex s ops recs wrecs Hh Hops Hbuild (own_order_admissible z Hb)) as (_ & Hd & Hdw).
      split; [exact HR0|]. split; [exact Hok|].
      split; [exact (zone_build_wf_tree _ _ _ _ Hbuild)|]. split; [exact (zone_build_wf_tree _ _ _ _ Hbuild')|]. split; assumption.
    Qed.

    Lemma ds_keys d : In d (zone_ds recs wrecs) -> exists p, d = mkname (p ++ labels apex).
    Proof.
      destruct own_nodes as (_ & _ & _ & _ & Hd & Hdw).
      intro H. apply (proj2 (zone_ds_spec recs wrecs)) in H. apply in_app_or in H as [H|H];
        apply in_map_iff in H as ([n zrs] & E & Hin); cbn [fst] in E; subst n;
        [destruct (ds_recs _ _ _ Hd _ _ Hin) as (p & Hp & _)|destruct (ds_recs _ _ _ Hdw _ _ Hin) as (p & Hp & _)]; eauto.
    Qed.

    (* per owner: the records z' lists are those z lists -- all of them on the wildcard side, all but
       the SOA record (which both hold, z' in front) on the ordinary side *)
    Lemma same_flat w q :
      filter nonsoa (flat_at w q (z_records z')) = filter nonsoa (flat_at w q (z_records z))
      /\ (flat_at w q (z_records z') = [] <-> flat_at w q (z_records z) = [])
      /\ (w = true -> flat_at w q (z_records z') = flat_at w q (z_records z)).
    Proof.
      destruct own_nodes as (HR0 & Hok & Hwf & Hwf' & Hd & Hdw).
      pose proof (text_ops_flat apex s fz recs wrecs Hok Hd Hdw) as Hflat. fold fz' in Hflat.
      destruct Hsame as (_ & _ & Hn). destruct (Hn (rev q)) as [Hex _].
      (* the text of z holds for the owner q the records z lists for it *)
      assert (Hlook : (if w then lookup (mkname (q ++ labels apex)) wrecs else filter nonsoa (lookup (mkname (q ++ labels apex)) recs))
                      = if w then flat_at w q (z_records z) else filter nonsoa (flat_at w q (z_records z))).
      { destruct w.
        - apply (lookup_all_of (labels apex) (z_records z) fz true HR0 Hwf q).
        - f_equal. apply (lookup_all_of (labels apex) (z_records z) fz false HR0 Hwf q). }
      pose proof (keys_build w q _ _ _ Hbuild') as Hkeys.
      change (z_apex (zone_new apex s)) with apex in Hkeys.
      rewrite (text_ops_types (labels apex) recs wrecs ds_keys w q), Hlook, keys_new in Hkeys.
      unfold keysZ, keys_at in Hkeys. unfold flat_at in *.
      destruct (node_at (rev q) (z_records z')) as [n'|] eqn:Hat'; destruct (node_at (rev q) (z_records z)) as [n|] eqn:Hat;
        cbn [is_some] in Hex; try discriminate.
      2: { split; [reflexivity|]. split; [tauto|reflexivity]. }
      destruct (sel_spec _ _ _ _ w (R_node _ _ _ _ _ HR0 Hat)) as [Hm Hg].
      destruct (sel_spec _ _ _ _ w (R_node _ _ _ _ _ HR' Hat')) as [Hm' Hg'].
      assert (Hgg : forall t, rget t (sel w n') = rget t (sel w n)) by (intro t; rewrite Hg, Hg'; apply Hflat).
      (* no SOA record on the wildcard side *)
      assert (Hws : w = true -> of_type RT_SOA (flat_map snd (sel w n)) = [] /\ of_type RT_SOA (flat_map snd (sel w n')) = []).
      { intros ->. rewrite !of_type_flat by assumption. rewrite Hgg, Hg. cbn [sidef]. rewrite rev_involutive.
        split; apply (fo_wsoa _ _ Hok). }
      assert (Htypes : map fst (sel w n')
                       = fold_left push_key (map zr_type (filter nonsoa (flat_map snd (sel w n)))) (init_keys s w q)).
      { rewrite Hkeys. destruct w; [|reflexivity]. rewrite (nonsoa_id _ (proj1 (Hws eq_refl))). reflexivity. }
      assert (H1 : filter nonsoa (flat_map snd (sel w n')) = filter nonsoa (flat_map snd (sel w n))).
      { apply same_flat_ns; try assumption.
        rewrite Htypes, filter_fold_push by apply types_nonsoa. rewrite init_keys_ns. reflexivity. }
      split; [exact H1|]. split.
      - rewrite (flat_nil_iff _ Hm), (flat_nil_iff _ Hm'). split; intros H t; [rewrite <- Hgg|rewrite Hgg]; apply H.
      - intro Hw. destruct (Hws Hw) as [S0 S0']. rewrite <- (nonsoa_id _ S0), <- (nonsoa_id _ S0'). exact H1.
    Qed.

    Lemma own_lookups :
      zone_ds (zone_all_records z') (zone_all_wildcard_records z') = zone_ds recs wrecs /\
      forall d, In d (zone_ds recs wrecs) ->
        filter nonsoa (lookup d (zone_all_records z')) = filter nonsoa (lookup d recs)
        /\ alookup dname_eqb d (zone_all_wildcard_records z') = alookup dname_eqb d wrecs.
    Proof.
      destruct own_nodes as (HR0 & Hok & Hwf & Hwf' & Hd & Hdw).
      assert (Hkey : forall w d, In d (map fst (all_of w (z_records z'))) <-> In d (map fst (all_of w (z_records z)))).
      { intros w d. rewrite (all_of_key (labels apex) (z_records z') fz' w HR' Hwf' d),
                            (all_of_key (labels apex) (z_records z) fz w HR0 Hwf d).
        split; intros (q & -> & Hne); exists q; (split; [reflexivity|]); intro F; apply Hne; apply (same_flat w q); exact F. }
      split.
      - apply zone_ds_ext. intro x. rewrite !in_app_iff.
        change (zone_all_records z') with (all_of false (z_records z')).
        change (zone_all_wildcard_records z') with (all_of true (z_records z')).
        change recs with (all_of false (z_records z)). change wrecs with (all_of true (z_records z)).
        rewrite (Hkey false x), (Hkey true x). reflexivity.
      - intros d Hin. destruct (ds_keys d Hin) as [q ->]. split.
        + change (zone_all_records z') with (all_of false (z_records z')). change recs with (all_of false (z_records z)).
          rewrite (lookup_all_of (labels apex) (z_records z') fz' false HR' Hwf' q),
                  (lookup_all_of (labels apex) (z_records z) fz false HR0 Hwf q).
          apply (same_flat false q).
        + change (zone_all_wildcard_records z') with (all_of true (z_records z')). change wrecs with (all_of true (z_records z)).
          rewrite (alookup_all_of (labels apex) (z_records z') fz' true HR' Hwf' q),
                  (alookup_all_of (labels apex) (z_records z) fz true HR0 Hwf q).
          rewrite (proj2 (proj2 (same_flat true q)) eq_refl). reflexivity.
    Qed.
  End Nodes.

  (* C13, normalise_idempotent for the text itself: a built zone written by Zone::serialise (the
     model's own order), read back and written again gives literally the same text *)
  Theorem own_text_idempotent z txt z' :
    built z -> zone_serialise ip z = Ok txt -> deserialise ip txt = Ok z' -> zone_serialise ip z' = Ok txt.
  Proof.
    intros Hb E D. pose proof Hb as (apex & s & ops & Hh & Hops & Hbuild).
    pose proof (own_order_admissible z Hb) as Hadm.
    destruct (admissible_src_ok z apex s ops _ _ Hh Hops Hbuild Hadm) as (Hsrc & _ & _).
    destruct (built_data z apex s ops Hh Hops Hbuild) as (Ea & Es & _ & _).
    destruct (serialise_deserialise ip Hip z _ _ Hsrc) as (txt0 & z0 & Etxt & Ed & _ & _ & Hb' & HR').
    unfold zone_serialise in E. rewrite E in Etxt. injection Etxt as <-. rewrite D in Ed. injection Ed as <-.
    destruct (zone_roundtrip ip Hip z _ _ Hb Hadm) as (txt1 & z1 & E1 & D1 & S1 & _ & _ & T1).
    rewrite E in E1. injection E1 as <-. rewrite D in D1. injection D1 as <-.
    rewrite Ea, Es in Hb', HR'.
    destruct (own_lookups apex s ops z z' Hh Hops Hbuild Hb' HR' S1) as [Hds Hl].
    unfold zone_serialise. rewrite <- T1. apply serialise_with_lookups; assumption.
  Qed.

  Hypothesis Hrange : codec_range ip.

  (* ... and so for every zone the parser returns: ztoz applied to its own output writes the same
     text again *)
  Theorem loaded_text_idempotent data z txt z' :
    deserialise ip data = Ok z -> zone_serialise ip z = Ok txt -> deserialise ip txt = Ok z' -> zone_serialise ip z' = Ok txt.
  Proof. intro Hd. apply own_text_idempotent. exact (loaded_built ip Hrange data z Hd). Qed.
End TextIdempotent.

Theorem zf_text_idempotent z txt z' :
  built z -> zf_serialise z = Ok txt -> zf_deserialise txt = Ok z' -> zf_serialise z' = Ok txt.
Proof. apply (own_text_idempotent zf_codec zf_codec_rt). Qed.

Theorem zf_loaded_text_idempotent data z txt z' :
  zf_deserialise data = Ok z -> zf_serialise z = Ok txt -> zf_deserialise txt = Ok z' -> zf_serialise z' = Ok txt.
Proof. apply (loaded_text_idempotent zf_codec zf_codec_rt zf_codec_range). Qed.
