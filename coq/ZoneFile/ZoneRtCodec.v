(* ZoneFile/ZoneRtCodec.v -- the address codec the zone-file model is run with
   (ZoneFile/ZfInstance.v: std's Ipv4Addr / Ipv6Addr FromStr and Display as modelled in
   Ip/IpModel.v) meets the two hypotheses the C13 theorems make about a codec:
     zf_codec_rt     Display then FromStr is the identity, Display writes plain characters
     zf_codec_range  FromStr yields a u32 / eight u16 *)
Set Default Timeout 120.
From RV Require Import Base.Prelude Name.NameModel Name.NameProofs Ip.IpModel Ip.IpProofs
     ZoneFile.ZoneFileModel ZoneFile.ZoneFileSpec ZoneFile.ZfInstance ZoneFile.ZoneFileProofs ZoneFile.ZoneRtLines
     ZoneFile.ZoneRtLoaded.

Lemma addr_char_plain c : (is_digit c = true \/ c = 46) \/ addrc c -> plain_char c = true.
Proof.
  intro H.
  assert (Hb : (is_digit c || (c =? 46) || hexc c || (c =? 58)) = true).
  { destruct H as [[H| ->]|[H|[->| ->]]]; rewrite ?H, ?orb_true_r; reflexivity. }
  assert (Hlt : c < 256).
  { destruct H as [[H| ->]|H]; [apply is_digit_range in H; lia|lia|apply addrc_ascii in H; lia]. }
  apply (sweep_imp (fun c => is_digit c || (c =? 46) || hexc c || (c =? 58)) plain_char); [vm_compute; reflexivity|exact Hlt|exact Hb].
Qed.

Lemma plain_token_of s : s <> [] -> Forall (fun c => plain_char c = true) s -> plain_token s = true.
Proof.
  intros Hne H. unfold plain_token. apply andb_true_iff. split; [destruct s; [contradiction|reflexivity]|].
  apply forallb_forall. rewrite Forall_forall in H. exact H.
Qed.

Lemma v6_ok_wf g : v6_ok g <-> wf_v6 g.
Proof. unfold v6_ok, wf_v6. tauto. Qed.

Theorem zf_codec_rt : codec_rt zf_codec.
Proof.
  split.
  - intros a Ha. cbn [zf_codec ZoneFileModel.parse_v4 ZoneFileModel.show_v4]. split; [apply ipv4_roundtrip; exact Ha|].
    apply plain_token_of.
    + unfold IpModel.show_v4. pose proof (show_dec_ne ((a / 16777216) mod 256)) as Hne. destruct (show_dec ((a / 16777216) mod 256)); [contradiction|discriminate].
    + eapply Forall_impl; [|apply show_v4_chars]. intros c Hc. apply addr_char_plain. left. exact Hc.
  - intros g Hg0. pose proof (proj1 (v6_ok_wf g) Hg0) as Hg.
    cbn [zf_codec ZoneFileModel.parse_v6 ZoneFileModel.show_v6]. split.
    + pose proof (ipv6_roundtrip g Hg) as H. unfold parse_ip, parse_ip_bytes in H. unfold ip_parse_v6.
      destruct (read_ipv4_addr (utf8 (IpModel.show_v6 g))) as [[a rest]|]; [destruct (is_nil rest); discriminate|].
      destruct (read_ipv6_addr (utf8 (IpModel.show_v6 g))) as [[g' rest]|]; [|discriminate].
      destruct (is_nil rest); [|discriminate]. inversion H. reflexivity.
    + destruct (show_v6_chars g Hg) as [Hc Hne]. apply plain_token_of; [exact Hne|].
      eapply Forall_impl; [|exact Hc]. intros c H. apply addr_char_plain. right. exact H.
Qed.

(* ---- FromStr yields values in range ---- *)

Lemma read_number_le radix maxd az bound s r rest : read_number radix maxd az bound s = Some (r, rest) -> r <= bound.
Proof.
  unfold read_number. destruct (read_digits radix maxd s 0 0) as [[[r0 cnt] rest0]|]; [|discriminate].
  destruct (cnt =? 0); [discriminate|]. destruct (negb az && _ && _); [discriminate|].
  destruct (r0 <=? bound) eqn:E; [|discriminate]. intro H; inversion H; subst. apply N.leb_le. exact E.
Qed.

Lemma read_separator_inv {T} sep i (inner : list N -> option (T * list N)) s v rest :
  read_separator sep i inner s = Some (v, rest) -> exists s', inner s' = Some (v, rest).
Proof.
  unfold read_separator. destruct (0 <? i); [|eauto]. destruct s as [|c t]; [discriminate|].
  destruct (c =? sep); [eauto|discriminate].
Qed.

Lemma read_octet_le i s v rest : read_octet i s = Some (v, rest) -> v <= 255.
Proof. unfold read_octet. intro H. apply read_separator_inv in H as [s' H]. eapply read_number_le; exact H. Qed.

Lemma read_ipv4_range s a rest : read_ipv4_addr s = Some (a, rest) -> a < 4294967296.
Proof.
  unfold read_ipv4_addr.
  destruct (read_octet 0 s) as [[x s1]|] eqn:E0; [|discriminate].
  destruct (read_octet 1 s1) as [[y s2]|] eqn:E1; [|discriminate].
  destruct (read_octet 2 s2) as [[z s3]|] eqn:E2; [|discriminate].
  destruct (read_octet 3 s3) as [[w s4]|] eqn:E3; [|discriminate].
  apply read_octet_le in E0, E1, E2, E3. intro H; inversion H; subst. unfold u32_be. lia.
Qed.

Lemma read_groups_spec : forall k i limit acc s acc' b s',
  i + N.of_nat k <= limit -> Forall (fun x => x < 65536) acc ->
  read_groups k i limit acc s = (acc', b, s') ->
  Forall (fun x => x < 65536) acc' /\ (length acc' <= length acc + N.to_nat (limit - i))%nat.
Proof.
  induction k as [|k IH]; intros i limit acc s acc' b s' Hk Ha H; cbn [read_groups] in H.
  - inversion H; subst. split; [exact Ha|lia].
  - destruct (if i + 1 <? limit then read_separator 58 i read_ipv4_addr s else None) as [[v4 rest]|] eqn:E4.
    + destruct (i + 1 <? limit) eqn:El; [|discriminate]. apply N.ltb_lt in El.
      apply read_separator_inv in E4 as [s0 E4]. apply read_ipv4_range in E4.
      inversion H; subst. split.
      * apply Forall_app. split; [exact Ha|]. constructor; [apply N.div_lt_upper_bound; lia|].
        constructor; [apply N.mod_lt; lia|constructor].
      * rewrite app_length. cbn [length]. lia.
    + destruct (read_separator 58 i (read_number 16 4 true 65535) s) as [[g rest]|] eqn:Eg.
      * apply read_separator_inv in Eg as [s0 Eg]. apply read_number_le in Eg.
        destruct (IH (i + 1) limit (acc ++ [g]) rest acc' b s') as [H1 H2]; [lia| |exact H|].
        { apply Forall_app. split; [exact Ha|]. constructor; [lia|constructor]. }
        split; [exact H1|]. rewrite app_length in H2. cbn [length] in H2. lia.
      * inversion H; subst. split; [exact Ha|lia].
Qed.

Lemma zeros_small n : Forall (fun x => x < 65536) (zeros n).
Proof. induction n; cbn [zeros]; constructor; [lia|assumption]. Qed.
Lemma zeros_length n : length (zeros n) = n.
Proof. induction n; cbn [zeros length]; congruence. Qed.

Lemma read_ipv6_range s g rest : read_ipv6_addr s = Some (g, rest) -> v6_ok g.
Proof.
  unfold read_ipv6_addr.
  destruct (read_groups 8 0 8 [] s) as [[head hv4] s1] eqn:Eh.
  destruct (read_groups_spec 8 0 8 [] s head hv4 s1 ltac:(cbn; lia) (Forall_nil _) Eh) as [Hh Hl]. cbn [length] in Hl.
  destruct (llen head =? 8) eqn:E8.
  - intro H; inversion H; subst. apply N.eqb_eq in E8. unfold llen in E8. split; [lia|exact Hh].
  - apply N.eqb_neq in E8. unfold llen in E8. destruct hv4; [discriminate|].
    destruct s1 as [|c1 [|c2 s2]]; try discriminate.
    { destruct c1 as [|p1]; [discriminate|]. repeat (destruct p1 as [p1|p1|]; try discriminate). }
    destruct (N.eq_dec c1 58) as [->|N1].
    2: { destruct c1 as [|p1]; [discriminate|].
         repeat (destruct p1 as [p1|p1|]; try discriminate; try (exfalso; apply N1; reflexivity)). }
    destruct (N.eq_dec c2 58) as [->|N2].
    2: { destruct c2 as [|p2]; [discriminate|].
         repeat (destruct p2 as [p2|p2|]; try discriminate; try (exfalso; apply N2; reflexivity)). }
    set (n8 := 8%nat). cbv iota. cbv zeta. subst n8.
    destruct (read_groups (N.to_nat (8 - (llen head + 1))) 0 (8 - (llen head + 1)) [] s2) as [[tail tv] s3] eqn:Et.
    assert (Hk : 0 + N.of_nat (N.to_nat (8 - (llen head + 1))) <= 8 - (llen head + 1)) by (rewrite N2Nat.id; lia).
    destruct (read_groups_spec (N.to_nat (8 - (llen head + 1))) 0 (8 - (llen head + 1)) [] s2 tail tv s3 Hk (Forall_nil _) Et) as [Ht Htl].
    cbn [length] in Htl.
    intro H. injection H as <- <-. unfold llen in *. split.
    + rewrite !app_length, zeros_length.
      destruct (length head) as [|[|[|[|[|[|[|[|n]]]]]]]]; cbv iota; cbn [N.of_nat] in *; lia.
    + apply Forall_app. split; [exact Hh|]. apply Forall_app. split; [apply zeros_small|exact Ht].
Qed.

Theorem zf_codec_range : ZoneRtLoaded.codec_range zf_codec.
Proof.
  split.
  - intros s a H. cbn [zf_codec ZoneFileModel.parse_v4] in H. unfold IpModel.parse_v4 in H.
    destruct (read_ipv4_addr (utf8 s)) as [[a0 rest]|] eqn:E; [|discriminate].
    destruct (is_nil rest); [|discriminate]. inversion H; subst. eapply read_ipv4_range; exact E.
  - intros s g H. cbn [zf_codec ZoneFileModel.parse_v6] in H. unfold ip_parse_v6 in H.
    destruct (read_ipv6_addr (utf8 s)) as [[g0 rest]|] eqn:E; [|discriminate].
    destruct (is_nil rest); [|discriminate]. inversion H; subst. eapply read_ipv6_range; exact E.
Qed.
