(* ZoneFile/ZoneFileSpec.v -- the specification side of C11 / C13: how an entry of a
   master file is WRITTEN (tokens as sequences of raw characters and \X / \DDD escapes,
   quoted or not; white space, parentheses, comments between them) and which tokens it
   denotes.  Independent of the tokeniser's control flow: no state machine here. *)
From RV Require Import Base.Prelude Name.NameModel ZoneFile.ZoneFileModel.

(* one octet of a token as written *)
Inductive piece :=
| PRaw (c : N)          (* the character itself *)
| PEscX (c : N)         (* \X, X a non-digit *)
| PEscD (o : N).        (* \DDD *)

Definition piece_octet (p : piece) : N := match p with PRaw c | PEscX c => c | PEscD o => o end.

Definition piece_text (p : piece) : list N :=
  match p with
  | PRaw c => [c]
  | PEscX c => [92; c]
  | PEscD o => [92; 48 + o / 100; 48 + (o / 10) mod 10; 48 + o mod 10]
  end.

(* characters that may stand for themselves outside quotes: ASCII, not white space, not one of
   semicolon, parentheses, double quote, backslash *)
Definition plain_char (c : N) : bool :=
  is_ascii c && negb (is_whitespace c)
  && negb ((c =? 59) || (c =? 40) || (c =? 41) || (c =? 34) || (c =? 92)).
(* inside quotes: any ASCII character but double quote and backslash (white space, newlines,
   semicolon and parentheses included) *)
Definition quoted_char (c : N) : bool := is_ascii c && negb ((c =? 34) || (c =? 92)).

Definition piece_ok (quoted : bool) (p : piece) : bool :=
  match p with
  | PRaw c => if quoted then quoted_char c else plain_char c
  | PEscX c => is_ascii c && negb (is_digit c)
  | PEscD o => o <? 256
  end.

Record wtoken := { wt_quoted : bool; wt_pieces : list piece }.

Definition wtoken_octets (w : wtoken) : list N := map piece_octet (wt_pieces w).
Definition pieces_text (ps : list piece) : list N := flat_map piece_text ps.
Definition wtoken_text (w : wtoken) : list N :=
  if wt_quoted w then 34 :: pieces_text (wt_pieces w) ++ [34] else pieces_text (wt_pieces w).
(* an unquoted token cannot be empty *)
Definition wtoken_ok (w : wtoken) : bool :=
  (wt_quoted w || negb (is_nil (wt_pieces w))) && forallb (piece_ok (wt_quoted w)) (wt_pieces w).

(* what stands between / around the tokens of one entry *)
Inductive item :=
| IWs (c : N)               (* a white-space character other than newline *)
| INl                       (* a newline: only inside parentheses *)
| IOpen                     (* ( *)
| IClose                    (* ) *)
| IComment (txt : list N)   (* ; txt newline : only inside parentheses (the newline would end the entry) *)
| ITok (w : wtoken).

Definition ws_char (c : N) : bool := is_whitespace c && negb (c =? 10).
Definition no_newline (txt : list N) : bool := forallb (fun c => negb (c =? 10)) txt.

Definition item_text (it : item) : list N :=
  match it with
  | IWs c => [c]
  | INl => [10]
  | IOpen => [40]
  | IClose => [41]
  | IComment txt => 59 :: txt ++ [10]
  | ITok w => wtoken_text w
  end.

(* the layout family: parentheses balanced and not nested, newlines and comments only inside
   them, two tokens never adjacent.  [inside]: are we inside parentheses; [glued]: was the
   previous item a token.  Result: are we inside parentheses at the end. *)
Fixpoint layout_ok (inside glued : bool) (items : list item) : option bool :=
  match items with
  | [] => Some inside
  | it :: rest =>
    match it with
    | IWs c => if ws_char c then layout_ok inside false rest else None
    | INl => if inside then layout_ok inside false rest else None
    | IOpen => if inside then None else layout_ok true false rest
    | IClose => if inside then layout_ok false false rest else None
    | IComment txt => if inside && no_newline txt then layout_ok inside false rest else None
    | ITok w => if glued then None else if wtoken_ok w then layout_ok inside true rest else None
    end
  end.

Fixpoint items_tokens (items : list item) : list wtoken :=
  match items with
  | [] => []
  | ITok w :: rest => w :: items_tokens rest
  | _ :: rest => items_tokens rest
  end.

Definition items_text (items : list item) : list N := flat_map item_text items.

(* how an entry ends: newline, end of input, or a comment running to either *)
Inductive terminator := TNl | TEof | TCommentNl (txt : list N) | TCommentEof (txt : list N).
Definition terminator_ok (t : terminator) : bool :=
  match t with TNl | TEof => true | TCommentNl txt | TCommentEof txt => no_newline txt end.
(* text of the terminator followed by the rest of the file (nothing after an end of input) *)
Definition terminator_text (t : terminator) (rest : list N) : list N :=
  match t with
  | TNl => 10 :: rest
  | TEof => []
  | TCommentNl txt => 59 :: txt ++ 10 :: rest
  | TCommentEof txt => 59 :: txt
  end.
Definition terminator_rest (t : terminator) (rest : list N) : list N :=
  match t with TNl | TCommentNl _ => rest | TEof | TCommentEof _ => [] end.

(* the token the parser sees: (String, Bytes), numerically the same list *)
Definition dup (os : list N) : token := (os, os).

(* the simple layout: tokens that need no quoting, separated by single spaces *)
Definition plain_token (t : list N) : bool := negb (is_nil t) && forallb plain_char t.
Fixpoint render_simple (toks : list (list N)) : list N :=
  match toks with
  | [] => []
  | [t] => t
  | t :: rest => t ++ 32 :: render_simple rest
  end.

(* ---- the ten field shapes of an RR entry (doc comment of parse_rr) ---- *)
Inductive rr_shape :=
| ShOwnerTtlClass | ShOwnerClassTtl | ShOwnerTtl | ShOwnerClass | ShOwner
| ShTtlClass | ShClassTtl | ShTtl | ShClass | ShBare.

Definition T_IN : token := dup S_IN.

(* the tokens of an entry of shape [sh]: owner, TTL and type tokens, RDATA tokens *)
Definition shape_tokens (sh : rr_shape) (o ttl ty : token) (rd : list token) : list token :=
  match sh with
  | ShOwnerTtlClass => o :: ttl :: T_IN :: ty :: rd
  | ShOwnerClassTtl => o :: T_IN :: ttl :: ty :: rd
  | ShOwnerTtl => o :: ttl :: ty :: rd
  | ShOwnerClass => o :: T_IN :: ty :: rd
  | ShOwner => o :: ty :: rd
  | ShTtlClass => ttl :: T_IN :: ty :: rd
  | ShClassTtl => T_IN :: ttl :: ty :: rd
  | ShTtl => ttl :: ty :: rd
  | ShClass => T_IN :: ty :: rd
  | ShBare => ty :: rd
  end.

(* position of the type token *)
Definition type_pos (sh : rr_shape) : nat :=
  match sh with
  | ShOwnerTtlClass | ShOwnerClassTtl => 3
  | ShOwnerTtl | ShOwnerClass | ShTtlClass | ShClassTtl => 2
  | ShOwner | ShTtl | ShClass => 1
  | ShBare => 0
  end.

Definition has_owner (sh : rr_shape) : bool :=
  match sh with ShOwnerTtlClass | ShOwnerClassTtl | ShOwnerTtl | ShOwnerClass | ShOwner => true | _ => false end.
Definition has_ttl (sh : rr_shape) : bool :=
  match sh with ShOwnerTtlClass | ShOwnerClassTtl | ShOwnerTtl | ShTtlClass | ShClassTtl | ShTtl => true | _ => false end.
