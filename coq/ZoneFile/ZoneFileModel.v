(* ZoneFile/ZoneFileModel.v -- executable model of
   crates/dns-types/src/zones/deserialise.rs (lines 1-960): Zone::deserialise,
   parse_entry, parse_origin, parse_include, parse_rr, try_parse_rtype_with_data,
   parse_domain_or_wildcard, parse_domain, parse_u32, to_rr, tokenise_entry,
   tokenise_escape, Error.  Definitions only.

   Conventions (DESIGN 3.2):
   * a Rust &str / char iterator is a [list N] of Unicode scalar values; the
     [Peekable] stream is the list of characters not yet consumed;
   * a token is the pair (String, Bytes) of the Rust code.  In the Rust code the
     two are always pushed together -- [token_string.push(octet as char);
     token_octets.put_u8(octet)] resp. [push(c); put_u8(c as u8)] with c ASCII --
     so as number lists they are the same list; the model keeps one accumulator
     (reversed) and builds the pair when the token is pushed;
   * every index / slice / unwrap is a site returning [Panic] under Rust's
     panic condition ([idx], [slice_from], [last_char], the [Panic] of
     [zone_insert]); C17 proves them unreachable;
   * the three loops (tokeniser, parse_entry's [loop], deserialise's [while let])
     are driven by a fuel LIST (one element per iteration; the callers pass the
     remaining input itself, plus one element for the two outer loops) and return
     [OutOfFuel] when it runs out; C17 proves that never happens, i.e. the number
     of iterations is linear in the length of the input;
   * std's Ipv4Addr/Ipv6Addr FromStr and Display are a record of four functions
     ([ipcodec]); the driver's instance comes from Ip/IpModel.v (ZoneFile/ZfInstance.v).
   * Error values carry no payload: only the variant is modelled. *)
From RV Require Import Base.Prelude Name.NameModel Wire.WireTypes Zone.ZoneModel.

Inductive zerr :=
| TokeniserUnexpected | TokeniserUnexpectedEscape | IncludeNotSupported
| MultipleSOA | WildcardSOA | NotSubdomainOfApex | Unexpected | ExpectedU32
| ExpectedOrigin | ExpectedDomainName | WrongLen | MissingType | MissingTTL
| MissingDomainName.

(* std's address parsers / printers (outside /repo) *)
Record ipcodec := {
  parse_v4 : list N -> option N;            (* Ipv4Addr::from_str, address as u32 *)
  parse_v6 : list N -> option (list N);     (* Ipv6Addr::from_str, 8 segments *)
  show_v4 : N -> list N;                    (* Display for Ipv4Addr *)
  show_v6 : list N -> list N }.             (* Display for Ipv6Addr *)

(* ---- characters ---- *)

(* char::is_whitespace = Unicode White_Space: U+0009..U+000D, U+0020, U+0085,
   U+00A0, U+1680, U+2000..U+200A, U+2028, U+2029, U+202F, U+205F, U+3000 *)
Definition is_whitespace (c : N) : bool :=
  ((9 <=? c) && (c <=? 13)) || (c =? 32) || (c =? 133) || (c =? 160) || (c =? 5760)
  || ((8192 <=? c) && (c <=? 8202)) || (c =? 8232) || (c =? 8233) || (c =? 8239)
  || (c =? 8287) || (c =? 12288).

(* char::to_digit(10) *)
Definition to_digit (c : N) : option N := if is_digit c then Some (c - 48) else None.

(* ---- Vec / slice access with Rust's panic conditions ---- *)

(* v.len() >= n, v.len() == n for small literal n, without walking the whole list *)
Fixpoint len_ge {A} (n : nat) (l : list A) : bool :=
  match n with
  | O => true
  | S k => match l with [] => false | _ :: t => len_ge k t end
  end.
Fixpoint len_is {A} (n : nat) (l : list A) : bool :=
  match n, l with
  | O, [] => true
  | S k, _ :: t => len_is k t
  | _, _ => false
  end.

(* v[i] *)
Definition idx {E A} (l : list A) (i : nat) : res E A :=
  match nth_error l i with Some x => Ok x | None => Panic end.
(* &v[n..] *)
Definition slice_from {E A} (l : list A) (n : nat) : res E (list A) :=
  if len_ge n l then Ok (skipn n l) else Panic.
(* v[v.len() - 1] : usize underflow (debug) / index out of range (release) on an empty vector *)
Fixpoint last_opt {A} (l : list A) : option A :=
  match l with [] => None | [x] => Some x | _ :: t => last_opt t end.
Definition last_char {E} (l : list N) : res E N :=
  match last_opt l with Some c => Ok c | None => Panic end.

(* Result -> Option as in [match f() { Ok(x) => Some(..), _ => None }]; a panic inside f
   still propagates *)
Definition opt_of_res {E A} (r : res E A) : res E (option A) :=
  match r with Ok a => Ok (Some a) | Err _ => Ok None | Panic => Panic | OutOfFuel => OutOfFuel end.

(* ---- integers: <uN as FromStr>::from_str = from_str_radix(s, 10) for an unsigned type ----
   empty -> Err; a lone "+" or "-" -> Err; one leading '+' is skipped ('-' is not: it is then
   an invalid digit); every remaining char must be an ASCII digit; overflow -> Err. *)
Fixpoint digits_loop (max : N) (ds : list N) (acc : N) : option N :=
  match ds with
  | [] => Some acc
  | c :: t => match to_digit c with
              | Some d => let v := acc * 10 + d in
                          if v <=? max then digits_loop max t v else None
              | None => None
              end
  end.
Definition uint_from_str (max : N) (s : list N) : option N :=
  match s with
  | [] => None
  | [c] => if (c =? 43) || (c =? 45) then None else digits_loop max s 0
  | c :: t => if c =? 43 then digits_loop max t 0 else digits_loop max s 0
  end.
Definition U8_MAX : N := 255.
Definition U16_MAX : N := 65535.
Definition U32_MAX : N := 4294967295.

(* ---- string constants ---- *)
Definition S_ORIGIN : list N := [36; 79; 82; 73; 71; 73; 78].          (* "$ORIGIN" *)
Definition S_INCLUDE : list N := [36; 73; 78; 67; 76; 85; 68; 69].     (* "$INCLUDE" *)
Definition S_IN : list N := [73; 78].                                  (* "IN" *)
Definition S_AT : list N := [64].                                      (* "@" *)
Definition S_STAR : list N := [42].                                    (* "*" *)

(* ---- tokeniser ---- *)

Definition token := (list N * list N)%type.          (* (String, Bytes) *)

Inductive tstate := SInitial | SComment | SUnquoted | SQuoted.

(* tokens.push((token_string, token_octets.freeze())) ; [acc] is reversed *)
Definition push_tok (acc : list N) (tokens : list token) : list token :=
  let s := rev' acc in (s, s) :: tokens.
(* if !token_string.is_empty() { push } *)
Definition flush_tok (acc : list N) (tokens : list token) : list token :=
  if is_nil acc then tokens else push_tok acc tokens.
(* the code after the while loop; [tokens] is reversed *)
Definition finish_toks (acc : list N) (tokens : list token) : list token :=
  rev' (flush_tok acc tokens).

(* tokenise_escape: returns the octet and the rest of the stream *)
Definition tokenise_escape (s : list N) : res zerr (N * list N) :=
  match s with
  | [] => Err TokeniserUnexpectedEscape
  | c1 :: s1 =>
    match to_digit c1 with
    | Some d1 =>
      match s1 with
      | [] => Err TokeniserUnexpectedEscape
      | c2 :: s2 =>
        match to_digit c2 with
        | Some d2 =>
          match s2 with
          | [] => Err TokeniserUnexpectedEscape
          | c3 :: s3 =>
            match to_digit c3 with
            | Some d3 =>
              let v := d1 * 100 + d2 * 10 + d3 in
              if v <=? U8_MAX then Ok (v, s3) else Err TokeniserUnexpectedEscape   (* u8::try_from *)
            | None => Err TokeniserUnexpectedEscape
            end
          end
        | None => Err TokeniserUnexpectedEscape
        end
      end
    | None => if is_ascii c1 then Ok (c1, s1) else Err TokeniserUnexpected
    end
  end.

(* the while loop of tokenise_entry.  [tokens], [acc] reversed; [lc] = line_continuation.
   Result: the tokens of the entry and the stream left after it. *)
Fixpoint tok_loop (fuel : list N) (s : list N) (tokens : list token) (acc : list N)
         (st : tstate) (lc : bool) : res zerr (list token * list N) :=
  match s with
  | [] => Ok (finish_toks acc tokens, [])
  | c :: rest =>
    match fuel with
    | [] => OutOfFuel
    | _ :: fuel' =>
      match st with
      | SInitial =>
        if c =? 10 then
          if lc then tok_loop fuel' rest tokens acc SInitial lc
          else Ok (finish_toks acc tokens, rest)                       (* break *)
        else if c =? 59 then tok_loop fuel' rest tokens acc SComment lc
        else if c =? 40 then
          if lc then Err TokeniserUnexpected
          else tok_loop fuel' rest tokens acc SInitial true
        else if c =? 41 then
          if lc then tok_loop fuel' rest tokens acc SInitial false
          else Err TokeniserUnexpected
        else if c =? 34 then tok_loop fuel' rest tokens acc SQuoted lc
        else if c =? 92 then
          match tokenise_escape rest with
          | Ok (o, rest') => tok_loop fuel' rest' tokens (o :: acc) SUnquoted lc
          | Err e => Err e
          | Panic => Panic
          | OutOfFuel => OutOfFuel
          end
        else if is_whitespace c then tok_loop fuel' rest tokens acc SInitial lc
        else if is_ascii c then tok_loop fuel' rest tokens (c :: acc) SUnquoted lc
        else Err TokeniserUnexpected
      | SUnquoted =>
        if c =? 10 then
          let tokens' := flush_tok acc tokens in
          if lc then tok_loop fuel' rest tokens' [] SInitial lc
          else Ok (finish_toks [] tokens', rest)                       (* break *)
        else if c =? 59 then tok_loop fuel' rest (flush_tok acc tokens) [] SComment lc
        else if c =? 92 then
          match tokenise_escape rest with
          | Ok (o, rest') => tok_loop fuel' rest' tokens (o :: acc) SUnquoted lc
          | Err e => Err e
          | Panic => Panic
          | OutOfFuel => OutOfFuel
          end
        else if c =? 40 then
          let tokens' := flush_tok acc tokens in
          if lc then Err TokeniserUnexpected
          else tok_loop fuel' rest tokens' [] SInitial true
        else if c =? 41 then
          let tokens' := flush_tok acc tokens in
          if lc then tok_loop fuel' rest tokens' [] SInitial false
          else Err TokeniserUnexpected
        else if is_whitespace c then tok_loop fuel' rest (flush_tok acc tokens) [] SInitial lc
        else if is_ascii c then tok_loop fuel' rest tokens (c :: acc) SUnquoted lc
        else Err TokeniserUnexpected
      | SComment =>
        if c =? 10 then
          if lc then tok_loop fuel' rest tokens acc SInitial lc
          else Ok (finish_toks acc tokens, rest)                       (* break *)
        else tok_loop fuel' rest tokens acc SComment lc
      | SQuoted =>
        if c =? 34 then tok_loop fuel' rest (push_tok acc tokens) [] SInitial lc
        else if c =? 92 then
          match tokenise_escape rest with
          | Ok (o, rest') => tok_loop fuel' rest' tokens (o :: acc) SQuoted lc
          | Err e => Err e
          | Panic => Panic
          | OutOfFuel => OutOfFuel
          end
        else if is_ascii c then tok_loop fuel' rest tokens (c :: acc) SQuoted lc
        else Err TokeniserUnexpected
      end
    end
  end.

(* tokenise_entry: one loop iteration per character consumed, so the stream itself is
   enough fuel *)
Definition tokenise_entry (s : list N) : res zerr (list token * list N) :=
  tok_loop s s [] [] SInitial false.

(* ---- entries ---- *)

Inductive mwild := MNormal (n : dname) | MWildcard (n : dname).

Inductive entry :=
| EOrigin (n : dname)
| EInclude (path : list N) (o : option dname)
| ERR (r : rr)
| EWildcardRR (r : rr).

(* parse_u32 *)
Definition parse_u32 (s : list N) : res zerr N := of_opt (uint_from_str U32_MAX s) ExpectedU32.

(* parse_domain *)
Definition parse_domain (origin : option dname) (s : list N) : res zerr dname :=
  if is_nil s then Err ExpectedDomainName
  else if negb (forallb is_ascii s) then Err ExpectedDomainName
  else if leqb s S_AT then of_opt origin ExpectedOrigin
  else
    let* lastc := last_char s in                       (* dotted_string_vec[len - 1] *)
    if lastc =? 46 then of_opt (from_dotted_string s) ExpectedDomainName
    else match origin with
         | Some name => of_opt (from_relative_dotted_string name s) ExpectedDomainName
         | None => Err ExpectedOrigin
         end.

(* the tail of parse_domain_or_wildcard's last branch (fix 0286676): an owner whose leftmost label
   is "*" is a wildcard however it was written (e.g. "@" under "$ORIGIN *.example.com."):
     if name.labels.len() > 1 && name.labels[0].octets().as_ref() == b"*" {
         if let Some(parent) = DomainName::from_labels(name.labels[1..].into()) {
             return Ok(MaybeWildcard::Wildcard { name: parent }); } }
     Ok(MaybeWildcard::Normal { name }) *)
Definition normal_or_star (name : dname) : res zerr mwild :=
  let* star :=
     (if len_ge 2 (labels name) then let* l0 := idx (labels name) 0 in Ok (leqb l0 S_STAR)
      else Ok false) in
  if star then
    let* tl := slice_from (labels name) 1 in
    match from_labels tl with
    | Some parent => Ok (MWildcard parent)
    | None => Ok (MNormal name)
    end
  else Ok (MNormal name).

(* parse_domain_or_wildcard *)
Definition parse_domain_or_wildcard (origin : option dname) (s : list N) : res zerr mwild :=
  if is_nil s then Err ExpectedDomainName
  else if leqb s S_STAR then
    match origin with Some name => Ok (MWildcard name) | None => Err ExpectedOrigin end
  else
    let* star_dot :=
       (if len_ge 2 s then
          let* c0 := idx s 0 in
          if c0 =? 42 then let* c1 := idx s 1 in Ok (c1 =? 46) else Ok false
        else Ok false) in
    if star_dot then
      let* name := (if len_is 2 s then Ok root_domain
                    else let* tl := slice_from s 2 in parse_domain origin tl) in
      Ok (MWildcard name)
    else
      let* name := parse_domain origin s in
      normal_or_star name.

(* RecordType::from_str, as the u16 code (WireTypes represents record types by their code;
   "TYPE<n>" yields RecordType::from(n), which is a known type when n is a known code) *)
Fixpoint strip_prefix (p s : list N) : option (list N) :=
  match p with
  | [] => Some s
  | x :: p' => match s with
               | y :: s' => if x =? y then strip_prefix p' s' else None
               | [] => None
               end
  end.
Definition rtype_from_str (s : list N) : option N :=
  match find (fun p => leqb s (snd p)) rtype_table with
  | Some p => Some (fst p)
  | None => match strip_prefix rtype_unknown_prefix s with
            | Some num => uint_from_str U16_MAX num
            | None => None
            end
  end.

Definition is_name_type (t : N) : bool :=
  (t =? RT_NS) || (t =? RT_MD) || (t =? RT_MF) || (t =? RT_CNAME)
  || (t =? RT_MB) || (t =? RT_MG) || (t =? RT_MR) || (t =? RT_PTR).
Definition is_octets_type (t : N) : bool :=
  (t =? RT_NULL) || (t =? RT_WKS) || (t =? RT_HINFO) || (t =? RT_TXT).

Section WithCodec.
  Variable ip : ipcodec.

  (* try_parse_rtype_with_data; the result is (type code, rdata) *)
  Definition try_parse_rtype_with_data (origin : option dname) (tokens : list token)
    : res zerr (option (N * rdata)) :=
    if is_nil tokens then Ok None
    else
      let* t0 := idx tokens 0 in
      match rtype_from_str (fst t0) with
      | None => Ok None
      | Some ty =>
        if ty =? RT_A then
          if len_is 2 tokens then
            let* t1 := idx tokens 1 in
            Ok (match parse_v4 ip (fst t1) with Some a => Some (ty, RD_A a) | None => None end)
          else Ok None
        else if is_name_type ty then
          if len_is 2 tokens then
            let* t1 := idx tokens 1 in
            let* o := opt_of_res (parse_domain origin (fst t1)) in
            Ok (match o with Some n => Some (ty, RD_Name n) | None => None end)
          else Ok None
        else if ty =? RT_SOA then
          if len_is 8 tokens then
            let* t1 := idx tokens 1 in let* t2 := idx tokens 2 in let* t3 := idx tokens 3 in
            let* t4 := idx tokens 4 in let* t5 := idx tokens 5 in let* t6 := idx tokens 6 in
            let* t7 := idx tokens 7 in
            let* m := opt_of_res (parse_domain origin (fst t1)) in
            let* r := opt_of_res (parse_domain origin (fst t2)) in
            Ok (match m, r, uint_from_str U32_MAX (fst t3), uint_from_str U32_MAX (fst t4),
                      uint_from_str U32_MAX (fst t5), uint_from_str U32_MAX (fst t6),
                      uint_from_str U32_MAX (fst t7) with
                | Some mname, Some rname, Some serial, Some refresh, Some retry, Some expire, Some minimum =>
                  Some (ty, RD_SOA mname rname serial refresh retry expire minimum)
                | _, _, _, _, _, _, _ => None
                end)
          else Ok None
        else if is_octets_type ty then
          if len_is 2 tokens then
            let* t1 := idx tokens 1 in Ok (Some (ty, RD_Octets (snd t1)))
          else Ok None
        else if ty =? RT_MINFO then
          if len_is 3 tokens then
            let* t1 := idx tokens 1 in let* t2 := idx tokens 2 in
            let* r := opt_of_res (parse_domain origin (fst t1)) in
            let* e := opt_of_res (parse_domain origin (fst t2)) in
            Ok (match r, e with Some rm, Some em => Some (ty, RD_MINFO rm em) | _, _ => None end)
          else Ok None
        else if ty =? RT_MX then
          if len_is 3 tokens then
            let* t1 := idx tokens 1 in let* t2 := idx tokens 2 in
            let* e := opt_of_res (parse_domain origin (fst t2)) in
            Ok (match uint_from_str U16_MAX (fst t1), e with
                | Some p, Some ex => Some (ty, RD_MX p ex)
                | _, _ => None
                end)
          else Ok None
        else if ty =? RT_AAAA then
          if len_is 2 tokens then
            let* t1 := idx tokens 1 in
            Ok (match parse_v6 ip (fst t1) with Some a => Some (ty, RD_AAAA a) | None => None end)
          else Ok None
        else if ty =? RT_SRV then
          if len_is 5 tokens then
            let* t1 := idx tokens 1 in let* t2 := idx tokens 2 in let* t3 := idx tokens 3 in
            let* t4 := idx tokens 4 in
            let* t := opt_of_res (parse_domain origin (fst t4)) in
            Ok (match uint_from_str U16_MAX (fst t1), uint_from_str U16_MAX (fst t2),
                      uint_from_str U16_MAX (fst t3), t with
                | Some p, Some w, Some po, Some tg => Some (ty, RD_SRV p w po tg)
                | _, _, _, _ => None
                end)
          else Ok None
        else Ok None                                   (* Unknown(_) and wrong lengths *)
      end.

  (* to_rr *)
  Definition to_rr (w : mwild) (td : N * rdata) (ttl : N) : entry :=
    let ttl' := match snd td with RD_SOA _ _ _ _ _ _ minimum => minimum | _ => ttl end in
    match w with
    | MNormal name => ERR {| rr_name := name; rr_type := fst td; rr_class := RC_IN; rr_ttl := ttl'; rr_data := snd td |}
    | MWildcard name => EWildcardRR {| rr_name := name; rr_type := fst td; rr_class := RC_IN; rr_ttl := ttl'; rr_data := snd td |}
    end.

  (* the recurring
       if let Some(ttl) = previous_ttl { Ok(to_rr(wname, rtd, ttl)) }
       else if rtd.rtype() == SOA { Ok(to_rr(wname, rtd, 0)) } else { Err(MissingTTL) } *)
  Definition with_prev_ttl (prev_ttl : option N) (w : mwild) (td : N * rdata) : res zerr entry :=
    match prev_ttl with
    | Some ttl => Ok (to_rr w td ttl)
    | None => if fst td =? RT_SOA then Ok (to_rr w td 0) else Err MissingTTL
    end.

  Definition all_digits (s : list N) : bool := forallb is_digit s.

  (* parse_rr, the four attempts in the order of the code *)
  Definition parse_rr_4 (origin : option dname) (tokens : list token) (td : N * rdata) : res zerr entry :=
    let* t0 := idx tokens 0 in
    let* wname := parse_domain_or_wildcard origin (fst t0) in
    let* t2 := idx tokens 2 in
    let* ttl := (if leqb (fst t2) S_IN then let* t1 := idx tokens 1 in parse_u32 (fst t1)
                 else let* t1 := idx tokens 1 in
                      if leqb (fst t1) S_IN then parse_u32 (fst t2) else Err Unexpected) in
    Ok (to_rr wname td ttl).

  Definition parse_rr_3 (origin : option dname) (prev_domain : option mwild) (prev_ttl : option N)
             (tokens : list token) (td : N * rdata) : res zerr entry :=
    let* t1 := idx tokens 1 in
    if leqb (fst t1) S_IN then
      let* t0 := idx tokens 0 in
      if all_digits (fst t0) then
        let* ttl := parse_u32 (fst t0) in
        match prev_domain with
        | Some wname => Ok (to_rr wname td ttl)
        | None => Err MissingDomainName
        end
      else
        let* wname := parse_domain_or_wildcard origin (fst t0) in
        with_prev_ttl prev_ttl wname td
    else
      let* t0 := idx tokens 0 in
      if leqb (fst t0) S_IN then
        let* ttl := parse_u32 (fst t1) in
        match prev_domain with
        | Some wname => Ok (to_rr wname td ttl)
        | None => Err MissingDomainName
        end
      else
        let* wname := parse_domain_or_wildcard origin (fst t0) in
        let* ttl := parse_u32 (fst t1) in
        Ok (to_rr wname td ttl).

  Definition parse_rr_2 (origin : option dname) (prev_domain : option mwild) (prev_ttl : option N)
             (tokens : list token) (td : N * rdata) : res zerr entry :=
    let* t0 := idx tokens 0 in
    if leqb (fst t0) S_IN then
      match prev_domain with
      | Some wname => with_prev_ttl prev_ttl wname td
      | None => Err MissingDomainName
      end
    else if all_digits (fst t0) then
      let* ttl := parse_u32 (fst t0) in
      match prev_domain with
      | Some wname => Ok (to_rr wname td ttl)
      | None => Err MissingDomainName
      end
    else
      let* wname := parse_domain_or_wildcard origin (fst t0) in
      with_prev_ttl prev_ttl wname td.

  Definition parse_rr_1 (prev_domain : option mwild) (prev_ttl : option N) (td : N * rdata) : res zerr entry :=
    match prev_domain with
    | Some wname => with_prev_ttl prev_ttl wname td
    | None => Err MissingDomainName
    end.

  (* try_parse_rtype_with_data(origin, &tokens[n..]) guarded by tokens.len() >= n+1 *)
  Definition try_from (origin : option dname) (tokens : list token) (n : nat) : res zerr (option (N * rdata)) :=
    if len_ge (S n) tokens then
      let* sl := slice_from tokens n in try_parse_rtype_with_data origin sl
    else Ok None.

  Definition parse_rr (origin : option dname) (prev_domain : option mwild) (prev_ttl : option N)
             (tokens : list token) : res zerr entry :=
    if is_nil tokens then Err WrongLen
    else
      let* o4 := try_from origin tokens 3 in
      match o4 with
      | Some td => parse_rr_4 origin tokens td
      | None =>
        let* o3 := try_from origin tokens 2 in
        match o3 with
        | Some td => parse_rr_3 origin prev_domain prev_ttl tokens td
        | None =>
          let* o2 := try_from origin tokens 1 in
          match o2 with
          | Some td => parse_rr_2 origin prev_domain prev_ttl tokens td
          | None =>
            let* o1 := try_from origin tokens 0 in
            match o1 with
            | Some td => parse_rr_1 prev_domain prev_ttl td
            | None => Err MissingType
            end
          end
        end
      end.

  (* parse_origin *)
  Definition parse_origin (origin : option dname) (tokens : list token) : res zerr entry :=
    if negb (len_is 2 tokens) then Err WrongLen
    else
      let* t0 := idx tokens 0 in
      if negb (leqb (fst t0) S_ORIGIN) then Err Unexpected
      else
        let* t1 := idx tokens 1 in
        let* name := parse_domain origin (fst t1) in
        Ok (EOrigin name).

  (* parse_include *)
  Definition parse_include (origin : option dname) (tokens : list token) : res zerr entry :=
    if negb (len_is 2 tokens) && negb (len_is 3 tokens) then Err WrongLen
    else
      let* t0 := idx tokens 0 in
      if negb (leqb (fst t0) S_INCLUDE) then Err Unexpected
      else
        let* t1 := idx tokens 1 in
        let* name := (if len_is 3 tokens then
                        let* t2 := idx tokens 2 in
                        let* n := parse_domain origin (fst t2) in Ok (Some n)
                      else Ok None) in
        Ok (EInclude (fst t1) name).

  (* parse_entry: the [loop]; every iteration that does not return has consumed at least
     one character, so |stream|+1 iterations are enough *)
  Fixpoint parse_entry_loop (fuel : list N) (origin : option dname) (prev_domain : option mwild)
           (prev_ttl : option N) (s : list N) : res zerr (option entry * list N) :=
    match fuel with
    | [] => OutOfFuel
    | _ :: fuel' =>
      let* tr := tokenise_entry s in
      let tokens := fst tr in
      let rest := snd tr in
      if is_nil tokens then
        if is_nil rest then Ok (None, rest)                      (* stream.peek().is_none() *)
        else parse_entry_loop fuel' origin prev_domain prev_ttl rest
      else
        let* t0 := idx tokens 0 in
        if leqb (fst t0) S_ORIGIN then
          let* e := parse_origin origin tokens in Ok (Some e, rest)
        else if leqb (fst t0) S_INCLUDE then
          let* e := parse_include origin tokens in Ok (Some e, rest)
        else
          let* e := parse_rr origin prev_domain prev_ttl tokens in Ok (Some e, rest)
    end.

  Definition parse_entry (origin : option dname) (prev_domain : option mwild) (prev_ttl : option N)
             (s : list N) : res zerr (option entry * list N) :=
    parse_entry_loop (0 :: s) origin prev_domain prev_ttl s.

  (* ---- Zone::deserialise ---- *)

  (* the local variables of the first loop; the two vectors are kept reversed *)
  Record dstate := {
    d_rrs : list rr; d_wrrs : list rr; d_apex_soa : option (dname * soa);
    d_origin : option dname; d_prev_domain : option mwild; d_prev_ttl : option N }.

  Definition dstate_init : dstate :=
    {| d_rrs := []; d_wrrs := []; d_apex_soa := None; d_origin := None;
       d_prev_domain := None; d_prev_ttl := None |}.

  (* the body of the match on one entry; None = keep going is not needed: errors are Err *)
  Definition deser_step (st : dstate) (e : entry) : res zerr dstate :=
    match e with
    | EOrigin name =>
      Ok {| d_rrs := d_rrs st; d_wrrs := d_wrrs st; d_apex_soa := d_apex_soa st; d_origin := Some name;
            d_prev_domain := d_prev_domain st; d_prev_ttl := d_prev_ttl st |}
    | EInclude _ _ => Err IncludeNotSupported
    | ERR r =>
      let pd := Some (MNormal (rr_name r)) in
      let pt := Some (rr_ttl r) in
      match rr_data r with
      | RD_SOA mname rname serial refresh retry expire minimum =>
        match d_apex_soa st with
        | Some _ => Err MultipleSOA
        | None =>
          Ok {| d_rrs := d_rrs st; d_wrrs := d_wrrs st;
                d_apex_soa := Some (rr_name r, {| soa_mname := mname; soa_rname := rname; soa_serial := serial;
                                                  soa_refresh := refresh; soa_retry := retry; soa_expire := expire;
                                                  soa_minimum := minimum |});
                d_origin := d_origin st; d_prev_domain := pd; d_prev_ttl := pt |}
        end
      | _ =>
        Ok {| d_rrs := r :: d_rrs st; d_wrrs := d_wrrs st; d_apex_soa := d_apex_soa st;
              d_origin := d_origin st; d_prev_domain := pd; d_prev_ttl := pt |}
      end
    | EWildcardRR r =>
      if rr_type r =? RT_SOA then Err WildcardSOA
      else
        Ok {| d_rrs := d_rrs st; d_wrrs := r :: d_wrrs st; d_apex_soa := d_apex_soa st;
              d_origin := d_origin st; d_prev_domain := Some (MWildcard (rr_name r));
              d_prev_ttl := Some (rr_ttl r) |}
    end.

  (* while let Some(entry) = parse_entry(..)? : every entry consumes at least one character *)
  Fixpoint deser_loop (fuel : list N) (st : dstate) (s : list N) : res zerr dstate :=
    match fuel with
    | [] => OutOfFuel
    | _ :: fuel' =>
      let* er := parse_entry (d_origin st) (d_prev_domain st) (d_prev_ttl st) s in
      match fst er with
      | None => Ok st
      | Some e => let* st' := deser_step st e in deser_loop fuel' st' (snd er)
      end
    end.

  Definition lift_unit {A} (r : res unit A) : res zerr A :=
    match r with Ok a => Ok a | Err _ => Panic | Panic => Panic | OutOfFuel => OutOfFuel end.

  (* for rr in rrs { if !subdomain { return Err } zone.insert / insert_wildcard } *)
  Fixpoint insert_all (wildcard : bool) (rrs : list rr) (z : zone) : res zerr zone :=
    match rrs with
    | [] => Ok z
    | r :: t =>
      if negb (is_subdomain_of (rr_name r) (z_apex z)) then Err NotSubdomainOfApex
      else
        let* z' := lift_unit (zone_insert wildcard z (rr_name r) (rr_type r) (rr_data r) (rr_ttl r)) in
        insert_all wildcard t z'
    end.

  Definition assemble (st : dstate) : res zerr zone :=
    let z0 := match d_apex_soa st with
              | Some (apex, s) => zone_new apex (Some s)
              | None => zone_new root_domain None            (* Zone::default() *)
              end in
    let* z1 := insert_all false (rev' (d_rrs st)) z0 in
    insert_all true (rev' (d_wrrs st)) z1.

  Definition deserialise (data : list N) : res zerr zone :=
    let* st := deser_loop (0 :: data) dstate_init data in
    assemble st.

End WithCodec.
