(* ZoneFile/ZoneRtLoaded.v -- C13: every zone Zone::deserialise returns is a [built] zone of
   ZoneRoundTrip.v (names well formed with ASCII dot-free labels, the 18 record types, RDATA
   in range, ordinary owners' leftmost label never "*" -- fix 0286676 --, the apex the root
   or the owner of the SOA), so zone_roundtrip applies to it: [loaded_roundtrip].

   Needs of the address codec only that FromStr yields values in range ([codec_range]). *)
From Coq Require Import Permutation.
Set Default Timeout 120.
From RV Require Import Base.Prelude Name.NameModel Name.NameSpec Name.NameProofs Wire.WireTypes
     Zone.ZoneModel Zone.ZoneFlat Zone.ZoneProofs
     ZoneFile.ZoneFileModel ZoneFile.ZoneFileSpec ZoneFile.ZoneSerialiseModel
     ZoneFile.ZoneFileProofs ZoneFile.ZoneSerialiseProofs ZoneFile.ZoneRtLines ZoneFile.ZoneRtLoop
     ZoneFile.ZoneRoundTrip.

Definition codec_range (ip : ipcodec) : Prop :=
  (forall s a, parse_v4 ip s = Some a -> a < 4294967296) /\ (forall s g, parse_v6 ip s = Some g -> v6_ok g).

(* ====================================================================== *)
(* tokens are octet strings                                                *)
(* ====================================================================== *)

Definition tok_ok (t : token) : Prop := octets (snd t).

Lemma tokenise_escape_octet s o r : tokenise_escape s = Ok (o, r) -> o < 256.
Proof.
  unfold tokenise_escape.
  repeat match goal with
         | |- (match ?x with _ => _ end) = _ -> _ => destruct x eqn:?
         | |- (if ?b then _ else _) = _ -> _ => destruct b eqn:?
         end; intro H; inversion H; subst.
  - match goal with B : (_ <=? U8_MAX) = true |- _ => apply N.leb_le in B; unfold U8_MAX in B; lia end.
  - match goal with B : is_ascii _ = true |- _ => unfold is_ascii in B; apply N.ltb_lt in B; lia end.
Qed.

Lemma octets_rev' acc : octets acc -> octets (rev' acc).
Proof. intro H. rewrite rev'_rev. apply Forall_rev. exact H. Qed.

Lemma push_tok_ok acc tokens : octets acc -> Forall tok_ok tokens -> Forall tok_ok (push_tok acc tokens).
Proof. intros Ha Ht. unfold push_tok. constructor; [apply octets_rev'; exact Ha|exact Ht]. Qed.

Lemma flush_tok_ok acc tokens : octets acc -> Forall tok_ok tokens -> Forall tok_ok (flush_tok acc tokens).
Proof. intros Ha Ht. unfold flush_tok. destruct (is_nil acc); [exact Ht|apply push_tok_ok; assumption]. Qed.

Lemma finish_toks_ok acc tokens : octets acc -> Forall tok_ok tokens -> Forall tok_ok (finish_toks acc tokens).
Proof. intros Ha Ht. unfold finish_toks. rewrite rev'_rev. apply Forall_rev. apply flush_tok_ok; assumption. Qed.

Lemma ascii_octet c : is_ascii c = true -> c < 256.
Proof. unfold is_ascii. intro H. apply N.ltb_lt in H. lia. Qed.

Lemma tok_loop_octets : forall fuel s tokens acc st lc toks rest,
  Forall tok_ok tokens -> octets acc -> tok_loop fuel s tokens acc st lc = Ok (toks, rest) -> Forall tok_ok toks.
Proof.
  induction fuel as [|f fuel IH]; intros s tokens acc st lc toks rest Ht Ha H.
  - destruct s as [|c r]; cbn [tok_loop] in H; [|discriminate]. inversion H; subst. apply finish_toks_ok; assumption.
  - destruct s as [|c r]; cbn [tok_loop] in H; [inversion H; subst; apply finish_toks_ok; assumption|].
    assert (Hnil : octets []) by constructor.
    destruct st;
      repeat match type of H with
             | context [tokenise_escape ?x] =>
               let E := fresh "E" in destruct (tokenise_escape x) as [[? ?]| | |] eqn:E; [apply tokenise_escape_octet in E| | |]
             | context [if ?b then _ else _] => let B := fresh "B" in destruct b eqn:B
             end.
    all: try discriminate.
    all: try (inversion H; subst; apply finish_toks_ok; auto using flush_tok_ok, push_tok_ok; fail).
    all: try (eapply IH; [| |exact H]; auto using flush_tok_ok, push_tok_ok; fail).
    all: eapply IH; [| |exact H]; [assumption|constructor; [first [assumption|apply ascii_octet; assumption]|assumption]].
Qed.

Lemma tokenise_entry_octets s toks rest : tokenise_entry s = Ok (toks, rest) -> Forall tok_ok toks.
Proof. apply tok_loop_octets; constructor. Qed.

(* ====================================================================== *)
(* parsed names                                                            *)
(* ====================================================================== *)

Lemma in_dotjoin c cs : In c cs -> incl c (dotjoin cs).
Proof.
  intros Hin x Hx. induction cs as [|d cs IH]; [destruct Hin|]. rewrite dotjoin_cons.
  destruct Hin as [->|Hin]; [apply in_or_app; left; exact Hx|]. apply in_or_app. right. right. apply IH. exact Hin.
Qed.

Lemma lower_ascii b : b < 128 -> lower b < 128.
Proof. intro H. destruct (lower_cases b) as [[Hr ->]|[_ ->]]; lia. Qed.

(* a name read from ASCII text has ASCII dot-free labels *)
Lemma dotted_ascii s n : forallb is_ascii s = true -> from_dotted_string s = Some n -> ascii_nodot n.
Proof.
  intros Ha H. destruct (list_eq_dec N.eq_dec s [46]) as [->|Hs].
  - change (from_dotted_string [46]) with (Some root_domain) in H. inversion H. apply root_name_ok.
  - destruct (dotted_inv s n Hs H) as (cs & _ & Hj & Hok & Hl & _).
    unfold ascii_nodot. rewrite Hl. apply Forall_app. split; [|repeat constructor].
    apply Forall_map. apply Forall_forall. intros c Hc. rewrite Forall_forall in Hok. destruct (Hok c Hc) as (_ & Hnd & _).
    assert (Hca : Forall (fun b => b < 128) c).
    { apply Forall_forall. intros b Hb. rewrite forallb_forall in Ha.
      assert (Hin : In b s) by (rewrite Hj; apply (in_dotjoin c cs Hc); exact Hb).
      apply Ha in Hin. unfold is_ascii in Hin. apply N.ltb_lt in Hin. exact Hin. }
    unfold lab. rewrite (utf8_ascii c Hca). apply Forall_map. apply Forall_forall. intros b Hb.
    rewrite Forall_forall in Hca. split; [apply lower_ascii, Hca, Hb|].
    intro E. apply (proj1 (lower_eq_46 b)) in E. rewrite E in Hb. exact (Hnd Hb).
Qed.

Definition oname_ok (o : option dname) : Prop := match o with Some n => name_ok n | None => True end.

Lemma oname_wf o : oname_ok o -> wf_opt o.
Proof. destruct o; [intros [H _]; exact H|auto]. Qed.

Lemma good_ok {E A} (P : A -> Prop) (r : res E A) a : good P r -> r = Ok a -> P a.
Proof. intros H ->. exact H. Qed.

Lemma parse_domain_ok origin s n : oname_ok origin -> parse_domain origin s = Ok n -> name_ok n.
Proof.
  intros Ho H. split; [exact (good_ok _ _ _ (parse_domain_good origin s (oname_wf _ Ho)) H)|].
  unfold parse_domain in H.
  destruct (is_nil s) eqn:En; [discriminate|].
  destruct (forallb is_ascii s) eqn:Ea; cbn [negb] in H; [|discriminate].
  destruct (leqb s S_AT).
  - destruct origin as [o|]; cbn [of_opt] in H; [|discriminate]. inversion H; subst. apply Ho.
  - destruct (last_char_ok (E:=zerr) s En) as [c Hc]. rewrite Hc in H. cbn [bind] in H.
    destruct (c =? 46).
    + destruct (from_dotted_string s) as [m|] eqn:E; cbn [of_opt] in H; [|discriminate]. inversion H; subst.
      eapply dotted_ascii; eassumption.
    + destruct origin as [o|]; [|discriminate].
      destruct (from_relative_dotted_string o s) as [m|] eqn:E; cbn [of_opt] in H; [|discriminate]. inversion H; subst.
      rewrite from_rel_nonempty in E by (destruct s; [discriminate|discriminate]).
      pose proof (lc_ascii _ (to_dotted_lc o Ho)) as Hoa.
      destruct (ends_with_dot s); [eapply dotted_ascii; [exact Ea|exact E]|].
      destruct (starts_dot (to_dotted_string o)); (eapply dotted_ascii; [|exact E]); rewrite forallb_app; rewrite Ea; cbn [andb forallb]; rewrite ?Hoa; reflexivity.
Qed.

Definition mw_ok (w : mwild) : Prop :=
  name_ok (mw_name w) /\ match w with MNormal n => first_label n <> S_STAR | MWildcard _ => True end.
Definition omw_ok (o : option mwild) : Prop := match o with Some w => mw_ok w | None => True end.

(* fix 0286676 seen from the result: an ordinary owner never has the leftmost label "*" *)
Lemma normal_or_star_ok name w : name_ok name -> normal_or_star name = Ok w -> mw_ok w.
Proof.
  intros Hn H. unfold normal_or_star in H.
  destruct (labels name) as [|l0 [|l1 t]] eqn:El; cbn [len_ge idx nth_error bind slice_from skipn] in H.
  - inversion H; subst. split; [exact Hn|]. unfold first_label. rewrite El. discriminate.
  - inversion H; subst. split; [exact Hn|]. unfold first_label. rewrite El.
    destruct (name_ok_dest _ Hn) as (front & E & _). rewrite E in El. cbn [mk labels] in El.
    destruct front as [|x [|y f]]; cbn [app] in El; inversion El; subst; discriminate.
  - destruct (leqb l0 S_STAR) eqn:Es; cbn [bind] in H.
    + destruct (from_labels (l1 :: t)) as [parent|] eqn:F.
      * inversion H; subst. split; [|exact I]. cbn [mw_name].
        destruct Hn as [Hw Ha]. unfold ascii_nodot in Ha. rewrite El in Ha. apply Forall_cons_iff in Ha as [_ Ha].
        assert (Hwl : Forall wf_label (l1 :: t)).
        { destruct Hw as [Hl _]. apply wf_labels_all in Hl. rewrite El in Hl. apply Forall_cons_iff in Hl. apply Hl. }
        destruct (from_labels_wf _ _ Hwl F) as [Hpw Hpl]. split; [exact Hpw|]. unfold ascii_nodot. rewrite Hpl. exact Ha.
      * exfalso. pose proof (from_labels_of_wf name (proj1 Hn)) as Hf. rewrite El in Hf.
        destruct (from_labels_suffix [l0] (l1 :: t) name Hf ltac:(discriminate)) as (m & Hm & _). congruence.
    + inversion H; subst. split; [exact Hn|]. unfold first_label. rewrite El. intro E. rewrite E in Es. discriminate.
Qed.

Lemma pdw_ok origin s w : oname_ok origin -> parse_domain_or_wildcard origin s = Ok w -> mw_ok w.
Proof.
  intros Ho H. unfold parse_domain_or_wildcard in H.
  destruct (is_nil s); [discriminate|].
  destruct (leqb s S_STAR).
  { destruct origin as [o|]; [|discriminate]. inversion H; subst. split; [exact Ho|exact I]. }
  assert (Hn : forall x, (let* name := parse_domain origin x in normal_or_star name) = Ok w -> mw_ok w).
  { intros x Hx. destruct (parse_domain origin x) as [n| | |] eqn:E; cbn [bind] in Hx; try discriminate.
    eapply normal_or_star_ok; [eapply parse_domain_ok; eassumption|exact Hx]. }
  destruct s as [|c0 [|c1 t]]; cbn [len_ge len_is idx nth_error bind slice_from skipn] in H; try (apply (Hn _ H)).
  destruct (c0 =? 42); cbn [bind] in H; [|apply (Hn _ H)].
  destruct (c1 =? 46); [|apply (Hn _ H)].
  destruct t as [|c2 t']; cbn [len_is bind] in H.
  - inversion H; subst. split; [apply root_name_ok|exact I].
  - destruct (parse_domain origin (c2 :: t')) as [n| | |] eqn:E; cbn [bind] in H; try discriminate.
    inversion H; subst. split; [eapply parse_domain_ok; eassumption|exact I].
Qed.

(* ====================================================================== *)
(* parsed records                                                          *)
(* ====================================================================== *)

Definition td_ok (td : N * rdata) : Prop :=
  rtype_known (fst td) = true /\ shape_of_rdata (snd td) = shape_of_type (fst td) /\ rdata_ok (snd td).

Lemma digits_loop_le max : forall ds acc v, acc <= max -> digits_loop max ds acc = Some v -> v <= max.
Proof.
  induction ds as [|c t IH]; intros acc v Ha H; cbn [digits_loop] in H; [inversion H; subst; exact Ha|].
  destruct (to_digit c) as [d|]; [|discriminate]. cbv zeta in H.
  destruct (acc * 10 + d <=? max) eqn:E; [|discriminate]. apply N.leb_le in E. eapply IH; eassumption.
Qed.

Lemma uint_le max s v : uint_from_str max s = Some v -> v <= max.
Proof.
  unfold uint_from_str. destruct s as [|c [|c' t]]; [discriminate| |].
  - destruct ((c =? 43) || (c =? 45)); [discriminate|]. apply digits_loop_le. lia.
  - destruct (c =? 43); apply digits_loop_le; lia.
Qed.

Lemma uint_u32 s v : uint_from_str U32_MAX s = Some v -> v < 4294967296.
Proof. intro H. apply uint_le in H. unfold U32_MAX in H. lia. Qed.
Lemma uint_u16 s v : uint_from_str U16_MAX s = Some v -> v < 65536.
Proof. intro H. apply uint_le in H. unfold U16_MAX in H. lia. Qed.

Lemma opt_of_res_some {E A} (r : res E A) a : opt_of_res r = Ok (Some a) -> r = Ok a.
Proof. destruct r; cbn [opt_of_res]; intro H; inversion H; reflexivity. Qed.

Ltac invs :=
  repeat match goal with
         | H : ?x = ?x |- _ => clear H
         | H : Err _ = Ok _ |- _ => discriminate H
         | H : Panic = Ok _ |- _ => discriminate H
         | H : OutOfFuel = Ok _ |- _ => discriminate H
         | H : None = Some _ |- _ => discriminate H
         | H : Ok _ = Ok _ |- _ => inversion H; clear H; subst
         | H : Some _ = Some _ |- _ => inversion H; clear H; subst
         | H : bind ?r _ = Ok _ |- _ => let E := fresh "E" in destruct r eqn:E; cbn [bind] in H
         | H : (if ?b then _ else _) = Ok _ |- _ => let B := fresh "B" in destruct b eqn:B
         | H : match ?x with Some _ => _ | None => _ end = Ok _ |- _ => let E := fresh "E" in destruct x eqn:E
         | H : match ?x with Some _ => _ | None => _ end = Some _ |- _ => let E := fresh "E" in destruct x eqn:E
         end.

Ltac ty_cases :=
  repeat match goal with
         | B : is_name_type _ = true |- _ => unfold is_name_type in B
         | B : is_octets_type _ = true |- _ => unfold is_octets_type in B
         | B : (_ || _) = true |- _ => apply orb_true_iff in B; destruct B as [B|B]
         | B : (?ty =? _) = true |- _ => apply N.eqb_eq in B; subst ty
         end.

Section Parsed.
  Variable ip : ipcodec.
  Hypothesis Hc : codec_range ip.

  Lemma try_parse_ok origin toks td : oname_ok origin -> Forall tok_ok toks ->
    try_parse_rtype_with_data ip origin toks = Ok (Some td) -> td_ok td.
  Proof.
    intros Ho Ht H. unfold try_parse_rtype_with_data in H. unfold tok_ok in Ht.
    destruct toks as [|t0 [|t1 [|t2 [|t3 [|t4 [|t5 [|t6 [|t7 [|t8 r]]]]]]]]];
      cbn [is_nil idx nth_error bind len_is] in H; try discriminate;
      (destruct (rtype_from_str (fst t0)) as [ty|]; [|discriminate]);
      repeat (apply Forall_cons_iff in Ht as [? Ht]);
      invs; ty_cases; (split; [reflexivity|split; [reflexivity|]]); cbn [snd rdata_ok];
      repeat match goal with |- _ /\ _ => split end;
      try assumption;
      try (eapply parse_domain_ok; [exact Ho|apply opt_of_res_some; eassumption]);
      try (eapply uint_u32; eassumption); try (eapply uint_u16; eassumption).
    - eapply (proj1 Hc); eassumption.
    - eapply (proj2 Hc); eassumption.
  Qed.

  Lemma try_from_ok origin toks n td : oname_ok origin -> Forall tok_ok toks ->
    try_from ip origin toks n = Ok (Some td) -> td_ok td.
  Proof.
    intros Ho Ht H. unfold try_from, slice_from in H.
    destruct (len_ge (S n) toks); [|discriminate]. destruct (len_ge n toks); cbn [bind] in H; [|discriminate].
    eapply try_parse_ok; [exact Ho| |exact H]. apply Forall_skipn. exact Ht.
  Qed.

  Definition rr_ok (w : bool) (r : rr) : Prop :=
    name_ok (rr_name r) /\ (w = false -> first_label (rr_name r) <> S_STAR) /\
    td_ok (rr_type r, rr_data r) /\ rr_ttl r < 4294967296.
  Definition entry_ok (e : entry) : Prop :=
    match e with
    | EOrigin n => name_ok n
    | EInclude _ _ => True
    | ERR r => rr_ok false r
    | EWildcardRR r => rr_ok true r
    end.
  Definition ottl_ok (o : option N) : Prop := match o with Some t => t < 4294967296 | None => True end.

  Lemma to_rr_ok w td ttl : mw_ok w -> td_ok td -> ttl < 4294967296 -> entry_ok (to_rr w td ttl).
  Proof.
    intros [Hn Hf] Htd Httl.
    assert (Ht' : match snd td with RD_SOA _ _ _ _ _ _ minimum => minimum | _ => ttl end < 4294967296).
    { destruct Htd as (_ & _ & Hd). destruct (snd td); try exact Httl. cbn [rdata_ok] in Hd. apply Hd. }
    destruct td as [ty d]. destruct w as [n|n]; cbn [to_rr entry_ok mw_name fst snd] in *; unfold rr_ok; cbn [rr_name rr_type rr_data rr_ttl];
      (split; [exact Hn|]); (split; [first [intros _; exact Hf | discriminate]|]); (split; [exact Htd|exact Ht']).
  Qed.

  Lemma parse_u32_lt s v : parse_u32 s = Ok v -> v < 4294967296.
  Proof. unfold parse_u32. destruct (uint_from_str U32_MAX s) eqn:E; cbn [of_opt]; intro H; inversion H; subst. eapply uint_u32; eassumption. Qed.

  Lemma with_prev_ttl_ok pt w td e : mw_ok w -> td_ok td -> ottl_ok pt -> with_prev_ttl pt w td = Ok e -> entry_ok e.
  Proof.
    intros Hw Htd Hpt H. unfold with_prev_ttl in H. destruct pt as [ttl|].
    - inversion H; subst. apply to_rr_ok; assumption.
    - destruct (fst td =? RT_SOA); [|discriminate]. inversion H; subst. apply to_rr_ok; [assumption|assumption|lia].
  Qed.

  Lemma parse_rr_ok origin pd pt toks e :
    oname_ok origin -> omw_ok pd -> ottl_ok pt -> Forall tok_ok toks ->
    parse_rr ip origin pd pt toks = Ok e -> entry_ok e.
  Proof.
    intros Ho Hpd Hpt Ht H. unfold parse_rr in H. destruct (is_nil toks); [discriminate|].
    unfold parse_rr_4, parse_rr_3, parse_rr_2, parse_rr_1 in H.
    invs;
      repeat match goal with
             | E : try_from ip origin toks _ = Ok (Some _) |- _ => apply (try_from_ok _ _ _ _ Ho Ht) in E
             | E : parse_domain_or_wildcard origin _ = Ok _ |- _ => apply (pdw_ok _ _ _ Ho) in E
             | E : parse_u32 _ = Ok _ |- _ => apply parse_u32_lt in E
             end;
      try (destruct pd as [w0|]; [|discriminate]);
      first [ apply to_rr_ok; assumption
            | eapply with_prev_ttl_ok; eassumption
            | idtac ].
  Qed.
End Parsed.

(* ====================================================================== *)
(* the loops; the final state; the assembly                                *)
(* ====================================================================== *)

Section LoadedZones.
  Variable ip : ipcodec.
  Hypothesis Hc : codec_range ip.

  Lemma parse_origin_ok origin toks e : oname_ok origin -> parse_origin origin toks = Ok e -> entry_ok e.
  Proof.
    intros Ho H. unfold parse_origin in H. invs. cbn [entry_ok]. eapply parse_domain_ok; eassumption.
  Qed.

  Lemma parse_include_ok origin toks e : parse_include origin toks = Ok e -> entry_ok e.
  Proof. intro H. unfold parse_include in H. invs; exact I. Qed.

  Lemma parse_entry_loop_ok : forall fuel origin pd pt s e rest,
    oname_ok origin -> omw_ok pd -> ottl_ok pt ->
    parse_entry_loop ip fuel origin pd pt s = Ok (Some e, rest) -> entry_ok e.
  Proof.
    induction fuel as [|f fuel IH]; intros origin pd pt s e rest Ho Hpd Hpt H; cbn [parse_entry_loop] in H; [discriminate|].
    destruct (tokenise_entry s) as [[tokens rest0]| | |] eqn:Et; cbn [bind fst snd] in H; try discriminate.
    pose proof (tokenise_entry_octets _ _ _ Et) as Htok.
    destruct (is_nil tokens).
    - destruct (is_nil rest0); [discriminate|]. eapply IH; eassumption.
    - invs.
      + eapply parse_origin_ok; eassumption.
      + eapply parse_include_ok; eassumption.
      + eapply (parse_rr_ok ip Hc); eassumption.
  Qed.

  (* the state of the main loop holds only records the zone-file syntax can express *)
  Definition rr_nonsoa (r : rr) : Prop := rr_type r <> RT_SOA.
  Definition dst_ok (st : dstate) : Prop :=
    Forall (fun r => rr_ok false r /\ rr_nonsoa r) (d_rrs st) /\
    Forall (fun r => rr_ok true r /\ rr_nonsoa r) (d_wrrs st) /\
    match d_apex_soa st with Some (a, s) => name_ok a /\ first_label a <> S_STAR /\ soa_ok s | None => True end /\
    oname_ok (d_origin st) /\ omw_ok (d_prev_domain st) /\ ottl_ok (d_prev_ttl st).

  Lemma dst_init_ok : dst_ok dstate_init.
  Proof. unfold dst_ok, dstate_init. cbn. repeat split; constructor. Qed.

  Lemma td_nonsoa ty d : td_ok (ty, d) -> not_soa_data d -> ty <> RT_SOA.
  Proof.
    intros (_ & Hs & _) Hd E. subst ty. cbn [fst snd] in Hs. destruct d; try discriminate Hs. eapply Hd. reflexivity.
  Qed.

  Lemma dst_ok_intro rrs wrrs asoa o pd pt :
    Forall (fun r => rr_ok false r /\ rr_nonsoa r) rrs -> Forall (fun r => rr_ok true r /\ rr_nonsoa r) wrrs ->
    match asoa with Some (a, s) => name_ok a /\ first_label a <> S_STAR /\ soa_ok s | None => True end ->
    oname_ok o -> omw_ok pd -> ottl_ok pt ->
    dst_ok {| d_rrs := rrs; d_wrrs := wrrs; d_apex_soa := asoa; d_origin := o; d_prev_domain := pd; d_prev_ttl := pt |}.
  Proof. intros. unfold dst_ok. cbn [d_rrs d_wrrs d_apex_soa d_origin d_prev_domain d_prev_ttl]. auto 10. Qed.

  Lemma deser_step_ok st e st' : dst_ok st -> entry_ok e -> deser_step st e = Ok st' -> dst_ok st'.
  Proof.
    intros (H1 & H2 & H3 & H4 & H5 & H6) He H. destruct e as [n|p o|r|r]; cbn [deser_step entry_ok] in *.
    - inversion H; subst. apply dst_ok_intro; assumption.
    - discriminate.
    - destruct He as (Hn & Hf & Htd & Httl).
      assert (Hpd : omw_ok (Some (MNormal (rr_name r)))) by (split; [exact Hn|apply Hf; reflexivity]).
      assert (Hadd : not_soa_data (rr_data r) ->
                     Forall (fun r => rr_ok false r /\ rr_nonsoa r) (r :: d_rrs st)).
      { intro Hnd. constructor; [|exact H1]. split; [unfold rr_ok; auto|]. unfold rr_nonsoa. eapply td_nonsoa; eassumption. }
      destruct (rr_data r) eqn:Ed;
        try (inversion H; subst; apply dst_ok_intro; try assumption; apply Hadd; intros ? ? ? ? ? ? ? F; discriminate F).
      destruct (d_apex_soa st); [discriminate|]. inversion H; subst. apply dst_ok_intro; try assumption.
      split; [exact Hn|]. split; [apply Hf; reflexivity|]. destruct Htd as (_ & _ & Hd). exact Hd.
    - destruct (rr_type r =? RT_SOA) eqn:Et; [discriminate|]. apply N.eqb_neq in Et. inversion H; subst.
      destruct He as (Hn & Hf & Htd & Httl). apply dst_ok_intro; try assumption.
      + constructor; [|assumption]. split; [unfold rr_ok; auto|exact Et].
      + split; [exact Hn|exact I].
  Qed.

  Lemma deser_loop_ok : forall fuel st s st', dst_ok st -> deser_loop ip fuel st s = Ok st' -> dst_ok st'.
  Proof.
    induction fuel as [|f fuel IH]; intros st s st' Hst H; cbn [deser_loop] in H; [discriminate|].
    destruct (parse_entry ip (d_origin st) (d_prev_domain st) (d_prev_ttl st) s) as [[oe rest]| | |] eqn:Ep; cbn [bind fst snd] in H; try discriminate.
    destruct oe as [e|]; [|inversion H; subst; exact Hst].
    destruct (deser_step st e) as [st1| | |] eqn:Es; cbn [bind] in H; try discriminate.
    eapply IH; [|exact H]. eapply deser_step_ok; [exact Hst| |exact Es].
    destruct Hst as (_ & _ & _ & Ho & Hpd & Hpt). unfold parse_entry in Ep. eapply parse_entry_loop_ok; eassumption.
  Qed.

  Lemma insert_all_under w : forall rrs z z', insert_all w rrs z = Ok z' ->
    z_apex z' = z_apex z /\ forall r, In r rrs -> is_subdomain_of (rr_name r) (z_apex z) = true.
  Proof.
    induction rrs as [|r t IH]; intros z z' H; cbn [insert_all] in H; [inversion H; subst; split; [reflexivity|intros ? []]|].
    destruct (is_subdomain_of (rr_name r) (z_apex z)) eqn:Es; cbn [negb] in H; [|discriminate].
    destruct (zone_insert w z (rr_name r) (rr_type r) (rr_data r) (rr_ttl r)) as [z1| | |] eqn:Ez; cbn [lift_unit bind] in H; try discriminate.
    pose proof (zone_insert_apex _ _ _ _ _ _ _ Ez) as Ea. destruct (IH z1 z' H) as [Ha Hall].
    split; [congruence|]. intros r' [<-|Hr']; [exact Es|]. rewrite <- Ea. apply Hall. exact Hr'.
  Qed.

  (* C13: what the parser returns is a zone of the class zone_roundtrip is about *)
  Theorem loaded_built data z : deserialise ip data = Ok z -> built z.
  Proof.
    intro Hd. destruct (no_partial_load ip data z Hd) as (st & Hloop & Hasm).
    pose proof (deser_loop_ok _ _ _ _ dst_init_ok Hloop) as (H1 & H2 & H3 & _).
    set (apex := match d_apex_soa st with Some (a, _) => a | None => root_domain end).
    set (so := match d_apex_soa st with Some (_, s) => Some s | None => None end).
    assert (Hh : head_ok apex so).
    { unfold apex, so. destruct (d_apex_soa st) as [[a s]|]; [exact H3|].
      split; [apply root_name_ok|]. split; [discriminate|reflexivity]. }
    assert (Hsoa : d_apex_soa st = option_map (fun s => (apex, s)) so).
    { unfold apex, so. destruct (d_apex_soa st) as [[a s]|]; reflexivity. }
    (* the owners lie under the apex, or the assembly would have failed *)
    pose proof Hasm as Hasm0. unfold assemble in Hasm0. rewrite !rev'_rev in Hasm0.
    assert (E0 : match d_apex_soa st with Some (apex0, s) => zone_new apex0 (Some s) | None => zone_new root_domain None end
                 = zone_new apex so).
    { unfold apex, so. destruct (d_apex_soa st) as [[a s]|]; reflexivity. }
    rewrite E0 in Hasm0.
    destruct (insert_all false (rev (d_rrs st)) (zone_new apex so)) as [z1| | |] eqn:I1; cbn [bind] in Hasm0; try discriminate.
    destruct (insert_all_under _ _ _ _ I1) as [A1 U1]. destruct (insert_all_under _ _ _ _ Hasm0) as [A2 U2].
    change (z_apex (zone_new apex so)) with apex in *.
    destruct (assemble_build st apex so (rev (d_rrs st)) (rev (d_wrrs st))) as (z' & Hz' & _ & _ & Hb & _).
    - exact Hsoa.
    - unfold apex, so. destruct (d_apex_soa st) as [[a s]|]; [discriminate|reflexivity].
    - symmetry. apply rev_involutive.
    - symmetry. apply rev_involutive.
    - apply Hh.
    - intros r Hr. apply in_app_or in Hr as [Hr|Hr].
      + split; [|apply U1; exact Hr]. apply in_rev in Hr. rewrite Forall_forall in H1. apply (H1 r Hr).
      + split; [|rewrite <- A1; apply U2; exact Hr]. apply in_rev in Hr. rewrite Forall_forall in H2. apply (H2 r Hr).
    - rewrite Hasm in Hz'. injection Hz' as <-.
      exists apex, so, (map (op_of_rr false) (rev (d_rrs st)) ++ map (op_of_rr true) (rev (d_wrrs st))).
      split; [exact Hh|]. split; [|exact Hb].
      apply Forall_app. split; apply Forall_forall; intros o Ho; apply in_map_iff in Ho as (r & <- & Hr); apply in_rev in Hr.
      + rewrite Forall_forall in H1. destruct (H1 r Hr) as [(Hn & Hf & (Hk & Hs & Hrd) & Httl) Hns].
        unfold op_src_ok. cbn [op_of_rr op_name op_wild op_type op_data op_ttl fst snd] in *. auto 10.
      + rewrite Forall_forall in H2. destruct (H2 r Hr) as [(Hn & Hf & (Hk & Hs & Hrd) & Httl) Hns].
        unfold op_src_ok. cbn [op_of_rr op_name op_wild op_type op_data op_ttl fst snd] in *.
        split; [exact Hn|]. split; [discriminate|]. auto 10.
  Qed.
End LoadedZones.
