(* ZoneFile/ZoneParseSpelling.v -- C11.3 parse_denotes beyond the canonical spelling.

   ZoneParseDenotes.v fixes one spelling per value (names lower-case, numbers and addresses as
   Display prints them, the type by its mnemonic).  Here the tokens of an entry may be RESPELLED
   ([entry_spelled]):
     names     in any ASCII letter case (a name token t is a spelling of the canonical text when
               map lower t is that text): parse_domain / parse_domain_or_wildcard fold the case
               (parse_domain_lower, pdw_lower -- for EVERY text);
     numbers   as any text <uN as FromStr> reads as the value: leading zeros, one leading '+'
               (uint_zeros, uint_plus); the TTL field: any all-digit text (a '+' there would
               make the field an owner name);
     addresses as any text the codec's FromStr reads as the value;
     the type  as any text RecordType::from_str reads as the type: the mnemonic, or TYPE<n> with
               n the code of a known type (type_code_parse);
     the wildcard at the root written "*." (its canonical text is "*..");
   under the side conditions that make a respelled entry unambiguous to parse_rr (decidable, on
   the text): an owner is not "IN", "$ORIGIN" or "$INCLUDE", and no RDATA token but the last
   reads as a type mnemonic.  [parse_denotes_spelled] is parse_denotes for such files; the
   canonical spelling is one of the spellings (lines_ok_spelled). *)
From Coq Require Import Permutation.
Set Default Timeout 120.
From RV Require Import Base.Prelude Name.NameModel Name.NameSpec Name.NameProofs Wire.WireTypes
     Zone.ZoneModel Zone.ZoneFlat Zone.ZoneProofs
     ZoneFile.ZoneFileModel ZoneFile.ZoneFileSpec ZoneFile.ZoneSerialiseModel
     ZoneFile.ZoneFileProofs ZoneFile.ZoneSerialiseProofs ZoneFile.ZoneRtLines ZoneFile.ZoneRtLoop
     ZoneFile.ZoneParseDenotes.

(* ====================================================================== *)
(* 1. upper-case letters in names                                           *)
(* ====================================================================== *)

Lemma lower_eqb_const c k : k < 65 -> (lower c =? k) = (c =? k).
Proof.
  intro Hk. destruct (lower_cases c) as [[Hr ->]|[Hr ->]]; [|reflexivity].
  rewrite (proj2 (N.eqb_neq _ _)) by lia. rewrite (proj2 (N.eqb_neq _ _)) by lia. reflexivity.
Qed.

Lemma is_ascii_lower c : is_ascii (lower c) = is_ascii c.
Proof.
  unfold is_ascii. destruct (lower_cases c) as [[Hr ->]|[Hr ->]]; [|reflexivity].
  rewrite (proj2 (N.ltb_lt _ _)) by lia. rewrite (proj2 (N.ltb_lt _ _)) by lia. reflexivity.
Qed.

Lemma is_nil_map {A B} (f : A -> B) l : is_nil (map f l) = is_nil l.
Proof. destruct l; reflexivity. Qed.

Lemma forallb_ascii_lower s : forallb is_ascii (map lower s) = forallb is_ascii s.
Proof. induction s as [|c s IH]; [reflexivity|]. cbn [map forallb]. rewrite is_ascii_lower, IH. reflexivity. Qed.

Lemma leqb_lower_single s k : k < 65 -> leqb (map lower s) [k] = leqb s [k].
Proof.
  intro Hk. destruct s as [|x [|y t]]; cbn [map leqb]; try reflexivity.
  - rewrite (lower_eqb_const x k Hk). reflexivity.
  - rewrite !andb_false_r. reflexivity.
Qed.

Lemma last_opt_map {A B} (f : A -> B) : forall l, last_opt (map f l) = option_map f (last_opt l).
Proof.
  induction l as [|x l IH]; [reflexivity|]. destruct l as [|y l]; [reflexivity|].
  change (last_opt (map f (x :: y :: l))) with (last_opt (map f (y :: l))).
  change (last_opt (x :: y :: l)) with (last_opt (y :: l)). exact IH.
Qed.

Lemma starts_dot_eqb c r : starts_dot (c :: r) = (c =? 46).
Proof.
  destruct (N.eq_dec c 46) as [->|Hc]; [reflexivity|].
  rewrite (starts_dot_cons c r Hc). symmetry. apply N.eqb_neq. exact Hc.
Qed.

Lemma ends_with_dot_starts s : ends_with_dot s = starts_dot (rev s).
Proof. unfold ends_with_dot. rewrite match_dot. destruct (starts_dot (rev s)); reflexivity. Qed.

Lemma ends_with_dot_lower s : ends_with_dot (map lower s) = ends_with_dot s.
Proof.
  rewrite !ends_with_dot_starts, <- map_rev. destruct (rev s) as [|c r]; [reflexivity|]. cbn [map].
  rewrite !starts_dot_eqb. apply lower_eqb_const. lia.
Qed.

Lemma from_dotted_lower_app s suffix : from_dotted_string (map lower s ++ suffix) = from_dotted_string (s ++ suffix).
Proof. apply dotted_case_insensitive. unfold same_modulo_case. rewrite !map_app, map_lower_idem. reflexivity. Qed.

Lemma from_relative_lower og s : from_relative_dotted_string og (map lower s) = from_relative_dotted_string og s.
Proof.
  unfold from_relative_dotted_string. destruct s as [|c s]; [reflexivity|].
  change (map lower (c :: s)) with (lower c :: map lower s) at 1.
  change (lower c :: map lower s) with (map lower (c :: s)). rewrite ends_with_dot_lower.
  destruct (ends_with_dot (c :: s)); [apply from_dotted_lower|].
  rewrite !match_dot. destruct (starts_dot (to_dotted_string og)); apply from_dotted_lower_app.
Qed.

(* names are read case-insensitively: whatever the text *)
Theorem parse_domain_lower o s : parse_domain o (map lower s) = parse_domain o s.
Proof.
  unfold parse_domain. rewrite is_nil_map, forallb_ascii_lower.
  change S_AT with [64]. rewrite (leqb_lower_single s 64) by lia.
  unfold last_char. rewrite last_opt_map.
  destruct (is_nil s); [reflexivity|]. destruct (negb (forallb is_ascii s)); [reflexivity|].
  destruct (leqb s [64]); [reflexivity|].
  destruct (last_opt s) as [c|]; cbn [option_map bind]; [|reflexivity].
  rewrite (lower_eqb_const c 46) by lia. destruct (c =? 46).
  - rewrite from_dotted_lower. reflexivity.
  - destruct o as [og|]; [|reflexivity]. rewrite from_relative_lower. reflexivity.
Qed.

Lemma len_ge_map {A B} (f : A -> B) n : forall l, len_ge n (map f l) = len_ge n l.
Proof. induction n as [|n IH]; intros [|x l]; cbn [len_ge map]; try reflexivity. apply IH. Qed.
Lemma len_is_map {A B} (f : A -> B) n : forall l, len_is n (map f l) = len_is n l.
Proof. induction n as [|n IH]; intros [|x l]; cbn [len_is map]; try reflexivity. apply IH. Qed.

Theorem pdw_lower o s : parse_domain_or_wildcard o (map lower s) = parse_domain_or_wildcard o s.
Proof.
  unfold parse_domain_or_wildcard. rewrite is_nil_map.
  change S_STAR with [42]. rewrite (leqb_lower_single s 42) by lia.
  rewrite len_ge_map, len_is_map.
  destruct s as [|c0 [|c1 t]]; [reflexivity| |].
  - cbn [is_nil len_ge bind]. destruct (leqb [c0] [42]); [reflexivity|]. rewrite parse_domain_lower. reflexivity.
  - cbn [is_nil]. destruct (leqb (c0 :: c1 :: t) [42]); [reflexivity|].
    cbn [len_ge map idx nth_error bind].
    rewrite (lower_eqb_const c0 42) by lia. destruct (c0 =? 42); cbn [bind].
    + rewrite (lower_eqb_const c1 46) by lia. destruct (c1 =? 46).
      * destruct t as [|c2 t]; cbn [len_is bind map]; [reflexivity|].
        unfold slice_from. cbn [len_ge skipn bind].
        change (lower c2 :: map lower t) with (map lower (c2 :: t)). rewrite parse_domain_lower. reflexivity.
      * change (lower c0 :: lower c1 :: map lower t) with (map lower (c0 :: c1 :: t)). rewrite parse_domain_lower. reflexivity.
    + change (lower c0 :: lower c1 :: map lower t) with (map lower (c0 :: c1 :: t)). rewrite parse_domain_lower. reflexivity.
Qed.

(* a name token: any letter case of the canonical (lower-case) text *)
Definition name_sp (canon t : list N) : Prop := map lower t = canon.

Lemma name_sp_parse o canon t : name_sp canon t -> parse_domain o t = parse_domain o canon.
Proof. intros <-. symmetry. apply parse_domain_lower. Qed.

Lemma name_sp_pdw o canon t : name_sp canon t -> parse_domain_or_wildcard o t = parse_domain_or_wildcard o canon.
Proof. intros <-. symmetry. apply pdw_lower. Qed.

Lemma lower_digit c : is_digit c = true -> lower c = c.
Proof.
  intro H. apply lower_id. unfold is_digit in H. apply andb_true_iff in H as [H1 H2].
  apply N.leb_le in H1. apply N.leb_le in H2. apply is_upper_false. lia.
Qed.

Lemma all_digits_lower t : all_digits t = true -> map lower t = t.
Proof.
  unfold all_digits. induction t as [|c t IH]; [reflexivity|]. cbn [forallb map]. intro H.
  apply andb_true_iff in H as [Hc Ht]. rewrite (lower_digit c Hc), (IH Ht). reflexivity.
Qed.

Lemma name_sp_not_digits canon t : name_sp canon t -> all_digits canon = false -> all_digits t = false.
Proof.
  intros Hsp Hc. destruct (all_digits t) eqn:E; [|reflexivity].
  unfold name_sp in Hsp. rewrite (all_digits_lower t E) in Hsp. congruence.
Qed.

(* ====================================================================== *)
(* 2. numbers: leading zeros, a leading '+'                                 *)
(* ====================================================================== *)

Lemma digits_zeros max k : digits_loop max (repeat 48 k) 0 = Some 0.
Proof.
  induction k as [|k IH]; [reflexivity|]. cbn [repeat digits_loop]. change (to_digit 48) with (Some (48 - 48)). cbv zeta.
  assert (H : forall v, v = 0 -> (if v <=? max then digits_loop max (repeat 48 k) v else None) = Some 0).
  { intros v ->. replace (0 <=? max) with true by (symmetry; apply N.leb_le; lia). exact IH. }
  apply H. lia.
Qed.

Lemma repeat_isd k : Forall isd (repeat 48 k).
Proof. induction k; cbn [repeat]; constructor; [reflexivity|assumption]. Qed.

(* FromStr for u8/u16/u32 reads a number written with leading zeros ... *)
Theorem uint_zeros max n k : n < 4294967296 -> n <= max -> uint_from_str max (repeat 48 k ++ show_dec n) = Some n.
Proof.
  intros Hn Hmax. rewrite uint_digits.
  - rewrite digits_loop_app, digits_zeros. rewrite <- uint_digits by (apply show_dec_ne || apply show_dec_isd).
    apply show_dec_parse; assumption.
  - intro E. apply app_eq_nil in E as [_ E]. exact (show_dec_ne n E).
  - apply Forall_app. split; [apply repeat_isd|apply show_dec_isd].
Qed.

Lemma uint_plus_any max t : t <> [] -> uint_from_str max (43 :: t) = digits_loop max t 0.
Proof. intro H. destruct t as [|c t]; [contradiction|]. reflexivity. Qed.

(* ... and with one leading '+' *)
Theorem uint_plus max n k : n < 4294967296 -> n <= max -> uint_from_str max (43 :: repeat 48 k ++ show_dec n) = Some n.
Proof.
  intros Hn Hmax. rewrite uint_plus_any.
  - rewrite <- uint_digits; [apply uint_zeros; assumption| |].
    + intro E. apply app_eq_nil in E as [_ E]. exact (show_dec_ne n E).
    + apply Forall_app. split; [apply repeat_isd|apply show_dec_isd].
  - intro E. apply app_eq_nil in E as [_ E]. exact (show_dec_ne n E).
Qed.

Lemma zeros_all_digits n k : all_digits (repeat 48 k ++ show_dec n) = true.
Proof.
  unfold all_digits. rewrite forallb_app. apply andb_true_iff. split; [|apply show_dec_all_digits].
  induction k; [reflexivity|exact IHk].
Qed.

(* ====================================================================== *)
(* 3. the type written TYPE<n>                                              *)
(* ====================================================================== *)

(* a type token: any text RecordType::from_str reads as the type *)
Definition type_sp (ty : N) (t : list N) : Prop := rtype_from_str t = Some ty.

Theorem type_code_parse ty : rtype_known ty = true -> rtype_from_str (rtype_unknown_prefix ++ show_dec ty) = Some ty.
Proof.
  intro H. apply known_cases in H. unfold known_types in H.
  repeat (destruct H as [<-|H]; [vm_compute; reflexivity|]). destruct H.
Qed.

Lemma type_sp_first ty t : type_sp ty t -> leqb t S_ORIGIN = false /\ leqb t S_INCLUDE = false.
Proof.
  intro H. apply rtype_from_str_upper in H as (c & r & -> & Hc).
  split; apply leqb_false; intro E; inversion E; subst c; discriminate.
Qed.

(* ====================================================================== *)
(* 4. the wildcard at the root written "*."                                 *)
(* ====================================================================== *)

Theorem root_wildcard_parse o : parse_domain_or_wildcard o [42; 46] = Ok (MWildcard root_domain).
Proof. reflexivity. Qed.

Lemma root_wildcard_canon o : parse_domain_or_wildcard o (oref_text (OWild (NAbs root_domain))) = Ok (MWildcard root_domain).
Proof. reflexivity. Qed.

(* ====================================================================== *)
(* 5. respelled entries                                                     *)
(* ====================================================================== *)

Definition num_sp (max n : N) (t : list N) : Prop := uint_from_str max t = Some n.
Definition ttl_sp (n : N) (t : list N) : Prop := all_digits t = true /\ uint_from_str U32_MAX t = Some n.

(* an owner token: any letter case of the canonical text, or "*." for the wildcard at the root;
   not one of the three words that would make the entry something else *)
Definition owner_sp (ow : oref) (t : list N) : Prop :=
  (name_sp (oref_text ow) t \/ (ow = OWild (NAbs root_domain) /\ t = [42; 46]))
  /\ leqb t S_IN = false /\ leqb t S_ORIGIN = false /\ leqb t S_INCLUDE = false.

Section Spelled.
  Variable ip : ipcodec.
  Hypothesis Hip : codec_rt ip.

  Definition rda_sp (x : rda) (rd : list (list N)) : Prop :=
    match x, rd with
    | A_A a, [t] => parse_v4 ip t = Some a
    | A_Name r, [t] => name_sp (nref_text r) t
    | A_SOA m r a b c d e, [tm; tr; ta; tb; tc; td; te] =>
      name_sp (nref_text m) tm /\ name_sp (nref_text r) tr /\ num_sp U32_MAX a ta /\ num_sp U32_MAX b tb
      /\ num_sp U32_MAX c tc /\ num_sp U32_MAX d td /\ num_sp U32_MAX e te
    | A_Octets os, [t] => t = os
    | A_MINFO r e, [tr; te] => name_sp (nref_text r) tr /\ name_sp (nref_text e) te
    | A_MX p e, [tp; te] => num_sp U16_MAX p tp /\ name_sp (nref_text e) te
    | A_AAAA g, [t] => parse_v6 ip t = Some g
    | A_SRV p w po t, [tp; tw; tpo; ttg] =>
      num_sp U16_MAX p tp /\ num_sp U16_MAX w tw /\ num_sp U16_MAX po tpo /\ name_sp (nref_text t) ttg
    | _, _ => False
    end.

  (* the tokens of a line are a spelling of its entry *)
  Definition entry_spelled (e : option fentry) (toks : list (list N)) : Prop :=
    match e with
    | None => toks = []
    | Some (FOrigin r) => exists t, toks = [S_ORIGIN; t] /\ name_sp (nref_text r) t
    | Some (FRR x) =>
      exists o t ty rd, toks = shape_raw (frr_shape x) o t ty rd /\
        match f_owner x with Some ow => owner_sp ow o | None => o = S_AT end /\
        match f_ttl x with Some n => ttl_sp n t | None => t = [48] end /\
        type_sp (f_type x) ty /\ rda_sp (f_rd x) rd /\ inner_plain rd
    end.

  Ltac split_rd rd H :=
    repeat (let t := fresh "t" in destruct rd as [|t rd]; cbn [rda_sp] in H; try contradiction).

  (* type + RDATA, respelled, are read as the type and the data they denote *)
  Lemma rda_parse_sp o ty x d ty' rd' :
    origin_ok o -> rtype_known ty = true -> rda_ok o x -> rda_resolve o x = Some d ->
    shape_of_rdata d = shape_of_type ty -> type_sp ty ty' -> rda_sp x rd' ->
    try_parse_rtype_with_data ip o (map dup (ty' :: rd')) = Ok (Some (ty, d)).
  Proof.
    intros Ho Hk Hx Hd Hs Hty Hrd. unfold try_parse_rtype_with_data. cbn [map is_nil idx nth_error bind].
    change (fst (dup ty')) with ty'. unfold type_sp in Hty. rewrite Hty.
    destruct x; split_rd rd' Hrd; cbn [rda_ok rda_resolve] in *; unfold num_sp in *;
      repeat match goal with H : _ /\ _ |- _ => destruct H end;
      repeat match goal with
             | H : context [resolve o ?r] |- _ =>
               let E := fresh "E" in destruct (resolve o r) eqn:E; cbn [option_map] in H; try discriminate H;
               eapply nref_parse in E; [|exact Ho|assumption]
             end;
      repeat match goal with
             | H : name_sp (nref_text ?r) ?t, E : parse_domain o (nref_text ?r) = Ok _ |- _ =>
               apply (name_sp_parse o) in H; rewrite E in H; clear E
             end;
      inversion Hd; subst; clear Hd;
      apply known_cases in Hk; unfold known_types in Hk;
      repeat (destruct Hk as [<-|Hk];
              [ cbv in Hs; try discriminate Hs;
                cbv [is_name_type is_octets_type]; nclosed; cbn [orb andb negb];
                cbn [map len_is idx nth_error bind fst snd dup];
                repeat match goal with E : parse_domain o _ = Ok _ |- _ => rewrite E; clear E end;
                repeat match goal with E : uint_from_str _ _ = Some _ |- _ => rewrite E; clear E end;
                repeat match goal with E : parse_v4 ip _ = Some _ |- _ => rewrite E; clear E end;
                repeat match goal with E : parse_v6 ip _ = Some _ |- _ => rewrite E; clear E end;
                cbn [opt_of_res bind]; try reflexivity | ]);
      try destruct Hk.
  Qed.

  (* what parse_rr makes of a respelled record entry: what it makes of the canonical one *)
  Lemma rr_parse_sp st s x ow d toks :
    rel st s -> sp_ok s -> entry_ok s (FRR x) ->
    match f_owner x with Some o => resolve_owner (p_origin s) o | None => p_owner s end = Some ow ->
    rda_resolve (p_origin s) (f_rd x) = Some d ->
    entry_spelled (Some (FRR x)) toks ->
    parse_rr ip (d_origin st) (d_prev_domain st) (d_prev_ttl st) (map dup toks)
    = match f_ttl x with
      | Some t => Ok (to_rr (to_mw ow) (f_type x, d) t)
      | None => with_prev_ttl (p_ttl s) (to_mw ow) (f_type x, d)
      end.
  Proof.
    intros (R1 & R2 & R3 & R4 & R5 & R6) Hs (Hox & Htt & Hk & Hsh & Hrd) How Hd (o & t & ty & rd & -> & Ho & Ht & Hty & Hrds & Hplain).
    rewrite shape_raw_tokens, R1.
    assert (Htd : try_parse_rtype_with_data ip (p_origin s) (dup ty :: map dup rd) = Ok (Some (f_type x, d))).
    { apply (rda_parse_sp (p_origin s) (f_type x) (f_rd x) d ty rd Hs Hk Hrd Hd); [|exact Hty|exact Hrds].
      rewrite (rda_resolve_shape _ _ _ Hd). exact Hsh. }
    assert (Hown : all_digits o = false /\ leqb o S_IN = false).
    { destruct (f_owner x) as [ox|]; [|subst o; split; reflexivity].
      destruct Ho as ([Hn|[_ ->]] & Hin & _); [|split; reflexivity]. split; [|exact Hin].
      apply (name_sp_not_digits _ _ Hn). apply (oref_text_facts _ _ Hs Hox). }
    assert (Httl : all_digits t = true /\ uint_from_str U32_MAX t = Some (match f_ttl x with Some n => n | None => 0 end)).
    { destruct (f_ttl x) as [n|]; [exact Ht|subst t; split; reflexivity]. }
    rewrite (parse_rr_forms ip (frr_shape x) (p_origin s) (d_prev_domain st) (d_prev_ttl st)
                            (dup o) (dup t) (dup ty) (map dup rd) _ (f_type x, d) Htd
                            (shape_unambiguous ip _ _ _ _ _ _ Hplain)
                            (proj1 Hown) (proj2 Hown) (proj1 Httl) (proj2 Httl)).
    unfold denote_rr. rewrite has_owner_shape, has_ttl_shape, R2, R3. cbn [fst dup].
    destruct (f_owner x) as [ox|].
    - assert (Hpdw : parse_domain_or_wildcard (p_origin s) o = Ok (to_mw ow)).
      { destruct Ho as ([Hn|[-> ->]] & _).
        - rewrite (name_sp_pdw _ _ _ Hn). apply (oref_parse _ _ _ Hs Hox How).
        - cbn [resolve_owner resolve option_map] in How. inversion How; subst. reflexivity. }
      rewrite Hpdw. cbn [bind]. destruct (f_ttl x); reflexivity.
    - rewrite How. cbn [option_map]. destruct (f_ttl x); reflexivity.
  Qed.

  Lemma rr_tokens_eq st s x s' toks :
    rel st s -> sp_ok s -> entry_ok s (FRR x) -> denote_entry s (FRR x) = Some s' ->
    entry_spelled (Some (FRR x)) toks ->
    parse_rr ip (d_origin st) (d_prev_domain st) (d_prev_ttl st) (map dup toks)
    = parse_rr ip (d_origin st) (d_prev_domain st) (d_prev_ttl st) (map dup (entry_toks ip (Some (FRR x)))).
  Proof.
    intros HR Hs He Hd Hsp. cbn [denote_entry] in Hd.
    destruct (match f_owner x with Some o => resolve_owner (p_origin s) o | None => p_owner s end) as [ow|] eqn:How; [|discriminate].
    destruct (rda_resolve (p_origin s) (f_rd x)) as [d|] eqn:Ed; [|discriminate].
    rewrite (rr_parse_sp st s x ow d toks HR Hs He How Ed Hsp), (rr_parse ip Hip st s x ow d HR Hs He How Ed). reflexivity.
  Qed.

  Lemma origin_tokens_eq o r t : name_sp (nref_text r) t ->
    parse_origin o (map dup [S_ORIGIN; t]) = parse_origin o (map dup (entry_toks ip (Some (FOrigin r)))).
  Proof.
    intro H. cbn [entry_toks map]. unfold parse_origin. cbn [len_is negb idx nth_error bind fst dup].
    rewrite (name_sp_parse o _ _ H). reflexivity.
  Qed.

  Lemma first_not_keyword_sp x toks : entry_spelled (Some (FRR x)) toks ->
    match toks with
    | t0 :: _ => leqb t0 S_ORIGIN = false /\ leqb t0 S_INCLUDE = false
    | [] => False
    end.
  Proof.
    intros (o & t & ty & rd & -> & Ho & Ht & Hty & _).
    assert (Ko : f_owner x <> None -> leqb o S_ORIGIN = false /\ leqb o S_INCLUDE = false).
    { destruct (f_owner x) as [ox|]; [|contradiction]. intros _. destruct Ho as (_ & _ & A & B). auto. }
    assert (Kt : leqb t S_ORIGIN = false /\ leqb t S_INCLUDE = false).
    { assert (Hd : all_digits t = true) by (destruct (f_ttl x); [apply Ht|subst t; reflexivity]).
      split; apply leqb_false; intro E; rewrite E in Hd; discriminate. }
    pose proof (type_sp_first _ _ Hty) as Ky.
    unfold frr_shape.
    destruct (f_owner x) as [ox|] eqn:Eo; destruct (f_ttl x), (f_class x), (f_ttl_first x); cbn [shape_raw];
      first [apply Ko; discriminate | exact Kt | exact Ky | split; reflexivity].
  Qed.

  (* ---- files ---- *)

  Definition line_ok_sp (l : fline) : Prop :=
    layout_ok false false (l_items l) = Some false /\ terminator_ok (l_term l) = true /\
    entry_spelled (l_entry l) (map wtoken_octets (items_tokens (l_items l))).

  Fixpoint lines_ok_sp (s : sp) (ls : list fline) : Prop :=
    match ls with
    | [] => True
    | l :: t => line_ok_sp l /\ (t <> [] -> nl_term (l_term l) = true) /\
                match l_entry l with
                | None => lines_ok_sp s t
                | Some e => entry_ok s e /\ match denote_entry s e with Some s' => lines_ok_sp s' t | None => True end
                end
    end.

  Lemma line_tokens_sp l rest : line_ok_sp l -> (rest <> [] -> nl_term (l_term l) = true) ->
    tokenise_entry (items_text (l_items l) ++ terminator_text (l_term l) rest)
    = Ok (map dup (map wtoken_octets (items_tokens (l_items l))), rest).
  Proof.
    intros (Hl & Ht & _) Hnl. rewrite (tokenise_render _ _ _ Hl Ht). f_equal. f_equal.
    destruct (l_term l); cbn [terminator_rest nl_term] in *; try reflexivity;
      (destruct rest; [reflexivity|]; exfalso; specialize (Hnl ltac:(discriminate)); discriminate).
  Qed.

  Lemma lines_run_sp : forall ls st s s_fin fuel,
    rel st s -> sp_ok s -> sp_names s -> lines_ok_sp s ls -> denote_lines s ls = Some s_fin ->
    (length (render ls) < length fuel)%nat ->
    exists st_fin, deser_loop ip fuel st (render ls) = Ok st_fin /\ rel st_fin s_fin /\ sp_names s_fin.
  Proof.
    induction ls as [|l t IH]; intros st s s_fin fuel HR Hs Hn Hok Hd Hlen.
    - cbn [denote_lines render] in *. inversion Hd; subst. destruct fuel as [|f fuel]; [cbn [length] in Hlen; lia|].
      exists st. split; [reflexivity|auto].
    - cbn [lines_ok_sp denote_lines render] in *. destruct Hok as (Hline & Hnl & Hrest).
      assert (Hnl' : render t <> [] -> nl_term (l_term l) = true).
      { intro H. apply Hnl. intro E. subst t. apply H. reflexivity. }
      pose proof (line_tokens_sp l (render t) Hline Hnl') as Htok.
      destruct Hline as (_ & _ & Hsp).
      destruct fuel as [|f fuel]; [cbn [length] in Hlen; lia|].
      pose proof HR as (R1 & R2 & R3 & R4 & R5 & R6).
      destruct (l_entry l) as [e|] eqn:Ee.
      + destruct Hrest as [He Hrest]. destruct (denote_entry s e) as [s'|] eqn:Ede; [|discriminate].
        assert (Hstep : exists e' st', parse_entry ip (d_origin st) (d_prev_domain st) (d_prev_ttl st)
                                          (items_text (l_items l) ++ terminator_text (l_term l) (render t)) = Ok (Some e', render t) /\
                                       deser_step st e' = Ok st' /\ rel st' s' /\ sp_ok s').
        { destruct e as [r|x].
          - destruct (origin_step ip st s r s' HR Hs He Ede) as (e' & st' & Hp & Hst & Hrel & Hs').
            exists e', st'. split; [|auto]. unfold parse_entry. cbn [parse_entry_loop]. rewrite Htok.
            destruct Hsp as (tn & Etoks & Hname). rewrite Etoks.
            cbn [map bind fst snd is_nil idx nth_error dup]. change (leqb S_ORIGIN S_ORIGIN) with true. cbn iota.
            change [dup S_ORIGIN; dup tn] with (map dup [S_ORIGIN; tn]).
            rewrite (origin_tokens_eq (d_origin st) r tn Hname), Hp. reflexivity.
          - destruct (rr_step ip Hip st s x s' HR Hs He Ede) as (e' & st' & Hp & Hst & Hrel & Hs').
            exists e', st'. split; [|auto]. unfold parse_entry. cbn [parse_entry_loop]. rewrite Htok.
            pose proof (first_not_keyword_sp x _ Hsp) as Hk.
            pose proof (rr_tokens_eq st s x s' _ HR Hs He Ede Hsp) as Heq.
            destruct (map wtoken_octets (items_tokens (l_items l))) as [|t0 toks] eqn:Et; [destruct Hk|]. destruct Hk as [K1 K2].
            cbn [map bind fst snd is_nil idx nth_error dup]. rewrite K1, K2. cbn [map] in Heq. rewrite Heq, Hp. reflexivity. }
        destruct Hstep as (e' & st' & Hp & Hst & Hrel & Hs').
        rewrite deser_loop_unfold, Hp. cbn [bind fst snd]. rewrite Hst. cbn [bind].
        apply (IH st' s' s_fin fuel Hrel Hs' (denote_entry_names s e s' Hs Hn He Ede) Hrest Hd).
        assert (Hshort : (length (render t) < length (items_text (l_items l) ++ terminator_text (l_term l) (render t)))%nat).
        { apply tokenise_entry_rest in Htok as [[E _]|H]; [|exact H]. exfalso.
          unfold parse_entry in Hp. rewrite E in Hp. cbn in Hp. discriminate. }
        cbn [length] in Hlen. lia.
      + cbn [entry_spelled] in Hsp. rewrite Hsp in Htok. cbn [map] in Htok.
        assert (Hskip : deser_loop ip (f :: fuel) st (items_text (l_items l) ++ terminator_text (l_term l) (render t))
                        = deser_loop ip (f :: fuel) st (render t)).
        { rewrite !deser_loop_unfold, (parse_entry_skip ip _ _ _ _ _ Htok). reflexivity. }
        rewrite Hskip. apply (IH st s s_fin (f :: fuel) HR Hs Hn Hrest Hd).
        apply tokenise_entry_rest in Htok as [[E1 E2]|H]; [rewrite E2; cbn [length]; lia|lia].
  Qed.

  (* C11.3 parse_denotes for respelled files *)
  Theorem parse_denotes_spelled ls apex so ops :
    lines_ok_sp sp_init ls -> denote ls = Some (apex, so, ops) ->
    exists z, deserialise ip (render ls) = Ok z /\ z_apex z = apex /\ z_soa z = so /\
              zone_build apex so ops = Ok z /\ R (labels apex) (z_records z) (flat_of_ops apex so ops).
  Proof.
    intros Hok Hd. unfold denote in Hd.
    destruct (denote_lines sp_init ls) as [s|] eqn:El; [|discriminate].
    destruct (forallb (fun r => is_subdomain_of (rr_name r) (sp_apex s)) (p_norm s ++ p_wild s)) eqn:Eu; [|discriminate].
    inversion Hd; subst; clear Hd.
    assert (Hn0 : sp_names sp_init) by (unfold sp_names, sp_init; cbn; auto).
    destruct (lines_run_sp ls dstate_init sp_init s (0 :: render ls) rel_init I Hn0 Hok El ltac:(cbn [length]; lia))
      as (st & Hloop & (R1 & R2 & R3 & R4 & R5 & R6) & (N1 & N2 & N3 & N4)).
    rewrite forallb_forall in Eu.
    destruct (assemble_build st (sp_apex s) (sp_soa s) (rev (p_norm s)) (rev (p_wild s))) as (z & Hz & Ha & Hs & Hb & HR).
    - rewrite R4. unfold sp_apex, sp_soa. destruct (p_soa s) as [[a so]|]; reflexivity.
    - unfold sp_apex, sp_soa. destruct (p_soa s) as [[a so]|]; [discriminate|reflexivity].
    - rewrite rev_involutive. exact R5.
    - rewrite rev_involutive. exact R6.
    - unfold sp_apex. destruct (p_soa s) as [[a so]|]; [apply N4|apply root_wf].
    - intros r Hr. split.
      + apply in_app_or in Hr as [Hr|Hr]; apply in_rev in Hr; [rewrite Forall_forall in N2; apply (N2 r Hr)|rewrite Forall_forall in N3; apply (N3 r Hr)].
      + apply Eu. apply in_app_or in Hr as [Hr|Hr]; apply in_rev in Hr; apply in_or_app; auto.
    - exists z. unfold deserialise. rewrite Hloop. cbn [bind]. auto.
  Qed.

  (* ---- the canonical spelling is a spelling: parse_denotes is the special case ---- *)

  Lemma name_sp_self o r : origin_ok o -> nref_ok o r -> name_sp (nref_text r) (nref_text r).
  Proof. intros Ho Hr. unfold name_sp. apply map_lower_id. apply lc_noupper. apply (nref_text_lc o r Ho Hr). Qed.

  Lemma rda_sp_canonical o x : origin_ok o -> rda_ok o x -> rda_sp x (rda_toks ip x).
  Proof.
    intros Ho Hx. destruct x; cbn [rda_ok rda_toks rda_sp] in *; unfold num_sp;
      repeat match goal with H : _ /\ _ |- _ => destruct H end;
      repeat match goal with |- _ /\ _ => split end;
      try (eapply name_sp_self; eassumption);
      try (apply show_dec_parse; unfold U32_MAX, U16_MAX; lia);
      try reflexivity.
    - apply (proj1 (proj1 Hip a Hx)).
    - apply (proj1 (proj2 Hip g Hx)).
  Qed.

  Lemma canonical_spelled s e : sp_ok s -> entry_ok s e -> entry_spelled (Some e) (entry_toks ip (Some e)).
  Proof.
    intros Hs He. destruct e as [r|x]; cbn [entry_ok entry_spelled entry_toks] in *.
    - exists (nref_text r). split; [reflexivity|]. eapply name_sp_self; eassumption.
    - destruct He as (Hox & Htt & Hk & Hsh & Hrd).
      exists (owner_text x), (ttl_text x), (show_rtype (f_type x)), (rda_toks ip (f_rd x)). split; [reflexivity|].
      split; [|split; [|split; [|split]]].
      + unfold owner_text. destruct (f_owner x) as [ow|]; [|reflexivity].
        destruct (oref_text_facts _ _ Hs Hox) as (_ & _ & Hnu & _). destruct (noupper_keywords _ Hnu) as (A & B & C).
        split; [left; apply map_lower_id; exact Hnu|auto].
      + unfold ttl_text. destruct (f_ttl x) as [n|]; [|reflexivity].
        split; [apply show_dec_all_digits|apply show_dec_parse; [exact Htt|unfold U32_MAX; lia]].
      + apply show_rtype_parse. exact Hk.
      + eapply rda_sp_canonical; eassumption.
      + eapply rda_inner_plain; eassumption.
  Qed.

  Lemma denote_entry_sp_ok s e s' : sp_ok s -> entry_ok s e -> denote_entry s e = Some s' -> sp_ok s'.
  Proof.
    intros Hs He Hd. destruct e as [r|x]; cbn [denote_entry entry_ok] in *.
    - destruct (resolve (p_origin s) r) as [n|] eqn:En; [|discriminate]. inversion Hd; subst.
      unfold sp_ok. cbn [p_origin]. eapply resolve_ok; eassumption.
    - destruct (match f_owner x with Some o => resolve_owner (p_origin s) o | None => p_owner s end); [|discriminate].
      destruct (rda_resolve (p_origin s) (f_rd x)) as [d|]; [|discriminate].
      destruct d; try (destruct (match f_ttl x with Some t => Some t | None => p_ttl s end); [|discriminate]; inversion Hd; subst; exact Hs).
      destruct (fst o); [discriminate|]. destruct (p_soa s); [discriminate|]. inversion Hd; subst. exact Hs.
  Qed.

  Lemma lines_ok_spelled : forall ls s, sp_ok s -> lines_ok ip s ls -> lines_ok_sp s ls.
  Proof.
    induction ls as [|l t IH]; intros s Hs H; [exact I|]. cbn [lines_ok lines_ok_sp] in *.
    destruct H as ((Hl & Ht & Htok) & Hnl & Hrest). split; [|split; [exact Hnl|]].
    - split; [exact Hl|]. split; [exact Ht|]. rewrite Htok.
      destruct (l_entry l) as [e|]; [|reflexivity]. apply (canonical_spelled s e Hs). apply Hrest.
    - destruct (l_entry l) as [e|]; [|apply IH; assumption].
      destruct Hrest as [He Hrest]. split; [exact He|].
      destruct (denote_entry s e) as [s'|] eqn:Ed; [|exact I]. apply IH; [|exact Hrest].
      eapply denote_entry_sp_ok; eassumption.
  Qed.
End Spelled.

(* ====================================================================== *)
(* 6. validity is decidable: a checker, sound for [lines_ok_sp]              *)
(* ====================================================================== *)

(* undo shape_raw: the owner, TTL, type tokens (place-holders "@" / "0" where the shape has
   none) and the RDATA tokens *)
Definition shape_fields (sh : rr_shape) (toks : list (list N)) : option (list N * list N * list N * list (list N)) :=
  match sh, toks with
  | ShOwnerTtlClass, o :: t :: _ :: ty :: rd => Some (o, t, ty, rd)
  | ShOwnerClassTtl, o :: _ :: t :: ty :: rd => Some (o, t, ty, rd)
  | ShOwnerTtl, o :: t :: ty :: rd => Some (o, t, ty, rd)
  | ShOwnerClass, o :: _ :: ty :: rd => Some (o, [48], ty, rd)
  | ShOwner, o :: ty :: rd => Some (o, [48], ty, rd)
  | ShTtlClass, t :: _ :: ty :: rd => Some (S_AT, t, ty, rd)
  | ShClassTtl, _ :: t :: ty :: rd => Some (S_AT, t, ty, rd)
  | ShTtl, t :: ty :: rd => Some (S_AT, t, ty, rd)
  | ShClass, _ :: ty :: rd => Some (S_AT, [48], ty, rd)
  | ShBare, ty :: rd => Some (S_AT, [48], ty, rd)
  | _, _ => None
  end.

Definition name_spb (canon t : list N) : bool := leqb (map lower t) canon.
Definition num_spb (max n : N) (t : list N) : bool :=
  match uint_from_str max t with Some v => v =? n | None => false end.

Definition owner_spb (ow : oref) (t : list N) : bool :=
  (name_spb (oref_text ow) t
   || match ow with OWild (NAbs n) => dname_eqb n root_domain && leqb t [42; 46] | _ => false end)
  && negb (leqb t S_IN) && negb (leqb t S_ORIGIN) && negb (leqb t S_INCLUDE).

Fixpoint inner_plainb (rd : list (list N)) : bool :=
  match rd with
  | [] => true
  | [_] => true
  | t :: rest => match rtype_from_str t with None => inner_plainb rest | Some _ => false end
  end.

Lemma name_spb_sound canon t : name_spb canon t = true -> name_sp canon t.
Proof. apply leqb_eq. Qed.

Lemma num_spb_sound max n t : num_spb max n t = true -> num_sp max n t.
Proof. unfold num_spb, num_sp. destruct (uint_from_str max t) as [v|]; [|discriminate]. intro H. apply N.eqb_eq in H. subst. reflexivity. Qed.

Lemma leqb_negb_false a b : negb (leqb a b) = true -> leqb a b = false.
Proof. apply negb_true_iff. Qed.

Lemma owner_spb_sound ow t : owner_spb ow t = true -> owner_sp ow t.
Proof.
  unfold owner_spb, owner_sp. intro H.
  apply andb_true_iff in H as [H H4]. apply andb_true_iff in H as [H H3]. apply andb_true_iff in H as [H1 H2].
  split; [|auto using leqb_negb_false].
  apply orb_true_iff in H1 as [H1|H1]; [left; apply name_spb_sound; exact H1|right].
  destruct ow as [r| |r]; try discriminate. destruct r as [n|pre|]; try discriminate.
  apply andb_true_iff in H1 as [E1 E2]. apply dname_eqb_eq in E1. apply leqb_eq in E2. subst. split; reflexivity.
Qed.

Lemma inner_plainb_sound : forall rd, inner_plainb rd = true -> inner_plain rd.
Proof.
  induction rd as [|t rest IH]; intro H; [exact I|]. destruct rest as [|t2 rest2]; [exact I|].
  cbn [inner_plainb] in H. cbn [inner_plain]. destruct (rtype_from_str t); [discriminate|]. split; [reflexivity|apply IH; exact H].
Qed.

Section SpellChecker.
  Variable ip : ipcodec.

  Definition rda_spb (x : rda) (rd : list (list N)) : bool :=
    match x, rd with
    | A_A a, [t] => match parse_v4 ip t with Some v => v =? a | None => false end
    | A_Name r, [t] => name_spb (nref_text r) t
    | A_SOA m r a b c d e, [tm; tr; ta; tb; tc; td; te] =>
      name_spb (nref_text m) tm && name_spb (nref_text r) tr && num_spb U32_MAX a ta && num_spb U32_MAX b tb
      && num_spb U32_MAX c tc && num_spb U32_MAX d td && num_spb U32_MAX e te
    | A_Octets os, [t] => leqb t os
    | A_MINFO r e, [tr; te] => name_spb (nref_text r) tr && name_spb (nref_text e) te
    | A_MX p e, [tp; te] => num_spb U16_MAX p tp && name_spb (nref_text e) te
    | A_AAAA g, [t] => match parse_v6 ip t with Some v => leqb v g | None => false end
    | A_SRV p w po t, [tp; tw; tpo; ttg] =>
      num_spb U16_MAX p tp && num_spb U16_MAX w tw && num_spb U16_MAX po tpo && name_spb (nref_text t) ttg
    | _, _ => false
    end.

  Lemma rda_spb_sound x rd : rda_spb x rd = true -> rda_sp ip x rd.
  Proof.
    destruct x; cbn [rda_spb rda_sp];
      repeat (let t := fresh "t" in destruct rd as [|t rd]; try discriminate);
      intro H;
      repeat match goal with H : (_ && _) = true |- _ => apply andb_true_iff in H; destruct H end;
      repeat match goal with H : name_spb _ _ = true |- _ => apply name_spb_sound in H end;
      repeat match goal with H : num_spb _ _ _ = true |- _ => apply num_spb_sound in H end;
      auto 10.
    - destruct (parse_v4 ip t) as [v|]; [|discriminate]. apply N.eqb_eq in H. subst. reflexivity.
    - apply leqb_eq. exact H.
    - destruct (parse_v6 ip t) as [v|]; [|discriminate]. apply leqb_eq in H. subst. reflexivity.
  Qed.

  Definition entry_spelledb (e : option fentry) (toks : list (list N)) : bool :=
    match e with
    | None => is_nil toks
    | Some (FOrigin r) => match toks with [k; t] => leqb k S_ORIGIN && name_spb (nref_text r) t | _ => false end
    | Some (FRR x) =>
      match shape_fields (frr_shape x) toks with
      | Some (o, t, ty, rd) =>
        lleqb2 toks (shape_raw (frr_shape x) o t ty rd)
        && match f_owner x with Some ow => owner_spb ow o | None => leqb o S_AT end
        && match f_ttl x with Some n => all_digits t && num_spb U32_MAX n t | None => leqb t [48] end
        && match rtype_from_str ty with Some v => v =? f_type x | None => false end
        && rda_spb (f_rd x) rd && inner_plainb rd
      | None => false
      end
    end.

  Lemma entry_spelledb_sound e toks : entry_spelledb e toks = true -> entry_spelled ip e toks.
  Proof.
    destruct e as [[r|x]|]; cbn [entry_spelledb entry_spelled].
    - destruct toks as [|k [|t [|? ?]]]; try discriminate. intro H. apply andb_true_iff in H as [H1 H2].
      apply leqb_eq in H1. subst k. exists t. split; [reflexivity|apply name_spb_sound; exact H2].
    - destruct (shape_fields (frr_shape x) toks) as [[[[o t] ty] rd]|]; [|discriminate]. intro H.
      repeat match goal with H : (_ && _) = true |- _ => apply andb_true_iff in H; destruct H end.
      exists o, t, ty, rd. split; [apply lleqb2_eq; assumption|].
      split; [destruct (f_owner x); [apply owner_spb_sound; assumption|apply leqb_eq; assumption]|].
      split.
      { destruct (f_ttl x) as [n|]; [|apply leqb_eq; assumption].
        match goal with H : (_ && _) = true |- _ => apply andb_true_iff in H; destruct H end.
        split; [assumption|apply num_spb_sound; assumption]. }
      split.
      { unfold type_sp. destruct (rtype_from_str ty) as [v|]; [|discriminate].
        match goal with H : (v =? _) = true |- _ => apply N.eqb_eq in H; subst v end. reflexivity. }
      split; [apply rda_spb_sound; assumption|apply inner_plainb_sound; assumption].
    - destruct toks; [reflexivity|discriminate].
  Qed.

  Definition line_ok_spb (l : fline) : bool :=
    match layout_ok false false (l_items l) with Some false => true | _ => false end
    && terminator_ok (l_term l)
    && entry_spelledb (l_entry l) (map wtoken_octets (items_tokens (l_items l))).

  Fixpoint lines_ok_spb (s : sp) (ls : list fline) : bool :=
    match ls with
    | [] => true
    | l :: t => line_ok_spb l && (is_nil t || nl_term (l_term l)) &&
                match l_entry l with
                | None => lines_ok_spb s t
                | Some e => entry_okb s e && match denote_entry s e with Some s' => lines_ok_spb s' t | None => true end
                end
    end.

  Lemma lines_ok_spb_sound : forall ls s, lines_ok_spb s ls = true -> lines_ok_sp ip s ls.
  Proof.
    induction ls as [|l t IH]; intros s H; [exact I|]. cbn [lines_ok_spb lines_ok_sp] in *.
    apply andb_true_iff in H as [H H3]. apply andb_true_iff in H as [H1 H2].
    split; [|split].
    - unfold line_ok_spb in H1. apply andb_true_iff in H1 as [H1 Hc]. apply andb_true_iff in H1 as [Ha Hb].
      split; [destruct (layout_ok false false (l_items l)) as [[|]|]; try discriminate; reflexivity|].
      split; [exact Hb|apply entry_spelledb_sound; exact Hc].
    - intro Hne. destruct t; [contradiction|]. exact H2.
    - destruct (l_entry l) as [e|]; [|apply IH; exact H3].
      apply andb_true_iff in H3 as [He Hr]. split; [apply entry_okb_sound; exact He|].
      destruct (denote_entry s e); [apply IH; exact Hr|exact I].
  Qed.
End SpellChecker.

(* ====================================================================== *)
(* 7. an owner NAME written with a leading "*." is the wildcard owner: the   *)
(*    same text and the same denotation as the OWild syntax tree             *)
(* ====================================================================== *)

Lemma star_owner_rel o pre : pre <> [] ->
  oref_text (OName (NRel (S_STAR :: pre))) = oref_text (OWild (NRel pre)) /\
  resolve_owner o (OName (NRel (S_STAR :: pre))) = resolve_owner o (OWild (NRel pre)).
Proof.
  intro Hne. destruct pre as [|l0 pre']; [contradiction|]. split; [reflexivity|].
  destruct o as [og|]; [|reflexivity]. reflexivity.
Qed.

Lemma star_owner_abs o front : good_front front -> front <> [] ->
  oref_text (OName (NAbs (mk (S_STAR :: front)))) = oref_text (OWild (NAbs (mk front))) /\
  resolve_owner o (OName (NAbs (mk (S_STAR :: front)))) = resolve_owner o (OWild (NAbs (mk front))).
Proof.
  intros Hf Hne. split.
  - cbn [oref_text nref_text]. rewrite (to_dotted_mk front Hf Hne), to_dotted_mk; [reflexivity| |discriminate].
    constructor; [|exact Hf]. split; [discriminate|]. split; [cbv; discriminate|]. repeat constructor.
  - destruct front as [|f0 front']; [contradiction|]. reflexivity.
Qed.
