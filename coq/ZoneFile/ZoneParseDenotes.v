(* ZoneFile/ZoneParseDenotes.v -- C11.3 parse_denotes: Zone::deserialise on a rendered abstract
   file yields the zone the file denotes.

   The abstract syntax (specification side; nothing here mentions the parser's control flow):
     nref     a name as written: absolute, relative to the origin, or "@"
     oref     an owner as written: a name, "*", or "*.<name>"
     rda      RDATA with its names as written
     frr      a record entry: optional owner, optional TTL, optional class IN, their order, type, RDATA
              (the ten field shapes of RFC 1035 5.1)
     fentry   "$ORIGIN <name>" or a record
     fline    one entry -- or none: a blank or comment-only line -- in ANY layout of the layout
              family of ZoneFileSpec.v (runs of white space, \X and \DDD escapes per octet, quoted
              tokens, parenthesised groups spanning lines, comments), ended by a newline, a comment,
              or the end of the input
   [denote]: origin tracking, "@" and relative names against the current origin, owner and TTL
   inherited from the previous record (wildcard-ness included; the TTL as loaded: D3), the SOA
   making the zone authoritative at its owner with TTL = MINIMUM, an owner expanding to "*.x"
   being the wildcard at x (fix 0286676), TTLs raised to the SOA minimum (by flat_of_ops).
   [render]: the text.   Spelling is canonical (names lower-case, numbers and addresses as
   Display prints them); the LAYOUT is arbitrary.

     parse_denotes : valid f -> deserialise (render f) = Ok z /\ z represents (denote f) *)
From Coq Require Import Permutation.
Set Default Timeout 120.
From RV Require Import Base.Prelude Name.NameModel Name.NameSpec Name.NameProofs Wire.WireTypes
     Zone.ZoneModel Zone.ZoneFlat Zone.ZoneProofs
     ZoneFile.ZoneFileModel ZoneFile.ZoneFileSpec ZoneFile.ZoneSerialiseModel
     ZoneFile.ZoneFileProofs ZoneFile.ZoneSerialiseProofs ZoneFile.ZoneRtLines ZoneFile.ZoneRtLoop.

(* ====================================================================== *)
(* names as written                                                        *)
(* ====================================================================== *)

Inductive nref := NAbs (n : dname) | NRel (pre : list label) | NAt.

Definition nref_text (r : nref) : list N :=
  match r with NAbs n => to_dotted_string n | NRel pre => join_dots pre | NAt => S_AT end.

(* what the name means under the current origin *)
Definition resolve (o : option dname) (r : nref) : option dname :=
  match r with
  | NAbs n => Some n
  | NRel pre => match o with Some og => Some (mkname (pre ++ labels og)) | None => None end
  | NAt => o
  end.

Definition nref_ok (o : option dname) (r : nref) : Prop :=
  match r with
  | NAbs n => name_ok n
  | NRel pre => pre <> [] /\ join_dots pre <> S_AT /\
                match o with Some og => name_ok (mkname (pre ++ labels og)) | None => False end
  | NAt => o <> None
  end.

Lemma mkname_mk front : mkname (front ++ [[]]) = mk front.
Proof. reflexivity. Qed.

(* a relative name under the root origin *)
Lemma parse_domain_rel_root pre : name_ok (mk pre) -> pre <> [] -> join_dots pre <> S_AT ->
  parse_domain (Some root_domain) (join_dots pre) = Ok (mk pre).
Proof.
  intros Hn Hpne Hat.
  destruct (name_ok_dest _ Hn) as (nf & En & Hnf & Hna & _). apply mk_inj in En. subst nf.
  pose proof (front_lc _ Hnf Hna) as Hlc. pose proof (join_dots_forall lc pre lc_46 Hlc) as Htxt.
  destruct (exists_last Hpne) as (p & l & Ep).
  assert (Hl : l <> [] /\ ~ In 46 l).
  { unfold good_front in Hnf. rewrite Ep in Hnf, Hna. apply Forall_app in Hnf as [_ Hnf]. apply Forall_app in Hna as [_ Hna].
    apply Forall_cons_iff in Hnf as [[Hne _] _]. apply Forall_cons_iff in Hna as [Hal _].
    split; [exact Hne|apply ascii_label_nodot; exact Hal]. }
  destruct Hl as [Hlne Hlnd]. destruct (exists_last Hlne) as (l' & c & El).
  assert (Hc : c <> 46) by (intro; subst c; apply Hlnd; rewrite El; apply in_or_app; right; left; reflexivity).
  assert (Etxt : join_dots pre = (dotjoin p ++ l') ++ [c]).
  { rewrite Ep, join_dots_snoc, El, app_assoc. reflexivity. }
  unfold parse_domain.
  assert (E1 : is_nil (join_dots pre) = false) by (rewrite Etxt; destruct (dotjoin p ++ l'); reflexivity).
  rewrite E1, (lc_ascii _ Htxt), (leqb_false _ _ Hat). cbn [negb]. unfold last_char. rewrite Etxt at 1. rewrite last_opt_snoc. cbn [bind].
  rewrite (proj2 (N.eqb_neq c 46) Hc).
  rewrite from_rel_nonempty by (rewrite Etxt; destruct (dotjoin p ++ l'); discriminate).
  assert (Eed : ends_with_dot (join_dots pre) = false) by (rewrite Etxt; apply ends_with_dot_snoc; exact Hc).
  rewrite Eed. change (to_dotted_string root_domain) with [46]. change (starts_dot [46]) with true. cbn iota.
  replace (join_dots pre ++ [46]) with (dotjoin pre) by (rewrite (join_dots_dot pre [] Hpne), app_nil_r; reflexivity).
  pose proof (dotted_roundtrip _ (proj1 Hn) (proj2 Hn)) as Ed.
  rewrite (to_dotted_mk _ Hnf Hpne) in Ed. unfold label, byte in *. rewrite Ed. reflexivity.
Qed.

(* what is written is read back as what it means *)
Lemma nref_parse o r n : match o with Some og => name_ok og | None => True end ->
  nref_ok o r -> resolve o r = Some n -> parse_domain o (nref_text r) = Ok n.
Proof.
  intros Ho Hr Hn. destruct r as [m|pre|]; cbn [nref_ok resolve nref_text] in *.
  - inversion Hn; subst. apply parse_domain_abs. exact Hr.
  - destruct Hr as (Hpne & Hat & Hok). destruct o as [og|]; [|destruct Hok]. inversion Hn; subst. clear Hn.
    destruct (name_ok_dest _ Ho) as (af & -> & Haf & _). cbn [mk labels] in *.
    rewrite app_assoc in *. rewrite mkname_mk in *.
    destruct af as [|a0 af'] eqn:Ea.
    + rewrite app_nil_r in *. apply parse_domain_rel_root; assumption.
    + rewrite <- Ea in *. apply parse_domain_rel; try assumption. subst; discriminate.
  - subst o. apply parse_domain_at.
Qed.

Lemma nref_text_lc o r : match o with Some og => name_ok og | None => True end -> nref_ok o r ->
  nref_text r <> [] /\ Forall lc (nref_text r).
Proof.
  intros Ho Hr. destruct r as [m|pre|]; cbn [nref_ok nref_text] in *.
  - destruct (to_dotted_last m Hr) as [X E]. split; [rewrite E; destruct X; discriminate|apply to_dotted_lc; exact Hr].
  - destruct Hr as (Hpne & _ & Hok). destruct o as [og|]; [|destruct Hok].
    destruct (name_ok_dest _ Ho) as (af & -> & _). cbn [mk labels] in Hok. rewrite app_assoc, mkname_mk in Hok.
    destruct (name_ok_dest _ Hok) as (nf & En & Hnf & Hna & _). apply mk_inj in En. subst nf.
    pose proof (front_lc _ Hnf Hna) as Hlc. apply Forall_app in Hlc as [Hlcp _]. split.
    + destruct pre as [|l0 p]; [contradiction|]. unfold good_front in Hnf. cbn [app] in Hnf. apply Forall_cons_iff in Hnf as [[Hl0 _] _].
      destruct l0; [contradiction|]. cbn [join_dots]. destruct p; discriminate.
    + apply join_dots_forall; [apply lc_46|exact Hlcp].
  - split; [discriminate|]. constructor; [split; [lia|reflexivity]|constructor].
Qed.

Lemma resolve_ok o r n : match o with Some og => name_ok og | None => True end ->
  nref_ok o r -> resolve o r = Some n -> name_ok n.
Proof.
  intros Ho Hr Hn. destruct r as [m|pre|]; cbn [nref_ok resolve] in *.
  - inversion Hn; subst. exact Hr.
  - destruct o as [og|]; [|discriminate]. inversion Hn; subst. apply Hr.
  - subst o. exact Ho.
Qed.

(* ====================================================================== *)
(* owners as written                                                       *)
(* ====================================================================== *)

Inductive oref := OName (r : nref) | OStar | OWild (r : nref).

Definition oref_text (x : oref) : list N :=
  match x with OName r => nref_text r | OStar => S_STAR | OWild r => 42 :: 46 :: nref_text r end.

(* (is it a wildcard owner?, the name) *)
Definition owner := (bool * dname)%type.

(* an owner that expands to "*.x" is the wildcard at x however it was written (fix 0286676) *)
Definition star_rule (n : dname) : owner :=
  match labels n with
  | l0 :: ((_ :: _) as rest) => if leqb l0 S_STAR then (true, mkname rest) else (false, n)
  | _ => (false, n)
  end.

Definition resolve_owner (o : option dname) (x : oref) : option owner :=
  match x with
  | OName r => option_map star_rule (resolve o r)
  | OStar => option_map (fun og => (true, og)) o
  | OWild r => option_map (fun n => (true, n)) (resolve o r)
  end.

Definition to_mw (p : owner) : mwild := if fst p then MWildcard (snd p) else MNormal (snd p).

(* an owner written as a name does not use the wildcard syntax (that is OStar / OWild), and
   is not a number (D: an all-digit first field is a TTL to this grammar) *)
Definition oref_ok (o : option dname) (x : oref) : Prop :=
  match x with
  | OName r => nref_ok o r /\ nref_text r <> S_STAR /\ (forall t, nref_text r <> 42 :: 46 :: t) /\ all_digits (nref_text r) = false
  | OStar => o <> None
  | OWild r => nref_ok o r
  end.

Definition origin_ok (o : option dname) : Prop := match o with Some og => name_ok og | None => True end.

Lemma normal_or_star_rule n : name_ok n -> normal_or_star n = Ok (to_mw (star_rule n)).
Proof.
  intro Hn. unfold normal_or_star, star_rule.
  destruct (labels n) as [|l0 [|l1 t]] eqn:El; cbn [len_ge idx nth_error bind slice_from skipn]; try reflexivity.
  destruct (leqb l0 S_STAR); cbn [bind]; [|reflexivity].
  assert (Hw : wf_labels (l1 :: t)).
  { destruct Hn as [[Hl _] _]. rewrite El in Hl. apply (wf_labels_suffix [l0] (l1 :: t)); [exact Hl|discriminate]. }
  rewrite (from_labels_mkname _ Hw). reflexivity.
Qed.

Lemma oref_parse o x p : origin_ok o -> oref_ok o x -> resolve_owner o x = Some p ->
  parse_domain_or_wildcard o (oref_text x) = Ok (to_mw p).
Proof.
  intros Ho Hx Hp. destruct x as [r| |r]; cbn [oref_ok resolve_owner oref_text] in *.
  - destruct Hx as (Hr & H1 & H2 & _). destruct (resolve o r) as [n|] eqn:En; [|discriminate]. inversion Hp; subst.
    rewrite (pdw_plain o _ (proj1 (nref_text_lc o r Ho Hr)) H1 H2), (nref_parse o r n Ho Hr En). cbn [bind].
    apply normal_or_star_rule. eapply resolve_ok; eassumption.
  - destruct o as [og|]; [|contradiction]. inversion Hp; subst. reflexivity.
  - destruct (resolve o r) as [n|] eqn:En; [|discriminate]. inversion Hp; subst.
    rewrite (pdw_star_dot o _ (proj1 (nref_text_lc o r Ho Hx))), (nref_parse o r n Ho Hx En). reflexivity.
Qed.

Lemma oref_text_facts o x : origin_ok o -> oref_ok o x ->
  octets (oref_text x) /\ oref_text x <> [] /\ noupper (oref_text x) /\ all_digits (oref_text x) = false.
Proof.
  intros Ho Hx. destruct x as [r| |r]; cbn [oref_ok oref_text] in *.
  - destruct Hx as (Hr & _ & _ & Hd). destruct (nref_text_lc o r Ho Hr) as [Hne Hlc].
    split; [apply lc_octets; exact Hlc|]. split; [exact Hne|]. split; [apply lc_noupper; exact Hlc|exact Hd].
  - split; [repeat constructor; lia|]. split; [discriminate|]. split; [repeat constructor|reflexivity].
  - destruct (nref_text_lc o r Ho Hx) as [Hne Hlc].
    split; [repeat constructor; try lia; apply lc_octets; exact Hlc|]. split; [discriminate|].
    split; [repeat constructor; apply lc_noupper; exact Hlc|reflexivity].
Qed.

Lemma star_rule_ok n : name_ok n -> name_ok (snd (star_rule n)) /\ (fst (star_rule n) = false -> first_label n <> S_STAR \/ True).
Proof.
  intro Hn. split; [|auto]. unfold star_rule. destruct (labels n) as [|l0 [|l1 t]] eqn:El; try exact Hn.
  destruct (leqb l0 S_STAR); [|exact Hn]. cbn [snd].
  destruct Hn as [[Hl Hlen] Ha]. rewrite El in Hl.
  pose proof (wf_labels_suffix [l0] (l1 :: t) Hl ltac:(discriminate)) as Hw. split; [split; [exact Hw|reflexivity]|].
  unfold ascii_nodot in *. rewrite El in Ha. apply Forall_cons_iff in Ha. apply Ha.
Qed.

(* ====================================================================== *)
(* RDATA as written                                                        *)
(* ====================================================================== *)

Inductive rda :=
| A_A (a : N) | A_Name (r : nref) | A_SOA (m r : nref) (a b c d e : N) | A_Octets (os : list N)
| A_MINFO (r e : nref) | A_MX (p : N) (e : nref) | A_AAAA (g : list N) | A_SRV (p w po : N) (t : nref).

Definition rda_resolve (o : option dname) (x : rda) : option rdata :=
  match x with
  | A_A a => Some (RD_A a)
  | A_Name r => option_map RD_Name (resolve o r)
  | A_SOA m r a b c d e =>
    match resolve o m, resolve o r with Some m', Some r' => Some (RD_SOA m' r' a b c d e) | _, _ => None end
  | A_Octets os => Some (RD_Octets os)
  | A_MINFO r e => match resolve o r, resolve o e with Some r', Some e' => Some (RD_MINFO r' e') | _, _ => None end
  | A_MX p e => option_map (RD_MX p) (resolve o e)
  | A_AAAA g => Some (RD_AAAA g)
  | A_SRV p w po t => option_map (RD_SRV p w po) (resolve o t)
  end.

Definition rda_ok (o : option dname) (x : rda) : Prop :=
  match x with
  | A_A a => a < 4294967296
  | A_Name r => nref_ok o r
  | A_SOA m r a b c d e => nref_ok o m /\ nref_ok o r /\ a < 4294967296 /\ b < 4294967296 /\ c < 4294967296 /\ d < 4294967296 /\ e < 4294967296
  | A_Octets os => octets os
  | A_MINFO r e => nref_ok o r /\ nref_ok o e
  | A_MX p e => p < 65536 /\ nref_ok o e
  | A_AAAA g => v6_ok g
  | A_SRV p w po t => p < 65536 /\ w < 65536 /\ po < 65536 /\ nref_ok o t
  end.

Lemma digits_not_type s : s <> [] -> Forall isd s -> rtype_from_str s = None.
Proof.
  intros Hne Hd. destruct (rtype_from_str s) as [t|] eqn:E; [|reflexivity].
  apply rtype_from_str_upper in E as (c & r & -> & Hc). apply Forall_cons_iff in Hd as [Hd _].
  apply isd_range in Hd. apply is_upper_true in Hc. lia.
Qed.

Section Rda.
  Variable ip : ipcodec.
  Hypothesis Hip : codec_rt ip.

  Definition rda_toks (x : rda) : list (list N) :=
    match x with
    | A_A a => [show_v4 ip a]
    | A_Name r => [nref_text r]
    | A_SOA m r a b c d e => [nref_text m; nref_text r; show_dec a; show_dec b; show_dec c; show_dec d; show_dec e]
    | A_Octets os => [os]
    | A_MINFO r e => [nref_text r; nref_text e]
    | A_MX p e => [show_dec p; nref_text e]
    | A_AAAA g => [show_v6 ip g]
    | A_SRV p w po t => [show_dec p; show_dec w; show_dec po; nref_text t]
    end.

  Lemma rda_resolve_ok o x d : origin_ok o -> rda_ok o x -> rda_resolve o x = Some d -> rdata_ok d.
  Proof.
    intros Ho Hx Hd. destruct x; cbn [rda_ok rda_resolve] in *;
      repeat match goal with H : _ /\ _ |- _ => destruct H end;
      repeat match goal with
             | H : context [resolve o ?r] |- _ =>
               let E := fresh "E" in destruct (resolve o r) eqn:E; cbn [option_map] in H; try discriminate H;
               eapply resolve_ok in E; [|exact Ho|assumption]
             end;
      inversion Hd; subst; cbn [rdata_ok]; auto 10.
  Qed.

  Lemma rda_parse o ty x d :
    origin_ok o -> rtype_known ty = true -> rda_ok o x -> rda_resolve o x = Some d ->
    shape_of_rdata d = shape_of_type ty ->
    try_parse_rtype_with_data ip o (map dup (show_rtype ty :: rda_toks x)) = Ok (Some (ty, d)).
  Proof.
    intros Ho Hk Hx Hd Hs. unfold try_parse_rtype_with_data. cbn [map is_nil idx nth_error bind].
    change (fst (dup (show_rtype ty))) with (show_rtype ty). rewrite (show_rtype_parse ty Hk).
    destruct x; cbn [rda_ok rda_resolve] in *;
      repeat match goal with H : _ /\ _ |- _ => destruct H end;
      repeat match goal with
             | H : context [resolve o ?r] |- _ =>
               let E := fresh "E" in destruct (resolve o r) eqn:E; cbn [option_map] in H; try discriminate H;
               eapply nref_parse in E; [|exact Ho|assumption]
             end;
      inversion Hd; subst; clear Hd;
      apply known_cases in Hk; unfold known_types in Hk;
      repeat (destruct Hk as [<-|Hk];
              [ cbv in Hs; try discriminate Hs;
                cbv [is_name_type is_octets_type]; nclosed; cbn [orb andb negb];
                cbn [rda_toks map len_is idx nth_error bind fst snd dup];
                repeat match goal with E : parse_domain o _ = Ok _ |- _ => rewrite E; clear E end;
                rewrite ?show_dec_parse by (unfold U32_MAX, U16_MAX; lia);
                cbn [opt_of_res bind]; try reflexivity | ]);
      try destruct Hk.
    - rewrite (proj1 (proj1 Hip a Hx)). reflexivity.
    - rewrite (proj1 (proj2 Hip g Hx)). reflexivity.
  Qed.
End Rda.

(* ====================================================================== *)
(* entries                                                                 *)
(* ====================================================================== *)

Record frr := { f_owner : option oref; f_ttl : option N; f_class : bool; f_ttl_first : bool; f_type : N; f_rd : rda }.
Inductive fentry := FOrigin (r : nref) | FRR (x : frr).

(* which of the ten field shapes the entry is written in *)
Definition frr_shape (x : frr) : rr_shape :=
  match f_owner x, f_ttl x, f_class x with
  | Some _, Some _, true => if f_ttl_first x then ShOwnerTtlClass else ShOwnerClassTtl
  | Some _, Some _, false => ShOwnerTtl
  | Some _, None, true => ShOwnerClass
  | Some _, None, false => ShOwner
  | None, Some _, true => if f_ttl_first x then ShTtlClass else ShClassTtl
  | None, Some _, false => ShTtl
  | None, None, true => ShClass
  | None, None, false => ShBare
  end.

(* the fields in the order of the shape, as octet strings *)
Definition shape_raw (sh : rr_shape) (o ttl ty : list N) (rd : list (list N)) : list (list N) :=
  match sh with
  | ShOwnerTtlClass => o :: ttl :: S_IN :: ty :: rd
  | ShOwnerClassTtl => o :: S_IN :: ttl :: ty :: rd
  | ShOwnerTtl => o :: ttl :: ty :: rd
  | ShOwnerClass => o :: S_IN :: ty :: rd
  | ShOwner => o :: ty :: rd
  | ShTtlClass => ttl :: S_IN :: ty :: rd
  | ShClassTtl => S_IN :: ttl :: ty :: rd
  | ShTtl => ttl :: ty :: rd
  | ShClass => S_IN :: ty :: rd
  | ShBare => ty :: rd
  end.

Lemma shape_raw_tokens sh o ttl ty rd :
  map dup (shape_raw sh o ttl ty rd) = shape_tokens sh (dup o) (dup ttl) (dup ty) (map dup rd).
Proof. destruct sh; reflexivity. Qed.

Definition owner_text (x : frr) : list N := match f_owner x with Some o => oref_text o | None => S_AT end.
Definition ttl_text (x : frr) : list N := match f_ttl x with Some t => show_dec t | None => [48] end.

(* the specification's state while reading a file *)
Record sp := { p_origin : option dname; p_owner : option owner; p_ttl : option N;
               p_soa : option (dname * soa); p_norm : list rr; p_wild : list rr }.

Definition sp_init : sp := {| p_origin := None; p_owner := None; p_ttl := None; p_soa := None; p_norm := []; p_wild := [] |}.

Definition mk_rr (n : dname) (ty : N) (ttl : N) (d : rdata) : rr :=
  {| rr_name := n; rr_type := ty; rr_class := RC_IN; rr_ttl := ttl; rr_data := d |}.

(* RFC 1035 5.1 / the property text, entry by entry *)
Definition denote_entry (s : sp) (e : fentry) : option sp :=
  match e with
  | FOrigin r =>
    match resolve (p_origin s) r with
    | Some n => Some {| p_origin := Some n; p_owner := p_owner s; p_ttl := p_ttl s; p_soa := p_soa s;
                        p_norm := p_norm s; p_wild := p_wild s |}
    | None => None
    end
  | FRR x =>
    match (match f_owner x with Some o => resolve_owner (p_origin s) o | None => p_owner s end),
          rda_resolve (p_origin s) (f_rd x) with
    | Some ow, Some d =>
      match d with
      | RD_SOA mname rname serial refresh retry expire minimum =>
        (* the SOA makes the zone authoritative at its owner; its TTL is its MINIMUM (D3) *)
        if fst ow then None
        else match p_soa s with
             | Some _ => None
             | None => Some {| p_origin := p_origin s; p_owner := Some ow; p_ttl := Some minimum;
                               p_soa := Some (snd ow, {| soa_mname := mname; soa_rname := rname; soa_serial := serial;
                                                         soa_refresh := refresh; soa_retry := retry; soa_expire := expire;
                                                         soa_minimum := minimum |});
                               p_norm := p_norm s; p_wild := p_wild s |}
             end
      | _ =>
        match (match f_ttl x with Some t => Some t | None => p_ttl s end) with
        | Some ttl =>
          let r := mk_rr (snd ow) (f_type x) ttl d in
          Some {| p_origin := p_origin s; p_owner := Some ow; p_ttl := Some ttl; p_soa := p_soa s;
                  p_norm := if fst ow then p_norm s else r :: p_norm s;
                  p_wild := if fst ow then r :: p_wild s else p_wild s |}
        | None => None
        end
      end
    | _, _ => None
    end
  end.

(* what must hold of an entry beyond having a denotation: the names are expressible, the numbers
   in range, the type one of the 18 and the RDATA of its shape *)
Definition rda_shape (x : rda) : shape :=
  match x with
  | A_A _ => ShA | A_Name _ => ShName | A_SOA _ _ _ _ _ _ _ => ShSOA | A_Octets _ => ShOctets
  | A_MINFO _ _ => ShMINFO | A_MX _ _ => ShMX | A_AAAA _ => ShAAAA | A_SRV _ _ _ _ => ShSRV
  end.

Definition entry_ok (s : sp) (e : fentry) : Prop :=
  match e with
  | FOrigin r => nref_ok (p_origin s) r
  | FRR x =>
    match f_owner x with Some o => oref_ok (p_origin s) o | None => True end /\
    match f_ttl x with Some t => t < 4294967296 | None => True end /\
    rtype_known (f_type x) = true /\ rda_shape (f_rd x) = shape_of_type (f_type x) /\ rda_ok (p_origin s) (f_rd x)
  end.

Lemma rda_resolve_shape o x d : rda_resolve o x = Some d -> shape_of_rdata d = rda_shape x.
Proof.
  destruct x; cbn [rda_resolve rda_shape]; intro H;
    repeat match type of H with context [resolve o ?r] => destruct (resolve o r); cbn [option_map] in H; try discriminate H end;
    inversion H; reflexivity.
Qed.

Section Entries.
  Variable ip : ipcodec.
  Hypothesis Hip : codec_rt ip.

  Definition entry_toks (e : option fentry) : list (list N) :=
    match e with
    | None => []
    | Some (FOrigin r) => [S_ORIGIN; nref_text r]
    | Some (FRR x) => shape_raw (frr_shape x) (owner_text x) (ttl_text x) (show_rtype (f_type x)) (rda_toks ip (f_rd x))
    end.

  (* ---- no later position reads as type + RDATA ---- *)

  Lemma try_parse_single o t : try_parse_rtype_with_data ip o [t] = Ok None.
  Proof.
    unfold try_parse_rtype_with_data. cbn [is_nil idx nth_error bind len_is].
    destruct (rtype_from_str (fst t)); [|reflexivity].
    repeat match goal with |- context [if ?b then _ else _] => destruct b end; reflexivity.
  Qed.

  Lemma try_parse_not_type o t rest : rtype_from_str (fst t) = None -> try_parse_rtype_with_data ip o (t :: rest) = Ok None.
  Proof. intro H. unfold try_parse_rtype_with_data. cbn [is_nil idx nth_error bind]. rewrite H. reflexivity. Qed.

  (* all tokens but the last are no type mnemonics *)
  Fixpoint inner_plain (rd : list (list N)) : Prop :=
    match rd with
    | [] => True
    | [_] => True
    | t :: rest => rtype_from_str t = None /\ inner_plain rest
    end.

  Lemma inner_plain_suffix o : forall rd j, inner_plain rd -> try_parse_rtype_with_data ip o (skipn j (map dup rd)) = Ok None.
  Proof.
    induction rd as [|t rest IH]; intros j H; [destruct j; reflexivity|].
    destruct j as [|j]; cbn [skipn map].
    - destruct rest as [|t2 rest2]; [apply try_parse_single|]. apply try_parse_not_type. apply H.
    - apply IH. destruct rest as [|t2 rest2]; [exact I|]. apply H.
  Qed.

  Lemma rda_inner_plain o x : origin_ok o -> rda_ok o x -> inner_plain (rda_toks ip x).
  Proof.
    intros Ho Hx.
    assert (Hn : forall r, nref_ok o r -> rtype_from_str (nref_text r) = None).
    { intros r Hr. apply noupper_not_type, lc_noupper, (nref_text_lc o r Ho Hr). }
    assert (Hd : forall n, rtype_from_str (show_dec n) = None).
    { intro n. apply digits_not_type; [apply show_dec_ne|apply show_dec_isd]. }
    destruct x; cbn [rda_ok rda_toks inner_plain] in *; repeat match goal with H : _ /\ _ |- _ => destruct H end; auto 10.
  Qed.

  Lemma try_from_ge o (tokens : list token) q : (length tokens <= q)%nat -> try_from ip o tokens q = Ok None.
  Proof.
    intro H. unfold try_from. destruct (len_ge (S q) tokens) eqn:E; [|reflexivity]. apply len_ge_spec in E. lia.
  Qed.

  Lemma try_from_skip o (tokens : list token) q :
    try_parse_rtype_with_data ip o (skipn q tokens) = Ok None -> try_from ip o tokens q = Ok None.
  Proof.
    intros H. unfold try_from, slice_from. destruct (len_ge (S q) tokens) eqn:E; [|reflexivity].
    rewrite (len_ge_S _ _ E). cbn [bind]. exact H.
  Qed.

  Lemma shape_unambiguous o sh ot tt ty rd : inner_plain rd ->
    forall q, (type_pos sh < q <= 3)%nat ->
      try_from ip o (shape_tokens sh (dup ot) (dup tt) (dup ty) (map dup rd)) q = Ok None.
  Proof.
    intros Hrd q Hq. apply try_from_skip.
    destruct sh; cbn [type_pos shape_tokens] in *;
      (destruct q as [|[|[|[|q]]]]; try lia); cbn [skipn];
      first [ apply (inner_plain_suffix o rd 0 Hrd) | apply (inner_plain_suffix o rd 1 Hrd)
            | apply (inner_plain_suffix o rd 2 Hrd) ].
  Qed.
End Entries.

(* ====================================================================== *)
(* one entry: the parser's state follows the specification's               *)
(* ====================================================================== *)

Definition rel (st : dstate) (s : sp) : Prop :=
  d_origin st = p_origin s /\ d_prev_domain st = option_map to_mw (p_owner s) /\ d_prev_ttl st = p_ttl s /\
  d_apex_soa st = p_soa s /\ d_rrs st = p_norm s /\ d_wrrs st = p_wild s.

Lemma rel_init : rel dstate_init sp_init.
Proof. unfold rel. cbn. auto 10. Qed.

Definition sp_ok (s : sp) : Prop := origin_ok (p_origin s).

Lemma has_owner_shape x : has_owner (frr_shape x) = match f_owner x with Some _ => true | None => false end.
Proof. unfold frr_shape. destruct (f_owner x), (f_ttl x), (f_class x), (f_ttl_first x); reflexivity. Qed.
Lemma has_ttl_shape x : has_ttl (frr_shape x) = match f_ttl x with Some _ => true | None => false end.
Proof. unfold frr_shape. destruct (f_owner x), (f_ttl x), (f_class x), (f_ttl_first x); reflexivity. Qed.

Section Steps.
  Variable ip : ipcodec.
  Hypothesis Hip : codec_rt ip.

  Lemma origin_step st s r s' :
    rel st s -> sp_ok s -> entry_ok s (FOrigin r) -> denote_entry s (FOrigin r) = Some s' ->
    exists e' st', parse_origin (d_origin st) (map dup (entry_toks ip (Some (FOrigin r)))) = Ok e' /\
                   deser_step st e' = Ok st' /\ rel st' s' /\ sp_ok s'.
  Proof.
    intros (R1 & R2 & R3 & R4 & R5 & R6) Hs He Hd. cbn [denote_entry entry_ok entry_toks map] in *.
    destruct (resolve (p_origin s) r) as [n|] eqn:En; [|discriminate]. inversion Hd; subst; clear Hd.
    exists (EOrigin n). eexists. split; [|split; [reflexivity|]].
    - unfold parse_origin. cbn [len_is negb idx nth_error bind fst dup].
      change (leqb S_ORIGIN S_ORIGIN) with true. cbn [negb]. rewrite R1, (nref_parse _ _ _ Hs He En). reflexivity.
    - split; [unfold rel; cbn; auto 10|]. unfold sp_ok. cbn [p_origin]. eapply resolve_ok; eassumption.
  Qed.

  Definition the_ttl (x : frr) (s : sp) : N :=
    match f_ttl x with Some t => t | None => match p_ttl s with Some t => t | None => 0 end end.

  (* what parse_rr makes of a record entry *)
  Lemma rr_parse st s x ow d :
    rel st s -> sp_ok s -> entry_ok s (FRR x) ->
    match f_owner x with Some o => resolve_owner (p_origin s) o | None => p_owner s end = Some ow ->
    rda_resolve (p_origin s) (f_rd x) = Some d ->
    parse_rr ip (d_origin st) (d_prev_domain st) (d_prev_ttl st) (map dup (entry_toks ip (Some (FRR x))))
    = match f_ttl x with
      | Some t => Ok (to_rr (to_mw ow) (f_type x, d) t)
      | None => with_prev_ttl (p_ttl s) (to_mw ow) (f_type x, d)
      end.
  Proof.
    intros (R1 & R2 & R3 & R4 & R5 & R6) Hs (Hox & Htt & Hk & Hsh & Hrd) How Hd.
    cbn [entry_toks]. rewrite shape_raw_tokens, R1.
    assert (Htd : try_parse_rtype_with_data ip (p_origin s) (dup (show_rtype (f_type x)) :: map dup (rda_toks ip (f_rd x)))
                  = Ok (Some (f_type x, d))).
    { apply (rda_parse ip Hip _ _ _ _ Hs Hk Hrd Hd). rewrite (rda_resolve_shape _ _ _ Hd). exact Hsh. }
    assert (Hown : all_digits (owner_text x) = false /\ leqb (owner_text x) S_IN = false).
    { unfold owner_text. destruct (f_owner x) as [o|]; [|split; reflexivity].
      destruct (oref_text_facts _ _ Hs Hox) as (_ & _ & Hnu & Hd0). split; [exact Hd0|apply (noupper_keywords _ Hnu)]. }
    assert (Httl : all_digits (ttl_text x) = true /\ uint_from_str U32_MAX (ttl_text x) = Some (match f_ttl x with Some t => t | None => 0 end)).
    { unfold ttl_text. destruct (f_ttl x) as [t|]; [|split; reflexivity].
      split; [apply show_dec_all_digits|apply show_dec_parse; [exact Htt|unfold U32_MAX; lia]]. }
    rewrite (parse_rr_forms ip (frr_shape x) (p_origin s) (d_prev_domain st) (d_prev_ttl st)
                            (dup (owner_text x)) (dup (ttl_text x)) (dup (show_rtype (f_type x))) (map dup (rda_toks ip (f_rd x)))
                            _ (f_type x, d) Htd
                            (shape_unambiguous ip _ _ _ _ _ _ (rda_inner_plain ip _ _ Hs Hrd))
                            (proj1 Hown) (proj2 Hown) (proj1 Httl) (proj2 Httl)).
    unfold denote_rr. rewrite has_owner_shape, has_ttl_shape, R2, R3. cbn [fst dup].
    unfold owner_text. destruct (f_owner x) as [o|].
    - rewrite (oref_parse _ _ _ Hs Hox How). cbn [bind]. destruct (f_ttl x); reflexivity.
    - rewrite How. cbn [option_map]. destruct (f_ttl x); reflexivity.
  Qed.

  Lemma shape_soa_iff ty : rtype_known ty = true -> (shape_of_type ty = ShSOA <-> ty = RT_SOA).
  Proof. intros _. split; [apply shape_soa|intros ->; reflexivity]. Qed.

  Lemma to_rr_plain w n ty d ttl : not_soa_data d ->
    to_rr (to_mw (w, n)) (ty, d) ttl = if w then EWildcardRR (mk_rr n ty ttl d) else ERR (mk_rr n ty ttl d).
  Proof.
    intro H. unfold to_rr, to_mw, mk_rr. cbn [fst snd].
    assert (E : match d with RD_SOA _ _ _ _ _ _ minimum => minimum | _ => ttl end = ttl)
      by (destruct d; try reflexivity; exfalso; eapply H; reflexivity).
    rewrite E. destruct w; reflexivity.
  Qed.

  Lemma step_plain st s (w : bool) n ty d ttl :
    rel st s -> not_soa_data d -> ty <> RT_SOA ->
    exists st', deser_step st (if w then EWildcardRR (mk_rr n ty ttl d) else ERR (mk_rr n ty ttl d)) = Ok st' /\
      rel st' {| p_origin := p_origin s; p_owner := Some (w, n); p_ttl := Some ttl; p_soa := p_soa s;
                 p_norm := if w then p_norm s else mk_rr n ty ttl d :: p_norm s;
                 p_wild := if w then mk_rr n ty ttl d :: p_wild s else p_wild s |}.
  Proof.
    intros (R1 & R2 & R3 & R4 & R5 & R6) Hd Hty. destruct w.
    - cbn [deser_step mk_rr rr_type]. rewrite (proj2 (N.eqb_neq _ _) Hty). eexists. split; [reflexivity|].
      unfold rel. cbn. rewrite R1, R4, R5, R6. auto 10.
    - cbn [deser_step mk_rr rr_data rr_name rr_ttl].
      destruct d; try (eexists; split; [reflexivity|]; unfold rel; cbn; rewrite R1, R4, R5, R6; auto 10).
      exfalso. eapply Hd. reflexivity.
  Qed.

  Lemma rr_step st s x s' :
    rel st s -> sp_ok s -> entry_ok s (FRR x) -> denote_entry s (FRR x) = Some s' ->
    exists e' st', parse_rr ip (d_origin st) (d_prev_domain st) (d_prev_ttl st) (map dup (entry_toks ip (Some (FRR x)))) = Ok e' /\
                   deser_step st e' = Ok st' /\ rel st' s' /\ sp_ok s'.
  Proof.
    intros HR Hs He Hd. pose proof HR as (R1 & R2 & R3 & R4 & R5 & R6). pose proof He as (Hox & Htt & Hk & Hsh & Hrd).
    cbn [denote_entry] in Hd.
    destruct (match f_owner x with Some o => resolve_owner (p_origin s) o | None => p_owner s end) as [ow|] eqn:How; [|discriminate].
    destruct (rda_resolve (p_origin s) (f_rd x)) as [d|] eqn:Ed; [|discriminate].
    pose proof (rr_parse st s x ow d HR Hs He How Ed) as Hp.
    pose proof (rda_resolve_shape _ _ _ Ed) as Hshape. rewrite Hsh in Hshape.
    destruct ow as [w n].
    (* every case but the SOA *)
    assert (Hplain : not_soa_data d ->
              match (match f_ttl x with Some t => Some t | None => p_ttl s end) with
              | Some ttl => Some {| p_origin := p_origin s; p_owner := Some (w, n); p_ttl := Some ttl; p_soa := p_soa s;
                                    p_norm := if w then p_norm s else mk_rr n (f_type x) ttl d :: p_norm s;
                                    p_wild := if w then mk_rr n (f_type x) ttl d :: p_wild s else p_wild s |}
              | None => None
              end = Some s' ->
              exists e' st', parse_rr ip (d_origin st) (d_prev_domain st) (d_prev_ttl st) (map dup (entry_toks ip (Some (FRR x)))) = Ok e' /\
                             deser_step st e' = Ok st' /\ rel st' s' /\ sp_ok s').
    { intros Hnd Hd'.
      assert (Hns : f_type x <> RT_SOA).
      { intro F. rewrite F in Hshape. destruct d; cbv in Hshape; try discriminate Hshape. eapply Hnd. reflexivity. }
      destruct (match f_ttl x with Some t => Some t | None => p_ttl s end) as [ttl|] eqn:Ettl; [|discriminate].
      inversion Hd'; subst; clear Hd'.
      assert (Hpe : parse_rr ip (d_origin st) (d_prev_domain st) (d_prev_ttl st) (map dup (entry_toks ip (Some (FRR x))))
                    = Ok (to_rr (to_mw (w, n)) (f_type x, d) ttl)).
      { rewrite Hp. destruct (f_ttl x) as [t|]; [inversion Ettl; reflexivity|]. unfold with_prev_ttl. rewrite Ettl. reflexivity. }
      rewrite (to_rr_plain w n (f_type x) d ttl Hnd) in Hpe.
      destruct (step_plain st s w n (f_type x) d ttl HR Hnd Hns) as (st' & Hst & Hrel).
      eexists. exists st'. split; [exact Hpe|]. split; [exact Hst|]. split; [exact Hrel|exact Hs]. }
    destruct d as [a|nn|m r a b c e f|os|rm em|p ex|g|p wg po tg];
      try (apply Hplain; [intros ? ? ? ? ? ? ? F; discriminate F|exact Hd]).
    (* the SOA *)
    assert (Hty : f_type x = RT_SOA).
    { cbn [shape_of_rdata] in Hshape. symmetry in Hshape. apply shape_soa in Hshape. exact Hshape. }
    destruct w; cbn [fst snd] in Hd; [discriminate|].
    destruct (p_soa s) eqn:Eso; [discriminate|]. inversion Hd; subst; clear Hd.
    assert (Hpe : parse_rr ip (d_origin st) (d_prev_domain st) (d_prev_ttl st) (map dup (entry_toks ip (Some (FRR x))))
                  = Ok (ERR (mk_rr n (f_type x) f (RD_SOA m r a b c e f)))).
    { rewrite Hp, Hty.
      destruct (f_ttl x) as [t|]; [reflexivity|]. unfold with_prev_ttl. destruct (p_ttl s); [reflexivity|].
      cbn [fst]. change (RT_SOA =? RT_SOA) with true. reflexivity. }
    eexists; eexists; split; [exact Hpe|]. cbn [deser_step mk_rr rr_data rr_name]. rewrite R4.
    split; [reflexivity|]. split; [|exact Hs]. unfold rel. cbn. rewrite R1, R5, R6. auto 10.
  Qed.
End Steps.

(* ====================================================================== *)
(* files                                                                   *)
(* ====================================================================== *)

(* one line: an entry or none, laid out anyhow, and how the line ends *)
Record fline := { l_entry : option fentry; l_items : list item; l_term : terminator }.

Definition nl_term (t : terminator) : bool := match t with TNl | TCommentNl _ => true | _ => false end.

Fixpoint render (ls : list fline) : list N :=
  match ls with
  | [] => []
  | l :: t => items_text (l_items l) ++ terminator_text (l_term l) (render t)
  end.

Fixpoint denote_lines (s : sp) (ls : list fline) : option sp :=
  match ls with
  | [] => Some s
  | l :: t => match l_entry l with
              | None => denote_lines s t
              | Some e => match denote_entry s e with Some s' => denote_lines s' t | None => None end
              end
  end.

Definition sp_apex (s : sp) : dname := match p_soa s with Some (a, _) => a | None => root_domain end.
Definition sp_soa (s : sp) : option soa := match p_soa s with Some (_, so) => Some so | None => None end.
Definition sp_ops (s : sp) : list zop := map (op_of_rr false) (rev (p_norm s)) ++ map (op_of_rr true) (rev (p_wild s)).

(* the zone a file denotes: apex and SOA as found (the root and none otherwise), and the records
   as a list of insertions -- its content is flat_of_ops of Zone/ZoneFlat.v, which raises every TTL
   to the SOA minimum; no zone if a record lies outside the apex *)
Definition denote (ls : list fline) : option (dname * option soa * list zop) :=
  match denote_lines sp_init ls with
  | Some s => if forallb (fun r => is_subdomain_of (rr_name r) (sp_apex s)) (p_norm s ++ p_wild s)
              then Some (sp_apex s, sp_soa s, sp_ops s) else None
  | None => None
  end.

Section Files.
  Variable ip : ipcodec.
  Hypothesis Hip : codec_rt ip.

  (* the layout of a line is in the layout family and carries exactly the entry's tokens *)
  Definition line_ok (l : fline) : Prop :=
    layout_ok false false (l_items l) = Some false /\ terminator_ok (l_term l) = true /\
    map wtoken_octets (items_tokens (l_items l)) = entry_toks ip (l_entry l).

  Fixpoint lines_ok (s : sp) (ls : list fline) : Prop :=
    match ls with
    | [] => True
    | l :: t => line_ok l /\ (t <> [] -> nl_term (l_term l) = true) /\
                match l_entry l with
                | None => lines_ok s t
                | Some e => entry_ok s e /\ match denote_entry s e with Some s' => lines_ok s' t | None => True end
                end
    end.

  (* ---- names stay expressible ---- *)
  Definition sp_names (s : sp) : Prop :=
    match p_owner s with Some ow => name_ok (snd ow) | None => True end /\
    Forall (fun r => name_ok (rr_name r)) (p_norm s) /\ Forall (fun r => name_ok (rr_name r)) (p_wild s) /\
    match p_soa s with Some (a, _) => name_ok a | None => True end.

  Lemma resolve_owner_ok o x ow : origin_ok o -> oref_ok o x -> resolve_owner o x = Some ow -> name_ok (snd ow).
  Proof.
    intros Ho Hx H. destruct x as [r| |r]; cbn [oref_ok resolve_owner] in *.
    - destruct Hx as (Hr & _). destruct (resolve o r) as [n|] eqn:En; [|discriminate]. inversion H; subst.
      apply star_rule_ok. eapply resolve_ok; eassumption.
    - destruct o as [og|]; [|discriminate]. inversion H; subst. exact Ho.
    - destruct (resolve o r) as [n|] eqn:En; [|discriminate]. inversion H; subst. eapply resolve_ok; eassumption.
  Qed.

  Lemma denote_entry_names s e s' : sp_ok s -> sp_names s -> entry_ok s e -> denote_entry s e = Some s' -> sp_names s'.
  Proof.
    intros Hs (N1 & N2 & N3 & N4) He Hd. destruct e as [r|x]; cbn [denote_entry entry_ok] in *.
    - destruct (resolve (p_origin s) r); [|discriminate]. inversion Hd; subst. unfold sp_names. cbn. auto.
    - destruct He as (Hox & _).
      destruct (match f_owner x with Some o => resolve_owner (p_origin s) o | None => p_owner s end) as [ow|] eqn:How; [|discriminate].
      assert (Hown : name_ok (snd ow)).
      { destruct (f_owner x) as [o|]; [eapply resolve_owner_ok; eassumption|]. rewrite How in N1. exact N1. }
      destruct (rda_resolve (p_origin s) (f_rd x)) as [d|]; [|discriminate].
      assert (Hpush : forall ttl d',
                 sp_names {| p_origin := p_origin s; p_owner := Some ow; p_ttl := Some ttl; p_soa := p_soa s;
                             p_norm := if fst ow then p_norm s else mk_rr (snd ow) (f_type x) ttl d' :: p_norm s;
                             p_wild := if fst ow then mk_rr (snd ow) (f_type x) ttl d' :: p_wild s else p_wild s |}).
      { intros ttl d'. unfold sp_names. cbn [p_owner p_norm p_wild p_soa]. split; [exact Hown|]. destruct (fst ow).
        - split; [exact N2|]. split; [constructor; [exact Hown|exact N3]|exact N4].
        - split; [constructor; [exact Hown|exact N2]|]. split; [exact N3|exact N4]. }
      destruct d;
        try (destruct (match f_ttl x with Some t => Some t | None => p_ttl s end); [|discriminate];
             inversion Hd; subst; apply Hpush).
      destruct (fst ow); [discriminate|]. destruct (p_soa s); [discriminate|]. inversion Hd; subst.
      unfold sp_names. cbn [p_owner p_norm p_wild p_soa]. auto.
  Qed.

  (* ---- one line ---- *)

  Lemma parse_entry_skip o pd pt s rest : tokenise_entry s = Ok ([], rest) ->
    parse_entry ip o pd pt s = parse_entry ip o pd pt rest.
  Proof.
    intro Ht. unfold parse_entry. destruct rest as [|c r].
    - cbn [parse_entry_loop]. rewrite Ht. reflexivity.
    - transitivity (parse_entry_loop ip s o pd pt (c :: r)).
      + cbn [parse_entry_loop]. rewrite Ht. reflexivity.
      + apply tokenise_entry_rest in Ht as [[_ F]|Hlt]; [discriminate|].
        apply parse_entry_loop_fuel; cbn [length] in *; lia.
  Qed.

  Lemma line_tokens l rest : line_ok l -> (rest <> [] -> nl_term (l_term l) = true) ->
    tokenise_entry (items_text (l_items l) ++ terminator_text (l_term l) rest)
    = Ok (map dup (entry_toks ip (l_entry l)), rest).
  Proof.
    intros (Hl & Ht & Htok) Hnl. rewrite (tokenise_render _ _ _ Hl Ht), Htok. f_equal. f_equal.
    destruct (l_term l); cbn [terminator_rest nl_term] in *; try reflexivity;
      (destruct rest; [reflexivity|]; exfalso; specialize (Hnl ltac:(discriminate)); discriminate).
  Qed.

  Lemma first_not_keyword s x : sp_ok s -> entry_ok s (FRR x) ->
    match entry_toks ip (Some (FRR x)) with
    | t0 :: _ => leqb t0 S_ORIGIN = false /\ leqb t0 S_INCLUDE = false
    | [] => False
    end.
  Proof.
    intros Hs (Hox & Htt & Hk & _).
    assert (Ko : f_owner x <> None -> leqb (owner_text x) S_ORIGIN = false /\ leqb (owner_text x) S_INCLUDE = false).
    { unfold owner_text. destruct (f_owner x) as [o|]; [|contradiction]. intros _.
      destruct (oref_text_facts _ _ Hs Hox) as (_ & _ & Hnu & _). destruct (noupper_keywords _ Hnu) as (A & B & _). auto. }
    assert (Kt : leqb (ttl_text x) S_ORIGIN = false /\ leqb (ttl_text x) S_INCLUDE = false).
    { assert (Hd : all_digits (ttl_text x) = true) by (unfold ttl_text; destruct (f_ttl x); [apply show_dec_all_digits|reflexivity]).
      split; apply leqb_false; intro E; rewrite E in Hd; discriminate. }
    assert (Ky : leqb (show_rtype (f_type x)) S_ORIGIN = false /\ leqb (show_rtype (f_type x)) S_INCLUDE = false).
    { apply known_cases in Hk. unfold known_types in Hk.
      repeat (destruct Hk as [<-|Hk]; [split; reflexivity|]). destruct Hk. }
    cbn [entry_toks]. unfold frr_shape.
    destruct (f_owner x) as [o|] eqn:Eo; destruct (f_ttl x), (f_class x), (f_ttl_first x); cbn [shape_raw];
      first [apply Ko; discriminate | exact Kt | exact Ky | split; reflexivity].
  Qed.

  (* ---- the whole file: the loop ---- *)

  Lemma lines_run : forall ls st s s_fin fuel,
    rel st s -> sp_ok s -> sp_names s -> lines_ok s ls -> denote_lines s ls = Some s_fin ->
    (length (render ls) < length fuel)%nat ->
    exists st_fin, deser_loop ip fuel st (render ls) = Ok st_fin /\ rel st_fin s_fin /\ sp_names s_fin.
  Proof.
    induction ls as [|l t IH]; intros st s s_fin fuel HR Hs Hn Hok Hd Hlen.
    - cbn [denote_lines render] in *. inversion Hd; subst. destruct fuel as [|f fuel]; [cbn [length] in Hlen; lia|].
      exists st. split; [reflexivity|auto].
    - cbn [lines_ok denote_lines render] in *. destruct Hok as (Hline & Hnl & Hrest).
      assert (Hnl' : render t <> [] -> nl_term (l_term l) = true).
      { intro H. apply Hnl. intro E. subst t. apply H. reflexivity. }
      pose proof (line_tokens l (render t) Hline Hnl') as Htok.
      destruct fuel as [|f fuel]; [cbn [length] in Hlen; lia|].
      pose proof HR as (R1 & R2 & R3 & R4 & R5 & R6).
      destruct (l_entry l) as [e|] eqn:Ee.
      + (* an entry *)
        destruct Hrest as [He Hrest]. destruct (denote_entry s e) as [s'|] eqn:Ede; [|discriminate].
        assert (Hstep : exists e' st', parse_entry ip (d_origin st) (d_prev_domain st) (d_prev_ttl st)
                                          (items_text (l_items l) ++ terminator_text (l_term l) (render t)) = Ok (Some e', render t) /\
                                       deser_step st e' = Ok st' /\ rel st' s' /\ sp_ok s').
        { destruct e as [r|x].
          - destruct (origin_step ip st s r s' HR Hs He Ede) as (e' & st' & Hp & Hst & Hrel & Hs').
            exists e', st'. split; [|auto]. unfold parse_entry. cbn [parse_entry_loop]. rewrite Htok.
            cbn [entry_toks map bind fst snd is_nil idx nth_error dup]. change (leqb S_ORIGIN S_ORIGIN) with true. cbn iota.
            cbn [entry_toks map] in Hp. rewrite Hp. reflexivity.
          - destruct (rr_step ip Hip st s x s' HR Hs He Ede) as (e' & st' & Hp & Hst & Hrel & Hs').
            exists e', st'. split; [|auto]. unfold parse_entry. cbn [parse_entry_loop]. rewrite Htok.
            pose proof (first_not_keyword s x Hs He) as Hk.
            destruct (entry_toks ip (Some (FRR x))) as [|t0 toks] eqn:Et; [destruct Hk|]. destruct Hk as [K1 K2].
            cbn [map bind fst snd is_nil idx nth_error dup]. rewrite K1, K2. cbn [map] in Hp. rewrite Hp. reflexivity. }
        destruct Hstep as (e' & st' & Hp & Hst & Hrel & Hs').
        rewrite deser_loop_unfold, Hp. cbn [bind fst snd]. rewrite Hst. cbn [bind].
        apply (IH st' s' s_fin fuel Hrel Hs' (denote_entry_names s e s' Hs Hn He Ede) Hrest Hd).
        (* the rest is shorter than the text *)
        assert (Hshort : (length (render t) < length (items_text (l_items l) ++ terminator_text (l_term l) (render t)))%nat).
        { apply tokenise_entry_rest in Htok as [[E _]|H]; [|exact H]. exfalso.
          unfold parse_entry in Hp. rewrite E in Hp. cbn in Hp. discriminate. }
        cbn [length] in Hlen. lia.
      + (* a blank or comment-only line *)
        cbn [entry_toks map] in Htok.
        assert (Hskip : deser_loop ip (f :: fuel) st (items_text (l_items l) ++ terminator_text (l_term l) (render t))
                        = deser_loop ip (f :: fuel) st (render t)).
        { rewrite !deser_loop_unfold, (parse_entry_skip _ _ _ _ _ Htok). reflexivity. }
        rewrite Hskip. apply (IH st s s_fin (f :: fuel) HR Hs Hn Hrest Hd).
        apply tokenise_entry_rest in Htok as [[E1 E2]|H]; [rewrite E2; cbn [length]; lia|lia].
  Qed.

  (* C11.3 parse_denotes: a file of the abstract syntax, laid out anyhow in the layout family, is
     read as the zone it denotes: same apex, same SOA, and the record tree represents (relation R)
     the flat zone made of the denoted records *)
  Theorem parse_denotes ls apex so ops :
    lines_ok sp_init ls -> denote ls = Some (apex, so, ops) ->
    exists z, deserialise ip (render ls) = Ok z /\ z_apex z = apex /\ z_soa z = so /\
              zone_build apex so ops = Ok z /\ R (labels apex) (z_records z) (flat_of_ops apex so ops).
  Proof.
    intros Hok Hd. unfold denote in Hd.
    destruct (denote_lines sp_init ls) as [s|] eqn:El; [|discriminate].
    destruct (forallb (fun r => is_subdomain_of (rr_name r) (sp_apex s)) (p_norm s ++ p_wild s)) eqn:Eu; [|discriminate].
    inversion Hd; subst; clear Hd.
    assert (Hn0 : sp_names sp_init) by (unfold sp_names, sp_init; cbn; auto).
    destruct (lines_run ls dstate_init sp_init s (0 :: render ls) rel_init I Hn0 Hok El ltac:(cbn [length]; lia))
      as (st & Hloop & (R1 & R2 & R3 & R4 & R5 & R6) & (N1 & N2 & N3 & N4)).
    rewrite forallb_forall in Eu.
    destruct (assemble_build st (sp_apex s) (sp_soa s) (rev (p_norm s)) (rev (p_wild s))) as (z & Hz & Ha & Hs & Hb & HR).
    - rewrite R4. unfold sp_apex, sp_soa. destruct (p_soa s) as [[a so]|]; reflexivity.
    - unfold sp_apex, sp_soa. destruct (p_soa s) as [[a so]|]; [discriminate|reflexivity].
    - rewrite rev_involutive. exact R5.
    - rewrite rev_involutive. exact R6.
    - unfold sp_apex. destruct (p_soa s) as [[a so]|]; [apply N4|apply root_wf].
    - intros r Hr. split.
      + apply in_app_or in Hr as [Hr|Hr]; apply in_rev in Hr; [rewrite Forall_forall in N2; apply (N2 r Hr)|rewrite Forall_forall in N3; apply (N3 r Hr)].
      + apply Eu. apply in_app_or in Hr as [Hr|Hr]; apply in_rev in Hr; apply in_or_app; auto.
    - exists z. unfold deserialise. rewrite Hloop. cbn [bind]. auto.
  Qed.
End Files.

(* ====================================================================== *)
(* validity is decidable: an executable checker, sound for [lines_ok]       *)
(* ====================================================================== *)

Definition label_okb (l : label) : bool :=
  negb (is_nil l) && (llen l <=? 63) && forallb (fun b => (b <? 128) && negb (b =? 46) && negb (is_upper b)) l.

Definition name_okb (n : dname) : bool :=
  match rev (labels n) with
  | [] :: rfront => forallb label_okb rfront && (sum_lens (labels n) <=? 255) && (nlen n =? sum_lens (labels n))
  | _ => false
  end.

Lemma label_okb_sound l : label_okb l = true -> (l <> [] /\ wf_label l) /\ ascii_label l.
Proof.
  unfold label_okb. intro H. apply andb_true_iff in H as [H H3]. apply andb_true_iff in H as [H1 H2].
  apply N.leb_le in H2. rewrite forallb_forall in H3.
  assert (Hb : forall b, In b l -> b < 128 /\ b <> 46 /\ is_upper b = false).
  { intros b Hb. specialize (H3 b Hb). apply andb_true_iff in H3 as [H3 Hu]. apply andb_true_iff in H3 as [Ha Hd].
    apply N.ltb_lt in Ha. apply negb_true_iff in Hd. apply N.eqb_neq in Hd. apply negb_true_iff in Hu. auto. }
  split; [split|].
  - destruct l; [discriminate|discriminate].
  - split; [exact H2|]. apply Forall_forall. intros b Hin. destruct (Hb b Hin) as (A & _ & C). split; [lia|exact C].
  - unfold ascii_label. apply Forall_forall. intros b Hin. destruct (Hb b Hin) as (A & B & _). auto.
Qed.

Lemma name_okb_sound n : name_okb n = true -> name_ok n.
Proof.
  unfold name_okb. destruct (rev (labels n)) as [|l0 rfront] eqn:Er; [discriminate|]. destruct l0; [|discriminate].
  intro H. apply andb_true_iff in H as [H H3]. apply andb_true_iff in H as [H1 H2].
  apply N.leb_le in H2. apply N.eqb_eq in H3. rewrite forallb_forall in H1.
  assert (El : labels n = rev rfront ++ [[]]).
  { rewrite <- (rev_involutive (labels n)), Er. reflexivity. }
  assert (Hall : forall l, In l (rev rfront) -> (l <> [] /\ wf_label l) /\ ascii_label l).
  { intros l Hl. apply label_okb_sound, H1. apply in_rev. exact Hl. }
  split.
  - split; [|exact H3]. exists (rev rfront). split; [exact El|]. split; [|exact H2].
    apply Forall_forall. intros l Hl. apply (Hall l Hl).
  - unfold ascii_nodot. rewrite El. apply Forall_app. split; [|repeat constructor].
    apply Forall_forall. intros l Hl. apply (Hall l Hl).
Qed.

Definition origin_okb (o : option dname) : bool := match o with Some og => name_okb og | None => true end.

Definition nref_okb (o : option dname) (r : nref) : bool :=
  match r with
  | NAbs n => name_okb n
  | NRel pre => negb (is_nil pre) && negb (leqb (join_dots pre) S_AT) &&
                match o with Some og => name_okb (mkname (pre ++ labels og)) | None => false end
  | NAt => match o with Some _ => true | None => false end
  end.

Lemma nref_okb_sound o r : nref_okb o r = true -> nref_ok o r.
Proof.
  destruct r as [n|pre|]; cbn [nref_okb nref_ok].
  - apply name_okb_sound.
  - intro H. apply andb_true_iff in H as [H H3]. apply andb_true_iff in H as [H1 H2].
    split; [destruct pre; [discriminate|discriminate]|]. split.
    + intro E. rewrite E in H2. discriminate.
    + destruct o; [apply name_okb_sound; exact H3|discriminate].
  - destruct o; [discriminate|discriminate].
Qed.

Definition star_prefixed (s : list N) : bool :=
  match s with c0 :: c1 :: _ => (c0 =? 42) && (c1 =? 46) | _ => false end.

Definition oref_okb (o : option dname) (x : oref) : bool :=
  match x with
  | OName r => nref_okb o r && negb (leqb (nref_text r) S_STAR) && negb (star_prefixed (nref_text r)) && negb (all_digits (nref_text r))
  | OStar => match o with Some _ => true | None => false end
  | OWild r => nref_okb o r
  end.

Lemma oref_okb_sound o x : oref_okb o x = true -> oref_ok o x.
Proof.
  destruct x as [r| |r]; cbn [oref_okb oref_ok].
  - intro H. apply andb_true_iff in H as [H H4]. apply andb_true_iff in H as [H H3]. apply andb_true_iff in H as [H1 H2].
    split; [apply nref_okb_sound; exact H1|]. split; [intro E; rewrite E in H2; discriminate|]. split.
    + intros t E. rewrite E in H3. cbn in H3. discriminate.
    + apply negb_true_iff. exact H4.
  - destruct o; [discriminate|discriminate].
  - apply nref_okb_sound.
Qed.

Definition u32b (x : N) : bool := x <? 4294967296.
Definition u16b (x : N) : bool := x <? 65536.

Definition rda_okb (o : option dname) (x : rda) : bool :=
  match x with
  | A_A a => u32b a
  | A_Name r => nref_okb o r
  | A_SOA m r a b c d e => nref_okb o m && nref_okb o r && u32b a && u32b b && u32b c && u32b d && u32b e
  | A_Octets os => forallb (fun b => b <? 256) os
  | A_MINFO r e => nref_okb o r && nref_okb o e
  | A_MX p e => u16b p && nref_okb o e
  | A_AAAA g => Nat.eqb (length g) 8 && forallb u16b g
  | A_SRV p w po t => u16b p && u16b w && u16b po && nref_okb o t
  end.

Lemma rda_okb_sound o x : rda_okb o x = true -> rda_ok o x.
Proof.
  destruct x; cbn [rda_okb rda_ok]; unfold u32b, u16b; intro H;
    repeat match goal with H : (_ && _) = true |- _ => apply andb_true_iff in H; destruct H end;
    repeat match goal with H : (_ <? _) = true |- _ => apply N.ltb_lt in H end;
    repeat match goal with H : nref_okb _ _ = true |- _ => apply nref_okb_sound in H end;
    auto 10.
  - unfold octets. apply Forall_forall. rewrite forallb_forall in H. intros b Hb. apply N.ltb_lt, H, Hb.
  - split; [apply PeanoNat.Nat.eqb_eq; assumption|]. apply Forall_forall.
    match goal with H : forallb _ _ = true |- _ => rewrite forallb_forall in H; intros b Hb; apply N.ltb_lt, H, Hb end.
Qed.

Definition shape_eq_b (a b : shape) : bool := shape_eqb a b.

Lemma shape_eqb_sound a b : shape_eqb a b = true -> a = b.
Proof. destruct a, b; cbn; intro H; try reflexivity; discriminate. Qed.

Definition entry_okb (s : sp) (e : fentry) : bool :=
  match e with
  | FOrigin r => nref_okb (p_origin s) r
  | FRR x =>
    match f_owner x with Some o => oref_okb (p_origin s) o | None => true end &&
    match f_ttl x with Some t => u32b t | None => true end &&
    rtype_known (f_type x) && shape_eqb (rda_shape (f_rd x)) (shape_of_type (f_type x)) && rda_okb (p_origin s) (f_rd x)
  end.

Lemma entry_okb_sound s e : entry_okb s e = true -> entry_ok s e.
Proof.
  destruct e as [r|x]; cbn [entry_okb entry_ok]; [apply nref_okb_sound|].
  intro H. repeat match goal with H : (_ && _) = true |- _ => apply andb_true_iff in H; destruct H end.
  split; [destruct (f_owner x); [apply oref_okb_sound; assumption|exact I]|].
  split; [destruct (f_ttl x); [unfold u32b in *; apply N.ltb_lt; assumption|exact I]|].
  split; [assumption|]. split; [apply shape_eqb_sound; assumption|apply rda_okb_sound; assumption].
Qed.

Fixpoint lleqb2 (a b : list (list N)) : bool :=
  match a, b with
  | [], [] => true
  | x :: a', y :: b' => leqb x y && lleqb2 a' b'
  | _, _ => false
  end.
Lemma lleqb2_eq a b : lleqb2 a b = true -> a = b.
Proof.
  revert b; induction a as [|x a IH]; intros [|y b]; cbn [lleqb2]; intro H; try reflexivity; try discriminate.
  apply andb_true_iff in H as [H1 H2]. apply leqb_eq in H1. rewrite H1, (IH b H2). reflexivity.
Qed.

Section Checker.
  Variable ip : ipcodec.

  Definition line_okb (l : fline) : bool :=
    match layout_ok false false (l_items l) with Some false => true | _ => false end
    && terminator_ok (l_term l)
    && lleqb2 (map wtoken_octets (items_tokens (l_items l))) (entry_toks ip (l_entry l)).

  Fixpoint lines_okb (s : sp) (ls : list fline) : bool :=
    match ls with
    | [] => true
    | l :: t => line_okb l && (is_nil t || nl_term (l_term l)) &&
                match l_entry l with
                | None => lines_okb s t
                | Some e => entry_okb s e && match denote_entry s e with Some s' => lines_okb s' t | None => true end
                end
    end.

  Lemma lines_okb_sound : forall ls s, lines_okb s ls = true -> lines_ok ip s ls.
  Proof.
    induction ls as [|l t IH]; intros s H; [exact I|]. cbn [lines_okb lines_ok] in *.
    apply andb_true_iff in H as [H H3]. apply andb_true_iff in H as [H1 H2].
    split; [|split].
    - unfold line_okb in H1. apply andb_true_iff in H1 as [H1 Hc]. apply andb_true_iff in H1 as [Ha Hb].
      split; [destruct (layout_ok false false (l_items l)) as [[|]|]; try discriminate; reflexivity|].
      split; [exact Hb|apply lleqb2_eq; exact Hc].
    - intro Hne. destruct t; [contradiction|]. exact H2.
    - destruct (l_entry l) as [e|]; [|apply IH; exact H3].
      apply andb_true_iff in H3 as [He Hr]. split; [apply entry_okb_sound; exact He|].
      destruct (denote_entry s e); [apply IH; exact Hr|exact I].
  Qed.
End Checker.
