(* ZoneFile/ZoneParseDenotes.v -- C11.3 parse_denotes: Zone::deserialise on a rendered abstract
   file yields the zone the file denotes.

   The abstract syntax (specification side; nothing here mentions the parser's control flow):
     nref     a name as written: absolute, relative to the origin, or "@"
     oref     an owner as written: a name, "*", or "*.<name>"
     rda      RDATA with its names as written
     frr      a record entry: optional owner, optional TTL, optional class IN, their order, type, RDATA
              (the ten field shapes of RFC 1035 5.1)
     fentry   "$ORIGIN <name>" or a record
     fline    one entry -- or none: a blank or comment-only line -- in ANY layout of the layout
              family of ZoneFileSpec.v (runs of white space, \X and \DDD escapes per octet, quoted
              tokens, parenthesised groups spanning lines, comments), ended by a newline, a comment,
              or the end of the input
   [denote]: origin tracking, "@" and relative names against the current origin, owner and TTL
   inherited from the previous record (wildcard-ness included; the TTL as loaded: D3), the SOA
   making the zone authoritative at its owner with TTL = MINIMUM, an owner expanding to "*.x"
   being the wildcard at x (fix 0286676), TTLs raised to the SOA minimum (by flat_of_ops).
   [render]: the text.   Spelling is canonical (names lower-case, numbers and addresses as
   Display prints them); the LAYOUT is arbitrary.

     parse_denotes : valid f -> deserialise (render f) = Ok z /\ z represents (denote f) *)
From Coq Require Import Permutation.
Set Default Timeout 120.
From RV Require Import Base.Prelude Name.NameModel Name.NameSpec Name.NameProofs Wire.WireTypes
     Zone.ZoneModel Zone.ZoneFlat Zone.ZoneProofs
     ZoneFile.ZoneFileModel ZoneFile.ZoneFileSpec ZoneFile.ZoneSerialiseModel
     ZoneFile.ZoneFileProofs ZoneFile.ZoneSerialiseProofs ZoneFile.ZoneRtLines ZoneFile.ZoneRtLoop.

(* ====================================================================== *)
(* names as written                                                        *)
(* ====================================================================== *)

Inductive nref := NAbs (n : dname) | NRel (pre : list label) | NAt.

Definition nref_text (r : nref) : list N :=
  match r with NAbs n => to_dotted_string n | NRel pre => join_dots pre | NAt => S_AT end.

(* what the name means under the current origin *)
Definition resolve (o : option dname) (r : nref) : option dname :=
  match r with
  | NAbs n => Some n
  | NRel pre => match o with Some og => Some (mkname (pre ++ labels og)) | None => None end
  | NAt => o
  end.

Definition nref_ok (o : option dname) (r : nref) : Prop :=
  match r with
  | NAbs n => name_ok n
  | NRel pre => pre <> [] /\ join_dots pre <> S_AT /\
                match o with Some og => name_ok (mkname (pre ++ labels og)) | None => False end
  | NAt => o <> None
  end.

Lemma mkname_mk front : mkname (front ++ [[]]) = mk front.
Proof. reflexivity. Qed.

(* a relative name under the root origin *)
Lemma parse_domain_rel_root pre : name_ok (mk pre) -> pre <> [] -> join_dots pre <> S_AT ->
  parse_domain (Some root_domain) (join_dots pre) = Ok (mk pre).
Proof.
  intros Hn Hpne Hat.
  destruct (name_ok_dest _ Hn) as (nf & En & Hnf & Hna & _). apply mk_inj in En. subst nf.
  pose proof (front_lc _ Hnf Hna) as Hlc. pose proof (join_dots_forall lc pre lc_46 Hlc) as Htxt.
  destruct (exists_last Hpne) as (p & l & Ep).
  assert (Hl : l <> [] /\ ~ In 46 l).
  { unfold good_front in Hnf. rewrite Ep in Hnf, Hna. apply Forall_app in Hnf as [_ Hnf]. apply Forall_app in Hna as [_ Hna].
    apply Forall_cons_iff in Hnf as [[Hne _] _]. apply Forall_cons_iff in Hna as [Hal _].
    split; [exact Hne|apply ascii_label_nodot; exact Hal]. }
  destruct Hl as [Hlne Hlnd]. destruct (exists_last Hlne) as (l' & c & El).
  assert (Hc : c <> 46) by (intro; subst c; apply Hlnd; rewrite El; apply in_or_app; right; left; reflexivity).
  assert (Etxt : join_dots pre = (dotjoin p ++ l') ++ [c]).
  { rewrite Ep, join_dots_snoc, El, app_assoc. reflexivity. }
  unfold parse_domain.
  assert (E1 : is_nil (join_dots pre) = false) by (rewrite Etxt; destruct (dotjoin p ++ l'); reflexivity).
  rewrite E1, (lc_ascii _ Htxt), (leqb_false _ _ Hat). cbn [negb]. unfold last_char. rewrite Etxt at 1. rewrite last_opt_snoc. cbn [bind].
  rewrite (proj2 (N.eqb_neq c 46) Hc).
  rewrite from_rel_nonempty by (rewrite Etxt; destruct (dotjoin p ++ l'); discriminate).
  assert (Eed : ends_with_dot (join_dots pre) = false) by (rewrite Etxt; apply ends_with_dot_snoc; exact Hc).
  rewrite Eed. change (to_dotted_string root_domain) with [46]. change (starts_dot [46]) with true. cbn iota.
  replace (join_dots pre ++ [46]) with (dotjoin pre) by (rewrite (join_dots_dot pre [] Hpne), app_nil_r; reflexivity).
  pose proof (dotted_roundtrip _ (proj1 Hn) (proj2 Hn)) as Ed.
  rewrite (to_dotted_mk _ Hnf Hpne) in Ed. unfold label, byte in *. rewrite Ed. reflexivity.
Qed.

(* what is written is read back as what it means *)
Lemma nref_parse o r n : match o with Some og => name_ok og | None => True end ->
  nref_ok o r -> resolve o r = Some n -> parse_domain o (nref_text r) = Ok n.
Proof.
  intros Ho Hr Hn. destruct r as [m|pre|]; cbn [nref_ok resolve nref_text] in *.
  - inversion Hn; subst. apply parse_domain_abs. exact Hr.
  - destruct Hr as (Hpne & Hat & Hok). destruct o as [og|]; [|destruct Hok]. inversion Hn; subst. clear Hn.
    destruct (name_ok_dest _ Ho) as (af & -> & Haf & _). cbn [mk labels] in *.
    rewrite app_assoc in *. rewrite mkname_mk in *.
    destruct af as [|a0 af'] eqn:Ea.
    + rewrite app_nil_r in *. apply parse_domain_rel_root; assumption.
    + rewrite <- Ea in *. apply parse_domain_rel; try assumption. subst; discriminate.
  - subst o. apply parse_domain_at.
Qed.

Lemma nref_text_lc o r : match o with Some og => name_ok og | None => True end -> nref_ok o r ->
  nref_text r <> [] /\ Forall lc (nref_text r).
Proof.
  intros Ho Hr. destruct r as [m|pre|]; cbn [nref_ok nref_text] in *.
  - destruct (to_dotted_last m Hr) as [X E]. split; [rewrite E; destruct X; discriminate|apply to_dotted_lc; exact Hr].
  - destruct Hr as (Hpne & _ & Hok). destruct o as [og|]; [|destruct Hok].
    destruct (name_ok_dest _ Ho) as (af & -> & _). cbn [mk labels] in Hok. rewrite app_assoc, mkname_mk in Hok.
    destruct (name_ok_dest _ Hok) as (nf & En & Hnf & Hna & _). apply mk_inj in En. subst nf.
    pose proof (front_lc _ Hnf Hna) as Hlc. apply Forall_app in Hlc as [Hlcp _]. split.
    + destruct pre as [|l0 p]; [contradiction|]. unfold good_front in Hnf. cbn [app] in Hnf. apply Forall_cons_iff in Hnf as [[Hl0 _] _].
      destruct l0; [contradiction|]. cbn [join_dots]. destruct p; discriminate.
    + apply join_dots_forall; [apply lc_46|exact Hlcp].
  - split; [discriminate|]. constructor; [split; [lia|reflexivity]|constructor].
Qed.

Lemma resolve_ok o r n : match o with Some og => name_ok og | None => True end ->
  nref_ok o r -> resolve o r = Some n -> name_ok n.
Proof.
  intros Ho Hr Hn. destruct r as [m|pre|]; cbn [nref_ok resolve] in *.
  - inversion Hn; subst. exact Hr.
  - destruct o as [og|]; [|discriminate]. inversion Hn; subst. apply Hr.
  - subst o. exact Ho.
Qed.
