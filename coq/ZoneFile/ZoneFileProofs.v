(* ZoneFile/ZoneFileProofs.v -- proofs about ZoneFile/ZoneFileModel.v.
   Part 1 (C17): totality -- the tokeniser and the whole parser return Ok or Err for
   every list of scalar values, never Panic, never OutOfFuel.
   Part 2 (C11): tokenise_render, parse_rr_forms, rejection lemmas, soa_raises_ttls. *)
From RV Require Import Base.Prelude Name.NameModel Name.NameSpec Name.NameProofs
     Wire.WireTypes Zone.ZoneModel ZoneFile.ZoneFileModel ZoneFile.ZoneFileSpec.

(* ====================================================================== *)
(* Part 1: totality                                                        *)
(* ====================================================================== *)

Definition total {E A} (r : res E A) : Prop :=
  match r with Ok _ | Err _ => True | Panic | OutOfFuel => False end.

Lemma total_ok {E A} (a : A) : total (@Ok E A a).
Proof. exact I. Qed.
Lemma total_err {E A} (e : E) : total (@Err E A e).
Proof. exact I. Qed.

Lemma bind_total {E A B} (r : res E A) (f : A -> res E B) :
  total r -> (forall a, r = Ok a -> total (f a)) -> total (bind r f).
Proof. destruct r; cbn; intros H Hf; try contradiction; [apply Hf; reflexivity | exact I]. Qed.

Lemma of_opt_total {E A} (o : option A) (e : E) : total (of_opt o e).
Proof. destruct o; exact I. Qed.

Lemma opt_of_res_total {E A} (r : res E A) : total r -> total (opt_of_res r).
Proof. destruct r; cbn; auto. Qed.

(* ---- small list facts ---- *)

Lemma len_ge_S {A} n (l : list A) : len_ge (S n) l = true -> len_ge n l = true.
Proof.
  revert l; induction n as [|n IH]; intros l H; [reflexivity|].
  destruct l as [|x t]; [discriminate|]. cbn [len_ge] in *. apply IH. exact H.
Qed.

Lemma len_ge_spec {A} n (l : list A) : len_ge n l = true <-> (n <= length l)%nat.
Proof.
  revert l; induction n as [|n IH]; intros l; cbn [len_ge]; [split; [lia|reflexivity]|].
  destruct l as [|x t]; cbn [length]; [split; [discriminate|lia]|].
  rewrite IH. lia.
Qed.

Lemma len_is_spec {A} n (l : list A) : len_is n l = true <-> length l = n.
Proof.
  revert l; induction n as [|n IH]; intros [|x t]; cbn [len_is length]; try (split; [discriminate|lia]).
  - split; reflexivity.
  - rewrite IH. lia.
Qed.

Lemma idx_ok {E A} (l : list A) i : (i < length l)%nat -> exists x, @idx E A l i = Ok x.
Proof.
  intro H. unfold idx. destruct (nth_error l i) eqn:En; [eauto|].
  apply nth_error_None in En. lia.
Qed.

Lemma last_opt_some {A} (l : list A) : l <> [] -> exists x, last_opt l = Some x.
Proof.
  induction l as [|x t IH]; intro H; [congruence|].
  destruct t as [|y t'].
  - exists x. reflexivity.
  - destruct IH as [z Hz]; [discriminate|]. exists z. exact Hz.
Qed.

(* ---- tokenise_escape ---- *)

Lemma tokenise_escape_total s : total (tokenise_escape s).
Proof.
  unfold tokenise_escape.
  repeat match goal with
         | |- total (match ?x with _ => _ end) => destruct x
         | |- total (if ?b then _ else _) => destruct b
         end; exact I.
Qed.

Lemma tokenise_escape_shorter s o r : tokenise_escape s = Ok (o, r) -> (length r < length s)%nat.
Proof.
  unfold tokenise_escape.
  repeat match goal with
         | |- (match ?x with _ => _ end) = _ -> _ => destruct x
         | |- (if ?b then _ else _) = _ -> _ => destruct b
         end; intro H; inversion H; subst; cbn [length]; lia.
Qed.

(* ---- the tokeniser loop ---- *)

Ltac tok_step IH :=
  repeat match goal with
         | |- context [tokenise_escape ?r] =>
           let E := fresh "E" in
           destruct (tokenise_escape r) as [[? ?]| | |] eqn:E;
           [ apply tokenise_escape_shorter in E | | pose proof (tokenise_escape_total r) as X; rewrite E in X; destruct X
             | pose proof (tokenise_escape_total r) as X; rewrite E in X; destruct X ]
         | |- context [if ?b then _ else _] => destruct b
         end.

(* the tokeniser never panics and never runs out of fuel when the fuel list is at least as
   long as the stream: every iteration consumes at least one character *)
Lemma tok_loop_total : forall fuel s tokens acc st lc,
  (length s <= length fuel)%nat -> total (tok_loop fuel s tokens acc st lc).
Proof.
  induction fuel as [|f fuel IH]; intros s tokens acc st lc Hlen.
  - destruct s as [|c rest]; [exact I|cbn [length] in Hlen; lia].
  - destruct s as [|c rest]; [exact I|]. cbn [length] in Hlen.
    cbn [tok_loop]. destruct st; tok_step IH; try exact I; try (apply IH; cbn [length] in *; lia).
Qed.

(* what is left of the stream is a strict suffix in length, unless the stream was empty *)
Lemma tok_loop_rest : forall fuel s tokens acc st lc toks rest,
  tok_loop fuel s tokens acc st lc = Ok (toks, rest) ->
  (s = [] /\ rest = []) \/ (length rest < length s)%nat.
Proof.
  induction fuel as [|f fuel IH]; intros s tokens acc st lc toks rest H.
  - destruct s as [|c r]; cbn [tok_loop] in H; [inversion H; auto|discriminate].
  - destruct s as [|c r]; [cbn [tok_loop] in H; inversion H; auto|].
    right. cbn [tok_loop] in H. cbn [length].
    destruct st;
      repeat match type of H with
             | context [tokenise_escape ?r] =>
               let E := fresh "E" in
               destruct (tokenise_escape r) as [[? ?]| | |] eqn:E;
               [ apply tokenise_escape_shorter in E | | | ]
             | context [if ?b then _ else _] => destruct b
             end;
      try discriminate;
      try (inversion H; subst; lia);
      try (apply IH in H; destruct H as [[-> ->]|H]; cbn [length] in *; lia).
Qed.

(* the fuel does not matter once it covers the stream: exactly the characters are the steps *)
Lemma tok_loop_fuel_irrelevant : forall f1 f2 s tokens acc st lc,
  (length s <= length f1)%nat -> (length s <= length f2)%nat ->
  tok_loop f1 s tokens acc st lc = tok_loop f2 s tokens acc st lc.
Proof.
  induction f1 as [|x f1 IH]; intros f2 s tokens acc st lc H1 H2.
  - destruct s as [|c r]; [destruct f2; reflexivity|cbn [length] in H1; lia].
  - destruct s as [|c r]; [destruct f2; reflexivity|].
    destruct f2 as [|y f2]; [cbn [length] in H2; lia|]. cbn [length] in H1, H2.
    cbn [tok_loop]. destruct st;
      repeat match goal with
             | |- context [tokenise_escape ?r] =>
               let E := fresh "E" in
               destruct (tokenise_escape r) as [[? ?]| | |] eqn:E;
               [ apply tokenise_escape_shorter in E | | | ]
             | |- context [if ?b then _ else _] => destruct b
             end;
      try reflexivity; apply IH; cbn [length] in *; lia.
Qed.

Lemma tokenise_entry_total s : total (tokenise_entry s).
Proof. apply tok_loop_total. lia. Qed.

Lemma tokenise_entry_rest s toks rest :
  tokenise_entry s = Ok (toks, rest) -> (s = [] /\ rest = []) \/ (length rest < length s)%nat.
Proof. apply tok_loop_rest. Qed.

(* ---- results with a postcondition: Ok a with P a, or Err; never Panic / OutOfFuel ---- *)

Definition good {E A} (P : A -> Prop) (r : res E A) : Prop :=
  match r with Ok a => P a | Err _ => True | Panic | OutOfFuel => False end.

Lemma good_total {E A} (P : A -> Prop) (r : res E A) : good P r -> total r.
Proof. destruct r; cbn; auto. Qed.

Lemma good_weaken {E A} (P Q : A -> Prop) (r : res E A) :
  good Q r -> (forall a, Q a -> P a) -> good P r.
Proof. destruct r; cbn; auto. Qed.

Lemma good_bind {E A B} (Q : A -> Prop) (P : B -> Prop) (r : res E A) (f : A -> res E B) :
  good Q r -> (forall a, Q a -> good P (f a)) -> good P (bind r f).
Proof. destruct r; cbn; intros H Hf; try contradiction; [apply Hf; exact H | exact I]. Qed.

Lemma total_good {E A} (r : res E A) : total r -> good (fun _ => True) r.
Proof. destruct r; cbn; auto. Qed.

Lemma good_of_opt {E A} (P : A -> Prop) (o : option A) (e : E) :
  (forall a, o = Some a -> P a) -> good P (of_opt o e).
Proof. destruct o; cbn; auto. Qed.

Lemma good_opt_of_res {E A} (P : A -> Prop) (r : res E A) :
  good P r -> good (fun o => match o with Some a => P a | None => True end) (opt_of_res r).
Proof. destruct r; cbn; auto. Qed.

Definition wf_opt (o : option dname) : Prop := match o with Some n => wf_name n | None => True end.
Definition mw_name (w : mwild) : dname := match w with MNormal n | MWildcard n => n end.
Definition wf_mw (o : option mwild) : Prop := match o with Some w => wf_name (mw_name w) | None => True end.

Lemma ascii_scalar s : forallb is_ascii s = true -> Forall scalar s.
Proof.
  intro H. rewrite forallb_forall in H. apply Forall_forall. intros c Hc. apply H in Hc.
  unfold is_ascii in Hc. apply N.ltb_lt in Hc. unfold scalar. lia.
Qed.

Lemma last_char_ok {E} s : is_nil s = false -> exists c, @last_char E s = Ok c.
Proof.
  intro H. unfold last_char. destruct (last_opt_some s) as [c Hc]; [destruct s; [discriminate|congruence]|].
  rewrite Hc. eauto.
Qed.

(* parse_domain never panics and yields well-formed names *)
Lemma parse_domain_good origin s : wf_opt origin -> good wf_name (parse_domain origin s).
Proof.
  intro Ho. unfold parse_domain.
  destruct (is_nil s) eqn:En; [exact I|].
  destruct (forallb is_ascii s) eqn:Ea; cbn [negb]; [|exact I].
  destruct (leqb s S_AT); [apply good_of_opt; intros a ->; exact Ho|].
  destruct (last_char_ok (E:=zerr) s En) as [c ->]. cbn [bind].
  destruct (c =? 46).
  - apply good_of_opt. intros a Ha. eapply dotted_wf; [apply ascii_scalar; exact Ea|exact Ha].
  - destruct origin as [o|]; [|exact I]. apply good_of_opt. intros a Ha.
    eapply join_wf; [exact Ho|apply ascii_scalar; exact Ea|exact Ha].
Qed.

Lemma forallb_skipn {A} (f : A -> bool) n l : forallb f l = true -> forallb f (skipn n l) = true.
Proof.
  revert l; induction n as [|n IH]; intros l H; [exact H|]. destruct l as [|x t]; [reflexivity|].
  cbn [skipn]. apply IH. cbn [forallb] in H. apply andb_true_iff in H. apply H.
Qed.

Lemma normal_or_star_good name :
  wf_name name -> good (fun w => wf_name (mw_name w)) (normal_or_star name).
Proof.
  intro Hn. unfold normal_or_star.
  destruct (labels name) as [|l0 [|l1 t]] eqn:E; cbn [len_ge idx nth_error bind slice_from skipn]; try exact Hn.
  destruct (leqb l0 S_STAR); cbn [bind]; [|exact Hn].
  destruct (from_labels (l1 :: t)) as [parent|] eqn:F; [|exact Hn].
  cbn [good mw_name]. apply from_labels_wf in F; [apply F|].
  destruct Hn as [Hl _]. apply wf_labels_all in Hl. rewrite E in Hl. apply Forall_cons_iff in Hl. apply Hl.
Qed.

Lemma pdw_good origin s :
  wf_opt origin -> good (fun w => wf_name (mw_name w)) (parse_domain_or_wildcard origin s).
Proof.
  intro Ho. unfold parse_domain_or_wildcard.
  destruct (is_nil s); [exact I|].
  destruct (leqb s S_STAR); [destruct origin; [exact Ho|exact I]|].
  assert (Hn : good (fun w => wf_name (mw_name w)) (let* name := parse_domain origin s in normal_or_star name)).
  { eapply good_bind; [apply parse_domain_good; exact Ho|]. intros a Ha. apply normal_or_star_good. exact Ha. }
  destruct s as [|c0 [|c1 t]]; cbn [len_ge len_is idx nth_error bind slice_from skipn]; try exact Hn.
  destruct (c0 =? 42); cbn [bind]; [|exact Hn].
  destruct (c1 =? 46); [|exact Hn].
  destruct t as [|c2 t']; cbn [len_is bind]; [apply root_wf|].
  eapply good_bind; [apply parse_domain_good; exact Ho|]. intros a Ha. exact Ha.
Qed.

Lemma parse_u32_good s : good (fun _ => True) (parse_u32 s).
Proof. unfold parse_u32. apply good_of_opt. auto. Qed.

Section Parser.
  Variable ip : ipcodec.

  (* solves [good (fun _ => True) r] goals made of binds, ifs and matches over total pieces *)
  Ltac gtrue :=
    repeat first
      [ exact I
      | apply parse_u32_good
      | lazymatch goal with
        | |- good _ (bind (opt_of_res (parse_domain _ _)) _) =>
          eapply good_bind;
          [ apply good_opt_of_res; eapply good_weaken; [apply parse_domain_good; assumption | intros ? ?; exact I]
          | intros ? _ ]
        | |- good _ (if ?b then _ else _) => destruct b
        | |- good _ (match ?x with _ => _ end) => destruct x
        end
      | progress cbn [bind idx nth_error len_is len_ge is_nil slice_from skipn good] ].

  Lemma try_parse_good origin tokens :
    wf_opt origin -> good (fun _ => True) (try_parse_rtype_with_data ip origin tokens).
  Proof.
    intro Ho. unfold try_parse_rtype_with_data.
    destruct tokens as [|t0 [|t1 [|t2 [|t3 [|t4 [|t5 [|t6 [|t7 [|t8 r]]]]]]]]];
      cbn [bind idx nth_error len_is len_ge is_nil good];
      try exact I;
      (destruct (rtype_from_str (fst t0)) as [ty|]; [|exact I]);
      gtrue.
  Qed.

  Definition entry_wf (e : entry) : Prop :=
    match e with
    | EOrigin n => wf_name n
    | EInclude _ _ => True
    | ERR r | EWildcardRR r => wf_name (rr_name r)
    end.

  Lemma to_rr_wf w td ttl : wf_name (mw_name w) -> entry_wf (to_rr w td ttl).
  Proof. destruct w; cbn; auto. Qed.

  Lemma with_prev_ttl_good pt w td : wf_name (mw_name w) -> good entry_wf (with_prev_ttl pt w td).
  Proof.
    intro Hw. unfold with_prev_ttl. destruct pt; [apply to_rr_wf; exact Hw|].
    destruct (fst td =? RT_SOA); [apply to_rr_wf; exact Hw|exact I].
  Qed.

  Ltac gpdw Ho :=
    eapply good_bind; [apply pdw_good; exact Ho | intros ? ?].
  Ltac gu32 :=
    eapply good_bind; [apply parse_u32_good | intros ? _].

  Lemma parse_rr_good origin pd pt tokens :
    wf_opt origin -> wf_mw pd -> good entry_wf (parse_rr ip origin pd pt tokens).
  Proof.
    intros Ho Hpd. unfold parse_rr, try_from.
    assert (Htp : forall l, good (fun _ : option (N * rdata) => True) (try_parse_rtype_with_data ip origin l))
      by (intro l; apply try_parse_good; exact Ho).
    destruct tokens as [|t0 [|t1 [|t2 [|t3 r]]]];
      cbn [is_nil len_ge slice_from skipn bind]; [exact I| | | |].
    - (* one token *)
      eapply good_bind; [apply Htp|]. intros [td|] _; [|exact I].
      unfold parse_rr_1. destruct pd as [w|]; [apply with_prev_ttl_good; exact Hpd|exact I].
    - (* two tokens *)
      eapply good_bind; [apply Htp|]. intros [td|] _.
      + unfold parse_rr_2. cbn [idx nth_error bind].
        destruct (leqb (fst t0) S_IN).
        * destruct pd as [w|]; [apply with_prev_ttl_good; exact Hpd|exact I].
        * destruct (all_digits (fst t0)).
          -- gu32. destruct pd as [w|]; [apply to_rr_wf; exact Hpd|exact I].
          -- gpdw Ho. apply with_prev_ttl_good. assumption.
      + eapply good_bind; [apply Htp|]. intros [td|] _; [|exact I].
        unfold parse_rr_1. destruct pd as [w|]; [apply with_prev_ttl_good; exact Hpd|exact I].
    - (* three tokens *)
      eapply good_bind; [apply Htp|]. intros [td|] _.
      + unfold parse_rr_3. cbn [idx nth_error bind].
        destruct (leqb (fst t1) S_IN).
        * destruct (all_digits (fst t0)).
          -- gu32. destruct pd as [w|]; [apply to_rr_wf; exact Hpd|exact I].
          -- gpdw Ho. apply with_prev_ttl_good. assumption.
        * destruct (leqb (fst t0) S_IN).
          -- gu32. destruct pd as [w|]; [apply to_rr_wf; exact Hpd|exact I].
          -- gpdw Ho. gu32. apply to_rr_wf. assumption.
      + eapply good_bind; [apply Htp|]. intros [td|] _.
        * unfold parse_rr_2. cbn [idx nth_error bind].
          destruct (leqb (fst t0) S_IN).
          -- destruct pd as [w|]; [apply with_prev_ttl_good; exact Hpd|exact I].
          -- destruct (all_digits (fst t0)).
             ++ gu32. destruct pd as [w|]; [apply to_rr_wf; exact Hpd|exact I].
             ++ gpdw Ho. apply with_prev_ttl_good. assumption.
        * eapply good_bind; [apply Htp|]. intros [td|] _; [|exact I].
          unfold parse_rr_1. destruct pd as [w|]; [apply with_prev_ttl_good; exact Hpd|exact I].
    - (* four or more tokens *)
      eapply good_bind; [apply Htp|]. intros [td|] _.
      + unfold parse_rr_4. cbn [idx nth_error bind].
        gpdw Ho.
        eapply good_bind with (Q := fun _ => True).
        * destruct (leqb (fst t2) S_IN); [apply parse_u32_good|].
          destruct (leqb (fst t1) S_IN); [apply parse_u32_good|exact I].
        * intros ttl _. apply to_rr_wf. assumption.
      + eapply good_bind; [apply Htp|]. intros [td|] _.
        * unfold parse_rr_3. cbn [idx nth_error bind].
          destruct (leqb (fst t1) S_IN).
          -- destruct (all_digits (fst t0)).
             ++ gu32. destruct pd as [w|]; [apply to_rr_wf; exact Hpd|exact I].
             ++ gpdw Ho. apply with_prev_ttl_good. assumption.
          -- destruct (leqb (fst t0) S_IN).
             ++ gu32. destruct pd as [w|]; [apply to_rr_wf; exact Hpd|exact I].
             ++ gpdw Ho. gu32. apply to_rr_wf. assumption.
        * eapply good_bind; [apply Htp|]. intros [td|] _.
          -- unfold parse_rr_2. cbn [idx nth_error bind].
             destruct (leqb (fst t0) S_IN).
             ++ destruct pd as [w|]; [apply with_prev_ttl_good; exact Hpd|exact I].
             ++ destruct (all_digits (fst t0)).
                ** gu32. destruct pd as [w|]; [apply to_rr_wf; exact Hpd|exact I].
                ** gpdw Ho. apply with_prev_ttl_good. assumption.
          -- eapply good_bind; [apply Htp|]. intros [td|] _; [|exact I].
             unfold parse_rr_1. destruct pd as [w|]; [apply with_prev_ttl_good; exact Hpd|exact I].
  Qed.

  Lemma parse_origin_good origin tokens : wf_opt origin -> good entry_wf (parse_origin origin tokens).
  Proof.
    intro Ho. unfold parse_origin.
    destruct tokens as [|t0 [|t1 [|t2 r]]]; cbn [len_is negb idx nth_error bind]; try exact I.
    destruct (leqb (fst t0) S_ORIGIN); cbn [negb]; [|exact I].
    eapply good_bind; [apply parse_domain_good; exact Ho|]. intros a Ha. exact Ha.
  Qed.

  Lemma parse_include_good origin tokens : wf_opt origin -> good entry_wf (parse_include origin tokens).
  Proof.
    intro Ho. unfold parse_include.
    destruct tokens as [|t0 [|t1 [|t2 [|t3 r]]]]; cbn [len_is negb andb idx nth_error bind]; try exact I.
    - destruct (leqb (fst t0) S_INCLUDE); cbn [negb]; exact I.
    - destruct (leqb (fst t0) S_INCLUDE); cbn [negb]; [|exact I].
      eapply good_bind with (Q := fun _ => True); [|intros; exact I].
      eapply good_bind; [apply parse_domain_good; exact Ho|]. intros a Ha. exact I.
  Qed.

  (* parse_entry: result well formed, and an entry has consumed at least one character *)
  Definition entry_post (s : list N) (r : option entry * list N) : Prop :=
    match fst r with
    | Some e => entry_wf e /\ (length (snd r) < length s)%nat
    | None => True
    end.

  Lemma parse_entry_loop_good : forall fuel origin pd pt s,
    wf_opt origin -> wf_mw pd -> (length s < length fuel)%nat ->
    good (entry_post s) (parse_entry_loop ip fuel origin pd pt s).
  Proof.
    induction fuel as [|f fuel IH]; intros origin pd pt s Ho Hpd Hlen; [cbn [length] in Hlen; lia|].
    cbn [parse_entry_loop].
    pose proof (tokenise_entry_total s) as Ht.
    destruct (tokenise_entry s) as [[tokens rest]| | |] eqn:Et; cbn [total] in Ht; try contradiction; [|exact I].
    cbn [bind fst snd].
    pose proof Et as Et0.
    apply tokenise_entry_rest in Et.
    destruct tokens as [|t0 tokens']; cbn [is_nil].
    - destruct rest as [|c rest']; cbn [is_nil]; [exact I|].
      destruct Et as [[_ E]|Hlt]; [discriminate|].
      eapply good_weaken; [apply IH; try assumption; cbn [length] in *; lia|].
      intros [oe r'] Hp. unfold entry_post in *. cbn [fst snd] in *.
      destruct oe; [|exact I]. destruct Hp as [Hw Hl]. split; [exact Hw|cbn [length] in *; lia].
    - assert (Hlt : (length rest < length s)%nat).
      { destruct Et as [[-> ->]|H]; [|exact H]. exfalso.
        (* an empty stream yields no tokens *)
        cbv in Et0. discriminate. }
      cbn [idx nth_error bind].
      destruct (leqb (fst t0) S_ORIGIN).
      + eapply good_bind; [apply parse_origin_good; exact Ho|]. intros e He.
        unfold entry_post. cbn [fst snd]. split; assumption.
      + destruct (leqb (fst t0) S_INCLUDE).
        * eapply good_bind; [apply parse_include_good; exact Ho|]. intros e He.
          unfold entry_post. cbn [fst snd]. split; assumption.
        * eapply good_bind; [apply parse_rr_good; assumption|]. intros e He.
          unfold entry_post. cbn [fst snd]. split; assumption.
  Qed.
End Parser.

(* ---- tree insertion (zones/types.rs ZoneRecords::insert): the unwrap of from_labels ---- *)

Definition children_ok (node_ok : node -> Prop) (L : list label) (cs : list (label * node)) : Prop :=
  Forall (fun kc => labels (n_nsdname (snd kc)) = fst kc :: L /\ node_ok (snd kc)) cs.

(* every child's name is its key prepended to the parent's name, recursively *)
Fixpoint node_ok (nd : node) : Prop :=
  match nd with
  | Node nsd _ _ children =>
    (fix go (cs : list (label * node)) : Prop :=
       match cs with
       | [] => True
       | kc :: t => (labels (n_nsdname (snd kc)) = fst kc :: labels nsd /\ node_ok (snd kc)) /\ go t
       end) children
  end.

Lemma node_ok_unfold nsd a b cs :
  node_ok (Node nsd a b cs) <-> children_ok node_ok (labels nsd) cs.
Proof.
  unfold children_ok. cbn [node_ok]. induction cs as [|kc t IH].
  - split; intro; [constructor|exact I].
  - split.
    + intros [H1 H2]. constructor; [exact H1|apply IH; exact H2].
    + intro H. inversion H; subst. split; [assumption|apply IH; assumption].
Qed.

Lemma alookup_leqb_in {V} l (cs : list (label * V)) c :
  alookup leqb l cs = Some c -> In (l, c) cs.
Proof.
  induction cs as [|[k v] t IH]; cbn [alookup]; [discriminate|].
  destruct (leqb l k) eqn:E.
  - intro H. inversion H; subst. apply leqb_eq in E. subst. left. reflexivity.
  - intro H. right. apply IH. exact H.
Qed.

Lemma areplace_forall {V} (P : label * V -> Prop) l v (cs : list (label * V)) :
  Forall P cs -> (forall k, k = l -> P (k, v)) -> Forall P (areplace leqb l v cs).
Proof.
  intros H Hv. induction H as [|[k v'] t Hh Ht IH]; cbn [areplace]; [constructor|].
  destruct (leqb l k) eqn:E.
  - constructor; [apply Hv; apply leqb_eq in E; congruence|exact Ht].
  - constructor; [exact Hh|exact IH].
Qed.

(* a non-empty suffix of the labels of a name is again accepted by from_labels *)
Lemma from_labels_suffix a b n :
  from_labels (a ++ b) = Some n -> b <> [] -> exists m, from_labels b = Some m /\ labels m = b.
Proof.
  intros H Hb. apply from_labels_inv in H as (_ & _ & Hs & front & Hab & Hf).
  destruct (exists_last Hb) as (b' & z & ->).
  rewrite app_assoc in Hab. apply app_inj_tail in Hab as [Hfront ->].
  assert (Hf' : Forall nonempty b') by (rewrite <- Hfront in Hf; apply Forall_app in Hf; apply Hf).
  assert (Hs' : sum_lens (b' ++ [[]]) <= 255).
  { rewrite app_assoc, sum_lens_app in Hs. rewrite sum_lens_app in Hs. rewrite sum_lens_app. unfold label, byte in *. lia. }
  eexists. split; [apply from_labels_intro; assumption|reflexivity].
Qed.

Lemma node_insert_ok : forall rp nd w new n,
  node_ok nd -> from_labels (rev rp ++ labels (n_nsdname nd)) = Some n ->
  exists nd', node_insert w rp new nd = Ok nd' /\ node_ok nd' /\ n_nsdname nd' = n_nsdname nd.
Proof.
  induction rp as [|l rest IH]; intros nd w new n Hok Hn.
  - destruct nd as [nsd this wild cs]. cbn [node_insert n_nsdname n_this n_wild n_children].
    destruct w; eexists; (split; [reflexivity|]); (split; [|reflexivity]);
      apply node_ok_unfold; apply node_ok_unfold in Hok; exact Hok.
  - destruct nd as [nsd this wild cs]. cbn [node_insert n_nsdname n_this n_wild n_children] in *.
    cbn [rev] in Hn. rewrite <- app_assoc in Hn. cbn [app] in Hn.
    pose proof Hok as Hcs. apply node_ok_unfold in Hcs. unfold children_ok in Hcs.
    destruct (alookup leqb l cs) as [child|] eqn:El.
    + apply alookup_leqb_in in El. rewrite Forall_forall in Hcs. pose proof (Hcs _ El) as [Hcl Hcok].
      cbn [fst snd] in Hcl, Hcok.
      destruct (IH child w new n Hcok) as (c' & Hc' & Hc'ok & Hc'n); [rewrite Hcl; exact Hn|].
      rewrite Hc'. cbn [bind]. eexists. split; [reflexivity|]. split; [|reflexivity].
      apply node_ok_unfold. unfold children_ok. apply areplace_forall.
      * apply Forall_forall. exact Hcs.
      * intros k ->. cbn [fst snd]. rewrite Hc'n. split; assumption.
    + destruct (from_labels_suffix (rev rest) (l :: labels nsd) n Hn) as (m & Hm & Hml); [discriminate|].
      rewrite Hm.
      destruct (IH (node_new m) w new n) as (c' & Hc' & Hc'ok & Hc'n).
      * cbn [node_new node_ok]. exact I.
      * cbn [node_new n_nsdname]. rewrite Hml. exact Hn.
      * rewrite Hc'. cbn [bind]. eexists. split; [reflexivity|]. split; [|reflexivity].
        apply node_ok_unfold. unfold children_ok. apply Forall_app. split; [exact Hcs|].
        constructor; [|constructor]. cbn [fst snd]. rewrite Hc'n. cbn [node_new n_nsdname]. split; assumption.
Qed.

Definition zone_ok (z : zone) : Prop :=
  wf_name (z_apex z) /\ node_ok (z_records z) /\ n_nsdname (z_records z) = z_apex z.

Lemma zone_new_ok apex s : wf_name apex -> zone_ok (zone_new apex s).
Proof.
  intro H. unfold zone_ok, zone_new. destruct s; cbn [z_apex z_records node_new node_ok n_nsdname]; auto.
Qed.

Lemma zone_insert_ok w z name ty d ttl :
  zone_ok z -> wf_name name ->
  exists z', zone_insert w z name ty d ttl = Ok z' /\ zone_ok z' /\ z_apex z' = z_apex z /\ z_soa z' = z_soa z.
Proof.
  intros (Ha & Hok & Hn) Hname. unfold zone_insert, relative_rp.
  destruct (is_subdomain_of name (z_apex z)) eqn:Es.
  - apply subdomain_is_suffix in Es as [pre Hpre].
    assert (Hf : firstn (length (labels name) - length (labels (z_apex z))) (labels name) = pre).
    { rewrite Hpre, app_length.
      replace (length pre + length (labels (z_apex z)) - length (labels (z_apex z)))%nat with (length pre + 0)%nat by lia.
      rewrite firstn_app_2. cbn [firstn]. apply app_nil_r. }
    rewrite Hf.
    destruct (node_insert_ok (rev pre) (z_records z) w
                             {| zr_type := ty; zr_data := d; zr_ttl := actual_ttl z ttl |} name Hok)
      as (nd' & Hnd & Hok' & Hn').
    { rewrite rev_involutive, Hn, <- Hpre. apply from_labels_of_wf. exact Hname. }
    rewrite Hnd. cbn [bind]. eexists. split; [reflexivity|]. unfold zone_ok. cbn [z_apex z_records z_soa].
    split; [split; [exact Ha|split; [exact Hok'|rewrite Hn'; exact Hn]]|split; reflexivity].
  - eexists. split; [reflexivity|]. unfold zone_ok. auto.
Qed.

(* recursion depth of the insertion = number of labels below the apex <= 127: a name of at most
   255 octets has at most 128 labels (each costs at least its length octet) *)
Lemma sum_lens_ge_length ls : N.of_nat (length ls) <= sum_lens ls.
Proof. apply sum_lens_ge. Qed.

Lemma wf_name_labels_bound n : wf_name n -> (length (labels n) <= 128)%nat.
Proof.
  intros [(front & Hl & Hfront & Hle) _].
  (* labels n = front ++ [[]] : the root label costs one octet, every other at least two *)
  rewrite Hl in *. clear Hl.
  assert (Hge : forall f : list label, Forall (fun l : label => l <> [] /\ wf_label l) f ->
                                       2 * N.of_nat (length f) + 1 <= sum_lens (f ++ [[]])).
  { induction f as [|l t IH]; intro Hf; [cbn; lia|].
    apply Forall_cons_iff in Hf as [[Hne _] Ht]. specialize (IH Ht).
    cbn [app sum_lens length]. destruct l as [|x l]; [congruence|]. rewrite llen_cons. unfold label, byte in *. lia. }
  specialize (Hge front Hfront). rewrite app_length. cbn [length]. unfold label, byte in *. lia.
Qed.

Lemma relative_rp_depth z name rp :
  wf_name name -> relative_rp z name = Some rp -> (length rp <= 128)%nat.
Proof.
  intros Hn H. unfold relative_rp in H. destruct (is_subdomain_of name (z_apex z)); [|discriminate].
  inversion H; subst. rewrite rev_length, firstn_length. pose proof (wf_name_labels_bound name Hn). lia.
Qed.

(* ---- Zone::deserialise ---- *)

Section Deserialise.
  Variable ip : ipcodec.

  Definition dstate_wf (st : dstate) : Prop :=
    Forall (fun r => wf_name (rr_name r)) (d_rrs st) /\
    Forall (fun r => wf_name (rr_name r)) (d_wrrs st) /\
    match d_apex_soa st with Some (a, _) => wf_name a | None => True end /\
    wf_opt (d_origin st) /\ wf_mw (d_prev_domain st).

  Lemma dstate_init_wf : dstate_wf dstate_init.
  Proof. unfold dstate_wf, dstate_init. cbn. repeat split; constructor. Qed.

  Ltac dwf := unfold dstate_wf;
              cbn [d_rrs d_wrrs d_apex_soa d_origin d_prev_domain good wf_opt wf_mw mw_name];
              (split; [|split; [|split; [|split]]]); try assumption; try (constructor; assumption).

  Lemma deser_step_good st e : dstate_wf st -> entry_wf e -> good dstate_wf (deser_step st e).
  Proof.
    intros (H1 & H2 & H3 & H4 & H5) He. destruct e as [n|p o|r|r]; cbn [deser_step entry_wf] in *.
    - dwf.
    - exact I.
    - destruct (rr_data r); try dwf.
      destruct (d_apex_soa st) eqn:Es; [exact I|]. dwf.
    - destruct (rr_type r =? RT_SOA); [exact I|]. dwf.
  Qed.

  Lemma deser_loop_good : forall fuel st s,
    dstate_wf st -> (length s < length fuel)%nat -> good dstate_wf (deser_loop ip fuel st s).
  Proof.
    induction fuel as [|f fuel IH]; intros st s Hst Hlen; [cbn [length] in Hlen; lia|].
    cbn [deser_loop]. unfold parse_entry.
    eapply good_bind.
    - apply parse_entry_loop_good; [apply Hst|apply Hst|cbn [length]; lia].
    - intros [oe rest] Hp. unfold entry_post in Hp. cbn [fst snd] in *.
      destruct oe as [e|]; [|exact Hst]. destruct Hp as [He Hl].
      eapply good_bind; [apply deser_step_good; assumption|].
      intros st' Hst'. apply IH; [exact Hst'|cbn [length] in Hlen; lia].
  Qed.

  Lemma insert_all_good w : forall rrs z,
    Forall (fun r => wf_name (rr_name r)) rrs -> zone_ok z ->
    good (fun z' => zone_ok z' /\ z_soa z' = z_soa z /\ z_apex z' = z_apex z) (insert_all w rrs z).
  Proof.
    induction rrs as [|r t IH]; intros z Hr Hz; cbn [insert_all]; [cbn; auto|].
    apply Forall_cons_iff in Hr as [Hr Ht].
    destruct (is_subdomain_of (rr_name r) (z_apex z)); cbn [negb]; [|exact I].
    destruct (zone_insert_ok w z (rr_name r) (rr_type r) (rr_data r) (rr_ttl r) Hz Hr) as (z' & Hz' & Hok & Ha & Hs).
    rewrite Hz'. cbn [lift_unit bind].
    eapply good_weaken; [apply IH; assumption|]. intros z'' (H1 & H2 & H3). split; [exact H1|split; congruence].
  Qed.

  Lemma Forall_rev' {A} (P : A -> Prop) l : Forall P l -> Forall P (rev' l).
  Proof.
    intro H. unfold rev'. rewrite <- rev_alt. apply Forall_rev. exact H.
  Qed.

  Lemma assemble_good st : dstate_wf st -> good zone_ok (assemble st).
  Proof.
    intros (H1 & H2 & H3 & _ & _). unfold assemble.
    set (z0 := match d_apex_soa st with Some (apex, s) => zone_new apex (Some s) | None => zone_new root_domain None end).
    assert (Hz0 : zone_ok z0).
    { unfold z0. destruct (d_apex_soa st) as [[a s]|]; apply zone_new_ok; [exact H3|apply root_wf]. }
    eapply good_bind; [apply insert_all_good; [apply Forall_rev'; exact H1|exact Hz0]|].
    intros z1 (Hz1 & _ & _).
    eapply good_weaken; [apply insert_all_good; [apply Forall_rev'; exact H2|exact Hz1]|].
    intros z2 (Hz2 & _). exact Hz2.
  Qed.

  (* C17, zone part: for EVERY text the parser returns a zone or an error *)
  Theorem parse_zone_total data : total (deserialise ip data).
  Proof.
    unfold deserialise. eapply good_total. eapply good_bind.
    - apply deser_loop_good; [apply dstate_init_wf|cbn [length]; lia].
    - intros st Hst. apply assemble_good. exact Hst.
  Qed.

  (* the fuel of the outer loops does not matter either: any list longer than the input will do *)
  Theorem parse_zone_never_out_of_fuel data : deserialise ip data <> OutOfFuel /\ deserialise ip data <> Panic.
  Proof.
    pose proof (parse_zone_total data) as H. destruct (deserialise ip data); cbn in H; try contradiction;
      split; discriminate.
  Qed.
End Deserialise.

(* ====================================================================== *)
(* Part 2 (C11): what the tokeniser makes of a rendered entry               *)
(* ====================================================================== *)

(* the tokeniser loop fuelled by its own input (as tokenise_entry calls it) *)
Definition T (s : list N) (tokens : list token) (acc : list N) (st : tstate) (lc : bool) :=
  tok_loop s s tokens acc st lc.

Lemma T_fuel fuel s tokens acc st lc :
  (length s <= length fuel)%nat -> tok_loop fuel s tokens acc st lc = T s tokens acc st lc.
Proof. intro H. apply tok_loop_fuel_irrelevant; [exact H|lia]. Qed.

Lemma T_nil tokens acc st lc : T [] tokens acc st lc = Ok (finish_toks acc tokens, []).
Proof. reflexivity. Qed.

(* escapes, seen from the loop: the stream continues after the escape *)
Lemma T_escape c rest tokens acc st lc o rest' :
  c = 92 -> tokenise_escape rest = Ok (o, rest') ->
  T (c :: rest) tokens acc st lc =
  match st with
  | SInitial | SUnquoted => T rest' tokens (o :: acc) SUnquoted lc
  | SQuoted => T rest' tokens (o :: acc) SQuoted lc
  | SComment => T rest tokens acc SComment lc
  end.
Proof.
  intros -> He. unfold T at 1. cbn [tok_loop].
  pose proof (tokenise_escape_shorter _ _ _ He) as Hl.
  change (92 =? 10) with false. change (92 =? 59) with false. change (92 =? 40) with false.
  change (92 =? 41) with false. change (92 =? 34) with false. change (92 =? 92) with true.
  destruct st; cbn [orb andb]; rewrite ?He; try (apply T_fuel; lia).
Qed.

(* a character that is none of the structural ones *)
Definition ordinary (c : N) : Prop :=
  c <> 10 /\ c <> 59 /\ c <> 40 /\ c <> 41 /\ c <> 34 /\ c <> 92.

Lemma neq_eqb a b : a <> b -> (a =? b) = false.
Proof. apply N.eqb_neq. Qed.

Lemma plain_char_facts c : plain_char c = true ->
  is_ascii c = true /\ is_whitespace c = false /\ (c =? 10) = false /\ (c =? 59) = false /\
  (c =? 40) = false /\ (c =? 41) = false /\ (c =? 34) = false /\ (c =? 92) = false.
Proof.
  intro Hp. unfold plain_char in Hp.
  apply andb_true_iff in Hp as [Hp Hs]. apply andb_true_iff in Hp as [Ha Hw].
  apply negb_true_iff in Hw. apply negb_true_iff in Hs.
  apply orb_false_iff in Hs as [Hs H92]. apply orb_false_iff in Hs as [Hs H34].
  apply orb_false_iff in Hs as [Hs H41]. apply orb_false_iff in Hs as [H59 H40].
  assert (H10 : (c =? 10) = false).
  { destruct (c =? 10) eqn:E; [|reflexivity]. apply N.eqb_eq in E. subst. discriminate. }
  repeat split; assumption.
Qed.

Lemma T_plain c rest tokens acc st lc :
  plain_char c = true -> st = SInitial \/ st = SUnquoted ->
  T (c :: rest) tokens acc st lc = T rest tokens (c :: acc) SUnquoted lc.
Proof.
  intros Hp Hst. destruct (plain_char_facts c Hp) as (Ha & Hw & H10 & H59 & H40 & H41 & H34 & H92).
  unfold T. cbn [tok_loop].
  destruct Hst as [-> | ->]; rewrite H10, H59, H40, H41, ?H34, H92, Hw, Ha; reflexivity.
Qed.

(* ---- finite sweep over the octets ---- *)

Lemma below_256 (f : N -> bool) :
  forallb f (map N.of_nat (seq 0 256)) = true -> forall o, o < 256 -> f o = true.
Proof.
  intros H o Ho. rewrite forallb_forall in H. apply H.
  apply in_map_iff. exists (N.to_nat o). split; [apply N2Nat.id|]. apply in_seq. lia.
Qed.

Lemma to_digit_48 x : x < 10 -> to_digit (48 + x) = Some x.
Proof.
  intro H. unfold to_digit, is_digit.
  replace (48 <=? 48 + x) with true by (symmetry; apply N.leb_le; lia).
  replace (48 + x <=? 57) with true by (symmetry; apply N.leb_le; lia).
  cbn [andb]. f_equal. lia.
Qed.

Lemma escape_ddd o rest : o < 256 ->
  tokenise_escape (48 + o / 100 :: 48 + (o / 10) mod 10 :: 48 + o mod 10 :: rest) = Ok (o, rest).
Proof.
  intro Ho.
  assert (H1 : o / 100 < 10) by (apply N.div_lt_upper_bound; lia).
  assert (H2 : (o / 10) mod 10 < 10) by (apply N.mod_lt; lia).
  assert (H3 : o mod 10 < 10) by (apply N.mod_lt; lia).
  unfold tokenise_escape. rewrite (to_digit_48 _ H1), (to_digit_48 _ H2), (to_digit_48 _ H3).
  assert (Hv : o / 100 * 100 + (o / 10) mod 10 * 10 + o mod 10 = o).
  { apply N.eqb_eq.
    apply (below_256 (fun o => o / 100 * 100 + (o / 10) mod 10 * 10 + o mod 10 =? o)); [vm_compute; reflexivity|exact Ho]. }
  rewrite Hv. unfold U8_MAX. replace (o <=? 255) with true by (symmetry; apply N.leb_le; lia). reflexivity.
Qed.

Lemma escape_x c rest : is_ascii c = true -> is_digit c = false -> tokenise_escape (c :: rest) = Ok (c, rest).
Proof. intros Ha Hd. unfold tokenise_escape, to_digit. rewrite Hd, Ha. reflexivity. Qed.

(* ---- one written octet ---- *)

Lemma T_piece_unq p tail tokens acc st lc :
  piece_ok false p = true -> st = SInitial \/ st = SUnquoted ->
  T (piece_text p ++ tail) tokens acc st lc = T tail tokens (piece_octet p :: acc) SUnquoted lc.
Proof.
  intros Hp Hst. destruct p as [c|c|o]; cbn [piece_ok piece_text piece_octet app] in *.
  - apply T_plain; assumption.
  - apply andb_true_iff in Hp as [Ha Hd]. apply negb_true_iff in Hd.
    rewrite (T_escape 92 _ tokens acc st lc c tail eq_refl (escape_x c tail Ha Hd)).
    destruct Hst as [-> | ->]; reflexivity.
  - apply N.ltb_lt in Hp.
    rewrite (T_escape 92 _ tokens acc st lc o tail eq_refl (escape_ddd o tail Hp)).
    destruct Hst as [-> | ->]; reflexivity.
Qed.

Lemma T_piece_q p tail tokens acc lc :
  piece_ok true p = true ->
  T (piece_text p ++ tail) tokens acc SQuoted lc = T tail tokens (piece_octet p :: acc) SQuoted lc.
Proof.
  intros Hp. destruct p as [c|c|o]; cbn [piece_ok piece_text piece_octet app] in *.
  - unfold quoted_char in Hp. apply andb_true_iff in Hp as [Ha Hs]. apply negb_true_iff in Hs.
    apply orb_false_iff in Hs as [H34 H92]. unfold T. cbn [tok_loop]. rewrite H34, H92, Ha. reflexivity.
  - apply andb_true_iff in Hp as [Ha Hd]. apply negb_true_iff in Hd.
    rewrite (T_escape 92 _ tokens acc SQuoted lc c tail eq_refl (escape_x c tail Ha Hd)). reflexivity.
  - apply N.ltb_lt in Hp.
    rewrite (T_escape 92 _ tokens acc SQuoted lc o tail eq_refl (escape_ddd o tail Hp)). reflexivity.
Qed.

Lemma pieces_text_cons p ps : pieces_text (p :: ps) = piece_text p ++ pieces_text ps.
Proof. reflexivity. Qed.

Lemma T_pieces_q ps : forall tail tokens acc lc,
  forallb (piece_ok true) ps = true ->
  T (pieces_text ps ++ tail) tokens acc SQuoted lc
  = T tail tokens (rev (map piece_octet ps) ++ acc) SQuoted lc.
Proof.
  induction ps as [|p ps IH]; intros tail tokens acc lc H; [reflexivity|].
  cbn [forallb] in H. apply andb_true_iff in H as [Hp Hps].
  rewrite pieces_text_cons, <- app_assoc, T_piece_q by exact Hp.
  rewrite IH by exact Hps. cbn [map rev]. rewrite <- app_assoc. reflexivity.
Qed.

Lemma T_pieces_unq ps : forall tail tokens acc lc,
  forallb (piece_ok false) ps = true ->
  T (pieces_text ps ++ tail) tokens acc SUnquoted lc
  = T tail tokens (rev (map piece_octet ps) ++ acc) SUnquoted lc.
Proof.
  induction ps as [|p ps IH]; intros tail tokens acc lc H; [reflexivity|].
  cbn [forallb] in H. apply andb_true_iff in H as [Hp Hps].
  rewrite pieces_text_cons, <- app_assoc, T_piece_unq by (auto; exact Hp).
  rewrite IH by exact Hps. cbn [map rev]. rewrite <- app_assoc. reflexivity.
Qed.

(* ---- the list of tokens that a configuration stands for ---- *)

Definition final (pend : list N) (tokens : list token) : list token :=
  rev tokens ++ (if is_nil pend then [] else [dup (rev pend)]).

Lemma finish_final pend tokens : finish_toks pend tokens = final pend tokens.
Proof.
  unfold finish_toks, final, flush_tok, push_tok, rev', dup.
  destruct pend as [|x t]; cbn [is_nil]; rewrite <- !rev_alt; [rewrite app_nil_r; reflexivity|].
  cbn [rev]. reflexivity.
Qed.

Lemma final_flush pend tokens : final [] (flush_tok pend tokens) = final pend tokens.
Proof.
  unfold final, flush_tok, push_tok, rev', dup. destruct pend as [|x t]; cbn [is_nil]; [reflexivity|].
  rewrite <- rev_alt. cbn [rev]. rewrite app_nil_r. reflexivity.
Qed.

Lemma final_push pend tokens : final [] (push_tok pend tokens) = final [] tokens ++ [dup (rev pend)].
Proof.
  unfold final, push_tok, rev', dup. rewrite <- rev_alt. cbn [rev is_nil]. rewrite !app_nil_r. reflexivity.
Qed.

(* ---- separators ---- *)

Lemma ws_not c k : is_whitespace c = true -> is_whitespace k = false -> (c =? k) = false.
Proof.
  intros Hc Hk. destruct (c =? k) eqn:E; [|reflexivity]. apply N.eqb_eq in E. subst. congruence.
Qed.

Lemma ws_char_facts c : ws_char c = true ->
  is_whitespace c = true /\ (c =? 10) = false /\ (c =? 59) = false /\ (c =? 40) = false /\
  (c =? 41) = false /\ (c =? 34) = false /\ (c =? 92) = false.
Proof.
  intro H. unfold ws_char in H. apply andb_true_iff in H as [Hw H10]. apply negb_true_iff in H10.
  split; [exact Hw|]. split; [exact H10|].
  repeat split; apply ws_not; try exact Hw; reflexivity.
Qed.

(* the tokeniser's configuration between items: in the Initial state with nothing pending, or
   in the UnquotedString state with a non-empty pending token (and then the previous item was a
   token) *)
Definition cfg_inv (glued : bool) (pend : list N) (st : tstate) : Prop :=
  (st = SInitial /\ pend = []) \/ (st = SUnquoted /\ pend <> [] /\ glued = true).

(* a comment body: stays in the comment state *)
Lemma T_comment txt : forall tail tokens acc lc,
  no_newline txt = true ->
  T (txt ++ tail) tokens acc SComment lc = T tail tokens acc SComment lc.
Proof.
  induction txt as [|c txt IH]; intros tail tokens acc lc H; [reflexivity|].
  cbn [no_newline forallb] in H. apply andb_true_iff in H as [Hc Ht]. apply negb_true_iff in Hc.
  cbn [app]. unfold T at 1. cbn [tok_loop]. rewrite Hc. apply IH. exact Ht.
Qed.

(* one step of [layout_ok] *)
Definition item_step (inside glued : bool) (it : item) : option (bool * bool) :=
  match it with
  | IWs c => if ws_char c then Some (inside, false) else None
  | INl => if inside then Some (inside, false) else None
  | IOpen => if inside then None else Some (true, false)
  | IClose => if inside then Some (false, false) else None
  | IComment txt => if inside && no_newline txt then Some (inside, false) else None
  | ITok w => if glued then None else if wtoken_ok w then Some (inside, true) else None
  end.

Lemma layout_ok_step inside glued it rest :
  layout_ok inside glued (it :: rest)
  = match item_step inside glued it with Some (i, g) => layout_ok i g rest | None => None end.
Proof.
  destruct it; cbn [layout_ok item_step];
    repeat match goal with |- context [if ?b then _ else _] => destruct b end; reflexivity.
Qed.

Lemma T_item it tail tokens pend st inside glued inside' glued' :
  cfg_inv glued pend st ->
  item_step inside glued it = Some (inside', glued') ->
  exists tokens' pend' st',
    T (item_text it ++ tail) tokens pend st inside = T tail tokens' pend' st' inside'
    /\ cfg_inv glued' pend' st'
    /\ final pend' tokens' = final pend tokens ++ map dup (map wtoken_octets (items_tokens [it])).
Proof.
  intros Hinv Hit. destruct it as [c| | | |txt|w]; cbn [item_step item_text items_tokens map app] in *.
  - (* white space *)
    destruct (ws_char c) eqn:Hw; [|discriminate]. inversion Hit; subst; clear Hit.
    destruct (ws_char_facts c Hw) as (Hws & H10 & H59 & H40 & H41 & H34 & H92).
    destruct Hinv as [[-> ->]|(-> & Hp & _)].
    + exists tokens, [], SInitial. split; [|split; [left; auto|rewrite app_nil_r; reflexivity]].
      unfold T at 1. cbn [tok_loop]. rewrite H10, H59, H40, H41, H34, H92, Hws. reflexivity.
    + exists (flush_tok pend tokens), [], SInitial.
      split; [|split; [left; auto|rewrite app_nil_r; apply final_flush]].
      unfold T at 1. cbn [tok_loop]. rewrite H10, H59, H92, H40, H41, Hws. reflexivity.
  - (* newline inside parentheses *)
    destruct inside; [|discriminate]. inversion Hit; subst; clear Hit.
    destruct Hinv as [[-> ->]|(-> & Hp & _)].
    + exists tokens, [], SInitial. split; [reflexivity|split; [left; auto|rewrite app_nil_r; reflexivity]].
    + exists (flush_tok pend tokens), [], SInitial.
      split; [reflexivity|split; [left; auto|rewrite app_nil_r; apply final_flush]].
  - (* ( *)
    destruct inside; [discriminate|]. inversion Hit; subst; clear Hit.
    destruct Hinv as [[-> ->]|(-> & Hp & _)].
    + exists tokens, [], SInitial. split; [reflexivity|split; [left; auto|rewrite app_nil_r; reflexivity]].
    + exists (flush_tok pend tokens), [], SInitial.
      split; [reflexivity|split; [left; auto|rewrite app_nil_r; apply final_flush]].
  - (* ) *)
    destruct inside; [|discriminate]. inversion Hit; subst; clear Hit.
    destruct Hinv as [[-> ->]|(-> & Hp & _)].
    + exists tokens, [], SInitial. split; [reflexivity|split; [left; auto|rewrite app_nil_r; reflexivity]].
    + exists (flush_tok pend tokens), [], SInitial.
      split; [reflexivity|split; [left; auto|rewrite app_nil_r; apply final_flush]].
  - (* comment inside parentheses *)
    destruct inside; cbn [andb] in Hit; [|discriminate].
    destruct (no_newline txt) eqn:Hn; [|discriminate]. inversion Hit; subst; clear Hit.
    rewrite <- app_assoc. cbn [app].
    destruct Hinv as [[-> ->]|(-> & Hp & _)].
    + exists tokens, [], SInitial. split; [|split; [left; auto|rewrite app_nil_r; reflexivity]].
      unfold T at 1. cbn [tok_loop]. change (59 =? 10) with false. change (59 =? 59) with true. cbn iota.
      change (tok_loop (txt ++ 10 :: tail) (txt ++ 10 :: tail) tokens [] SComment true)
        with (T (txt ++ 10 :: tail) tokens [] SComment true).
      rewrite T_comment by exact Hn. reflexivity.
    + exists (flush_tok pend tokens), [], SInitial.
      split; [|split; [left; auto|rewrite app_nil_r; apply final_flush]].
      unfold T at 1. cbn [tok_loop]. change (59 =? 10) with false. change (59 =? 59) with true. cbn iota.
      change (tok_loop (txt ++ 10 :: tail) (txt ++ 10 :: tail) (flush_tok pend tokens) [] SComment true)
        with (T (txt ++ 10 :: tail) (flush_tok pend tokens) [] SComment true).
      rewrite T_comment by exact Hn. reflexivity.
  - (* a token *)
    destruct glued; [discriminate|]. destruct (wtoken_ok w) eqn:Hw; [|discriminate].
    inversion Hit; subst; clear Hit.
    destruct Hinv as [[-> ->]|(_ & _ & Hg)]; [|discriminate].
    unfold wtoken_ok in Hw. apply andb_true_iff in Hw as [Hne Hps].
    unfold wtoken_text, wtoken_octets. destruct w as [q ps]. cbn [wt_quoted wt_pieces] in *.
    destruct q; cbn [orb] in Hne.
    + (* quoted *)
      exists (push_tok (rev (map piece_octet ps)) tokens), [], SInitial.
      split; [|split; [left; auto|]].
      * cbn [app]. unfold T at 1. cbn [tok_loop].
        change (34 =? 10) with false. change (34 =? 59) with false. change (34 =? 40) with false.
        change (34 =? 41) with false. change (34 =? 34) with true. cbn iota.
        change (tok_loop ((pieces_text ps ++ [34]) ++ tail) ((pieces_text ps ++ [34]) ++ tail) tokens [] SQuoted inside')
          with (T ((pieces_text ps ++ [34]) ++ tail) tokens [] SQuoted inside').
        rewrite <- app_assoc, T_pieces_q by exact Hps. rewrite app_nil_r. reflexivity.
      * rewrite final_push, rev_involutive. reflexivity.
    + (* unquoted, not empty *)
      destruct ps as [|p ps]; [discriminate|].
      exists tokens, (rev (map piece_octet (p :: ps))), SUnquoted.
      split; [|split; [right; split; [reflexivity|split; [|reflexivity]]|]].
      * cbn [forallb] in Hps. apply andb_true_iff in Hps as [Hp Hps].
        rewrite pieces_text_cons, <- app_assoc, T_piece_unq by (auto; exact Hp).
        rewrite T_pieces_unq by exact Hps. cbn [map rev]. reflexivity.
      * cbn [map rev]. intro E. apply app_eq_nil in E as [_ E]. discriminate.
      * unfold final. cbn [is_nil app]. rewrite app_nil_r.
        destruct (rev (map piece_octet (p :: ps))) eqn:E.
        -- exfalso. cbn [map rev] in E. apply app_eq_nil in E as [_ E]. discriminate.
        -- cbn [is_nil]. rewrite <- E, rev_involutive. reflexivity.
Qed.

Lemma items_tokens_app a b : items_tokens (a ++ b) = items_tokens a ++ items_tokens b.
Proof.
  induction a as [|it a IH]; [reflexivity|]. destruct it; cbn [app items_tokens]; rewrite ?IH; reflexivity.
Qed.

Lemma T_items : forall items tail tokens pend st inside glued inside',
  cfg_inv glued pend st ->
  layout_ok inside glued items = Some inside' ->
  exists tokens' pend' st' glued',
    T (items_text items ++ tail) tokens pend st inside = T tail tokens' pend' st' inside'
    /\ cfg_inv glued' pend' st'
    /\ final pend' tokens' = final pend tokens ++ map dup (map wtoken_octets (items_tokens items)).
Proof.
  induction items as [|it items IH]; intros tail tokens pend st inside glued inside' Hinv Hl.
  - cbn [layout_ok] in Hl. inversion Hl; subst. exists tokens, pend, st, glued.
    split; [reflexivity|split; [exact Hinv|rewrite app_nil_r; reflexivity]].
  - rewrite layout_ok_step in Hl. destruct (item_step inside glued it) as [[i g]|] eqn:Es; [|discriminate].
    destruct (T_item it (items_text items ++ tail) tokens pend st inside glued i g Hinv Es)
      as (tokens1 & pend1 & st1 & Heq1 & Hinv1 & Hfin1).
    destruct (IH tail tokens1 pend1 st1 i g inside' Hinv1 Hl) as (tokens2 & pend2 & st2 & g2 & Heq2 & Hinv2 & Hfin2).
    exists tokens2, pend2, st2, g2. split; [|split; [exact Hinv2|]].
    + unfold items_text. cbn [flat_map]. rewrite <- app_assoc. fold (items_text items). rewrite Heq1. exact Heq2.
    + rewrite Hfin2, Hfin1, <- app_assoc, <- !map_app. f_equal. f_equal. f_equal.
      change (it :: items) with ([it] ++ items). rewrite items_tokens_app. reflexivity.
Qed.

(* how the entry ends *)
Lemma T_terminator t rest tokens pend st glued :
  cfg_inv glued pend st -> terminator_ok t = true ->
  T (terminator_text t rest) tokens pend st false = Ok (final pend tokens, terminator_rest t rest).
Proof.
  intros Hinv Ht. destruct t as [| |txt|txt]; cbn [terminator_text terminator_rest terminator_ok] in *.
  - destruct Hinv as [[-> ->]|(-> & Hp & _)]; unfold T; cbn [tok_loop]; change (10 =? 10) with true; cbn iota.
    + rewrite finish_final. reflexivity.
    + rewrite finish_final, final_flush. reflexivity.
  - rewrite T_nil, finish_final. reflexivity.
  - assert (Hc : forall tokens0, T (txt ++ 10 :: rest) tokens0 [] SComment false = Ok (final [] tokens0, rest)).
    { intro tokens0. rewrite T_comment by exact Ht. unfold T. cbn [tok_loop]. change (10 =? 10) with true. cbn iota.
      rewrite finish_final. reflexivity. }
    destruct Hinv as [[-> ->]|(-> & Hp & _)]; unfold T at 1; cbn [tok_loop];
      change (59 =? 10) with false; change (59 =? 59) with true; cbn iota.
    + apply Hc.
    + change (tok_loop (txt ++ 10 :: rest) (txt ++ 10 :: rest) (flush_tok pend tokens) [] SComment false)
        with (T (txt ++ 10 :: rest) (flush_tok pend tokens) [] SComment false).
      rewrite Hc, final_flush. reflexivity.
  - assert (Hc : forall tokens0, T txt tokens0 [] SComment false = Ok (final [] tokens0, [])).
    { intro tokens0. rewrite <- (app_nil_r txt) at 1. rewrite T_comment by exact Ht. rewrite T_nil, finish_final. reflexivity. }
    destruct Hinv as [[-> ->]|(-> & Hp & _)]; unfold T at 1; cbn [tok_loop];
      change (59 =? 10) with false; change (59 =? 59) with true; cbn iota.
    + apply Hc.
    + change (tok_loop txt txt (flush_tok pend tokens) [] SComment false)
        with (T txt (flush_tok pend tokens) [] SComment false).
      rewrite Hc, final_flush. reflexivity.
Qed.

(* C11.1 tokenise_render: an entry written in the layout family -- tokens as raw characters and
   \X / \DDD escapes, quoted or not, separated by white space, parenthesised groups spanning
   lines (parentheses may touch the tokens), comments -- is read back as exactly its tokens,
   and the stream continues after the end of the entry *)
Theorem tokenise_render items t rest :
  layout_ok false false items = Some false -> terminator_ok t = true ->
  tokenise_entry (items_text items ++ terminator_text t rest)
  = Ok (map dup (map wtoken_octets (items_tokens items)), terminator_rest t rest).
Proof.
  intros Hl Ht. unfold tokenise_entry.
  change (tok_loop (items_text items ++ terminator_text t rest) (items_text items ++ terminator_text t rest) [] [] SInitial false)
    with (T (items_text items ++ terminator_text t rest) [] [] SInitial false).
  destruct (T_items items (terminator_text t rest) [] [] SInitial false false false) as (tk & pd & st & g & Heq & Hinv & Hfin);
    [left; auto|exact Hl|].
  rewrite Heq, (T_terminator t rest tk pd st g Hinv Ht), Hfin. reflexivity.
Qed.

(* the simple layout as an instance *)
Definition rawtok (t : list N) : wtoken := {| wt_quoted := false; wt_pieces := map PRaw t |}.

Fixpoint simple_items (toks : list (list N)) : list item :=
  match toks with
  | [] => []
  | t :: rest => match rest with
                 | [] => [ITok (rawtok t)]
                 | _ :: _ => ITok (rawtok t) :: IWs 32 :: simple_items rest
                 end
  end.

Lemma pieces_text_raw t : pieces_text (map PRaw t) = t.
Proof.
  induction t as [|c t IH]; [reflexivity|]. cbn [map]. rewrite pieces_text_cons, IH. reflexivity.
Qed.

Lemma item_text_raw t : item_text (ITok (rawtok t)) = t.
Proof. unfold item_text, wtoken_text, rawtok. cbn [wt_quoted wt_pieces]. apply pieces_text_raw. Qed.

Lemma octets_raw t : wtoken_octets (rawtok t) = t.
Proof.
  unfold wtoken_octets, rawtok. cbn [wt_pieces]. induction t as [|c t IH]; [reflexivity|].
  cbn [map piece_octet]. rewrite IH. reflexivity.
Qed.

Lemma rawtok_ok t : plain_token t = true -> wtoken_ok (rawtok t) = true.
Proof.
  intro H. unfold plain_token in H. apply andb_true_iff in H as [Hn Hp].
  unfold wtoken_ok, rawtok. cbn [wt_quoted wt_pieces orb]. apply andb_true_iff. split.
  - destruct t; [discriminate|reflexivity].
  - clear Hn. induction t as [|c t IH]; [reflexivity|]. cbn [forallb map piece_ok] in *.
    apply andb_true_iff in Hp as [-> Ht]. cbn [andb]. apply IH. exact Ht.
Qed.

Lemma simple_items_ok toks : forallb plain_token toks = true ->
  layout_ok false false (simple_items toks) = Some false.
Proof.
  induction toks as [|t toks IH]; intro H; [reflexivity|].
  cbn [forallb] in H. apply andb_true_iff in H as [Ht Hts].
  cbn [simple_items]. destruct toks as [|t2 toks2].
  - cbn [layout_ok]. rewrite (rawtok_ok t Ht). reflexivity.
  - cbn [layout_ok]. rewrite (rawtok_ok t Ht). change (ws_char 32) with true. cbn iota. apply IH. exact Hts.
Qed.

Lemma simple_items_tokens toks : map wtoken_octets (items_tokens (simple_items toks)) = toks.
Proof.
  induction toks as [|t toks IH]; [reflexivity|].
  cbn [simple_items]. destruct toks as [|t2 toks2].
  - cbn [items_tokens map]. rewrite octets_raw. reflexivity.
  - cbn [items_tokens map]. rewrite octets_raw. f_equal. exact IH.
Qed.

Lemma simple_items_text toks : items_text (simple_items toks) = render_simple toks.
Proof.
  induction toks as [|t toks IH]; [reflexivity|].
  cbn [simple_items render_simple]. destruct toks as [|t2 toks2].
  - unfold items_text. cbn [flat_map]. rewrite item_text_raw. apply app_nil_r.
  - unfold items_text in *. cbn [flat_map]. rewrite item_text_raw. cbn [item_text app]. f_equal. f_equal. exact IH.
Qed.

(* tokens that need no quoting separated by single spaces, ended by a newline, by the end of
   input, or by a comment *)
Theorem tokenise_render_simple toks t rest :
  forallb plain_token toks = true -> terminator_ok t = true ->
  tokenise_entry (render_simple toks ++ terminator_text t rest) = Ok (map dup toks, terminator_rest t rest).
Proof.
  intros H Ht. rewrite <- simple_items_text.
  rewrite (tokenise_render (simple_items toks) t rest (simple_items_ok toks H) Ht).
  rewrite simple_items_tokens. reflexivity.
Qed.

Example tokenise_render_simple_ex :
  tokenise_entry (render_simple [[119;119;119]; [73;78]; [65]; [49;46;50;46;51;46;52]] ++ terminator_text TNl [120])
  = Ok (map dup [[119;119;119]; [73;78]; [65]; [49;46;50;46;51;46;52]], [120]).
Proof. apply tokenise_render_simple; reflexivity. Qed.

(* an instance of the general statement: "@ IN SOA ns h (1 2 3 4" newline " 60)" -- the corpus
   witness of the fixed finding F14 -- with the parentheses touching the tokens *)
Example tokenise_render_ex :
  let t s := ITok (rawtok s) in
  let items := [t [64]; IWs 32; t [73;78]; IWs 32; t [83;79;65]; IWs 32; t [110;115]; IWs 32; t [104]; IWs 32;
                IOpen; t [49]; IWs 32; t [50]; IWs 32; t [51]; IWs 32; t [52]; INl; IWs 32; t [54;48]; IClose] in
  layout_ok false false items = Some false /\
  tokenise_entry (items_text items ++ terminator_text TEof [])
  = Ok (map dup [[64]; [73;78]; [83;79;65]; [110;115]; [104]; [49]; [50]; [51]; [52]; [54;48]], []).
Proof. cbv zeta. split; [reflexivity|]. rewrite tokenise_render by reflexivity. reflexivity. Qed.

(* ====================================================================== *)
(* C11.2 parse_rr_forms                                                    *)
(* ====================================================================== *)

Lemma all_digits_not_in s : all_digits s = true -> leqb s S_IN = false.
Proof.
  intro H. destruct (leqb s S_IN) eqn:E; [|reflexivity]. apply leqb_eq in E. subst. discriminate.
Qed.

Lemma leqb_refl' s : leqb s s = true.
Proof. apply leqb_eq. reflexivity. Qed.

Section Forms.
  Variable ip : ipcodec.

  (* what an entry of each shape means: the owner is parsed or inherited (wildcard-ness
     included), the TTL is given or inherited (0 for a SOA, whose TTL is its MINIMUM anyway) *)
  Definition denote_rr (sh : rr_shape) (origin : option dname) (pd : option mwild) (pt : option N)
             (o : token) (n : N) (td : N * rdata) : res zerr entry :=
    if has_owner sh then
      let* w := parse_domain_or_wildcard origin (fst o) in
      if has_ttl sh then Ok (to_rr w td n) else with_prev_ttl pt w td
    else
      match pd with
      | Some w => if has_ttl sh then Ok (to_rr w td n) else with_prev_ttl pt w td
      | None => Err MissingDomainName
      end.

  (* a later position cannot be read as type + RDATA when its token is no type mnemonic *)
  Lemma try_from_not_type origin (tokens : list token) q :
    match nth_error tokens q with Some t => rtype_from_str (fst t) = None | None => True end ->
    try_from ip origin tokens q = Ok None.
  Proof.
    intro H. unfold try_from.
    match goal with |- (if ?b then _ else _) = _ => destruct b eqn:El; [|reflexivity] end.
    assert (Hq : len_ge q tokens = true) by (apply len_ge_S; exact El).
    unfold slice_from. rewrite Hq. cbn [bind].
    apply len_ge_spec in El.
    destruct (nth_error tokens q) as [t|] eqn:En; [|apply nth_error_None in En; lia].
    assert (Hs : skipn q tokens = t :: skipn (S q) tokens).
    { clear -En. revert tokens En. induction q as [|q IH]; intros [|x l] En; cbn in *; try discriminate.
      - inversion En. reflexivity.
      - apply IH. exact En. }
    rewrite Hs. unfold try_parse_rtype_with_data. cbn [is_nil idx nth_error bind]. rewrite H. reflexivity.
  Qed.

  Theorem parse_rr_forms sh origin pd pt o ttl ty rd n td :
    (* the type token and the RDATA tokens parse to td *)
    try_parse_rtype_with_data ip origin (ty :: rd) = Ok (Some td) ->
    (* unambiguous: no later position reads as type + RDATA ... *)
    (forall q, (type_pos sh < q <= 3)%nat -> try_from ip origin (shape_tokens sh o ttl ty rd) q = Ok None) ->
    (* ... the owner text is not all digits and not IN, the TTL is a number *)
    all_digits (fst o) = false -> leqb (fst o) S_IN = false ->
    all_digits (fst ttl) = true -> uint_from_str U32_MAX (fst ttl) = Some n ->
    parse_rr ip origin pd pt (shape_tokens sh o ttl ty rd) = denote_rr sh origin pd pt o n td.
  Proof.
    intros Htd Hun Hod Hoi Htdg Htn.
    pose proof (all_digits_not_in _ Htdg) as Hti.
    assert (Hu32 : parse_u32 (fst ttl) = Ok n) by (unfold parse_u32; rewrite Htn; reflexivity).
    assert (Hin : leqb (fst T_IN) S_IN = true) by reflexivity.
    assert (Hind : all_digits (fst T_IN) = false) by reflexivity.
    unfold denote_rr.
    destruct sh; cbn [shape_tokens type_pos has_owner has_ttl] in *; unfold parse_rr; cbn [is_nil].
    - (* owner ttl IN *)
      unfold try_from at 1. cbn [len_ge slice_from skipn bind]. rewrite Htd. cbn [bind].
      unfold parse_rr_4. cbn [idx nth_error bind]. rewrite Hin.
      destruct (parse_domain_or_wildcard origin (fst o)); cbn [bind]; try reflexivity.
      rewrite Hu32. reflexivity.
    - (* owner IN ttl *)
      unfold try_from at 1. cbn [len_ge slice_from skipn bind]. rewrite Htd. cbn [bind].
      unfold parse_rr_4. cbn [idx nth_error bind]. rewrite Hti, Hin.
      destruct (parse_domain_or_wildcard origin (fst o)); cbn [bind]; try reflexivity.
      rewrite Hu32. reflexivity.
    - (* owner ttl *)
      rewrite (Hun 3%nat) by lia. cbn [bind].
      unfold try_from at 1. cbn [len_ge slice_from skipn bind]. rewrite Htd. cbn [bind].
      unfold parse_rr_3. cbn [idx nth_error bind]. rewrite Hti, Hoi.
      destruct (parse_domain_or_wildcard origin (fst o)); cbn [bind]; try reflexivity.
      rewrite Hu32. reflexivity.
    - (* owner IN *)
      rewrite (Hun 3%nat) by lia. cbn [bind].
      unfold try_from at 1. cbn [len_ge slice_from skipn bind]. rewrite Htd. cbn [bind].
      unfold parse_rr_3. cbn [idx nth_error bind]. rewrite Hin, Hod. reflexivity.
    - (* owner *)
      rewrite (Hun 3%nat) by lia. cbn [bind]. rewrite (Hun 2%nat) by lia. cbn [bind].
      unfold try_from at 1. cbn [len_ge slice_from skipn bind]. rewrite Htd. cbn [bind].
      unfold parse_rr_2. cbn [idx nth_error bind]. rewrite Hoi, Hod. reflexivity.
    - (* ttl IN *)
      rewrite (Hun 3%nat) by lia. cbn [bind].
      unfold try_from at 1. cbn [len_ge slice_from skipn bind]. rewrite Htd. cbn [bind].
      unfold parse_rr_3. cbn [idx nth_error bind]. rewrite Hin, Htdg, Hu32. reflexivity.
    - (* IN ttl *)
      rewrite (Hun 3%nat) by lia. cbn [bind].
      unfold try_from at 1. cbn [len_ge slice_from skipn bind]. rewrite Htd. cbn [bind].
      unfold parse_rr_3. cbn [idx nth_error bind]. rewrite Hti, Hin, Hu32. reflexivity.
    - (* ttl *)
      rewrite (Hun 3%nat) by lia. cbn [bind]. rewrite (Hun 2%nat) by lia. cbn [bind].
      unfold try_from at 1. cbn [len_ge slice_from skipn bind]. rewrite Htd. cbn [bind].
      unfold parse_rr_2. cbn [idx nth_error bind]. rewrite Hti, Htdg, Hu32. reflexivity.
    - (* IN *)
      rewrite (Hun 3%nat) by lia. cbn [bind]. rewrite (Hun 2%nat) by lia. cbn [bind].
      unfold try_from at 1. cbn [len_ge slice_from skipn bind]. rewrite Htd. cbn [bind].
      unfold parse_rr_2. cbn [idx nth_error bind]. rewrite Hin. reflexivity.
    - (* bare *)
      rewrite (Hun 3%nat) by lia. cbn [bind]. rewrite (Hun 2%nat) by lia. cbn [bind].
      rewrite (Hun 1%nat) by lia. cbn [bind].
      unfold try_from at 1. cbn [len_ge slice_from skipn bind]. rewrite Htd. cbn [bind].
      reflexivity.
  Qed.

  (* the hypotheses are satisfiable, for every shape: www / 300 / TXT hello *)
  Example parse_rr_forms_ex : forall sh,
    let o := dup [119; 119; 119] in let ttl := dup [51; 48; 48] in
    let ty := dup [84; 88; 84] in let rd := [dup [104; 101; 108; 108; 111]] in
    let origin := Some root_domain in
    try_parse_rtype_with_data ip origin (ty :: rd) = Ok (Some (RT_TXT, RD_Octets [104; 101; 108; 108; 111]))
    /\ (forall q, (type_pos sh < q <= 3)%nat -> try_from ip origin (shape_tokens sh o ttl ty rd) q = Ok None)
    /\ all_digits (fst o) = false /\ leqb (fst o) S_IN = false
    /\ all_digits (fst ttl) = true /\ uint_from_str U32_MAX (fst ttl) = Some 300.
  Proof.
    intros sh o ttl ty rd origin. split; [reflexivity|]. split; [|repeat split; reflexivity].
    intros q Hq. apply try_from_not_type.
    destruct sh; cbn [type_pos shape_tokens] in *;
      (destruct q as [|[|[|[|q]]]]; try lia; cbn [nth_error]; try reflexivity; try exact I).
  Qed.
End Forms.

(* ====================================================================== *)
(* C11.4 rejection lemmas; nothing is loaded in part                       *)
(* ====================================================================== *)

Lemma parse_domain_total origin s : total (parse_domain origin s).
Proof.
  unfold parse_domain.
  destruct (is_nil s) eqn:En; [exact I|].
  destruct (forallb is_ascii s); cbn [negb]; [|exact I].
  destruct (leqb s S_AT); [apply of_opt_total|].
  destruct (last_char_ok (E:=zerr) s En) as [c ->]. cbn [bind].
  destruct (c =? 46); [apply of_opt_total|]. destruct origin; [apply of_opt_total|exact I].
Qed.

Lemma normal_or_star_total name : total (normal_or_star name).
Proof.
  unfold normal_or_star.
  destruct (labels name) as [|l0 [|l1 t]]; cbn [len_ge idx nth_error bind slice_from skipn]; try exact I.
  destruct (leqb l0 S_STAR); cbn [bind]; [|exact I]. destruct (from_labels (l1 :: t)); exact I.
Qed.

Lemma pdw_total origin s : total (parse_domain_or_wildcard origin s).
Proof.
  unfold parse_domain_or_wildcard.
  destruct (is_nil s); [exact I|].
  destruct (leqb s S_STAR); [destruct origin; exact I|].
  assert (Hn : forall x, total (let* name := parse_domain origin x in normal_or_star name)).
  { intro x. apply bind_total; [apply parse_domain_total|intros; apply normal_or_star_total]. }
  assert (Hw : forall x, total (let* name := parse_domain origin x in Ok (MWildcard name))).
  { intro x. apply bind_total; [apply parse_domain_total|intros; exact I]. }
  destruct s as [|c0 [|c1 t]]; cbn [len_ge len_is idx nth_error bind slice_from skipn]; try apply Hn.
  - destruct (c0 =? 42); cbn [bind]; [|apply Hn].
    destruct (c1 =? 46); [|apply Hn].
    destruct t as [|c2 t']; cbn [len_is bind]; [exact I|]. apply Hw.
Qed.

Section Reject.
  Variable ip : ipcodec.

  (* one iteration of the main loop *)
  Lemma deser_loop_unfold f fuel st s :
    deser_loop ip (f :: fuel) st s =
    let* er := parse_entry ip (d_origin st) (d_prev_domain st) (d_prev_ttl st) s in
    match fst er with
    | None => Ok st
    | Some e => let* st' := deser_step st e in deser_loop ip fuel st' (snd er)
    end.
  Proof. reflexivity. Qed.

  (* an error of the step on any entry is the result of the whole loop *)
  Lemma deser_loop_err f fuel st s e rest x :
    parse_entry ip (d_origin st) (d_prev_domain st) (d_prev_ttl st) s = Ok (Some e, rest) ->
    deser_step st e = Err x -> deser_loop ip (f :: fuel) st s = Err x.
  Proof. intros Hp Hs. rewrite deser_loop_unfold, Hp. cbn [bind fst snd]. rewrite Hs. reflexivity. Qed.

  (* an error of parse_entry is the result of the whole loop *)
  Lemma deser_loop_parse_err f fuel st s x :
    parse_entry ip (d_origin st) (d_prev_domain st) (d_prev_ttl st) s = Err x ->
    deser_loop ip (f :: fuel) st s = Err x.
  Proof. intros Hp. rewrite deser_loop_unfold, Hp. reflexivity. Qed.

  (* a zone is returned only at the very end: every entry accepted, then the assembly *)
  Theorem no_partial_load data z :
    deserialise ip data = Ok z ->
    exists st, deser_loop ip (0 :: data) dstate_init data = Ok st /\ assemble st = Ok z.
  Proof.
    unfold deserialise. destruct (deser_loop ip (0 :: data) dstate_init data) as [st| | |]; cbn [bind]; try discriminate.
    intro H. exists st. split; [reflexivity|exact H].
  Qed.

  Theorem loop_error_is_final data x :
    deser_loop ip (0 :: data) dstate_init data = Err x -> deserialise ip data = Err x.
  Proof. intro H. unfold deserialise. rewrite H. reflexivity. Qed.

  (* $INCLUDE *)
  Lemma parse_include_shape origin tokens :
    match parse_include origin tokens with Ok (EInclude _ _) | Err _ => True | _ => False end.
  Proof.
    unfold parse_include.
    destruct tokens as [|t0 [|t1 [|t2 [|t3 r]]]]; cbn [len_is negb andb idx nth_error bind]; try exact I.
    - destruct (leqb (fst t0) S_INCLUDE); cbn [negb]; exact I.
    - destruct (leqb (fst t0) S_INCLUDE); cbn [negb]; [|exact I].
      pose proof (parse_domain_total origin (fst t2)) as Ht.
      destruct (parse_domain origin (fst t2)); cbn [bind total] in *; try contradiction; exact I.
  Qed.

  Theorem reject_include st s t0 toks rest f fuel :
    tokenise_entry s = Ok (t0 :: toks, rest) -> fst t0 = S_INCLUDE ->
    exists e, deser_loop ip (f :: fuel) st s = Err e.
  Proof.
    intros Ht H0. rewrite deser_loop_unfold. unfold parse_entry. cbn [parse_entry_loop]. rewrite Ht.
    cbn [bind fst snd is_nil idx nth_error]. rewrite H0.
    change (leqb S_INCLUDE S_ORIGIN) with false. change (leqb S_INCLUDE S_INCLUDE) with true. cbn iota.
    pose proof (parse_include_shape (d_origin st) (t0 :: toks)) as Hs.
    destruct (parse_include (d_origin st) (t0 :: toks)) as [e|x| |]; cbn [bind]; try contradiction.
    - destruct e; try contradiction. cbn [fst bind deser_step]. eauto.
    - eauto.
  Qed.

  (* a class other than IN, owner explicit: <owner> <x> <y> <type> <rdata> with neither x nor y = IN *)
  Theorem reject_class_5 origin pd pt o x y ty rd td :
    try_parse_rtype_with_data ip origin (ty :: rd) = Ok (Some td) ->
    leqb (fst x) S_IN = false -> leqb (fst y) S_IN = false ->
    exists e, parse_rr ip origin pd pt (o :: x :: y :: ty :: rd) = Err e.
  Proof.
    intros Htd Hx Hy. unfold parse_rr. cbn [is_nil].
    unfold try_from at 1. cbn [len_ge slice_from skipn bind]. rewrite Htd. cbn [bind].
    unfold parse_rr_4. cbn [idx nth_error bind]. rewrite Hx, Hy.
    pose proof (pdw_total origin (fst o)) as Ht.
    destruct (parse_domain_or_wildcard origin (fst o)); cbn [bind total] in *; try contradiction; eauto.
  Qed.

  (* <owner> <class> <type> <rdata>: the class is taken for a TTL and is no number *)
  Theorem reject_class_4 origin pd pt o c ty rd td :
    try_parse_rtype_with_data ip origin (ty :: rd) = Ok (Some td) ->
    try_from ip origin (o :: c :: ty :: rd) 3 = Ok None ->
    leqb (fst c) S_IN = false -> leqb (fst o) S_IN = false -> uint_from_str U32_MAX (fst c) = None ->
    exists e, parse_rr ip origin pd pt (o :: c :: ty :: rd) = Err e.
  Proof.
    intros Htd H3 Hc Ho Hn. unfold parse_rr. cbn [is_nil]. rewrite H3. cbn [bind].
    unfold try_from at 1. cbn [len_ge slice_from skipn bind]. rewrite Htd. cbn [bind].
    unfold parse_rr_3. cbn [idx nth_error bind]. rewrite Hc, Ho.
    pose proof (pdw_total origin (fst o)) as Ht.
    destruct (parse_domain_or_wildcard origin (fst o)); cbn [bind total] in *; try contradiction; [|eauto].
    unfold parse_u32. rewrite Hn. cbn [of_opt bind]. eauto.
  Qed.

  (* a second SOA *)
  Theorem reject_second_soa st r m rn a b c d e x :
    rr_data r = RD_SOA m rn a b c d e -> d_apex_soa st = Some x ->
    deser_step st (ERR r) = Err MultipleSOA.
  Proof. intros Hd Hs. cbn [deser_step]. rewrite Hd, Hs. reflexivity. Qed.

  (* a wildcard SOA: what to_rr builds from a wildcard owner and a SOA is refused by the step *)
  Theorem reject_wildcard_soa st n d ttl :
    match to_rr (MWildcard n) (RT_SOA, d) ttl with
    | EWildcardRR r => deser_step st (EWildcardRR r) = Err WildcardSOA
    | _ => False
    end.
  Proof. cbn [to_rr fst snd]. destruct d; cbn [deser_step rr_type]; reflexivity. Qed.

  (* a relative name, @ or * when no origin has been set *)
  Theorem reject_relative_without_origin s c :
    forallb is_ascii s = true -> last_opt s = Some c -> (c <> 46 \/ s = S_AT) ->
    parse_domain None s = Err ExpectedOrigin.
  Proof.
    intros Ha Hl Hc. unfold parse_domain.
    destruct s as [|x t]; [discriminate|]. cbn [is_nil]. rewrite Ha. cbn [negb].
    destruct (leqb (x :: t) S_AT) eqn:E; [reflexivity|].
    unfold last_char. rewrite Hl. cbn [bind].
    destruct Hc as [Hc|Hc]; [|rewrite Hc in E; discriminate].
    apply N.eqb_neq in Hc. rewrite Hc. reflexivity.
  Qed.

  Theorem reject_star_without_origin : parse_domain_or_wildcard None S_STAR = Err ExpectedOrigin.
  Proof. reflexivity. Qed.

  (* no TTL to inherit: every shape without a TTL field, nothing to inherit, not a SOA *)
  Theorem reject_no_ttl sh origin pd o n td :
    has_ttl sh = false -> (fst td =? RT_SOA) = false ->
    exists e, denote_rr sh origin pd None o n td = Err e.
  Proof.
    intros Ht Hs. unfold denote_rr. rewrite Ht.
    assert (Hw : forall w, with_prev_ttl None w td = Err MissingTTL) by (intro w; unfold with_prev_ttl; rewrite Hs; reflexivity).
    destruct (has_owner sh).
    - pose proof (pdw_total origin (fst o)) as Hp.
      destruct (parse_domain_or_wildcard origin (fst o)); cbn [bind total] in *; try contradiction; [|eauto].
      rewrite Hw. eauto.
    - destruct pd; [rewrite Hw|]; eauto.
  Qed.

  (* an owner outside the apex *)
  Lemma insert_all_outside w : forall rrs z r,
    zone_ok z -> Forall (fun r => wf_name (rr_name r)) rrs ->
    In r rrs -> is_subdomain_of (rr_name r) (z_apex z) = false ->
    exists e, insert_all w rrs z = Err e.
  Proof.
    induction rrs as [|r0 t IH]; intros z r Hz Hwf Hin Hout; [contradiction|].
    apply Forall_cons_iff in Hwf as [Hr0 Ht]. cbn [insert_all].
    destruct (is_subdomain_of (rr_name r0) (z_apex z)) eqn:Es; cbn [negb]; [|eauto].
    destruct (zone_insert_ok w z (rr_name r0) (rr_type r0) (rr_data r0) (rr_ttl r0) Hz Hr0) as (z' & Hz' & Hok & Ha & _).
    rewrite Hz'. cbn [lift_unit bind].
    destruct Hin as [->|Hin]; [congruence|].
    apply (IH z' r Hok Ht Hin). rewrite Ha. exact Hout.
  Qed.

  Definition state_apex (st : dstate) : dname :=
    match d_apex_soa st with Some (a, _) => a | None => root_domain end.

  Theorem reject_outside_apex st r :
    dstate_wf st -> In r (d_rrs st) \/ In r (d_wrrs st) ->
    is_subdomain_of (rr_name r) (state_apex st) = false ->
    exists e, assemble st = Err e.
  Proof.
    intros (H1 & H2 & H3 & _ & _) Hin Hout. unfold assemble.
    set (z0 := match d_apex_soa st with Some (apex, s) => zone_new apex (Some s) | None => zone_new root_domain None end).
    assert (Hz0 : zone_ok z0 /\ z_apex z0 = state_apex st).
    { unfold z0, state_apex. destruct (d_apex_soa st) as [[a s]|]; (split; [apply zone_new_ok; [exact H3 || apply root_wf]|reflexivity]). }
    destruct Hz0 as [Hz0 Ha0].
    assert (Hr1 : Forall (fun r => wf_name (rr_name r)) (rev' (d_rrs st))) by (apply Forall_rev'; exact H1).
    assert (Hr2 : Forall (fun r => wf_name (rr_name r)) (rev' (d_wrrs st))) by (apply Forall_rev'; exact H2).
    destruct Hin as [Hin|Hin].
    - destruct (insert_all_outside false (rev' (d_rrs st)) z0 r Hz0 Hr1) as [e He].
      + unfold rev'. rewrite <- rev_alt. apply in_rev in Hin. exact Hin.
      + rewrite Ha0. exact Hout.
      + rewrite He. cbn [bind]. eauto.
    - pose proof (insert_all_good false (rev' (d_rrs st)) z0 Hr1 Hz0) as Hg.
      destruct (insert_all false (rev' (d_rrs st)) z0) as [z1|e| |]; cbn [good bind] in *; try contradiction; [|eauto].
      destruct Hg as (Hz1 & _ & Ha1).
      destruct (insert_all_outside true (rev' (d_wrrs st)) z1 r Hz1 Hr2) as [e He].
      + unfold rev'. rewrite <- rev_alt. apply in_rev in Hin. exact Hin.
      + rewrite Ha1, Ha0. exact Hout.
      + eauto.
  Qed.
End Reject.

(* ====================================================================== *)
(* C11: soa_raises_ttls                                                    *)
(* ====================================================================== *)

Definition rmap_min (m : N) (rm : rmap) : Prop :=
  Forall (fun kv => Forall (fun z => m <= zr_ttl z) (snd kv)) rm.

Fixpoint node_min (m : N) (nd : node) : Prop :=
  match nd with
  | Node _ this wild children =>
    rmap_min m this /\
    match wild with Some w => rmap_min m w | None => True end /\
    (fix go (cs : list (label * node)) : Prop :=
       match cs with
       | [] => True
       | kc :: t => node_min m (snd kc) /\ go t
       end) children
  end.

Lemma node_min_unfold m nsd this wild cs :
  node_min m (Node nsd this wild cs) <->
  rmap_min m this /\ match wild with Some w => rmap_min m w | None => True end /\
  Forall (fun kc => node_min m (snd kc)) cs.
Proof.
  cbn [node_min]. split; intros (H1 & H2 & H3); (split; [exact H1|split; [exact H2|]]).
  - induction cs as [|kc t IH]; [constructor|]. destruct H3 as [Ha Hb]. constructor; [exact Ha|apply IH; exact Hb].
  - induction cs as [|kc t IH]; [exact I|]. inversion H3; subst. split; [assumption|apply IH; assumption].
Qed.

Lemma alookup_N_in {V} k (m : list (N * V)) v : alookup N.eqb k m = Some v -> In (k, v) m.
Proof.
  induction m as [|[k' v'] t IH]; cbn [alookup]; [discriminate|].
  destruct (k =? k') eqn:E.
  - intro H. inversion H; subst. apply N.eqb_eq in E. subst. left. reflexivity.
  - intro H. right. apply IH. exact H.
Qed.

Lemma areplace_N_forall {V} (P : N * V -> Prop) k v (m : list (N * V)) :
  Forall P m -> (forall k', P (k', v)) -> Forall P (areplace N.eqb k v m).
Proof.
  intros H Hv. induction H as [|[k' v'] t Hh Ht IH]; cbn [areplace]; [constructor|].
  destruct (k =? k'); constructor; auto.
Qed.

Lemma rmap_insert_min m rm new : rmap_min m rm -> m <= zr_ttl new -> rmap_min m (rmap_insert rm new).
Proof.
  intros H Hn. unfold rmap_insert.
  destruct (alookup N.eqb (zr_type new) rm) as [entries|] eqn:El.
  - destruct (existsb (zrec_eqb new) entries); [exact H|].
    apply areplace_N_forall; [exact H|]. intros k'. cbn [snd].
    apply alookup_N_in in El. unfold rmap_min in H. rewrite Forall_forall in H. specialize (H _ El). cbn [snd] in H.
    apply Forall_app. split; [exact H|constructor; [exact Hn|constructor]].
  - apply Forall_app. split; [exact H|]. constructor; [|constructor]. cbn [snd]. constructor; [exact Hn|constructor].
Qed.

Lemma node_insert_min m : forall rp nd w new nd',
  node_min m nd -> m <= zr_ttl new -> node_insert w rp new nd = Ok nd' -> node_min m nd'.
Proof.
  induction rp as [|l rest IH]; intros nd w new nd' Hm Hn H; destruct nd as [nsd this wild cs];
    cbn [node_insert n_nsdname n_this n_wild n_children] in H; apply node_min_unfold in Hm as (H1 & H2 & H3).
  - destruct w; inversion H; subst; clear H; apply node_min_unfold.
    + split; [exact H1|split; [|exact H3]]. apply rmap_insert_min; [|exact Hn].
      destruct wild; [exact H2|constructor].
    + split; [apply rmap_insert_min; assumption|split; assumption].
  - destruct (alookup leqb l cs) as [child|] eqn:El.
    + destruct (node_insert w rest new child) as [c'| | |] eqn:Ec; cbn [bind] in H; try discriminate.
      inversion H; subst; clear H. apply node_min_unfold. split; [exact H1|split; [exact H2|]].
      apply alookup_leqb_in in El. rewrite Forall_forall in H3. pose proof (H3 _ El) as Hc. cbn [snd] in Hc.
      apply areplace_forall; [apply Forall_forall; exact H3|]. intros k _. cbn [snd].
      apply (IH child w new c' Hc Hn Ec).
    + destruct (from_labels (l :: labels nsd)) as [nsd'|]; [|discriminate].
      destruct (node_insert w rest new (node_new nsd')) as [c'| | |] eqn:Ec; cbn [bind] in H; try discriminate.
      inversion H; subst; clear H. apply node_min_unfold. split; [exact H1|split; [exact H2|]].
      apply Forall_app. split; [exact H3|]. constructor; [|constructor]. cbn [snd].
      apply (IH (node_new nsd') w new c'); [|exact Hn|exact Ec].
      apply node_min_unfold. split; [constructor|split; [exact I|constructor]].
Qed.

(* induction over the record tree *)
Section NodeInd.
  Variable P : node -> Prop.
  Hypothesis Hnode : forall nsd this wild cs, Forall (fun kc => P (snd kc)) cs -> P (Node nsd this wild cs).
  Fixpoint node_ind' (nd : node) : P nd :=
    match nd with
    | Node nsd this wild cs =>
      Hnode nsd this wild cs
            ((fix go (cs : list (label * node)) : Forall (fun kc => P (snd kc)) cs :=
                match cs with
                | [] => Forall_nil _
                | (k, c) :: t => Forall_cons (k, c) (node_ind' c) (go t)
                end) cs)
    end.
End NodeInd.

Lemma in_flat_map_snd (rm : rmap) zr : In zr (flat_map snd rm) -> exists kv, In kv rm /\ In zr (snd kv).
Proof. intro H. apply in_flat_map in H. exact H. Qed.

Lemma all_records_children_in (f : node -> list (dname * list zrec)) cs x :
  In x ((fix go (cs : list (label * node)) : list (dname * list zrec) :=
           match cs with [] => [] | (_, c) :: t => f c ++ go t end) cs) ->
  exists kc, In kc cs /\ In x (f (snd kc)).
Proof.
  induction cs as [|[k c] t IH]; [contradiction|]. intro H. apply in_app_or in H as [H|H].
  - exists (k, c). split; [left; reflexivity|exact H].
  - destruct (IH H) as (kc & Hin & Hx). exists kc. split; [right; exact Hin|exact Hx].
Qed.

Lemma node_min_all_records m nd : node_min m nd ->
  forall n zrs zr, In (n, zrs) (node_all_records nd) -> In zr zrs -> m <= zr_ttl zr.
Proof.
  induction nd as [nsd this wild cs IH] using node_ind'. intros Hm n zrs zr Hin Hz.
  apply node_min_unfold in Hm as (H1 & _ & H3). cbn [node_all_records] in Hin.
  apply in_app_or in Hin as [Hin|Hin].
  - destruct (is_nil (flat_map snd this)); [contradiction|]. destruct Hin as [Hin|[]]. inversion Hin; subst.
    apply in_flat_map_snd in Hz as (kv & Hkv & Hzr). unfold rmap_min in H1. rewrite Forall_forall in H1.
    specialize (H1 _ Hkv). rewrite Forall_forall in H1. apply H1. exact Hzr.
  - apply all_records_children_in in Hin as (kc & Hkc & Hx).
    rewrite Forall_forall in IH, H3. apply (IH _ Hkc (H3 _ Hkc) n zrs zr Hx Hz).
Qed.

Lemma node_min_all_wildcard_records m nd : node_min m nd ->
  forall n zrs zr, In (n, zrs) (node_all_wildcard_records nd) -> In zr zrs -> m <= zr_ttl zr.
Proof.
  induction nd as [nsd this wild cs IH] using node_ind'. intros Hm n zrs zr Hin Hz.
  apply node_min_unfold in Hm as (_ & H2 & H3). cbn [node_all_wildcard_records] in Hin.
  apply in_app_or in Hin as [Hin|Hin].
  - destruct wild as [ws|]; [|contradiction].
    destruct (is_nil (flat_map snd ws)); [contradiction|]. destruct Hin as [Hin|[]]. inversion Hin; subst.
    apply in_flat_map_snd in Hz as (kv & Hkv & Hzr). unfold rmap_min in H2. rewrite Forall_forall in H2.
    specialize (H2 _ Hkv). rewrite Forall_forall in H2. apply H2. exact Hzr.
  - apply all_records_children_in in Hin as (kc & Hkc & Hx).
    rewrite Forall_forall in IH, H3. apply (IH _ Hkc (H3 _ Hkc) n zrs zr Hx Hz).
Qed.

Section SoaTtl.
  Variable ip : ipcodec.

  Definition zone_min (z : zone) : Prop :=
    match z_soa z with Some s => node_min (soa_minimum s) (z_records z) | None => True end.

  Lemma zone_new_min apex s : zone_min (zone_new apex s).
  Proof.
    unfold zone_min, zone_new. destruct s as [s|]; cbn [z_soa z_records]; [|exact I].
    apply node_min_unfold. split; [|split; [exact I|constructor]].
    apply rmap_insert_min; [constructor|]. cbn [zr_ttl]. lia.
  Qed.

  Lemma zone_insert_min w z name ty d ttl z' :
    zone_min z -> zone_insert w z name ty d ttl = Ok z' -> zone_min z' /\ z_soa z' = z_soa z.
  Proof.
    intros Hm H. unfold zone_insert in H. destruct (relative_rp z name) as [rp|]; [|inversion H; subst; auto].
    destruct (node_insert w rp {| zr_type := ty; zr_data := d; zr_ttl := actual_ttl z ttl |} (z_records z)) as [nd| | |] eqn:En;
      cbn [bind] in H; try discriminate.
    inversion H; subst; clear H. unfold zone_min in *. cbn [z_soa z_records]. split; [|reflexivity].
    destruct (z_soa z) as [s|] eqn:Es; [|exact I].
    eapply node_insert_min; [exact Hm| |exact En]. cbn [zr_ttl]. unfold actual_ttl. rewrite Es. lia.
  Qed.

  Lemma insert_all_min w : forall rrs z z',
    zone_min z -> insert_all w rrs z = Ok z' -> zone_min z' /\ z_soa z' = z_soa z.
  Proof.
    induction rrs as [|r t IH]; intros z z' Hm H; cbn [insert_all] in H; [inversion H; subst; auto|].
    destruct (is_subdomain_of (rr_name r) (z_apex z)); cbn [negb] in H; [|discriminate].
    destruct (zone_insert w z (rr_name r) (rr_type r) (rr_data r) (rr_ttl r)) as [z1| | |] eqn:Ez;
      cbn [lift_unit bind] in H; try discriminate.
    destruct (zone_insert_min _ _ _ _ _ _ _ Hm Ez) as [Hm1 Hs1].
    destruct (IH z1 z' Hm1 H) as [Hm' Hs']. split; [exact Hm'|congruence].
  Qed.

  (* a SOA makes the zone authoritative with every TTL raised to the SOA minimum: every record
     of the zone the parser returns -- normal and wildcard, the SOA RR itself included -- has a
     TTL not below the MINIMUM field *)
  Theorem soa_raises_ttls data z s :
    deserialise ip data = Ok z -> z_soa z = Some s ->
    forall n zrs zr,
      In (n, zrs) (zone_all_records z) \/ In (n, zrs) (zone_all_wildcard_records z) ->
      In zr zrs -> soa_minimum s <= zr_ttl zr.
  Proof.
    intros Hd Hs n zrs zr Hin Hz.
    destruct (no_partial_load ip data z Hd) as (st & _ & Ha). unfold assemble in Ha.
    set (z0 := match d_apex_soa st with Some (apex, s) => zone_new apex (Some s) | None => zone_new root_domain None end) in Ha.
    assert (Hz0 : zone_min z0) by (unfold z0; destruct (d_apex_soa st) as [[a s0]|]; apply zone_new_min).
    destruct (insert_all false (rev' (d_rrs st)) z0) as [z1| | |] eqn:E1; cbn [bind] in Ha; try discriminate.
    destruct (insert_all_min _ _ _ _ Hz0 E1) as [Hm1 _].
    destruct (insert_all_min _ _ _ _ Hm1 Ha) as [Hm _].
    unfold zone_min in Hm. rewrite Hs in Hm.
    destruct Hin as [Hin|Hin].
    - eapply node_min_all_records; eassumption.
    - eapply node_min_all_wildcard_records; eassumption.
  Qed.
End SoaTtl.
