(* ZoneFile/ZoneRtOrder.v -- C13: the order in which the MODEL's own all_records /
   all_wildcard_records list the records (insertion order of the association lists standing for
   the HashMaps) is an admissible order in the sense of ZoneRoundTrip.v, so zone_roundtrip
   applies to [zone_serialise] as it stands; and every re-ordering of the names and of the type
   groups of a name (what another HashMap iteration order gives) is admissible too.

     nodes_of               the nodes of a record tree with their paths
     all_records_describes  node_all_records / node_all_wildcard_records describe the flat zone
     own_order_admissible, regroup_admissible *)
From Coq Require Import Permutation.
Set Default Timeout 120.
From RV Require Import Base.Prelude Name.NameModel Name.NameSpec Name.NameProofs Wire.WireTypes
     Zone.ZoneModel Zone.ZoneFlat Zone.ZoneProofs Zone.ZoneMergeProofs
     ZoneFile.ZoneFileModel ZoneFile.ZoneFileSpec ZoneFile.ZoneSerialiseModel
     ZoneFile.ZoneFileProofs ZoneFile.ZoneSerialiseProofs ZoneFile.ZoneRtLines ZoneFile.ZoneRtLoop
     ZoneFile.ZoneRoundTrip.

(* ---- the nodes of a tree, with the (reversed) path leading to each ---- *)

Fixpoint nodes_of (pre : list label) (nd : node) : list (list label * node) :=
  match nd with
  | Node _ _ _ children =>
    (pre, nd) :: (fix go (cs : list (label * node)) : list (list label * node) :=
                    match cs with [] => [] | (l, c) :: t => nodes_of (pre ++ [l]) c ++ go t end) children
  end.

Definition kids_nodes (pre : list label) (cs : list (label * node)) : list (list label * node) :=
  flat_map (fun kc => nodes_of (pre ++ [fst kc]) (snd kc)) cs.

Lemma nodes_of_unfold pre nsd a b cs :
  nodes_of pre (Node nsd a b cs) = (pre, Node nsd a b cs) :: kids_nodes pre cs.
Proof.
  cbn [nodes_of]. f_equal. unfold kids_nodes. induction cs as [|[l c] t IH]; [reflexivity|].
  cbn [flat_map fst snd]. rewrite <- IH. reflexivity.
Qed.

(* the entry all_records / all_wildcard_records makes for one node *)
Definition sel (w : bool) (n : node) : rmap := if w then wmap n else n_this n.
Definition ent_of (w : bool) (n : node) : list (dname * list zrec) :=
  let zrs := flat_map snd (sel w n) in if is_nil zrs then [] else [(n_nsdname n, zrs)].
Definition all_of (w : bool) (nd : node) : list (dname * list zrec) :=
  if w then node_all_wildcard_records nd else node_all_records nd.

Lemma all_of_unfold w nsd a b cs :
  all_of w (Node nsd a b cs) = ent_of w (Node nsd a b cs) ++ flat_map (fun kc => all_of w (snd kc)) cs.
Proof.
  destruct w; cbn [all_of node_all_records node_all_wildcard_records]; unfold ent_of; cbn [sel wmap n_wild n_this n_nsdname].
  - f_equal; [destruct b; reflexivity|]. induction cs as [|[l c] t IH]; [reflexivity|]. cbn [flat_map snd]. rewrite <- IH. reflexivity.
  - f_equal. induction cs as [|[l c] t IH]; [reflexivity|]. cbn [flat_map snd]. rewrite <- IH. reflexivity.
Qed.

Lemma flat_map_flat_map {A B C} (f : B -> list C) (g : A -> list B) l :
  flat_map f (flat_map g l) = flat_map (fun x => flat_map f (g x)) l.
Proof. induction l as [|x l IH]; cbn [flat_map]; [reflexivity|]. rewrite flat_map_app, IH. reflexivity. Qed.

Lemma flat_map_ext_in' {A B} (f g : A -> list B) l : (forall x, In x l -> f x = g x) -> flat_map f l = flat_map g l.
Proof.
  induction l as [|x l IH]; intro H; cbn [flat_map]; [reflexivity|].
  rewrite (H x (or_introl eq_refl)), IH; [reflexivity|]. intros y Hy. apply H. right. exact Hy.
Qed.

Lemma all_of_nodes w : forall nd pre, all_of w nd = flat_map (fun pn => ent_of w (snd pn)) (nodes_of pre nd).
Proof.
  induction nd as [nsd a b cs IH] using node_ind'. intro pre.
  rewrite all_of_unfold, nodes_of_unfold. cbn [flat_map snd]. f_equal.
  unfold kids_nodes. rewrite flat_map_flat_map. apply flat_map_ext_in'. intros kc Hkc.
  rewrite Forall_forall in IH. apply (IH kc Hkc).
Qed.

Lemma nodes_of_prefix : forall nd pre rq n, In (rq, n) (nodes_of pre nd) -> exists x, rq = pre ++ x.
Proof.
  induction nd as [nsd a b cs IH] using node_ind'. intros pre rq n Hin.
  rewrite nodes_of_unfold in Hin. destruct Hin as [E|Hin]; [inversion E; exists []; symmetry; apply app_nil_r|].
  unfold kids_nodes in Hin. apply in_flat_map in Hin as (kc & Hkc & Hin).
  rewrite Forall_forall in IH. destruct (IH kc Hkc _ _ _ Hin) as [x ->]. exists (fst kc :: x). rewrite <- app_assoc. reflexivity.
Qed.

Lemma alookup_nodup_in {V} l (c : V) cs : NoDup (map fst cs) -> In (l, c) cs -> alookup leqb l cs = Some c.
Proof.
  induction cs as [|[k v] t IH]; intros Hnd Hin; [destruct Hin|]. cbn [map fst] in Hnd. inversion Hnd as [|? ? Hnot Hnd']; subst.
  cbn [alookup]. destruct Hin as [E|Hin].
  - inversion E; subst. rewrite leqb_refl. reflexivity.
  - destruct (leqb l k) eqn:El; [|apply IH; assumption].
    apply leqb_eq in El. subst k. exfalso. apply Hnot. apply in_map_iff. exists (l, c). auto.
Qed.

Lemma nodes_of_at : forall nd pre rq n, wf_tree nd -> In (rq, n) (nodes_of pre nd) ->
  exists rq', rq = pre ++ rq' /\ node_at rq' nd = Some n.
Proof.
  induction nd as [nsd a b cs IH] using node_ind'. intros pre rq n Hwf Hin.
  rewrite nodes_of_unfold in Hin. destruct Hin as [E|Hin].
  - inversion E; subst. exists []. split; [symmetry; apply app_nil_r|reflexivity].
  - apply wf_tree_unfold in Hwf as [Hk Hall]. cbn [n_children] in *.
    unfold kids_nodes in Hin. apply in_flat_map in Hin as ([l c] & Hkc & Hin). cbn [fst snd] in Hin.
    rewrite Forall_forall in IH, Hall. destruct (IH _ Hkc _ _ _ (Hall _ Hkc) Hin) as (rq' & -> & Hat).
    exists (l :: rq'). split; [rewrite <- app_assoc; reflexivity|].
    cbn [node_at n_children]. rewrite (alookup_nodup_in l c cs Hk Hkc). exact Hat.
Qed.

Lemma nodes_of_complete : forall rq' nd pre n, node_at rq' nd = Some n -> In (pre ++ rq', n) (nodes_of pre nd).
Proof.
  induction rq' as [|l rq' IH]; intros nd pre n Hat; destruct nd as [nsd a b cs]; rewrite nodes_of_unfold.
  - cbn [node_at] in Hat. inversion Hat; subst. left. rewrite app_nil_r. reflexivity.
  - right. cbn [node_at n_children] in Hat. destruct (alookup leqb l cs) as [c|] eqn:El; [|discriminate].
    apply (alookup_in leqb leqb_eq) in El. unfold kids_nodes. apply in_flat_map. exists (l, c). split; [exact El|].
    cbn [fst snd]. replace (pre ++ l :: rq') with ((pre ++ [l]) ++ rq') by (rewrite <- app_assoc; reflexivity).
    apply IH. exact Hat.
Qed.

Lemma nodup_app {A} (a b : list A) : NoDup a -> NoDup b -> (forall x, In x a -> In x b -> False) -> NoDup (a ++ b).
Proof.
  intros Ha Hb Hd. induction Ha as [|x a Hx Ha IH]; [exact Hb|]. cbn [app]. constructor.
  - intro Hin. apply in_app_or in Hin as [Hin|Hin]; [contradiction|]. apply (Hd x); [left; reflexivity|exact Hin].
  - apply IH. intros y Hy. apply Hd. right. exact Hy.
Qed.

Lemma nodes_of_nodup : forall nd pre, wf_tree nd -> NoDup (map fst (nodes_of pre nd)).
Proof.
  induction nd as [nsd a b cs IH] using node_ind'. intros pre Hwf.
  rewrite nodes_of_unfold. cbn [map fst]. apply wf_tree_unfold in Hwf as [Hk Hall]. cbn [n_children] in *.
  constructor.
  - intro Hin. apply in_map_iff in Hin as ([rq n] & E & Hin). cbn [fst] in E. subst rq.
    unfold kids_nodes in Hin. apply in_flat_map in Hin as (kc & _ & Hin). apply nodes_of_prefix in Hin as [x Hx].
    apply (f_equal (@length _)) in Hx. rewrite !app_length in Hx. cbn [length] in Hx. lia.
  - unfold kids_nodes. induction cs as [|[l c] t IHt]; [constructor|].
    cbn [flat_map fst snd]. rewrite map_app. cbn [map fst] in Hk. inversion Hk as [|? ? Hnot Hk']; subst.
    apply Forall_cons_iff in IH as [IHc IHt']. apply Forall_cons_iff in Hall as [Hc Hall'].
    apply nodup_app; [apply IHc; exact Hc|apply IHt; assumption|].
    intros x Hx1 Hx2. apply in_map_iff in Hx1 as ([rq1 n1] & E1 & H1). apply in_map_iff in Hx2 as ([rq2 n2] & E2 & H2).
    cbn [fst] in E1, E2. subst rq1 rq2. apply nodes_of_prefix in H1 as [y1 Hy1].
    apply in_flat_map in H2 as ([l' c'] & Hkc' & H2). apply nodes_of_prefix in H2 as [y2 Hy2]. cbn [fst] in Hy2.
    rewrite Hy1, <- !app_assoc in Hy2. apply app_inv_head in Hy2. cbn [app] in Hy2. inversion Hy2; subst l'.
    apply Hnot. apply in_map_iff. exists (l, c'). auto.
Qed.

(* ---- all_records / all_wildcard_records describe the flat zone the tree represents ---- *)

Lemma R_node apexl nd fz rq n : R apexl nd fz -> node_at rq nd = Some n -> ZoneProofs.node_ok apexl fz rq n.
Proof.
  intros HR Hat. unfold R, Rsub in HR. specialize (HR rq). rewrite Hat in HR. apply HR.
Qed.

Lemma sel_spec apexl fz rq n w : ZoneProofs.node_ok apexl fz rq n ->
  wf_rmap (sel w n) /\ forall t, rget t (sel w n) = recs_at (sidef w fz) (rev rq) t.
Proof.
  intros [A B C D E F]. destruct w; cbn [sel sidef]; auto.
Qed.

Section Describes.
  Variables (apexl : list label) (nd : node) (fz : fzone) (w : bool).
  Hypothesis HR : R apexl nd fz.
  Hypothesis Hwf : wf_tree nd.

  Definition ent_at (pn : list label * node) : list (dname * list zrec) :=
    let zrs := flat_map snd (sel w (snd pn)) in if is_nil zrs then [] else [(mkname (rev (fst pn) ++ apexl), zrs)].

  Lemma all_of_ent_at : all_of w nd = flat_map ent_at (nodes_of [] nd).
  Proof.
    rewrite (all_of_nodes w nd []). apply flat_map_ext_in'. intros [rq n] Hin. cbn [snd].
    destruct (nodes_of_at nd [] rq n Hwf Hin) as (rq' & E & Hat). cbn [app] in E. subst rq'.
    unfold ent_of, ent_at. cbn [fst snd]. rewrite (ok_nsd _ _ _ _ (R_node _ _ _ _ _ HR Hat)). reflexivity.
  Qed.

  Lemma ent_at_keys : forall L, NoDup (map fst L) -> NoDup (map fst (flat_map ent_at L)).
  Proof.
    induction L as [|[rq n] L IH]; intro Hnd; [constructor|]. cbn [map fst] in Hnd. inversion Hnd as [|? ? Hnot Hnd']; subst.
    cbn [flat_map]. unfold ent_at at 1. cbn [fst snd]. destruct (is_nil (flat_map snd (sel w n))); [apply IH; exact Hnd'|].
    cbn [app map fst]. constructor; [|apply IH; exact Hnd'].
    intro Hin. apply in_map_iff in Hin as ([name zrs] & E & Hin). cbn [fst] in E. subst name.
    apply in_flat_map in Hin as ([rq' n'] & Hin' & He). unfold ent_at in He. cbn [fst snd] in He.
    destruct (is_nil (flat_map snd (sel w n'))); [destruct He|]. destruct He as [He|[]]. inversion He as [[E1 E2]].
    apply app_inv_tail in E1. apply (f_equal (@rev _)) in E1. rewrite !rev_involutive in E1. subst rq'.
    apply Hnot. apply in_map_iff. exists (rq, n'). auto.
  Qed.

  Theorem all_records_describes :
    describes apexl (sidef w fz) (all_of w nd) /\ nonempty_lists (all_of w nd).
  Proof.
    rewrite all_of_ent_at. split; [constructor|].
    - apply ent_at_keys. apply nodes_of_nodup. exact Hwf.
    - intros name zrs Hin. apply in_flat_map in Hin as ([rq n] & Hin & He). unfold ent_at in He. cbn [fst snd] in He.
      destruct (is_nil (flat_map snd (sel w n))); [destruct He|]. destruct He as [He|[]]. inversion He; subst. clear He.
      destruct (nodes_of_at nd [] rq n Hwf Hin) as (rq' & E & Hat). cbn [app] in E. subst rq'.
      destruct (sel_spec _ _ _ _ w (R_node _ _ _ _ _ HR Hat)) as [Hm Hg].
      exists (rev rq). split; [reflexivity|]. intro t. rewrite (of_type_flat t _ Hm). apply Hg.
    - intros p r Hin.
      assert (Hex : exists_node fz p).
      { right. exists p, r. split; [|apply is_suffix_refl]. unfold entries. apply in_or_app. destruct w; [right|left]; exact Hin. }
      pose proof HR as HR'. unfold R, Rsub in HR'. specialize (HR' (rev p)). unfold ZoneProofs.entry in HR'. cbn [app] in HR'.
      rewrite rev_involutive in HR'.
      destruct (node_at (rev p) nd) as [n|] eqn:Hat; [|contradiction].
      destruct (sel_spec _ _ _ _ w (proj2 HR')) as [Hm Hg].
      assert (Hr : In r (flat_map snd (sel w n))).
      { apply (In_flat_rget r _ Hm). rewrite Hg, rev_involutive. apply In_recs_at. auto. }
      apply in_map_iff. exists (mkname (p ++ apexl), flat_map snd (sel w n)). split; [reflexivity|].
      apply in_flat_map. exists (rev p, n). split; [apply (nodes_of_complete (rev p) nd [] n Hat)|].
      unfold ent_at. cbn [fst snd]. rewrite rev_involutive.
      destruct (flat_map snd (sel w n)) eqn:E; [destruct Hr|]. left. reflexivity.
    - intros name zrs Hin Hnil. subst zrs. apply in_flat_map in Hin as ([rq n] & _ & He). unfold ent_at in He. cbn [fst snd] in He.
      destruct (flat_map snd (sel w n)) eqn:E; cbn [is_nil] in He; [destruct He|]. destruct He as [He|[]]. inversion He.
  Qed.
End Describes.

(* the order of the model's own all_records / all_wildcard_records is admissible: zone_roundtrip
   applies to zone_serialise as it stands *)
Theorem own_order_admissible z : built z -> admissible z (zone_all_records z) (zone_all_wildcard_records z).
Proof.
  intros (apex & s & ops & Hh & Hops & Hb).
  destruct (built_data z apex s ops Hh Hops Hb) as (Ea & Es & HR0 & _).
  pose proof (zone_build_wf_tree apex s ops z Hb) as Hwf. rewrite <- Ea in HR0.
  destruct (all_records_describes _ _ _ false HR0 Hwf) as [D1 N1].
  destruct (all_records_describes _ _ _ true HR0 Hwf) as [D2 N2].
  split; [exact N1|]. split; [exact N2|]. exists (flat_of_ops (z_apex z) s ops). split; [exact HR0|]. split; assumption.
Qed.

(* ... and so is every re-ordering a different HashMap iteration order could produce: the names
   in any order, and under a name the type groups in any order (even interleaved), the order
   inside each type group kept *)
Definition regrouped (l l' : list (dname * list zrec)) : Prop :=
  NoDup (map fst l') /\
  (forall n zrs', In (n, zrs') l' -> zrs' <> [] /\ exists zrs, In (n, zrs) l /\ forall t, of_type t zrs' = of_type t zrs) /\
  (forall n, In n (map fst l) -> In n (map fst l')).

Lemma describes_regrouped apexl side l l' : describes apexl side l -> regrouped l l' -> describes apexl side l'.
Proof.
  intros [H1 H2 H3] (G1 & G2 & G3). constructor; [exact G1| |].
  - intros n zrs' Hin. destruct (G2 n zrs' Hin) as (_ & zrs & Hin0 & Ht). destruct (H2 n zrs Hin0) as (p & Hp & Hr).
    exists p. split; [exact Hp|]. intro t. rewrite Ht. apply Hr.
  - intros p r Hin. apply G3. apply (H3 p r Hin).
Qed.

Theorem regroup_admissible z recs wrecs recs' wrecs' :
  admissible z recs wrecs -> regrouped recs recs' -> regrouped wrecs wrecs' -> admissible z recs' wrecs'.
Proof.
  intros (_ & _ & fz & HR & D1 & D2) G1 G2. split; [|split].
  - intros n zrs Hin. apply (proj1 (proj2 G1) n zrs Hin).
  - intros n zrs Hin. apply (proj1 (proj2 G2) n zrs Hin).
  - exists fz. split; [exact HR|]. split; eapply describes_regrouped; eassumption.
Qed.
