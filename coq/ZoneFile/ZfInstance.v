(* ZoneFile/ZfInstance.v -- the zone-file model instantiated with the address codec of
   Ip/IpModel.v (std's Ipv4Addr / Ipv6Addr FromStr and Display), for extraction (the model
   driver) only.  No theorem depends on this file: the zone-file theorems hold for every
   codec. *)
From RV Require Import Base.Prelude Name.NameModel Wire.WireTypes Zone.ZoneModel Ip.IpModel
     ZoneFile.ZoneFileModel ZoneFile.ZoneSerialiseModel.

(* Ipv6Addr::from_str = parse_with(read_ipv6_addr): the whole input must be consumed *)
Definition ip_parse_v6 (s : list N) : option (list N) :=
  match IpModel.read_ipv6_addr (utf8 s) with
  | Some (g, rest) => if is_nil rest then Some g else None
  | None => None
  end.

Definition zf_codec : ipcodec :=
  {| parse_v4 := IpModel.parse_v4; parse_v6 := ip_parse_v6;
     show_v4 := IpModel.show_v4; show_v6 := IpModel.show_v6 |}.
Definition zf_deserialise (data : list N) : res zerr zone := deserialise zf_codec data.
Definition zf_serialise (z : zone) : res unit (list N) := zone_serialise zf_codec z.
