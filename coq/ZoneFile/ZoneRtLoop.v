(* ZoneFile/ZoneRtLoop.v -- C13, file level: Zone::deserialise run on the text Zone::serialise
   writes.  The main loop is followed segment by segment ([seg]: "$ORIGIN" line, SOA line,
   blank lines, one name block after the other, record line by record line), the final
   state holds exactly the records of the text in text order, and the assembly step is
   Zone::new followed by the insertions, i.e. [zone_build] of Zone/ZoneFlat.v:

     serialise_deserialise :
       zone_serialise_with z recs wrecs = Ok txt, deserialise txt = Ok z', same apex, same SOA,
       and the record tree of z' represents (relation R of Zone/ZoneProofs.v) the flat zone
       made of the records of the text, [text_ops]. *)
From Coq Require Import Permutation.
Set Default Timeout 120.
From RV Require Import Base.Prelude Name.NameModel Name.NameSpec Name.NameProofs Wire.WireTypes
     Zone.ZoneModel Zone.ZoneFlat Zone.ZoneProofs
     ZoneFile.ZoneFileModel ZoneFile.ZoneFileSpec ZoneFile.ZoneSerialiseModel
     ZoneFile.ZoneFileProofs ZoneFile.ZoneSerialiseProofs ZoneFile.ZoneRtLines.

(* ====================================================================== *)
(* the loops                                                               *)
(* ====================================================================== *)

Section Loop.
  Variable ip : ipcodec.

  (* parse_entry's loop: any fuel longer than the stream gives the same result *)
  Lemma parse_entry_loop_fuel : forall f1 f2 o pd pt s,
    (length s < length f1)%nat -> (length s < length f2)%nat ->
    parse_entry_loop ip f1 o pd pt s = parse_entry_loop ip f2 o pd pt s.
  Proof.
    induction f1 as [|x f1 IH]; intros f2 o pd pt s H1 H2; [cbn [length] in H1; lia|].
    destruct f2 as [|y f2]; [cbn [length] in H2; lia|]. cbn [parse_entry_loop].
    destruct (tokenise_entry s) as [[tokens rest]| | |] eqn:Et; cbn [bind fst snd]; try reflexivity.
    destruct tokens as [|t0 toks]; cbn [is_nil]; [|reflexivity].
    destruct rest as [|c rest]; cbn [is_nil]; [reflexivity|].
    apply tokenise_entry_rest in Et as [[_ E]|Hlt]; [discriminate|].
    apply IH; cbn [length] in *; lia.
  Qed.

  Lemma tokenise_blank rest : tokenise_entry (10 :: rest) = Ok ([], rest).
  Proof. reflexivity. Qed.

  (* a blank line before an entry is skipped *)
  Lemma parse_entry_blank o pd pt rest : parse_entry ip o pd pt (10 :: rest) = parse_entry ip o pd pt rest.
  Proof.
    unfold parse_entry. cbn [parse_entry_loop]. rewrite tokenise_blank. cbn [bind fst snd is_nil].
    destruct rest as [|c rest]; [reflexivity|]. cbn [is_nil].
    first [reflexivity | apply parse_entry_loop_fuel; cbn [length]; lia].
  Qed.

  Lemma parse_entry_nil o pd pt : parse_entry ip o pd pt [] = Ok (None, []).
  Proof. reflexivity. Qed.

  (* a piece of text that moves the main loop from state st to state st' *)
  Definition seg (st : dstate) (t : list N) (st' : dstate) : Prop :=
    forall rest fuel, (length (t ++ rest) < length fuel)%nat ->
      exists fuel', (length rest < length fuel')%nat /\
                    deser_loop ip fuel st (t ++ rest) = deser_loop ip fuel' st' rest.

  Lemma seg_nil st : seg st [] st.
  Proof. intros rest fuel H. exists fuel. auto. Qed.

  Lemma seg_app st1 t1 st2 t2 st3 : seg st1 t1 st2 -> seg st2 t2 st3 -> seg st1 (t1 ++ t2) st3.
  Proof.
    intros H1 H2 rest fuel Hlen. rewrite <- app_assoc in *.
    destruct (H1 (t2 ++ rest) fuel Hlen) as (f1 & Hl1 & E1).
    destruct (H2 rest f1 Hl1) as (f2 & Hl2 & E2).
    exists f2. split; [exact Hl2|]. rewrite E1. exact E2.
  Qed.

  Lemma seg_blank st : seg st [10] st.
  Proof.
    intros rest fuel Hlen. destruct fuel as [|f fuel]; [cbn [length] in Hlen; lia|].
    exists (f :: fuel). split; [cbn [app length] in *; lia|].
    cbn [app]. rewrite !deser_loop_unfold, parse_entry_blank. reflexivity.
  Qed.

  Lemma seg_entry st body e st' :
    (forall rest, parse_entry ip (d_origin st) (d_prev_domain st) (d_prev_ttl st) (body ++ 10 :: rest) = Ok (Some e, rest)) ->
    deser_step st e = Ok st' -> seg st (body ++ [10]) st'.
  Proof.
    intros Hp Hs rest fuel Hlen. destruct fuel as [|f fuel]; [cbn [length] in Hlen; lia|].
    exists fuel. split; [rewrite !app_length in Hlen; cbn [length] in Hlen; lia|].
    rewrite deser_loop_unfold, <- app_assoc. cbn [app]. rewrite Hp. cbn [bind fst snd]. rewrite Hs. reflexivity.
  Qed.

  Lemma seg_run st t st' : seg st t st' -> forall fuel, (length t < length fuel)%nat -> deser_loop ip fuel st t = Ok st'.
  Proof.
    intros H fuel Hlen. destruct (H [] fuel) as (f' & Hl & E); [rewrite app_nil_r; exact Hlen|].
    rewrite app_nil_r in E. rewrite E. destruct f' as [|x f']; [cbn [length] in Hl; lia|]. reflexivity.
  Qed.
End Loop.

(* ====================================================================== *)
(* one step of the main loop on the entries the serialiser's lines denote   *)
(* ====================================================================== *)

Definition not_soa_data (d : rdata) : Prop := forall m r a b c e f, d <> RD_SOA m r a b c e f.

Lemma shape_soa ty : shape_of_type ty = ShSOA -> ty = RT_SOA.
Proof.
  unfold shape_of_type.
  repeat match goal with |- context [if ?b then _ else _] => destruct b eqn:? end; try discriminate.
  intros _. apply N.eqb_eq. assumption.
Qed.

Lemma zrec_not_soa zr : shape_of_rdata (zr_data zr) = shape_of_type (zr_type zr) -> zr_type zr <> RT_SOA ->
  not_soa_data (zr_data zr).
Proof.
  intros Hs Ht m r a b c e f E. rewrite E in Hs. cbn [shape_of_rdata] in Hs. symmetry in Hs. apply shape_soa in Hs. contradiction.
Qed.

Lemma rec_entry_normal d zr : not_soa_data (zr_data zr) -> rec_entry (MNormal d) zr = ERR (zr_to_rr zr d).
Proof.
  intro H. unfold rec_entry, to_rr, zr_to_rr. cbn [fst snd]. f_equal. f_equal.
  destruct (zr_data zr); try reflexivity. exfalso. eapply H. reflexivity.
Qed.

Lemma rec_entry_wild d zr : not_soa_data (zr_data zr) -> rec_entry (MWildcard d) zr = EWildcardRR (zr_to_rr zr d).
Proof.
  intro H. unfold rec_entry, to_rr, zr_to_rr. cbn [fst snd]. f_equal. f_equal.
  destruct (zr_data zr); try reflexivity. exfalso. eapply H. reflexivity.
Qed.

Lemma step_normal st r : not_soa_data (rr_data r) ->
  exists st', deser_step st (ERR r) = Ok st' /\ d_rrs st' = r :: d_rrs st /\ d_wrrs st' = d_wrrs st /\
              d_apex_soa st' = d_apex_soa st /\ d_origin st' = d_origin st.
Proof.
  intro H. cbn [deser_step]. destruct (rr_data r) eqn:E; try (eexists; split; [reflexivity|cbn; auto]).
  exfalso. eapply H. reflexivity.
Qed.

Lemma step_wild st r : rr_type r <> RT_SOA ->
  exists st', deser_step st (EWildcardRR r) = Ok st' /\ d_rrs st' = d_rrs st /\ d_wrrs st' = r :: d_wrrs st /\
              d_apex_soa st' = d_apex_soa st /\ d_origin st' = d_origin st.
Proof.
  intro H. cbn [deser_step]. rewrite (proj2 (N.eqb_neq _ _) H). eexists. split; [reflexivity|cbn; auto].
Qed.

Lemma step_origin st n :
  exists st', deser_step st (EOrigin n) = Ok st' /\ d_rrs st' = d_rrs st /\ d_wrrs st' = d_wrrs st /\
              d_apex_soa st' = d_apex_soa st /\ d_origin st' = Some n.
Proof. eexists. split; [reflexivity|cbn; auto]. Qed.

Definition soa_of_rdata_fields (s : soa) : soa := s.

Lemma step_soa st apex s : d_apex_soa st = None ->
  exists st', deser_step st (ERR (soa_rr apex s)) = Ok st' /\ d_rrs st' = d_rrs st /\ d_wrrs st' = d_wrrs st /\
              d_apex_soa st' = Some (apex, s) /\ d_origin st' = d_origin st.
Proof.
  intro H. cbn [deser_step soa_rr rr_data rr_name soa_to_rdata]. rewrite H. eexists. split; [reflexivity|].
  cbn. destruct s; auto.
Qed.

(* ====================================================================== *)
(* the text of a zone                                                      *)
(* ====================================================================== *)

Definition nonsoa (zr : zrec) : bool := negb (zr_type zr =? RT_SOA).
Definition lookup (d : dname) (l : list (dname * list zrec)) : list zrec :=
  match alookup dname_eqb d l with Some zrs => zrs | None => [] end.

Definition under (apex n : dname) : Prop := is_subdomain_of n apex = true.

Section Text.
  Variable ip : ipcodec.
  Hypothesis Hip : codec_rt ip.

  Definition rec_ok (zr : zrec) : Prop := zrec_ok zr /\ zr_type zr <> RT_SOA.

  (* the (name, records) lists handed to the serialiser *)
  Definition recs_src_ok (apex : dname) (wild : bool) (l : list (dname * list zrec)) : Prop :=
    forall n zrs, In (n, zrs) l ->
      name_ok n /\ under apex n /\ (wild = false -> first_label n <> S_STAR) /\
      Forall (fun zr => (wild = false /\ zr_type zr = RT_SOA) \/ rec_ok zr) zrs.

  Definition zone_src_ok (z : zone) (recs wrecs : list (dname * list zrec)) : Prop :=
    name_ok (z_apex z) /\ first_label (z_apex z) <> S_STAR /\
    match z_soa z with Some s => soa_ok s | None => z_apex z = root_domain end /\
    recs_src_ok (z_apex z) false recs /\ recs_src_ok (z_apex z) true wrecs.

  Lemma lookup_src_ok apex w l d : recs_src_ok apex w l ->
    (lookup d l = [] \/ (name_ok d /\ under apex d /\ (w = false -> first_label d <> S_STAR))) /\
    Forall (fun zr => (w = false /\ zr_type zr = RT_SOA) \/ rec_ok zr) (lookup d l).
  Proof.
    intro H. unfold lookup. destruct (alookup dname_eqb d l) as [zrs|] eqn:E; [|split; [left; reflexivity|constructor]].
    apply alookup_some in E. destruct (H d zrs E) as (H1 & H2 & H3 & H4). split; [right; auto|exact H4].
  Qed.

  Section Zone.
    Variable z : zone.
    Hypothesis Ha : name_ok (z_apex z).

    (* the record lines of one name: state after = state before plus these records *)
    Lemma normal_lines_seg d pad : name_ok d -> first_label d <> S_STAR ->
      forall zrs st, Forall (fun zr => zr_type zr = RT_SOA \/ rec_ok zr) zrs -> d_origin st = zorigin z ->
      exists txt st', normal_lines ip z (serialise_octets (dom_text z d) false ++ repeat 32 pad) zrs = Ok txt /\
        seg ip st txt st' /\
        d_rrs st' = rev (map (fun zr => zr_to_rr zr d) (filter nonsoa zrs)) ++ d_rrs st /\
        d_wrrs st' = d_wrrs st /\ d_apex_soa st' = d_apex_soa st /\ d_origin st' = d_origin st.
    Proof.
      intros Hd Hfl. induction zrs as [|zr zrs IH]; intros st Hz Ho.
      - exists [], st. cbn [normal_lines filter map rev app]. split; [reflexivity|]. split; [apply seg_nil|auto].
      - apply Forall_cons_iff in Hz as [Hzr Hz]. cbn [normal_lines filter]. unfold nonsoa at 1.
        destruct (zr_type zr =? RT_SOA) eqn:Et; cbn [negb].
        + exact (IH st Hz Ho).
        + apply N.eqb_neq in Et. destruct Hzr as [Hzr|[Hok Hns]]; [contradiction|].
          destruct (dom_text_lc z d Ha Hd) as [Hne Hlc].
          destruct (record_line_entry ip Hip z (dom_text z d) pad (MNormal d) zr Ha Hok (lc_octets _ Hlc) Hne (lc_noupper _ Hlc)
                                      (dom_text_owner z d Ha Hd Hfl)) as (body & Hline & Hparse).
          rewrite Hline. cbn [bind].
          assert (Hnd : not_soa_data (zr_data zr)) by (apply zrec_not_soa; [apply Hok|exact Hns]).
          rewrite (rec_entry_normal d zr Hnd) in Hparse.
          destruct (step_normal st (zr_to_rr zr d) Hnd) as (st1 & Hs1 & R1 & W1 & A1 & O1).
          assert (Hseg1 : seg ip st (body ++ [10]) st1).
          { apply seg_entry with (e := ERR (zr_to_rr zr d)); [|exact Hs1]. intro rest. rewrite Ho. apply Hparse. }
          destruct (IH st1 Hz ltac:(congruence)) as (txt & st' & Htxt & Hseg & R2 & W2 & A2 & O2).
          rewrite Htxt. cbn [bind]. exists ((body ++ [10]) ++ txt), st'. split; [reflexivity|].
          split; [eapply seg_app; eassumption|].
          cbn [map rev]. rewrite R2, R1, <- app_assoc. cbn [app]. repeat split; congruence.
    Qed.

    Lemma star_dot_text txt : [42; 46] ++ serialise_octets txt false = serialise_octets (42 :: 46 :: txt) false ++ repeat 32 0.
    Proof. unfold serialise_octets. cbn [flat_map repeat app]. rewrite !app_nil_r. reflexivity. Qed.

    Lemma wildcard_lines_seg d : name_ok d ->
      forall zrs st, Forall rec_ok zrs -> d_origin st = zorigin z ->
      exists txt st', wildcard_lines ip z ([42; 46] ++ serialise_octets (dom_text z d) false) zrs = Ok txt /\
        seg ip st txt st' /\
        d_rrs st' = d_rrs st /\
        d_wrrs st' = rev (map (fun zr => zr_to_rr zr d) zrs) ++ d_wrrs st /\
        d_apex_soa st' = d_apex_soa st /\ d_origin st' = d_origin st.
    Proof.
      intros Hd. induction zrs as [|zr zrs IH]; intros st Hz Ho.
      - exists [], st. cbn [wildcard_lines map rev app]. split; [reflexivity|]. split; [apply seg_nil|auto].
      - apply Forall_cons_iff in Hz as [[Hok Hns] Hz]. cbn [wildcard_lines].
        destruct (dom_text_lc z d Ha Hd) as [Hne Hlc].
        assert (Hoct : octets (42 :: 46 :: dom_text z d)) by (repeat constructor; try lia; apply lc_octets; exact Hlc).
        assert (Hnu : noupper (42 :: 46 :: dom_text z d)) by (repeat constructor; apply lc_noupper; exact Hlc).
        destruct (record_line_entry ip Hip z (42 :: 46 :: dom_text z d) 0 (MWildcard d) zr Ha Hok Hoct ltac:(discriminate) Hnu
                                    (dom_text_wild z d Ha Hd)) as (body & Hline & Hparse).
        rewrite star_dot_text, Hline. cbn [bind]. rewrite <- star_dot_text.
        assert (Hnd : not_soa_data (zr_data zr)) by (apply zrec_not_soa; [apply Hok|exact Hns]).
        rewrite (rec_entry_wild d zr Hnd) in Hparse.
        destruct (step_wild st (zr_to_rr zr d) Hns) as (st1 & Hs1 & R1 & W1 & A1 & O1).
        assert (Hseg1 : seg ip st (body ++ [10]) st1).
        { apply seg_entry with (e := EWildcardRR (zr_to_rr zr d)); [|exact Hs1]. intro rest. rewrite Ho. apply Hparse. }
        destruct (IH st1 Hz ltac:(congruence)) as (txt & st' & Htxt & Hseg & R2 & W2 & A2 & O2).
        rewrite Htxt. cbn [bind]. exists ((body ++ [10]) ++ txt), st'. split; [reflexivity|].
        split; [eapply seg_app; eassumption|].
        cbn [map rev]. rewrite W2, W1, <- app_assoc. cbn [app]. repeat split; congruence.
    Qed.

    Variables recs wrecs : list (dname * list zrec).
    Hypothesis Hrecs : recs_src_ok (z_apex z) false recs.
    Hypothesis Hwrecs : recs_src_ok (z_apex z) true wrecs.

    Definition block_rrs (d : dname) : list rr := map (fun zr => zr_to_rr zr d) (filter nonsoa (lookup d recs)).
    Definition block_wrrs (d : dname) : list rr := map (fun zr => zr_to_rr zr d) (lookup d wrecs).

    Lemma domain_block_seg d st : In d (map fst recs ++ map fst wrecs) -> d_origin st = zorigin z ->
      exists txt st', domain_block ip z recs wrecs d = Ok txt /\ seg ip st txt st' /\
        d_rrs st' = rev (block_rrs d) ++ d_rrs st /\ d_wrrs st' = rev (block_wrrs d) ++ d_wrrs st /\
        d_apex_soa st' = d_apex_soa st /\ d_origin st' = d_origin st.
    Proof.
      intros Hin Ho.
      (* the name is one of the keys, hence expressible *)
      assert (Hd : name_ok d).
      { apply in_app_or in Hin as [Hin|Hin]; apply in_map_iff in Hin as ([n zrs] & E & Hin); cbn [fst] in E; subst n;
          [apply (Hrecs d zrs Hin)|apply (Hwrecs d zrs Hin)]. }
      unfold domain_block. rewrite (serialise_domain_text z d Ha Hd). cbn [bind].
      unfold block_rrs, block_wrrs.
      destruct (lookup_src_ok (z_apex z) false recs d Hrecs) as [Hn1 Hn2].
      destruct (lookup_src_ok (z_apex z) true wrecs d Hwrecs) as [_ Hw2].
      assert (Hw2' : Forall rec_ok (lookup d wrecs)).
      { revert Hw2. apply Forall_impl. intros zr [[F _]|H]; [discriminate|exact H]. }
      assert (Hn2' : Forall (fun zr => zr_type zr = RT_SOA \/ rec_ok zr) (lookup d recs)).
      { revert Hn2. apply Forall_impl. intros zr [[_ H]|H]; auto. }
      (* normal records *)
      assert (HN : exists txt st1, match alookup dname_eqb d recs with
                                   | Some zrs => normal_lines ip z (serialise_octets (dom_text z d) false ++
                                                    (if match alookup dname_eqb d wrecs with Some _ => true | None => false end then [32; 32] else [])) zrs
                                   | None => Ok []
                                   end = Ok txt /\ seg ip st txt st1 /\
                 d_rrs st1 = rev (map (fun zr => zr_to_rr zr d) (filter nonsoa (lookup d recs))) ++ d_rrs st /\
                 d_wrrs st1 = d_wrrs st /\ d_apex_soa st1 = d_apex_soa st /\ d_origin st1 = d_origin st).
      { unfold lookup in *. destruct (alookup dname_eqb d recs) as [zrs|] eqn:E.
        - destruct Hn1 as [->|(_ & _ & Hfl)].
          + exists [], st. cbn [normal_lines filter map rev app]. split; [reflexivity|]. split; [apply seg_nil|auto].
          + set (pad := if match alookup dname_eqb d wrecs with Some _ => true | None => false end then 2%nat else 0%nat).
            replace (if match alookup dname_eqb d wrecs with Some _ => true | None => false end then [32; 32] else [])
              with (repeat 32 pad) by (unfold pad; destruct (alookup dname_eqb d wrecs); reflexivity).
            apply normal_lines_seg; auto.
        - exists [], st. cbn [filter map rev app]. split; [reflexivity|]. split; [apply seg_nil|auto]. }
      destruct HN as (t1 & st1 & E1 & S1 & R1 & W1 & A1 & O1). rewrite E1. cbn [bind].
      assert (HW : exists txt st2, match alookup dname_eqb d wrecs with
                                   | Some zrs => wildcard_lines ip z ([42; 46] ++ serialise_octets (dom_text z d) false) zrs
                                   | None => Ok []
                                   end = Ok txt /\ seg ip st1 txt st2 /\
                 d_rrs st2 = d_rrs st1 /\
                 d_wrrs st2 = rev (map (fun zr => zr_to_rr zr d) (lookup d wrecs)) ++ d_wrrs st1 /\
                 d_apex_soa st2 = d_apex_soa st1 /\ d_origin st2 = d_origin st1).
      { unfold lookup in *. destruct (alookup dname_eqb d wrecs) as [zrs|] eqn:E.
        - apply wildcard_lines_seg; auto; congruence.
        - exists [], st1. cbn [map rev app]. split; [reflexivity|]. split; [apply seg_nil|auto]. }
      destruct HW as (t2 & st2 & E2 & S2 & R2 & W2 & A2 & O2). rewrite E2. cbn [bind].
      exists (t1 ++ t2 ++ nl), st2. split; [reflexivity|]. split.
      - eapply seg_app; [exact S1|]. eapply seg_app; [exact S2|apply seg_blank].
      - repeat split; congruence.
    Qed.

    Lemma domain_blocks_seg : forall ds st, incl ds (map fst recs ++ map fst wrecs) -> d_origin st = zorigin z ->
      exists txt st', domain_blocks ip z recs wrecs ds = Ok txt /\ seg ip st txt st' /\
        d_rrs st' = rev (flat_map block_rrs ds) ++ d_rrs st /\ d_wrrs st' = rev (flat_map block_wrrs ds) ++ d_wrrs st /\
        d_apex_soa st' = d_apex_soa st /\ d_origin st' = d_origin st.
    Proof.
      induction ds as [|d ds IH]; intros st Hincl Ho.
      - exists [], st. cbn [domain_blocks flat_map rev app]. split; [reflexivity|]. split; [apply seg_nil|auto].
      - cbn [domain_blocks flat_map].
        destruct (domain_block_seg d st (Hincl d (or_introl eq_refl)) Ho) as (t1 & st1 & E1 & S1 & R1 & W1 & A1 & O1).
        rewrite E1. cbn [bind].
        destruct (IH st1 (fun x Hx => Hincl x (or_intror Hx)) ltac:(congruence)) as (t2 & st2 & E2 & S2 & R2 & W2 & A2 & O2).
        rewrite E2. cbn [bind]. exists (t1 ++ t2), st2. split; [reflexivity|]. split; [eapply seg_app; eassumption|].
        rewrite !rev_app_distr, R2, R1, W2, W1, <- !app_assoc. repeat split; congruence.
    Qed.
  End Zone.
End Text.

(* ====================================================================== *)
(* sorted, de-duplicated names                                             *)
(* ====================================================================== *)

Lemma insert_sorted_perm x l : Permutation (insert_sorted x l) (x :: l).
Proof.
  induction l as [|y t IH]; cbn [insert_sorted]; [apply Permutation_refl|].
  destruct (dname_leb x y); [apply Permutation_refl|].
  eapply Permutation_trans; [apply perm_skip; exact IH|apply perm_swap].
Qed.

Lemma sort_names_perm l : Permutation (sort_names l) l.
Proof.
  induction l as [|x t IH]; [apply Permutation_refl|]. unfold sort_names in *. cbn [fold_right].
  eapply Permutation_trans; [apply insert_sorted_perm|apply perm_skip; exact IH].
Qed.

Lemma existsb_dname_In x l : existsb (dname_eqb x) l = true <-> In x l.
Proof.
  rewrite existsb_exists. split.
  - intros (y & Hin & E). apply dname_eqb_eq in E. subst y. exact Hin.
  - intro Hin. exists x. split; [exact Hin|apply dname_eqb_eq; reflexivity].
Qed.

Lemma rev'_rev {A} (l : list A) : rev' l = rev l.
Proof. unfold rev'. symmetry. apply rev_alt. Qed.

Lemma dedup_names_spec : forall l seen, NoDup seen ->
  NoDup (dedup_names l seen) /\ forall x, In x (dedup_names l seen) <-> In x l \/ In x seen.
Proof.
  induction l as [|y t IH]; intros seen Hnd; cbn [dedup_names].
  - rewrite rev'_rev. split; [apply NoDup_rev; exact Hnd|]. intro x. rewrite <- in_rev. cbn [In]. tauto.
  - destruct (existsb (dname_eqb y) seen) eqn:E.
    + destruct (IH seen Hnd) as [H1 H2]. split; [exact H1|]. intro x. rewrite H2. cbn [In].
      apply existsb_dname_In in E. split; [tauto|]. intros [[<-|H]|H]; auto.
    + assert (Hn : ~ In y seen) by (intro H; apply existsb_dname_In in H; congruence).
      destruct (IH (y :: seen) (NoDup_cons y Hn Hnd)) as [H1 H2]. split; [exact H1|]. intro x. rewrite H2. cbn [In]. tauto.
Qed.

Definition zone_ds (recs wrecs : list (dname * list zrec)) : list dname :=
  sort_names (dedup_names (map fst recs ++ map fst wrecs) []).

Lemma zone_ds_spec recs wrecs :
  NoDup (zone_ds recs wrecs) /\ forall x, In x (zone_ds recs wrecs) <-> In x (map fst recs ++ map fst wrecs).
Proof.
  unfold zone_ds. destruct (dedup_names_spec (map fst recs ++ map fst wrecs) [] (NoDup_nil _)) as [H1 H2].
  pose proof (sort_names_perm (dedup_names (map fst recs ++ map fst wrecs) [])) as P. split.
  - eapply Permutation_NoDup; [apply Permutation_sym; exact P|exact H1].
  - intro x. split.
    + intro H. apply (Permutation_in _ P) in H. apply H2 in H as [H|[]]. exact H.
    + intro H. apply (Permutation_in _ (Permutation_sym P)). apply H2. left. exact H.
Qed.

(* ====================================================================== *)
(* the SOA block; the whole text; the assembly                             *)
(* ====================================================================== *)

Definition op_of_rr (w : bool) (r : rr) : zop :=
  {| op_wild := w; op_name := rr_name r; op_type := rr_type r; op_data := rr_data r; op_ttl := rr_ttl r |}.

Lemma zone_insert_apex w z n ty d ttl z' : zone_insert w z n ty d ttl = Ok z' -> z_apex z' = z_apex z.
Proof.
  unfold zone_insert. destruct (relative_rp z n); [|intro H; inversion H; reflexivity].
  destruct (node_insert w l _ (z_records z)); cbn [bind]; intro H; inversion H. reflexivity.
Qed.

Lemma insert_all_apply w : forall rrs z z',
  (forall r, In r rrs -> is_subdomain_of (rr_name r) (z_apex z) = true) ->
  zone_apply_all z (map (op_of_rr w) rrs) = Ok z' -> insert_all w rrs z = Ok z'.
Proof.
  induction rrs as [|r t IH]; intros z z' Hsub H; cbn [map zone_apply_all insert_all] in *; [inversion H; reflexivity|].
  unfold zone_apply in H. cbn [op_of_rr op_wild op_name op_type op_data op_ttl] in H.
  rewrite (Hsub r (or_introl eq_refl)). cbn [negb].
  destruct (zone_insert w z (rr_name r) (rr_type r) (rr_data r) (rr_ttl r)) as [z1| | |] eqn:E; cbn [bind] in H; try discriminate.
  cbn [lift_unit bind]. apply IH; [|exact H].
  intros r' Hr'. rewrite (zone_insert_apex _ _ _ _ _ _ _ E). apply Hsub. right. exact Hr'.
Qed.

Lemma zone_apply_all_app : forall a b z, zone_apply_all z (a ++ b) = let* z1 := zone_apply_all z a in zone_apply_all z1 b.
Proof.
  induction a as [|o a IH]; intros b z; cbn [app zone_apply_all bind]; [reflexivity|].
  destruct (zone_apply z o); cbn [bind]; try reflexivity. apply IH.
Qed.

Lemma zone_apply_all_apex : forall ops z z', zone_apply_all z ops = Ok z' -> z_apex z' = z_apex z.
Proof.
  induction ops as [|o ops IH]; intros z z' H; cbn [zone_apply_all] in H; [inversion H; reflexivity|].
  destruct (zone_apply z o) as [z1| | |] eqn:E; cbn [bind] in H; try discriminate.
  rewrite (IH _ _ H). unfold zone_apply in E. eapply zone_insert_apex. exact E.
Qed.

(* the assembly step of Zone::deserialise is Zone::new followed by the insertions *)
Theorem assemble_build st apex so nrrs wrrs :
  d_apex_soa st = option_map (fun s => (apex, s)) so -> (so = None -> apex = root_domain) ->
  d_rrs st = rev nrrs -> d_wrrs st = rev wrrs -> wf_name apex ->
  (forall r, In r (nrrs ++ wrrs) -> wf_name (rr_name r) /\ is_subdomain_of (rr_name r) apex = true) ->
  exists z', assemble st = Ok z' /\ z_apex z' = apex /\ z_soa z' = so /\
             zone_build apex so (map (op_of_rr false) nrrs ++ map (op_of_rr true) wrrs) = Ok z' /\
             R (labels apex) (z_records z') (flat_of_ops apex so (map (op_of_rr false) nrrs ++ map (op_of_rr true) wrrs)).
Proof.
  intros Hs Hnone Hr Hw Hwf Hall. unfold assemble. rewrite Hs, Hr, Hw, !rev'_rev, !rev_involutive.
  assert (E0 : match option_map (fun s => (apex, s)) so with
               | Some (apex0, s) => zone_new apex0 (Some s)
               | None => zone_new root_domain None
               end = zone_new apex so).
  { destruct so as [s|]; cbn [option_map]; [reflexivity|]. rewrite (Hnone eq_refl). reflexivity. }
  rewrite E0.
  destruct (zone_build_R apex so (map (op_of_rr false) nrrs ++ map (op_of_rr true) wrrs) Hwf) as (z' & Hb & Ha' & Hs' & HR).
  { apply Forall_app. split; apply Forall_forall; intros o Ho; apply in_map_iff in Ho as (r & <- & Hr'); cbn [op_of_rr op_name];
      apply Hall; apply in_or_app; auto. }
  pose proof Hb as Hb0. unfold zone_build in Hb. rewrite zone_apply_all_app in Hb.
  destruct (zone_apply_all (zone_new apex so) (map (op_of_rr false) nrrs)) as [z1| | |] eqn:E1; cbn [bind] in Hb; try discriminate.
  assert (A0 : z_apex (zone_new apex so) = apex) by reflexivity.
  rewrite (insert_all_apply false nrrs (zone_new apex so) z1); [|rewrite A0; intros r Hr'; apply Hall; apply in_or_app; auto|exact E1].
  cbn [bind].
  rewrite (insert_all_apply true wrrs z1 z'); [|rewrite (zone_apply_all_apex _ _ _ E1), A0; intros r Hr'; apply Hall; apply in_or_app; auto|exact Hb].
  exists z'. auto.
Qed.

Section Whole.
  Variable ip : ipcodec.
  Hypothesis Hip : codec_rt ip.

  Lemma soa_block_seg z :
    name_ok (z_apex z) -> first_label (z_apex z) <> S_STAR ->
    match z_soa z with Some s => soa_ok s | None => True end ->
    exists txt st', soa_block ip z = Ok txt /\ seg ip dstate_init txt st' /\
      d_rrs st' = [] /\ d_wrrs st' = [] /\
      d_apex_soa st' = option_map (fun s => (z_apex z, s)) (z_soa z) /\ d_origin st' = zorigin z.
  Proof.
    intros Ha Hfl Hs. unfold soa_block. destruct (z_soa z) as [s|] eqn:Es.
    2: { exists [], dstate_init. split; [reflexivity|]. split; [apply seg_nil|].
         unfold zorigin, zone_is_authoritative. rewrite Es. cbn. auto. }
    destruct (soa_line_entry ip Hip z s Ha Hs Hfl Es) as (body & Hline & Hparse).
    destruct (serialise_rdata ip z (soa_to_rdata s)) as [rd| | |] eqn:Erd; cbn [bind] in Hline |- *; try discriminate.
    injection Hline as Hline.
    assert (Hauth : zone_is_authoritative z = true) by (unfold zone_is_authoritative; rewrite Es; reflexivity).
    assert (Htail : forall X, (if negb (is_root (z_apex z)) then S_AT else serialise_octets (utf8 (to_dotted_string (z_apex z))) false)
                                ++ sp ++ S_IN ++ sp ++ S_SOA ++ sp ++ rd ++ nl ++ X = (body ++ [10]) ++ X).
    { intro X. rewrite <- Hline. unfold sp, S_IN, S_SOA. repeat rewrite <- app_assoc. cbn [app].
      repeat rewrite <- app_assoc. reflexivity. }
    destruct (is_root (z_apex z)) eqn:Er; cbn [negb] in *.
    - (* root apex: no $ORIGIN line *)
      assert (Ho : zorigin z = None) by (unfold zorigin; rewrite Hauth, Er; reflexivity).
      destruct (step_soa dstate_init (z_apex z) s eq_refl) as (st1 & Hs1 & R1 & W1 & A1 & O1).
      exists ((body ++ [10]) ++ nl), st1. split; [cbn [app]; rewrite (Htail nl); reflexivity|]. split.
      + eapply seg_app; [|apply seg_blank]. apply seg_entry with (e := ERR (soa_rr (z_apex z) s)); [|exact Hs1].
        intro rest. change (d_origin dstate_init) with (@None dname). rewrite <- Ho. apply Hparse.
      + rewrite R1, W1, A1, O1, Ho. cbn. auto.
    - assert (Ho : zorigin z = Some (z_apex z)) by (unfold zorigin; rewrite Hauth, Er; reflexivity).
      destruct (step_origin dstate_init (z_apex z)) as (st0 & Hs0 & R0 & W0 & A0 & O0).
      destruct (step_soa st0 (z_apex z) s A0) as (st1 & Hs1 & R1 & W1 & A1 & O1).
      exists (((S_ORIGIN ++ sp ++ serialise_octets (utf8 (to_dotted_string (z_apex z))) false) ++ [10]) ++ nl ++ (body ++ [10]) ++ nl), st1.
      split.
      + rewrite (Htail nl). f_equal. unfold nl. repeat rewrite <- app_assoc. reflexivity.
      + split.
        * eapply seg_app; [apply seg_entry with (e := EOrigin (z_apex z)); [|exact Hs0]|].
          { intro rest. apply origin_line_entry. exact Ha. }
          eapply seg_app; [apply seg_blank|]. eapply seg_app; [|apply seg_blank].
          apply seg_entry with (e := ERR (soa_rr (z_apex z) s)); [|exact Hs1].
          intro rest. rewrite O0, <- Ho. apply Hparse.
        * rewrite R1, W1, A1, O1, R0, W0, O0, Ho. cbn. auto.
  Qed.

  (* the records of the text, in text order *)
  Definition text_ops (recs wrecs : list (dname * list zrec)) : list zop :=
    map (op_of_rr false) (flat_map (block_rrs recs) (zone_ds recs wrecs))
        ++ map (op_of_rr true) (flat_map (block_wrrs wrecs) (zone_ds recs wrecs)).

  Theorem serialise_deserialise z recs wrecs : zone_src_ok z recs wrecs ->
    exists txt z', zone_serialise_with ip z recs wrecs = Ok txt /\ deserialise ip txt = Ok z' /\
      z_apex z' = z_apex z /\ z_soa z' = z_soa z /\
      zone_build (z_apex z) (z_soa z) (text_ops recs wrecs) = Ok z' /\
      R (labels (z_apex z)) (z_records z') (flat_of_ops (z_apex z) (z_soa z) (text_ops recs wrecs)).
  Proof.
    intros (Ha & Hfl & Hsoa & Hrecs & Hwrecs).
    destruct (soa_block_seg z Ha Hfl) as (t1 & st1 & E1 & S1 & R1 & W1 & A1 & O1).
    { destruct (z_soa z); [exact Hsoa|exact I]. }
    destruct (zone_ds_spec recs wrecs) as [_ Hds].
    destruct (domain_blocks_seg ip Hip z Ha recs wrecs Hrecs Hwrecs (zone_ds recs wrecs) st1) as (t2 & st2 & E2 & S2 & R2 & W2 & A2 & O2).
    { intros x Hx. apply Hds. exact Hx. }
    { exact O1. }
    unfold zone_serialise_with. rewrite E1. cbn [bind]. fold (zone_ds recs wrecs). rewrite E2. cbn [bind].
    assert (Hloop : deser_loop ip (0 :: t1 ++ t2) dstate_init (t1 ++ t2) = Ok st2).
    { apply seg_run; [eapply seg_app; eassumption|cbn [length]; lia]. }
    destruct (assemble_build st2 (z_apex z) (z_soa z) (flat_map (block_rrs recs) (zone_ds recs wrecs))
                             (flat_map (block_wrrs wrecs) (zone_ds recs wrecs))) as (z' & Hz' & Ha' & Hs' & Hb' & HR).
    - rewrite A2. exact A1.
    - intro E. rewrite E in Hsoa. exact Hsoa.
    - rewrite R2, R1. apply app_nil_r.
    - rewrite W2, W1. apply app_nil_r.
    - apply Ha.
    - intros r Hr. apply in_app_or in Hr.
      assert (Hk : forall d, In d (zone_ds recs wrecs) -> name_ok d /\ under (z_apex z) d).
      { intros d Hd. apply Hds in Hd. apply in_app_or in Hd as [Hd|Hd]; apply in_map_iff in Hd as ([n zrs] & E & Hin); cbn [fst] in E; subst n;
          [destruct (Hrecs d zrs Hin) as (H1 & H2 & _)|destruct (Hwrecs d zrs Hin) as (H1 & H2 & _)]; auto. }
      assert (Hname : exists d, In d (zone_ds recs wrecs) /\ rr_name r = d).
      { destruct Hr as [Hr|Hr]; apply in_flat_map in Hr as (d & Hd & Hr); exists d; (split; [exact Hd|]);
          unfold block_rrs, block_wrrs in Hr; apply in_map_iff in Hr as (zr & <- & _); reflexivity. }
      destruct Hname as (d & Hd & ->). destruct (Hk d Hd) as [[H1 _] H2]. split; [exact H1|exact H2].
    - exists (t1 ++ t2), z'. split; [reflexivity|]. split; [unfold deserialise; rewrite Hloop; cbn [bind]; exact Hz'|].
      auto.
  Qed.
End Whole.
