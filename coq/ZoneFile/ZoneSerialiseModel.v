(* ZoneFile/ZoneSerialiseModel.v -- executable model of
   crates/dns-types/src/zones/serialise.rs: Zone::serialise, serialise_domain,
   serialise_rdata, serialise_octets (as in /repo now, i.e. with the fall-back to
   the absolute name when the apex-relative text would be exactly "@").
   Definitions only.

   * The order of the name blocks is the derived [Ord] of DomainName (labels
     lexicographically, each label by its octets, then [len]); [vec.sort()].
   * The order of the records inside a name block is HashMap order of the type
     groups, then Vec order: the record lists are PARAMETERS of
     [zone_serialise_with]; [zone_serialise] passes the model's own
     all_records / all_wildcard_records (insertion order).
   * [name.len - apex.len] is a usize subtraction: a [Panic] site (overflow check
     of a debug build) when it would underflow, which needs an ill-formed name. *)
From RV Require Import Base.Prelude Name.NameModel Wire.WireTypes Zone.ZoneModel ZoneFile.ZoneFileModel.

(* one octet of serialise_octets *)
Definition esc_octet (quoted : bool) (o : N) : list N :=
  if existsb (N.eqb o) zone_escape_set then [92; o]
  else if (o <? zone_escape_lo) || (zone_escape_hi <? o) || ((o =? zone_escape_space) && negb quoted)
  then [92; (o / 100) mod 10 + 48; (o / 10) mod 10 + 48; o mod 10 + 48]
  else [o].

Definition serialise_octets (os : list N) (quoted : bool) : list N :=
  let q := if quoted then [34] else [] in
  q ++ flat_map (esc_octet quoted) os ++ q.

(* Display for RecordType *)
Definition show_rtype (t : N) : list N :=
  match alookup N.eqb t rtype_table with
  | Some m => m
  | None => rtype_unknown_prefix ++ show_dec t
  end.

(* derived Ord *)
Fixpoint list_cmp {A} (cmp : A -> A -> comparison) (a b : list A) : comparison :=
  match a, b with
  | [], [] => Eq
  | [], _ :: _ => Lt
  | _ :: _, [] => Gt
  | x :: a', y :: b' => match cmp x y with Eq => list_cmp cmp a' b' | c => c end
  end.
Definition label_cmp (a b : label) : comparison := list_cmp N.compare a b.
Definition dname_cmp (a b : dname) : comparison :=
  match list_cmp label_cmp (labels a) (labels b) with
  | Eq => N.compare (nlen a) (nlen b)
  | c => c
  end.
Definition dname_leb (a b : dname) : bool := match dname_cmp a b with Gt => false | _ => true end.

Fixpoint insert_sorted (x : dname) (l : list dname) : list dname :=
  match l with
  | [] => [x]
  | y :: t => if dname_leb x y then x :: l else y :: insert_sorted x t
  end.
Definition sort_names (l : list dname) : list dname := fold_right insert_sorted [] l.

(* HashSet of the keys of both maps *)
Fixpoint dedup_names (l : list dname) (seen : list dname) : list dname :=
  match l with
  | [] => rev' seen
  | x :: t => if existsb (dname_eqb x) seen then dedup_names t seen else dedup_names t (x :: seen)
  end.

Definition sp : list N := [32].
Definition S_SOA : list N := [83; 79; 65].                             (* "SOA" *)
Definition nl : list N := [10].

Section WithCodec.
  Variable ip : ipcodec.

  (* serialise_domain *)
  Definition serialise_domain (z : zone) (name : dname) : res unit (list N) :=
    let apex := z_apex z in
    let* domain_str :=
       (if is_root apex || negb (zone_is_authoritative z) || negb (is_subdomain_of name apex)
        then Ok (to_dotted_string name)
        else if dname_eqb name apex then Ok S_AT
        else
          (* labels_to_keep = name.labels.len() - apex.labels.len(); len: name.len - apex.len *)
          if Nat.ltb (length (labels name)) (length (labels apex)) || (nlen name <? nlen apex) then Panic
          else
            let keep := (length (labels name) - length (labels apex))%nat in
            let relative := to_dotted_string {| labels := firstn keep (labels name); nlen := nlen name - nlen apex |} in
            if leqb relative S_AT then Ok (to_dotted_string name) else Ok relative) in
    (* domain_str.bytes(): the String holds the label octets as chars (Latin-1) *)
    Ok (serialise_octets (utf8 domain_str) false).

  (* serialise_rdata *)
  Definition serialise_rdata (z : zone) (d : rdata) : res unit (list N) :=
    match d with
    | RD_A a => Ok (show_v4 ip a)
    | RD_Name n => serialise_domain z n
    | RD_SOA mname rname serial refresh retry expire minimum =>
      let* m := serialise_domain z mname in
      let* r := serialise_domain z rname in
      Ok (m ++ sp ++ r ++ sp ++ show_dec serial ++ sp ++ show_dec refresh ++ sp ++ show_dec retry
            ++ sp ++ show_dec expire ++ sp ++ show_dec minimum)
    | RD_Octets os => Ok (serialise_octets os true)
    | RD_MINFO rm em =>
      let* r := serialise_domain z rm in
      let* e := serialise_domain z em in
      Ok (r ++ sp ++ e)
    | RD_MX p ex =>
      let* e := serialise_domain z ex in
      Ok (show_dec p ++ sp ++ e)
    | RD_AAAA segs => Ok (show_v6 ip segs)
    | RD_SRV p w po tg =>
      let* t := serialise_domain z tg in
      Ok (show_dec p ++ sp ++ show_dec w ++ sp ++ show_dec po ++ sp ++ t)
    end.

  (* "{owner} {ttl} IN {type} {rdata}\n" *)
  Definition record_line (z : zone) (owner : list N) (zr : zrec) : res unit (list N) :=
    let* rd := serialise_rdata z (zr_data zr) in
    Ok (owner ++ sp ++ show_dec (zr_ttl zr) ++ sp ++ S_IN ++ sp ++ show_rtype (zr_type zr) ++ sp ++ rd ++ nl).

  Fixpoint normal_lines (z : zone) (owner : list N) (zrs : list zrec) : res unit (list N) :=
    match zrs with
    | [] => Ok []
    | zr :: t =>
      if zr_type zr =? RT_SOA then normal_lines z owner t          (* continue *)
      else let* l := record_line z owner zr in
           let* r := normal_lines z owner t in Ok (l ++ r)
    end.
  Fixpoint wildcard_lines (z : zone) (owner : list N) (zrs : list zrec) : res unit (list N) :=
    match zrs with
    | [] => Ok []
    | zr :: t => let* l := record_line z owner zr in
                 let* r := wildcard_lines z owner t in Ok (l ++ r)
    end.

  Definition domain_block (z : zone) (recs wrecs : list (dname * list zrec)) (domain : dname) : res unit (list N) :=
    let* sd := serialise_domain z domain in
    let* a := match alookup dname_eqb domain recs with
              | Some zrs =>
                let has_wildcards := match alookup dname_eqb domain wrecs with Some _ => true | None => false end in
                normal_lines z (sd ++ (if has_wildcards then [32; 32] else [])) zrs
              | None => Ok []
              end in
    let* b := match alookup dname_eqb domain wrecs with
              | Some zrs => wildcard_lines z ([42; 46] ++ sd) zrs
              | None => Ok []
              end in
    Ok (a ++ b ++ nl).

  Fixpoint domain_blocks (z : zone) (recs wrecs : list (dname * list zrec)) (ds : list dname) : res unit (list N) :=
    match ds with
    | [] => Ok []
    | d :: t => let* b := domain_block z recs wrecs d in
                let* r := domain_blocks z recs wrecs t in Ok (b ++ r)
    end.

  Definition soa_block (z : zone) : res unit (list N) :=
    match z_soa z with
    | None => Ok []
    | Some soa =>
      let show_origin := negb (is_root (z_apex z)) in
      let serialised_apex := serialise_octets (utf8 (to_dotted_string (z_apex z))) false in
      let* rd := serialise_rdata z (soa_to_rdata soa) in
      Ok ((if show_origin then S_ORIGIN ++ sp ++ serialised_apex ++ nl ++ nl else [])
            ++ (if show_origin then S_AT else serialised_apex) ++ sp ++ S_IN ++ sp ++ S_SOA ++ sp ++ rd
            ++ nl ++ nl)
    end.

  Definition zone_serialise_with (z : zone) (recs wrecs : list (dname * list zrec)) : res unit (list N) :=
    let* h := soa_block z in
    let sorted_domains := sort_names (dedup_names (map fst recs ++ map fst wrecs) []) in
    let* b := domain_blocks z recs wrecs sorted_domains in
    Ok (h ++ b).

  Definition zone_serialise (z : zone) : res unit (list N) :=
    zone_serialise_with z (zone_all_records z) (zone_all_wildcard_records z).

End WithCodec.
