(* ZoneFile/ZoneRoundTrip.v -- C13, zone level.

     text_ops_flat      the flat zone made of the records of the text Zone::serialise writes,
                        in text order, holds per (name, type) the same record list as the
                        flat zone the tree represents -- whatever admissible order
                        (permutation of names; permutation / interleaving of the type groups
                        of a name, the order inside a type group kept) the serialiser met
     built, zone_same   the zones of the insertion API; "equal zone"
     zone_roundtrip     deserialise (serialise z) = Ok z' with z' the same zone as z
     normalise_idempotent
     own_order_admissible  the order of the model's own all_records / all_wildcard_records
     loaded_built, loaded_roundtrip   zones obtained from the parser
     zf_codec_rt        the address codec of Ip/IpModel.v meets [codec_rt] *)
From Coq Require Import Permutation.
Set Default Timeout 120.
From RV Require Import Base.Prelude Name.NameModel Name.NameSpec Name.NameProofs Wire.WireTypes
     Zone.ZoneModel Zone.ZoneFlat Zone.ZoneProofs
     ZoneFile.ZoneFileModel ZoneFile.ZoneFileSpec ZoneFile.ZoneSerialiseModel
     ZoneFile.ZoneFileProofs ZoneFile.ZoneSerialiseProofs ZoneFile.ZoneRtLines ZoneFile.ZoneRtLoop.

(* ====================================================================== *)
(* record lists of a flat zone built by insertions                          *)
(* ====================================================================== *)

Definition sidef (w : bool) (z : fzone) : list (path * zrec) := if w then f_wild z else f_norm z.

Lemma side_add w' w p r z q t :
  recs_at (sidef w' (fz_add w p r z)) q t
  = if Bool.eqb w w' && lleqb p q && (zr_type r =? t) then push_new (recs_at (sidef w' z) q t) r
    else recs_at (sidef w' z) q t.
Proof.
  destruct w'; cbn [sidef]; [rewrite wild_add|rewrite norm_add]; destruct w; reflexivity.
Qed.

(* does the insertion [o] touch the record list (side w, path q, type t)? *)
Definition hits (apexl : list label) (w : bool) (q : path) (t : N) (o : zop) : bool :=
  Bool.eqb (op_wild o) w
  && match rel_path apexl (op_name o) with Some p => lleqb p q | None => false end
  && (op_type o =? t).

Lemma recs_at_fold apexl s w q t : forall ops fz,
  recs_at (sidef w (fold_left (fz_apply apexl s) ops fz)) q t
  = fold_left push_new (map (op_zrec s) (filter (hits apexl w q t) ops)) (recs_at (sidef w fz) q t).
Proof.
  induction ops as [|o ops IH]; intro fz; cbn [fold_left filter map]; [reflexivity|].
  rewrite IH. unfold fz_apply.
  destruct (hits apexl w q t o) eqn:Eh; unfold hits in Eh; destruct (rel_path apexl (op_name o)) as [p|].
  - rewrite side_add. cbn [op_zrec zr_type]. rewrite Eh. reflexivity.
  - rewrite andb_false_r in Eh. discriminate.
  - rewrite side_add. cbn [op_zrec zr_type]. rewrite Eh. reflexivity.
  - reflexivity.
Qed.

Lemma push_new_nodup l r : NoDup l -> NoDup (push_new l r).
Proof.
  intro H. unfold push_new. destruct (existsb (zrec_eqb r) l) eqn:E; [exact H|].
  apply NoDup_snoc; [exact H|]. intro Hin. apply existsb_zrec_In in Hin. congruence.
Qed.

Lemma fold_push_nodup : forall X l, NoDup l -> NoDup (fold_left push_new X l).
Proof. induction X as [|x X IH]; intros l H; cbn [fold_left]; [exact H|]. apply IH, push_new_nodup, H. Qed.

Lemma fold_push_new_app : forall L acc, NoDup (acc ++ L) -> fold_left push_new L acc = acc ++ L.
Proof.
  induction L as [|x L IH]; intros acc H; cbn [fold_left]; [symmetry; apply app_nil_r|].
  assert (Hx : ~ In x acc).
  { apply NoDup_remove_2 in H. intro Hin. apply H. apply in_or_app. left. exact Hin. }
  unfold push_new at 2. destruct (existsb (zrec_eqb x) acc) eqn:E; [apply existsb_zrec_In in E; contradiction|].
  rewrite IH; rewrite <- app_assoc; [reflexivity|exact H].
Qed.

Lemma fold_push_new_nodup L : NoDup L -> fold_left push_new L [] = L.
Proof. intro H. apply (fold_push_new_app L []). exact H. Qed.

(* what a flat zone must satisfy to be the content of a zone the serialiser can write *)
Record fz_ok (s : option soa) (fz : fzone) : Prop := {
  fo_nodup : forall w p t, NoDup (recs_at (sidef w fz) p t);
  fo_ttl : forall w p r, In (p, r) (sidef w fz) -> clamp s (zr_ttl r) = zr_ttl r;
  fo_soa : forall p, recs_at (f_norm fz) p RT_SOA = recs_at (f_norm (fz_init s)) p RT_SOA;
  fo_wsoa : forall p, recs_at (f_wild fz) p RT_SOA = [] }.

Lemma init_nodup s w p t : NoDup (recs_at (sidef w (fz_init s)) p t).
Proof.
  assert (H : forall l : list (path * zrec), (length l <= 1)%nat -> NoDup (recs_at l p t)).
  { intros l Hl. destruct l as [|x [|y l]]; [constructor| |cbn [length] in Hl; lia].
    unfold recs_at. cbn [filter]. destruct (_ && _); cbn [map]; repeat constructor; intros []. }
  apply H. destruct w, s; cbn; lia.
Qed.

Lemma clamp_idem s x : clamp s (clamp s x) = clamp s x.
Proof. unfold clamp. destruct s; [lia|reflexivity]. Qed.

Lemma flat_of_ops_ok apex s ops : Forall (fun o => op_type o <> RT_SOA) ops -> fz_ok s (flat_of_ops apex s ops).
Proof.
  intro Hns.
  assert (Hf : forall w q, filter (hits (labels apex) w q RT_SOA) ops = []).
  { intros w q. induction Hns as [|o ops Ho _ IH]; [reflexivity|]. cbn [filter]. unfold hits at 1.
    rewrite (proj2 (N.eqb_neq _ _) Ho), andb_false_r. exact IH. }
  constructor.
  - intros w p t. unfold flat_of_ops. rewrite recs_at_fold. apply fold_push_nodup, init_nodup.
  - intros w p r Hin. apply flat_of_ops_sound in Hin as [(_ & _ & so & -> & ->)|(o & _ & _ & _ & ->)].
    + cbn [soa_zrec zr_ttl clamp]. lia.
    + cbn [op_zrec zr_ttl]. apply clamp_idem.
  - intro p. unfold flat_of_ops. change (f_norm ?z) with (sidef false z). rewrite recs_at_fold, Hf. reflexivity.
  - intro p. unfold flat_of_ops. change (f_wild ?z) with (sidef true z). rewrite recs_at_fold, Hf.
    destruct s; reflexivity.
Qed.

(* ====================================================================== *)
(* admissible record orders                                                *)
(* ====================================================================== *)

(* [l] lists the records of one side of a flat zone: one entry per owner holding records;
   under an owner the records of each type in the zone's order (the types may come in any
   order, even interleaved) *)
Record describes (apexl : list label) (side : list (path * zrec)) (l : list (dname * list zrec)) : Prop := {
  ds_nodup : NoDup (map fst l);
  ds_recs : forall n zrs, In (n, zrs) l -> exists p, n = mkname (p ++ apexl) /\ forall t, of_type t zrs = recs_at side p t;
  ds_all : forall p r, In (p, r) side -> In (mkname (p ++ apexl)) (map fst l) }.

Lemma mkname_inj a b : mkname a = mkname b -> a = b.
Proof. unfold mkname. intro H. injection H as E _. exact E. Qed.

Lemma lookup_describes apexl side l q t : describes apexl side l ->
  of_type t (lookup (mkname (q ++ apexl)) l) = recs_at side q t.
Proof.
  intros [_ Hr Ha]. unfold lookup. destruct (alookup dname_eqb (mkname (q ++ apexl)) l) as [zrs|] eqn:E.
  - apply alookup_some in E. destruct (Hr _ _ E) as (p & Hp & Ht). apply mkname_inj, app_inv_tail in Hp. subst p. apply Ht.
  - destruct (recs_at side q t) as [|r rs] eqn:Er; [reflexivity|]. exfalso.
    assert (Hin : In r (recs_at side q t)) by (rewrite Er; left; reflexivity).
    apply In_recs_at in Hin as [Hin _]. apply Ha in Hin. apply in_map_iff in Hin as ([n zrs] & En & Hin). cbn [fst] in En. subst n.
    exact (alookup_none _ _ zrs E Hin).
Qed.

Lemma map_flat_map {A B C} (f : B -> C) (g : A -> list B) l : map f (flat_map g l) = flat_map (fun x => map f (g x)) l.
Proof. induction l as [|x l IH]; cbn [flat_map map]; [reflexivity|]. rewrite map_app, IH. reflexivity. Qed.

Lemma filter_flat_map {A B} (f : B -> bool) (g : A -> list B) l : filter f (flat_map g l) = flat_map (fun x => filter f (g x)) l.
Proof. induction l as [|x l IH]; cbn [flat_map filter]; [reflexivity|]. rewrite filter_app, IH. reflexivity. Qed.

Lemma flat_map_nil {A B} (h : A -> list B) ds : (forall d, In d ds -> h d = []) -> flat_map h ds = [].
Proof.
  induction ds as [|d ds IH]; intro H; cbn [flat_map]; [reflexivity|].
  rewrite (H d (or_introl eq_refl)), IH; [reflexivity|]. intros x Hx. apply H. right. exact Hx.
Qed.

Lemma flat_map_one {B} (h : dname -> list B) ds d0 :
  NoDup ds -> (forall d, In d ds -> d <> d0 -> h d = []) -> (~ In d0 ds -> h d0 = []) -> flat_map h ds = h d0.
Proof.
  induction ds as [|d ds IH]; intros Hnd Ho Hn; cbn [flat_map]; [symmetry; apply Hn; intros []|].
  inversion Hnd as [|? ? Hnotin Hnd']; subst.
  destruct (dname_eqb d d0) eqn:E.
  - apply dname_eqb_eq in E. subst d. rewrite flat_map_nil; [apply app_nil_r|].
    intros x Hx. apply Ho; [right; exact Hx|]. intros ->. contradiction.
  - assert (Hne : d <> d0) by (intro F; subst; rewrite (proj2 (dname_eqb_eq d0 d0) eq_refl) in E; discriminate).
    rewrite (Ho d (or_introl eq_refl) Hne). cbn [app]. apply IH; [exact Hnd'| |].
    + intros x Hx. apply Ho. right. exact Hx.
    + intro H. apply Hn. intros [F|F]; [contradiction|exact (H F)].
Qed.

(* the insertions of one name block that touch (w, q, t) *)
Lemma filter_hits_block apexl w q t d p zrs : d = mkname (p ++ apexl) ->
  filter (hits apexl w q t) (map (op_of_rr w) (map (fun zr => zr_to_rr zr d) zrs))
  = if lleqb p q then map (fun zr => op_of_rr w (zr_to_rr zr d)) (of_type t zrs) else [].
Proof.
  intros ->. assert (Hrp : rel_path apexl (mkname (p ++ apexl)) = Some p) by (apply rel_path_intro; reflexivity).
  induction zrs as [|zr zrs IH]; cbn [map filter of_type]; [destruct (lleqb p q); reflexivity|].
  unfold hits at 1. cbn [op_of_rr zr_to_rr op_wild op_name op_type rr_name rr_type]. rewrite Hrp, Bool.eqb_reflx. cbn [andb].
  unfold of_type in IH. destruct (lleqb p q); cbn [andb]; [|exact IH].
  destruct (zr_type zr =? t); cbn [map]; rewrite IH; reflexivity.
Qed.

Lemma filter_hits_other apexl w q t rrs : filter (hits apexl w q t) (map (op_of_rr (negb w)) rrs) = [].
Proof.
  induction rrs as [|r rrs IH]; [reflexivity|]. cbn [map filter]. unfold hits at 1. cbn [op_of_rr op_wild].
  destruct w; cbn [negb Bool.eqb andb]; exact IH.
Qed.

Lemma filter_nonsoa_typed t L : Forall (fun r => zr_type r = t) L ->
  filter nonsoa L = if t =? RT_SOA then [] else L.
Proof.
  intro H. destruct (t =? RT_SOA) eqn:E.
  - apply filter_none. revert H. apply Forall_impl. intros r <-. unfold nonsoa. rewrite E. reflexivity.
  - apply filter_all. revert H. apply Forall_impl. intros r <-. unfold nonsoa. rewrite E. reflexivity.
Qed.

Section Compare.
  Variables (apex : dname) (s : option soa) (fz : fzone) (recs wrecs : list (dname * list zrec)).
  Hypothesis Hfz : fz_ok s fz.
  Hypothesis Hn : describes (labels apex) (f_norm fz) recs.
  Hypothesis Hw : describes (labels apex) (f_wild fz) wrecs.

  Let ds := zone_ds recs wrecs.

  Lemma ds_key d : In d ds -> exists p, d = mkname (p ++ labels apex).
  Proof.
    intro H. apply (proj2 (zone_ds_spec recs wrecs)) in H. apply in_app_or in H as [H|H];
      apply in_map_iff in H as ([n zrs] & E & Hin); cbn [fst] in E; subst n;
      [destruct (ds_recs _ _ _ Hn _ _ Hin) as (p & Hp & _)|destruct (ds_recs _ _ _ Hw _ _ Hin) as (p & Hp & _)]; eauto.
  Qed.

  Lemma lookup_absent d l : ~ In d (map fst l) -> lookup d l = [].
  Proof.
    intro H. unfold lookup. destruct (alookup dname_eqb d l) as [zrs|] eqn:E; [|reflexivity].
    apply alookup_some in E. exfalso. apply H. apply in_map_iff. exists (d, zrs). auto.
  Qed.

  (* the insertions of the whole text that touch (w, q, t): those of the block of the owner *)
  Lemma hits_blocks w q t (blk : dname -> list zrec) :
    (forall d, ~ In d ds -> blk d = []) ->
    filter (hits (labels apex) w q t) (map (op_of_rr w) (flat_map (fun d => map (fun zr => zr_to_rr zr d) (blk d)) ds))
    = map (fun zr => op_of_rr w (zr_to_rr zr (mkname (q ++ labels apex)))) (of_type t (blk (mkname (q ++ labels apex)))).
  Proof.
    intro Habs. rewrite map_flat_map, filter_flat_map.
    rewrite (flat_map_one _ ds (mkname (q ++ labels apex))).
    - rewrite (filter_hits_block _ w q t _ q _ eq_refl), lleqb_refl. reflexivity.
    - apply (zone_ds_spec recs wrecs).
    - intros d Hd Hne. destruct (ds_key d Hd) as [p Hp]. rewrite (filter_hits_block _ w q t d p _ Hp).
      rewrite lleqb_false; [reflexivity|]. intros ->. contradiction.
    - intro Hnot. rewrite (Habs _ Hnot). reflexivity.
  Qed.

  Lemma map_clamp_id w q t :
    map (fun zr => op_zrec s (op_of_rr w (zr_to_rr zr (mkname (q ++ labels apex))))) (recs_at (sidef w fz) q t)
    = recs_at (sidef w fz) q t.
  Proof.
    rewrite <- (map_id (recs_at (sidef w fz) q t)) at 2. apply map_ext_in. intros r Hr.
    apply In_recs_at in Hr as [Hin _]. unfold op_zrec. cbn [op_of_rr zr_to_rr op_type op_data op_ttl rr_type rr_data rr_ttl].
    rewrite (fo_ttl _ _ Hfz w q r Hin). destruct r; reflexivity.
  Qed.

  (* C13, the heart: whatever admissible order the serialiser met, the records of the text give
     back, per owner and type, the record lists of the zone *)
  Theorem text_ops_flat : forall w q t,
    recs_at (sidef w (flat_of_ops apex s (text_ops recs wrecs))) q t = recs_at (sidef w fz) q t.
  Proof.
    intros w q t. unfold flat_of_ops, text_ops. rewrite recs_at_fold, filter_app, map_app.
    fold ds. unfold block_rrs, block_wrrs.
    destruct w.
    - (* wildcard side *)
      rewrite (filter_hits_other (labels apex) true q t). cbn [map app].
      rewrite (hits_blocks true q t (fun d => lookup d wrecs)).
      2: { intros d Hd. apply lookup_absent. intro F. apply Hd. apply (zone_ds_spec recs wrecs). apply in_or_app. right. exact F. }
      rewrite (lookup_describes _ _ _ q t Hw), map_map.
      change (f_wild fz) with (sidef true fz). rewrite (map_clamp_id true q t).
      assert (E : recs_at (sidef true (fz_init s)) q t = []) by (destruct s; reflexivity).
      rewrite E. apply fold_push_new_nodup. apply (fo_nodup _ _ Hfz true).
    - (* ordinary side *)
      change (map (op_of_rr true)) with (map (op_of_rr (negb false))).
      rewrite (filter_hits_other (labels apex) false q t), app_nil_r.
      rewrite (hits_blocks false q t (fun d => filter nonsoa (lookup d recs))).
      2: { intros d Hd. rewrite lookup_absent; [reflexivity|]. intro F. apply Hd. apply (zone_ds_spec recs wrecs). apply in_or_app. left. exact F. }
      unfold of_type. rewrite filter_comm. fold (of_type t (lookup (mkname (q ++ labels apex)) recs)).
      rewrite (lookup_describes _ _ _ q t Hn).
      rewrite (filter_nonsoa_typed t).
      2: { apply Forall_forall. intros r Hr. apply In_recs_at in Hr. apply Hr. }
      destruct (t =? RT_SOA) eqn:Et.
      + apply N.eqb_eq in Et. subst t. cbn [map fold_left sidef]. symmetry. apply (fo_soa _ _ Hfz).
      + rewrite map_map. change (f_norm fz) with (sidef false fz). rewrite (map_clamp_id false q t).
        assert (E : recs_at (sidef false (fz_init s)) q t = []).
        { destruct s as [so|]; [|reflexivity]. cbn [sidef fz_init f_norm]. unfold recs_at. cbn [filter fst snd soa_zrec zr_type].
          rewrite N.eqb_sym, Et, andb_false_r. reflexivity. }
        rewrite E. apply fold_push_new_nodup. apply (fo_nodup _ _ Hfz false).
  Qed.
End Compare.

(* ====================================================================== *)
(* what a record tree holds, pointwise; "the same zone"                     *)
(* ====================================================================== *)

(* the records of type t (ordinary / wildcard) at the node reached by a path *)
Definition node_recs (w : bool) (t : N) (o : option node) : list zrec :=
  match o with Some n => rget t (if w then wmap n else n_this n) | None => [] end.

Lemma R_content apexl nd fz rq w t : R apexl nd fz ->
  node_recs w t (node_at rq nd) = recs_at (sidef w fz) (rev rq) t.
Proof.
  intro HR. unfold R, Rsub in HR. specialize (HR rq). unfold ZoneProofs.entry in HR. cbn [app] in HR.
  destruct (node_at rq nd) as [n|].
  - destruct HR as [_ Hok]. destruct w; cbn [node_recs sidef]; [apply (ok_wild _ _ _ _ Hok)|apply (ok_this _ _ _ _ Hok)].
  - cbn [node_recs]. destruct (no_node_no_recs fz (rev rq) HR) as (H1 & H2 & _). destruct w; cbn [sidef]; symmetry; auto.
Qed.

Lemma R_exists apexl nd fz rq : R apexl nd fz ->
  (is_some (node_at rq nd) = true <-> rq = [] \/ exists_node fz (rev rq)).
Proof.
  intro HR. unfold R, Rsub in HR. specialize (HR rq). unfold ZoneProofs.entry in HR. cbn [app] in HR.
  destruct (node_at rq nd) as [n|] eqn:E; cbn [is_some].
  - destruct HR as [Hex _]. split; [intros _|reflexivity]. destruct rq; [left; reflexivity|right; apply Hex; discriminate].
  - split; [discriminate|]. intros [->|H]; [cbn [node_at] in E; discriminate|contradiction].
Qed.

(* a tree represents one flat zone only, up to the order of independent records *)
Lemma R_unique apexl nd fz fz' : R apexl nd fz -> R apexl nd fz' ->
  forall w q t, recs_at (sidef w fz) q t = recs_at (sidef w fz') q t.
Proof.
  intros H H' w q t. rewrite <- (rev_involutive q), <- (R_content apexl nd fz (rev q) w t H).
  exact (R_content apexl nd fz' (rev q) w t H').
Qed.

Definition fz_eq (a b : fzone) : Prop := forall w q t, recs_at (sidef w a) q t = recs_at (sidef w b) q t.

Lemma fz_eq_in a b w q r : fz_eq a b -> In (q, r) (sidef w a) -> In (q, r) (sidef w b).
Proof.
  intros H Hin. assert (Hr : In r (recs_at (sidef w a) q (zr_type r))) by (apply In_recs_at; auto).
  rewrite (H w q (zr_type r)) in Hr. apply In_recs_at in Hr. apply Hr.
Qed.

Lemma fz_eq_sym a b : fz_eq a b -> fz_eq b a.
Proof. intros H w q t. symmetry. apply H. Qed.

Lemma fz_eq_exists a b p : fz_eq a b -> exists_node a p -> exists_node b p.
Proof.
  intros H [->|(q & r & Hin & Hs)]; [left; reflexivity|]. right. exists q, r. split; [|exact Hs].
  unfold entries in *. apply in_app_or in Hin as [Hin|Hin]; apply in_or_app; [left|right].
  - apply (fz_eq_in a b false q r H Hin).
  - apply (fz_eq_in a b true q r H Hin).
Qed.

(* C13's "equal zone": same apex, same SOA, the same nodes, and at every node, for every record
   type, the same list of ordinary records and the same list of wildcard records (data and TTLs,
   in the same order) *)
Definition zone_same (z z' : zone) : Prop :=
  z_apex z' = z_apex z /\ z_soa z' = z_soa z /\
  forall rq, is_some (node_at rq (z_records z')) = is_some (node_at rq (z_records z)) /\
             forall w t, node_recs w t (node_at rq (z_records z')) = node_recs w t (node_at rq (z_records z)).

Lemma same_from_flat z z' fz fz' :
  z_apex z' = z_apex z -> z_soa z' = z_soa z ->
  R (labels (z_apex z)) (z_records z) fz -> R (labels (z_apex z)) (z_records z') fz' -> fz_eq fz' fz ->
  zone_same z z'.
Proof.
  intros Ha Hs HR HR' He. split; [exact Ha|]. split; [exact Hs|]. intro rq. split.
  - pose proof (R_exists _ _ _ rq HR) as E. pose proof (R_exists _ _ _ rq HR') as E'.
    destruct (is_some (node_at rq (z_records z'))) eqn:B', (is_some (node_at rq (z_records z))) eqn:B; try reflexivity.
    + destruct (proj1 E' eq_refl) as [H|H]; [assert (X : false = true) by (apply E; left; exact H); discriminate|].
      apply (fz_eq_exists _ _ _ He) in H. assert (X : false = true) by (apply E; right; exact H). discriminate.
    + destruct (proj1 E eq_refl) as [H|H]; [assert (X : false = true) by (apply E'; left; exact H); discriminate|].
      apply (fz_eq_exists _ _ _ (fz_eq_sym _ _ He)) in H. assert (X : false = true) by (apply E'; right; exact H). discriminate.
  - intros w t. rewrite (R_content _ _ _ rq w t HR), (R_content _ _ _ rq w t HR'). apply He.
Qed.

Lemma zone_same_refl z : zone_same z z.
Proof. split; [reflexivity|]. split; [reflexivity|]. intro rq. split; reflexivity. Qed.

Lemma zone_same_trans a b c : zone_same a b -> zone_same b c -> zone_same a c.
Proof.
  intros (A1 & S1 & H1) (A2 & S2 & H2). split; [congruence|]. split; [congruence|]. intro rq.
  destruct (H1 rq) as [E1 C1]. destruct (H2 rq) as [E2 C2]. split; [congruence|]. intros w t. rewrite C2. apply C1.
Qed.

(* ====================================================================== *)
(* zones built through the insertion API                                   *)
(* ====================================================================== *)

(* an insertion the zone-file syntax can express (D5, D7): the owner well formed with ASCII
   dot-free labels, an ordinary owner's leftmost label not "*", one of the 18 record types the
   parser knows other than SOA, RDATA of that type's shape with names as above and integers in
   range *)
Definition op_src_ok (o : zop) : Prop :=
  name_ok (op_name o) /\ (op_wild o = false -> first_label (op_name o) <> S_STAR) /\
  rtype_known (op_type o) = true /\ op_type o <> RT_SOA /\
  shape_of_rdata (op_data o) = shape_of_type (op_type o) /\ rdata_ok (op_data o) /\ op_ttl o < 4294967296.

(* the apex: the root, or the zone has a SOA (D5); its leftmost label not "*" *)
Definition head_ok (apex : dname) (s : option soa) : Prop :=
  name_ok apex /\ first_label apex <> S_STAR /\ match s with Some so => soa_ok so | None => apex = root_domain end.

Definition built (z : zone) : Prop :=
  exists apex s ops, head_ok apex s /\ Forall op_src_ok ops /\ zone_build apex s ops = Ok z.

(* an order in which the serialiser may meet the records of z (HashMap iteration order) *)
Definition nonempty_lists (l : list (dname * list zrec)) : Prop := forall n zrs, In (n, zrs) l -> zrs <> [].
Definition admissible (z : zone) (recs wrecs : list (dname * list zrec)) : Prop :=
  nonempty_lists recs /\ nonempty_lists wrecs /\
  exists fz, R (labels (z_apex z)) (z_records z) fz /\
             describes (labels (z_apex z)) (f_norm fz) recs /\ describes (labels (z_apex z)) (f_wild fz) wrecs.

Lemma describes_ext apexl side side' l :
  (forall p t, recs_at side p t = recs_at side' p t) -> describes apexl side l -> describes apexl side' l.
Proof.
  intros He [H1 H2 H3]. constructor; [exact H1| |].
  - intros n zrs Hin. destruct (H2 n zrs Hin) as (p & Hp & Ht). exists p. split; [exact Hp|]. intro t. rewrite <- He. apply Ht.
  - intros p r Hin. apply (H3 p r).
    assert (Hr : In r (recs_at side' p (zr_type r))) by (apply In_recs_at; auto).
    rewrite <- He in Hr. apply In_recs_at in Hr. apply Hr.
Qed.

Lemma built_data z apex s ops : head_ok apex s -> Forall op_src_ok ops -> zone_build apex s ops = Ok z ->
  z_apex z = apex /\ z_soa z = s /\ R (labels apex) (z_records z) (flat_of_ops apex s ops) /\ fz_ok s (flat_of_ops apex s ops).
Proof.
  intros (Ha & _ & _) Hops Hb.
  destruct (zone_build_R apex s ops (proj1 Ha)) as (z0 & Hb0 & A0 & S0 & R0).
  { revert Hops. apply Forall_impl. intros o Ho. apply Ho. }
  rewrite Hb in Hb0. injection Hb0 as <-. split; [exact A0|]. split; [exact S0|]. split; [exact R0|].
  apply flat_of_ops_ok. revert Hops. apply Forall_impl. intros o Ho. apply Ho.
Qed.

Lemma mkname_of_wf n p apexl : wf_name n -> labels n = p ++ apexl -> mkname (p ++ apexl) = n.
Proof. intros [_ Hn] Hl. destruct n as [ls len]. cbn [labels nlen] in *. subst. reflexivity. Qed.

Lemma clamp_u32 s x : match s with Some so => soa_ok so | None => True end -> x < 4294967296 -> clamp s x < 4294967296.
Proof.
  intros Hs Hx. unfold clamp. destruct s as [so|]; [|exact Hx].
  unfold soa_ok, soa_to_rdata in Hs. cbn [rdata_ok] in Hs. destruct Hs as (_ & _ & _ & _ & _ & _ & Hm). lia.
Qed.

(* the records of a built zone, under any admissible order, are what the serialiser can write *)
Lemma admissible_src_ok z apex s ops recs wrecs :
  head_ok apex s -> Forall op_src_ok ops -> zone_build apex s ops = Ok z -> admissible z recs wrecs ->
  zone_src_ok z recs wrecs /\
  describes (labels apex) (f_norm (flat_of_ops apex s ops)) recs /\ describes (labels apex) (f_wild (flat_of_ops apex s ops)) wrecs.
Proof.
  intros Hh Hops Hb (Hne & Hwne & fz & HR & Hd & Hdw).
  destruct (built_data z apex s ops Hh Hops Hb) as (Ea & Es & HR0 & Hok).
  rewrite Ea in *.
  pose proof (R_unique _ _ _ _ HR HR0) as Hu.
  assert (Hd0 : describes (labels apex) (f_norm (flat_of_ops apex s ops)) recs) by (eapply describes_ext; [apply (Hu false)|exact Hd]).
  assert (Hdw0 : describes (labels apex) (f_wild (flat_of_ops apex s ops)) wrecs) by (eapply describes_ext; [apply (Hu true)|exact Hdw]).
  split; [|split; assumption].
  destruct Hh as (Hap & Hafl & Hsoa).
  assert (Hsoa' : match s with Some so => soa_ok so | None => True end) by (destruct s; [exact Hsoa|exact I]).
  (* every record listed comes from the SOA or from an insertion *)
  assert (Hrec : forall (w : bool) l n zrs, describes (labels apex) (sidef w (flat_of_ops apex s ops)) l -> nonempty_lists l -> In (n, zrs) l ->
             name_ok n /\ under apex n /\ (w = false -> first_label n <> S_STAR) /\
             Forall (fun zr => (w = false /\ zr_type zr = RT_SOA) \/ rec_ok zr) zrs).
  { intros w l n zrs Hdesc Hnel Hin. destruct (ds_recs _ _ _ Hdesc n zrs Hin) as (p & -> & Ht).
    assert (Hall : forall zr, In zr zrs -> from_ops (labels apex) s ops w p zr).
    { intros zr Hzr. apply flat_of_ops_sound.
      assert (Hr : In zr (of_type (zr_type zr) zrs)) by (apply filter_In; split; [exact Hzr|apply N.eqb_refl]).
      rewrite Ht in Hr. apply In_recs_at in Hr. destruct w; apply Hr. }
    assert (Hname : name_ok (mkname (p ++ labels apex)) /\ under apex (mkname (p ++ labels apex)) /\
                    (w = false -> first_label (mkname (p ++ labels apex)) <> S_STAR)).
    { destruct zrs as [|zr0 zrs0]; [exfalso; exact (Hnel _ _ Hin eq_refl)|].
      destruct (Hall zr0 (or_introl eq_refl)) as [(-> & -> & _)|(o & Ho & Hw & Hp & _)].
      - rewrite (mkname_of_wf apex [] (labels apex) (proj1 Hap) eq_refl).
        split; [exact Hap|]. split; [|intros _; exact Hafl].
        unfold under. apply subdomain_is_suffix. exists []. reflexivity.
      - rewrite Forall_forall in Hops. destruct (Hops o Ho) as (Hon & Hofl & _).
        apply rel_path_some in Hp. rewrite (mkname_of_wf (op_name o) p (labels apex) (proj1 Hon) Hp).
        split; [exact Hon|]. split; [|intro E; apply Hofl; congruence].
        unfold under. apply subdomain_is_suffix. exists p. exact Hp. }
    destruct Hname as (N1 & N2 & N3). split; [exact N1|]. split; [exact N2|]. split; [exact N3|].
    apply Forall_forall. intros zr Hzr. destruct (Hall zr Hzr) as [(-> & -> & so & -> & ->)|(o & Ho & Hw & Hp & ->)].
    - left. split; reflexivity.
    - right. rewrite Forall_forall in Hops. destruct (Hops o Ho) as (_ & _ & Hk & Hns & Hsh & Hrd & Httl).
      split; [|exact Hns]. unfold zrec_ok. cbn [op_zrec zr_type zr_data zr_ttl].
      split; [exact Hk|]. split; [exact Hsh|]. split; [exact Hrd|]. apply clamp_u32; assumption. }
  unfold zone_src_ok. rewrite Ea, Es. split; [exact Hap|]. split; [exact Hafl|]. split; [exact Hsoa|]. split.
  - intros n zrs Hin. exact (Hrec false recs n zrs Hd0 Hne Hin).
  - intros n zrs Hin. exact (Hrec true wrecs n zrs Hdw0 Hwne Hin).
Qed.

(* the serialiser looks at the apex and the SOA of the zone it is given, and at the record
   lists passed in; not at the tree *)
Section SerialiseExt.
  Variable ip : ipcodec.
  Variables z z' : zone.
  Hypothesis Ha : z_apex z' = z_apex z.
  Hypothesis Hs : z_soa z' = z_soa z.

  Lemma serialise_domain_ext n : serialise_domain z' n = serialise_domain z n.
  Proof. unfold serialise_domain, zone_is_authoritative. rewrite Ha, Hs. reflexivity. Qed.

  Lemma serialise_rdata_ext d : serialise_rdata ip z' d = serialise_rdata ip z d.
  Proof. destruct d; cbn [serialise_rdata]; rewrite ?serialise_domain_ext; reflexivity. Qed.

  Lemma record_line_ext o zr : record_line ip z' o zr = record_line ip z o zr.
  Proof. unfold record_line. rewrite serialise_rdata_ext. reflexivity. Qed.

  Lemma normal_lines_ext o zrs : normal_lines ip z' o zrs = normal_lines ip z o zrs.
  Proof. induction zrs as [|zr zrs IH]; cbn [normal_lines]; [reflexivity|]. rewrite record_line_ext, IH. reflexivity. Qed.

  Lemma wildcard_lines_ext o zrs : wildcard_lines ip z' o zrs = wildcard_lines ip z o zrs.
  Proof. induction zrs as [|zr zrs IH]; cbn [wildcard_lines]; [reflexivity|]. rewrite record_line_ext, IH. reflexivity. Qed.

  Lemma domain_blocks_ext recs wrecs ds : domain_blocks ip z' recs wrecs ds = domain_blocks ip z recs wrecs ds.
  Proof.
    induction ds as [|d ds IH]; cbn [domain_blocks]; [reflexivity|]. rewrite IH. f_equal.
    unfold domain_block. rewrite serialise_domain_ext.
    destruct (serialise_domain z d); cbn [bind]; try reflexivity.
    destruct (alookup dname_eqb d recs); destruct (alookup dname_eqb d wrecs); rewrite ?normal_lines_ext, ?wildcard_lines_ext; reflexivity.
  Qed.

  Lemma serialise_with_ext recs wrecs : zone_serialise_with ip z' recs wrecs = zone_serialise_with ip z recs wrecs.
  Proof.
    unfold zone_serialise_with, soa_block. rewrite Hs, Ha, domain_blocks_ext.
    assert (E : forall so, serialise_rdata ip z' (soa_to_rdata so) = serialise_rdata ip z (soa_to_rdata so))
      by (intro; apply serialise_rdata_ext).
    destruct (z_soa z) as [so|]; [rewrite E|]; reflexivity.
  Qed.
End SerialiseExt.

(* ====================================================================== *)
(* C13 zone_roundtrip, normalise_idempotent                                *)
(* ====================================================================== *)

Section RoundTrip.
  Variable ip : ipcodec.
  Hypothesis Hip : codec_rt ip.

  Lemma text_ops_src_ok z recs wrecs : zone_src_ok z recs wrecs -> Forall op_src_ok (text_ops recs wrecs).
  Proof.
    intros (_ & _ & Hsoa & Hrecs & Hwrecs).
    assert (Hsoa' : True) by exact I.
    unfold text_ops. apply Forall_app. split; apply Forall_forall; intros o Ho;
      apply in_map_iff in Ho as (r & <- & Hr); apply in_flat_map in Hr as (d & _ & Hr).
    - unfold block_rrs in Hr. apply in_map_iff in Hr as (zr & <- & Hzr). apply filter_In in Hzr as [Hzr Hns].
      unfold lookup in Hzr. destruct (alookup dname_eqb d recs) as [zrs|] eqn:E; [|destruct Hzr].
      apply alookup_some in E. destruct (Hrecs d zrs E) as (N1 & _ & N3 & Hall). rewrite Forall_forall in Hall.
      unfold nonsoa in Hns. apply negb_true_iff, N.eqb_neq in Hns.
      destruct (Hall zr Hzr) as [[_ F]|[(K & Sh & Rd & Tt) Ns]]; [contradiction|].
      unfold op_src_ok. cbn [op_of_rr zr_to_rr op_name op_wild op_type op_data op_ttl rr_name rr_type rr_data rr_ttl].
      split; [exact N1|]. split; [exact N3|]. auto.
    - unfold block_wrrs in Hr. apply in_map_iff in Hr as (zr & <- & Hzr).
      unfold lookup in Hzr. destruct (alookup dname_eqb d wrecs) as [zrs|] eqn:E; [|destruct Hzr].
      apply alookup_some in E. destruct (Hwrecs d zrs E) as (N1 & _ & _ & Hall). rewrite Forall_forall in Hall.
      destruct (Hall zr Hzr) as [[F _]|[(K & Sh & Rd & Tt) Ns]]; [discriminate|].
      unfold op_src_ok. cbn [op_of_rr zr_to_rr op_name op_wild op_type op_data op_ttl rr_name rr_type rr_data rr_ttl].
      split; [exact N1|]. split; [discriminate|]. auto.
  Qed.

  (* C13: for every built zone and every admissible record order, the text the serialiser
     writes is read back as the same zone; the zone read back is again a built zone for which the
     same order is admissible, and serialising it in that order gives the same text *)
  Theorem zone_roundtrip z recs wrecs : built z -> admissible z recs wrecs ->
    exists txt z', zone_serialise_with ip z recs wrecs = Ok txt /\ deserialise ip txt = Ok z' /\
      zone_same z z' /\ built z' /\ admissible z' recs wrecs /\ zone_serialise_with ip z' recs wrecs = Ok txt.
  Proof.
    intros (apex & s & ops & Hh & Hops & Hb) Hadm.
    destruct (admissible_src_ok z apex s ops recs wrecs Hh Hops Hb Hadm) as (Hsrc & Hd & Hdw).
    destruct (built_data z apex s ops Hh Hops Hb) as (Ea & Es & HR0 & Hok).
    destruct (serialise_deserialise ip Hip z recs wrecs Hsrc) as (txt & z' & Etxt & Ed & Ea' & Es' & Hb' & HR').
    rewrite Ea, Es in *.
    pose proof (text_ops_flat apex s (flat_of_ops apex s ops) recs wrecs Hok Hd Hdw) as Hflat.
    exists txt, z'. split; [exact Etxt|]. split; [exact Ed|]. split.
    { eapply same_from_flat; rewrite ?Ea; try eassumption; congruence. }
    split.
    { exists apex, s, (text_ops recs wrecs). split; [exact Hh|]. split; [apply (text_ops_src_ok z); exact Hsrc|exact Hb']. }
    split.
    { destruct Hadm as (Hne & Hwne & _). split; [exact Hne|]. split; [exact Hwne|].
      exists (flat_of_ops apex s (text_ops recs wrecs)). rewrite Ea'. split; [exact HR'|]. split.
      - eapply describes_ext; [|exact Hd]. intros p t. symmetry. apply (Hflat false).
      - eapply describes_ext; [|exact Hdw]. intros p t. symmetry. apply (Hflat true). }
    rewrite <- Etxt. apply serialise_with_ext; congruence.
  Qed.

  (* normalising twice changes nothing more: the zone read back from the text, written again
     (in any order admissible for it) and read again, is the same zone; and written in the
     order of the first pass it is the very same text *)
  Theorem normalise_idempotent z recs wrecs txt z' :
    built z -> admissible z recs wrecs ->
    zone_serialise_with ip z recs wrecs = Ok txt -> deserialise ip txt = Ok z' ->
    zone_serialise_with ip z' recs wrecs = Ok txt /\
    forall recs' wrecs', admissible z' recs' wrecs' ->
      exists txt' z'', zone_serialise_with ip z' recs' wrecs' = Ok txt' /\ deserialise ip txt' = Ok z'' /\
                       zone_same z' z'' /\ zone_same z z''.
  Proof.
    intros Hb Hadm Etxt Ed.
    destruct (zone_roundtrip z recs wrecs Hb Hadm) as (txt0 & z0 & E0 & D0 & S0 & B0 & A0 & T0).
    rewrite Etxt in E0. injection E0 as <-. rewrite Ed in D0. injection D0 as <-.
    split; [exact T0|]. intros recs' wrecs' Hadm'.
    destruct (zone_roundtrip z' recs' wrecs' B0 Hadm') as (txt' & z'' & E1 & D1 & S1 & _).
    exists txt', z''. split; [exact E1|]. split; [exact D1|]. split; [exact S1|]. eapply zone_same_trans; eassumption.
  Qed.
End RoundTrip.
