(* ZoneFile/ZoneRtFinal.v -- C13: the corollaries in the form Properties/C13.v quotes them, for
   every codec meeting [codec_rt] / [codec_range] and for the codec the model is run with
   (ZfInstance.zf_codec, for which both are theorems), and instances showing that the
   hypotheses are satisfiable. *)
Set Default Timeout 120.
From RV Require Import Base.Prelude Name.NameModel Name.NameSpec Name.NameProofs Wire.WireTypes
     Zone.ZoneModel Zone.ZoneFlat Zone.ZoneProofs
     ZoneFile.ZoneFileModel ZoneFile.ZoneFileSpec ZoneFile.ZoneSerialiseModel ZoneFile.ZfInstance
     ZoneFile.ZoneFileProofs ZoneFile.ZoneSerialiseProofs ZoneFile.ZoneRtLines ZoneFile.ZoneRtLoop
     ZoneFile.ZoneRoundTrip ZoneFile.ZoneRtOrder ZoneFile.ZoneRtLoaded ZoneFile.ZoneRtCodec.

Section AnyCodec.
  Variable ip : ipcodec.
  Hypothesis Hrt : codec_rt ip.

  (* zone_roundtrip for Zone::serialise as the model runs it (its own record order) *)
  Theorem zone_roundtrip_own z : built z ->
    exists txt z', zone_serialise ip z = Ok txt /\ deserialise ip txt = Ok z' /\ zone_same z z' /\ built z'.
  Proof.
    intro Hb. destruct (zone_roundtrip ip Hrt z _ _ Hb (own_order_admissible z Hb)) as (txt & z' & E & D & S & B & _).
    exists txt, z'. auto.
  Qed.

  Hypothesis Hrange : codec_range ip.

  (* C13 for loaded zones: any zone the parser returns, written in any admissible order, is read
     back as the same zone *)
  Theorem loaded_roundtrip data z recs wrecs :
    deserialise ip data = Ok z -> admissible z recs wrecs ->
    exists txt z', zone_serialise_with ip z recs wrecs = Ok txt /\ deserialise ip txt = Ok z' /\
      zone_same z z' /\ zone_serialise_with ip z' recs wrecs = Ok txt.
  Proof.
    intros Hd Hadm. destruct (zone_roundtrip ip Hrt z recs wrecs (loaded_built ip Hrange data z Hd) Hadm) as (txt & z' & E & D & S & _ & _ & T).
    exists txt, z'. auto.
  Qed.

  (* ztoz: parse, write, parse again, write again *)
  Theorem ztoz_twice data z :
    deserialise ip data = Ok z ->
    exists txt z', zone_serialise ip z = Ok txt /\ deserialise ip txt = Ok z' /\ zone_same z z' /\
      exists txt' z'', zone_serialise ip z' = Ok txt' /\ deserialise ip txt' = Ok z'' /\ zone_same z' z'' /\ zone_same z z''.
  Proof.
    intro Hd. pose proof (loaded_built ip Hrange data z Hd) as Hb.
    destruct (zone_roundtrip_own z Hb) as (txt & z' & E & D & S & B').
    exists txt, z'. split; [exact E|]. split; [exact D|]. split; [exact S|].
    destruct (zone_roundtrip_own z' B') as (txt' & z'' & E' & D' & S' & _).
    exists txt', z''. split; [exact E'|]. split; [exact D'|]. split; [exact S'|]. eapply zone_same_trans; eassumption.
  Qed.
End AnyCodec.

(* ---- the codec of the model driver: no hypothesis left ---- *)

Theorem zf_zone_roundtrip z : built z ->
  exists txt z', zf_serialise z = Ok txt /\ zf_deserialise txt = Ok z' /\ zone_same z z'.
Proof.
  intro Hb. destruct (zone_roundtrip_own zf_codec zf_codec_rt z Hb) as (txt & z' & E & D & S & _). exists txt, z'. auto.
Qed.

Theorem zf_loaded_roundtrip data z : zf_deserialise data = Ok z ->
  exists txt z', zf_serialise z = Ok txt /\ zf_deserialise txt = Ok z' /\ zone_same z z' /\
    exists txt' z'', zf_serialise z' = Ok txt' /\ zf_deserialise txt' = Ok z'' /\ zone_same z' z'' /\ zone_same z z''.
Proof. apply (ztoz_twice zf_codec zf_codec_rt zf_codec_range). Qed.

(* [built] is what Zone::new and insert / insert_wildcard generate *)
Lemma built_new apex s : head_ok apex s -> built (zone_new apex s).
Proof. intro H. exists apex, s, []. split; [exact H|]. split; [constructor|reflexivity]. Qed.

Lemma built_insert z o : built z -> op_src_ok o -> exists z', zone_apply z o = Ok z' /\ built z'.
Proof.
  intros (apex & s & ops & Hh & Hops & Hb) Ho.
  destruct (built_data z apex s ops Hh Hops Hb) as (Ea & Es & HR & _).
  destruct (zone_apply_R apex s z _ o Ea Es HR (proj1 (proj1 Ho))) as (z' & Hz' & _).
  exists z'. split; [exact Hz'|]. exists apex, s, (ops ++ [o]). split; [exact Hh|]. split.
  - apply Forall_app. split; [exact Hops|constructor; [exact Ho|constructor]].
  - unfold zone_build in *. rewrite zone_apply_all_app, Hb. cbn [bind zone_apply_all]. rewrite Hz'. reflexivity.
Qed.

(* ====================================================================== *)
(* instances                                                               *)
(* ====================================================================== *)

Ltac ascii_nd :=
  unfold ascii_nodot, ZoneProofs.nm, mkname; cbn [labels app];
  repeat (first [apply Forall_nil | apply Forall_cons]); try (split; [lia|discriminate]).
Ltac name_ok_tac := split; [first [exact root_wf | wf_nm] | ascii_nd].

Module Examples.
  Local Notation ex := ([101; 120; 97; 109; 112; 108; 101] : label).
  Local Notation com := ([99; 111; 109] : label).
  Definition apex1 := ZoneProofs.nm [ex; com].
  Definition so1 : soa :=
    {| soa_mname := ZoneProofs.nm [[110; 115]; ex; com]; soa_rname := ZoneProofs.nm [[64]; ex; com];
       soa_serial := 1; soa_refresh := 2; soa_retry := 3; soa_expire := 4; soa_minimum := 60 |}.
  Definition mkop w n t d ttl := {| op_wild := w; op_name := n; op_type := t; op_data := d; op_ttl := ttl |}.
  (* `\@.example.com.` (the label `@`), a wildcard at the apex holding a TXT with every kind of
     special octet, NS at the apex, the owner `*a` (starts with '*', is not `*`), an owner with a
     space and a ';' label, a wildcard CNAME to the apex *)
  Definition ops1 : list zop :=
    [ mkop false (ZoneProofs.nm [[64]; ex; com]) RT_A (RD_A 16909060) 300;
      mkop true apex1 RT_TXT (RD_Octets [0; 34; 92; 59; 40; 41; 32; 64; 127; 255; 97]) 5;
      mkop false apex1 RT_NS (RD_Name (ZoneProofs.nm [[110; 115]; ex; com])) 3600;
      mkop false (ZoneProofs.nm [[42; 97]; ex; com]) RT_MX (RD_MX 10 (ZoneProofs.nm [[109]; [111; 114; 103]])) 3600;
      mkop false (ZoneProofs.nm [[97; 32; 98]; [59]; ex; com]) RT_AAAA (RD_AAAA [8193; 3512; 0; 0; 0; 0; 0; 1]) 3600;
      mkop true (ZoneProofs.nm [[119]; ex; com]) RT_CNAME (RD_Name apex1) 3600 ].

  Lemma head1 : head_ok apex1 (Some so1).
  Proof.
    split; [name_ok_tac|]. split; [discriminate|].
    unfold soa_ok, so1. cbn [soa_to_rdata rdata_ok soa_mname soa_rname soa_serial soa_refresh soa_retry soa_expire soa_minimum].
    repeat match goal with |- _ /\ _ => split end; try lia; name_ok_tac.
  Qed.

  Lemma ops1_ok : Forall op_src_ok ops1.
  Proof.
    unfold ops1.
    repeat (first [apply Forall_nil | apply Forall_cons]); unfold op_src_ok, mkop; cbn [op_name op_wild op_type op_data op_ttl rdata_ok];
      repeat match goal with |- _ /\ _ => split end;
      try reflexivity; try discriminate; try lia; try name_ok_tac; try (intros _; discriminate);
      try (repeat constructor; lia).
  Qed.

  Example built1 : exists z, zone_build apex1 (Some so1) ops1 = Ok z /\ built z.
  Proof.
    destruct (zone_build apex1 (Some so1) ops1) as [z| | |] eqn:E; try (vm_compute in E; discriminate).
    exists z. split; [reflexivity|]. exists apex1, (Some so1), ops1. split; [exact head1|]. split; [exact ops1_ok|exact E].
  Qed.

  (* what is written for it: `$ORIGIN example.com.` / `@ IN SOA ns @.example.com. 1 2 3 4 60` /
     `*a 3600 IN MX 10 m.org.` / `@.example.com. 300 IN A 1.2.3.4` / `a\032b.\; 3600 IN AAAA 2001:db8::1` /
     `@   3600 IN NS ns` / `*.@ 60 IN TXT `\000\`\\;\(\) @\127\255a`` / `*.w 3600 IN CNAME @` *)
  Example text1 :
    match zone_build apex1 (Some so1) ops1 with
    | Ok z => zf_serialise z
    | _ => Panic
    end = Ok [36;79;82;73;71;73;78;32;101;120;97;109;112;108;101;46;99;111;109;46;10;10;
              64;32;73;78;32;83;79;65;32;110;115;32;64;46;101;120;97;109;112;108;101;46;99;111;109;46;32;49;32;50;32;51;32;52;32;54;48;10;10;
              42;97;32;51;54;48;48;32;73;78;32;77;88;32;49;48;32;109;46;111;114;103;46;10;10;
              64;46;101;120;97;109;112;108;101;46;99;111;109;46;32;51;48;48;32;73;78;32;65;32;49;46;50;46;51;46;52;10;10;
              97;92;48;51;50;98;46;92;59;32;51;54;48;48;32;73;78;32;65;65;65;65;32;50;48;48;49;58;100;98;56;58;58;49;10;10;
              64;32;32;32;51;54;48;48;32;73;78;32;78;83;32;110;115;10;
              42;46;64;32;54;48;32;73;78;32;84;88;84;32;34;92;48;48;48;92;34;92;92;92;59;92;40;92;41;32;64;92;49;50;55;92;50;53;53;97;34;10;10;
              42;46;119;32;51;54;48;48;32;73;78;32;67;78;65;77;69;32;64;10;10].
  Proof. vm_compute. reflexivity. Qed.

  Example roundtrip1 : exists z txt z', zone_build apex1 (Some so1) ops1 = Ok z /\
    zf_serialise z = Ok txt /\ zf_deserialise txt = Ok z' /\ zone_same z z'.
  Proof.
    destruct built1 as (z & E & Hb). destruct (zf_zone_roundtrip z Hb) as (txt & z' & H). exists z, txt, z'. tauto.
  Qed.

  (* the root apex, not authoritative: names are written in full; `a b.c.` HINFO ``, the label `@`
     directly under the root, a wildcard at the root *)
  Definition ops2 : list zop :=
    [ mkop false (ZoneProofs.nm [[97; 32; 98]; [99]]) RT_HINFO (RD_Octets []) 0;
      mkop false (ZoneProofs.nm [[64]]) RT_A (RD_A 7) 5;
      mkop true root_domain RT_SRV (RD_SRV 1 2 3 (ZoneProofs.nm [[116]])) 9 ].

  Lemma ops2_ok : Forall op_src_ok ops2.
  Proof.
    unfold ops2.
    repeat (first [apply Forall_nil | apply Forall_cons]); unfold op_src_ok, mkop; cbn [op_name op_wild op_type op_data op_ttl rdata_ok];
      repeat match goal with |- _ /\ _ => split end;
      try reflexivity; try discriminate; try lia; try name_ok_tac; try (intros _; discriminate);
      try apply root_name_ok; try (repeat constructor; lia).
  Qed.

  Example built2 : exists z, zone_build root_domain None ops2 = Ok z /\ built z.
  Proof.
    destruct (zone_build root_domain None ops2) as [z| | |] eqn:E; try (vm_compute in E; discriminate).
    exists z. split; [reflexivity|]. exists root_domain, None, ops2.
    split; [split; [apply root_name_ok|split; [discriminate|reflexivity]]|]. split; [exact ops2_ok|exact E].
  Qed.

  (* `*.. 9 IN SRV 1 2 3 t.` / `@. 5 IN A 0.0.0.7` / `a\032b.c. 0 IN HINFO ``` *)
  Example text2 :
    match zone_build root_domain None ops2 with Ok z => zf_serialise z | _ => Panic end
    = Ok [42;46;46;32;57;32;73;78;32;83;82;86;32;49;32;50;32;51;32;116;46;10;10;
          64;46;32;53;32;73;78;32;65;32;48;46;48;46;48;46;55;10;10;
          97;92;48;51;50;98;46;99;46;32;48;32;73;78;32;72;73;78;70;79;32;34;34;10;10].
  Proof. vm_compute. reflexivity. Qed.

  Example roundtrip2 : exists z txt z', zone_build root_domain None ops2 = Ok z /\
    zf_serialise z = Ok txt /\ zf_deserialise txt = Ok z' /\ zone_same z z'.
  Proof.
    destruct built2 as (z & E & Hb). destruct (zf_zone_roundtrip z Hb) as (txt & z' & H). exists z, txt, z'. tauto.
  Qed.

  (* a loaded zone: the witness of fix 0286676, `$ORIGIN *.e.` / `@ 5 IN A 1.2.3.4` *)
  Definition star_text : list N := [36;79;82;73;71;73;78;32;42;46;101;46;10;64;32;53;32;73;78;32;65;32;49;46;50;46;51;46;52;10].
  Example loaded_star : exists z, zf_deserialise star_text = Ok z /\
    zone_all_records z = [] /\ map fst (zone_all_wildcard_records z) = [ZoneProofs.nm [[101]]] /\
    exists txt z', zf_serialise z = Ok txt /\ zf_deserialise txt = Ok z' /\ zone_same z z'.
  Proof.
    destruct (zf_deserialise star_text) as [z| | |] eqn:E; try (vm_compute in E; discriminate).
    exists z. split; [reflexivity|].
    assert (Hz : zone_all_records z = [] /\ map fst (zone_all_wildcard_records z) = [ZoneProofs.nm [[101]]]).
    { vm_compute in E. injection E as <-. split; reflexivity. }
    destruct Hz as [H1 H2]. split; [exact H1|]. split; [exact H2|].
    destruct (zf_loaded_roundtrip star_text z E) as (txt & z' & A & B & C & _). exists txt, z'. auto.
  Qed.
End Examples.
