(* Name/NameWireCase.v -- C16, wire side of case-insensitivity: two byte strings that
   differ only in the ASCII case of the LABEL octets of the name being read (same length
   octets, same pointers) decode to the same name, and leave the cursor at the same offset.

   [decode_name hops (map lower bs) ..] = [decode_name hops bs ..] is false: lower-casing
   every octet would also change length octets 65..90.  The relation below therefore
   follows the name grammar (RFC 1035 4.1.4, NameAt in Wire/WireGrammar.v): root octet /
   length octet + label octets equal after case folding / pointer to a target that is again
   a variant.  Nothing is assumed about pointer direction or total length: where the decoder
   rejects (forward pointer, name longer than 255) it rejects both strings alike. *)
From Coq Require Import PeanoNat.
From RV Require Import Base.Prelude Base.Cursor Name.NameModel Name.NameSpec Name.NameProofs.
Open Scope N_scope.
Set Default Timeout 120.

Inductive name_case_variant (bs bs' : list byte) : N -> Prop :=
| NCV_root pos :
    nthN bs pos = Some 0 -> nthN bs' pos = Some 0 ->
    name_case_variant bs bs' pos
| NCV_label pos sz os os' :
    nthN bs pos = Some sz -> nthN bs' pos = Some sz -> 1 <= sz <= 63 ->
    sliceN bs (pos + 1) sz = Some os -> sliceN bs' (pos + 1) sz = Some os' ->
    map lower os = map lower os' ->
    name_case_variant bs bs' (pos + 1 + sz) ->
    name_case_variant bs bs' pos
| NCV_ptr pos hi lo :
    nthN bs pos = Some hi -> nthN bs' pos = Some hi -> 192 <= hi <= 255 ->
    nthN bs (pos + 1) = Some lo -> nthN bs' (pos + 1) = Some lo ->
    name_case_variant bs bs' ((hi - 192) * 256 + lo) ->
    name_case_variant bs bs' pos.

(* what the caller of the decoder sees of a result: the name and the offset reached *)
Definition res_at (r : res werr_kind (dname * cur)) : res werr_kind (dname * N) :=
  match r with
  | Ok (n, c) => Ok (n, cpos c)
  | Err e => Err e
  | Panic => Panic
  | OutOfFuel => OutOfFuel
  end.

Lemma decode_name_at_res_at bs pos :
  decode_name_at bs pos = res_at (decode_name HOP_FUEL bs (at_offset bs pos)).
Proof. unfold decode_name_at, res_at. destruct (decode_name _ _ _) as [[n c]| | |]; reflexivity. Qed.

(* ---- cursor primitives on [at_offset bs p] ---- *)

Lemma nwc_skipn_nth {A} n : forall (l : list A),
  skipn n l = match nth_error l n with Some x => x :: skipn (S n) l | None => [] end.
Proof.
  induction n as [|n IH]; intros [|x t]; try reflexivity.
  cbn [nth_error]. rewrite <- IH. reflexivity.
Qed.

Lemma nwc_next_u8_at bs p :
  next_u8 (at_offset bs p)
  = match nthN bs p with Some b => Some (b, at_offset bs (p + 1)) | None => None end.
Proof.
  unfold next_u8, at_offset, nthN. cbn [crest cpos]. rewrite nwc_skipn_nth.
  replace (N.to_nat (p + 1)) with (S (N.to_nat p)) by lia.
  destruct (nth_error bs (N.to_nat p)); reflexivity.
Qed.

Lemma nwc_split_exact_firstn {A} k : forall (l : list A),
  split_exact k l = if Nat.leb k (length l) then Some (firstn k l, skipn k l) else None.
Proof.
  induction k as [|k IH]; intros l; [reflexivity|].
  destruct l as [|x t]; [reflexivity|]. cbn [split_exact length Nat.leb firstn skipn].
  rewrite IH. destruct (Nat.leb k (length t)); reflexivity.
Qed.

Lemma nwc_skipn_skipn {A} b : forall a (l : list A), skipn a (skipn b l) = skipn (b + a) l.
Proof.
  induction b as [|b IH]; intros a l; [reflexivity|].
  destruct l as [|x t]; [destruct a; reflexivity|]. cbn [skipn Nat.add]. apply IH.
Qed.

Lemma nwc_take_at bs p n os : sliceN bs p n = Some os ->
  take n (at_offset bs p) = Some (os, at_offset bs (p + n)).
Proof.
  unfold take, sliceN. destruct (N.leb_spec (p + n) (llen bs)) as [Hle|]; [|discriminate].
  intros [= <-]. rewrite nwc_split_exact_firstn. cbn [crest cpos at_offset].
  rewrite skipn_length. rewrite (proj2 (Nat.leb_le _ _)) by (unfold llen in *; lia).
  rewrite nwc_skipn_skipn.
  replace (N.to_nat p + N.to_nat n)%nat with (N.to_nat (p + n)) by lia. reflexivity.
Qed.

Lemma nwc_sliceN_len {A} (l : list A) i n os : sliceN l i n = Some os -> llen os = n.
Proof.
  unfold sliceN. destruct (N.leb_spec (i + n) (llen l)) as [Hle|]; [|discriminate].
  intros [= <-]. unfold llen in *. rewrite firstn_length, skipn_length. lia.
Qed.

(* the pointer's offset as the code computes it (mask 0x3F) and as the RFC writes it *)
Lemma nwc_ptr_mask hi lo : 192 <= hi <= 255 -> u16_be (N.land hi 63) lo = (hi - 192) * 256 + lo.
Proof.
  intro H. unfold u16_be. change 63 with (N.ones 6). rewrite N.land_ones.
  replace (hi mod 2 ^ 6) with (hi - 192); [reflexivity|].
  change (2 ^ 6) with 64. apply N.mod_unique with (q := 3); lia.
Qed.

Lemma res_at_finish ls len c c' : cpos c = cpos c' ->
  res_at (name_finish ls len c) = res_at (name_finish ls len c').
Proof. intro H. unfold name_finish. destruct (len <=? DOMAINNAME_MAX_LEN); cbn [res_at]; congruence. Qed.

(* ---- the loop ---- *)

Lemma name_loop_case bs bs' pos : name_case_variant bs bs' pos ->
  forall h start lf len acc,
    res_at (name_loop (fun p => decode_name h bs (at_offset bs p)) start lf (at_offset bs pos) len acc)
    = res_at (name_loop (fun p => decode_name h bs' (at_offset bs' p)) start lf (at_offset bs' pos) len acc).
Proof.
  induction 1 as [pos H0 H0' | pos sz os os' Hsz Hsz' Hr Hos Hos' Hlow _ IH
                  | pos hi lo Hhi Hhi' Hr Hlo Hlo' _ IH];
    intros h start lf len acc; (destruct lf as [|lf]; [reflexivity|]); cbn [name_loop];
    rewrite !nwc_next_u8_at.
  - rewrite H0, H0'. unfold LABEL_MAX_LEN. change (0 <=? 63) with true. change (0 =? 0) with true.
    cbv iota. apply res_at_finish. reflexivity.
  - rewrite Hsz, Hsz'. unfold LABEL_MAX_LEN.
    rewrite (proj2 (N.leb_le sz 63)) by lia. rewrite (proj2 (N.eqb_neq sz 0)) by lia.
    replace (pos + 1 + sz) with ((pos + 1) + sz) in IH by lia.
    rewrite (nwc_take_at _ _ _ _ Hos), (nwc_take_at _ _ _ _ Hos'). rewrite Hlow.
    destruct (DOMAINNAME_MAX_LEN <? len + 1 + sz).
    + apply res_at_finish. reflexivity.
    + apply IH.
  - rewrite Hhi, Hhi'. unfold LABEL_MAX_LEN.
    rewrite (proj2 (N.leb_gt hi 63)) by lia. rewrite (proj2 (N.leb_le 192 hi)) by lia.
    rewrite !nwc_next_u8_at. rewrite Hlo, Hlo'. rewrite (nwc_ptr_mask hi lo Hr).
    destruct (start <=? (hi - 192) * 256 + lo); [reflexivity|].
    destruct h as [|h]; [reflexivity|]. cbn [decode_name].
    change (cpos (at_offset bs ((hi - 192) * 256 + lo))) with ((hi - 192) * 256 + lo).
    change (cpos (at_offset bs' ((hi - 192) * 256 + lo))) with ((hi - 192) * 256 + lo).
    specialize (IH h ((hi - 192) * 256 + lo) LABEL_FUEL 0 []).
    destruct (name_loop _ _ _ (at_offset bs _) _ _) as [[o1 c1]| | |];
      destruct (name_loop _ _ _ (at_offset bs' _) _ _) as [[o2 c2]| | |];
      cbn [res_at] in IH; try discriminate; try reflexivity.
    + injection IH as -> _. apply res_at_finish. reflexivity.
    + exact IH.
Qed.

Lemma decode_name_case bs bs' pos h : name_case_variant bs bs' pos ->
  res_at (decode_name h bs (at_offset bs pos)) = res_at (decode_name h bs' (at_offset bs' pos)).
Proof.
  intro H. destruct h as [|h]; [reflexivity|]. cbn [decode_name].
  change (cpos (at_offset bs pos)) with pos. change (cpos (at_offset bs' pos)) with pos.
  apply name_loop_case, H.
Qed.

Lemma wire_case_insensitive bs bs' pos :
  name_case_variant bs bs' pos -> decode_name_at bs pos = decode_name_at bs' pos.
Proof. intro H. rewrite !decode_name_at_res_at. apply decode_name_case, H. Qed.

(* the relation is not vacuous and not just equality: "www.example" spelled in two
   mixed cases at offset 0, and at offset 13 the name "A" / "a" followed by a pointer to it *)
Definition nwc_ex  : list byte := [3;87;119;87; 7;101;88;97;109;80;108;69; 0; 1;65; 192;0].
Definition nwc_ex' : list byte := [3;119;87;119; 7;69;120;65;77;112;76;101; 0; 1;97; 192;0].

Lemma nwc_ex_variant : name_case_variant nwc_ex nwc_ex' 13.
Proof.
  eapply NCV_label with (sz := 1); try reflexivity; [lia|].
  eapply NCV_ptr with (hi := 192) (lo := 0); try reflexivity; [lia|].
  eapply NCV_label with (sz := 3); try reflexivity; [lia|].
  eapply NCV_label with (sz := 7); try reflexivity; [lia|].
  apply NCV_root; reflexivity.
Qed.
