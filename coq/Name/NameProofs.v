(* Name/NameProofs.v -- proofs about Name/NameModel.v against Name/NameSpec.v (C16). *)
From RV Require Import Base.Prelude Base.Cursor Name.NameModel Name.NameSpec.

Lemma leqb_eq a b : leqb a b = true <-> a = b.
Proof.
  revert b; induction a as [|x a IH]; intros [|y b]; cbn [leqb]; split; intro H;
    try reflexivity; try discriminate.
  - apply andb_true_iff in H as [H1 H2]. apply N.eqb_eq in H1. apply IH in H2. congruence.
  - inversion H; subst. apply andb_true_iff; split; [apply N.eqb_refl | apply IH; reflexivity].
Qed.

Lemma lleqb_eq a b : lleqb a b = true <-> a = b.
Proof.
  revert b; induction a as [|x a IH]; intros [|y b]; cbn [lleqb]; split; intro H;
    try reflexivity; try discriminate.
  - apply andb_true_iff in H as [H1 H2]. apply leqb_eq in H1. apply IH in H2. congruence.
  - inversion H; subst. apply andb_true_iff; split; [apply leqb_eq; reflexivity | apply IH; reflexivity].
Qed.

Lemma subdomain_is_suffix a b :
  is_subdomain_of a b = true <-> is_suffix (labels b) (labels a).
Proof.
  unfold is_subdomain_of, ends_with, is_suffix.
  destruct (Nat.leb (length (labels b)) (length (labels a))) eqn:E.
  - apply PeanoNat.Nat.leb_le in E. split.
    + intro H. apply lleqb_eq in H.
      exists (firstn (length (labels a) - length (labels b)) (labels a)).
      rewrite <- H at 2. symmetry. apply firstn_skipn.
    + intros [pre H]. apply lleqb_eq. rewrite H.
      rewrite app_length. replace (length pre + length (labels b) - length (labels b))%nat with (length pre) by lia.
      rewrite skipn_app, skipn_all, PeanoNat.Nat.sub_diag. reflexivity.
  - apply PeanoNat.Nat.leb_gt in E. split; [discriminate|].
    intros [pre H]. rewrite H, app_length in E. lia.
Qed.

(* ================= arithmetic and list helpers ================= *)

Lemma llen_nil {A} : llen (@nil A) = 0.
Proof. reflexivity. Qed.

Lemma llen_cons {A} (x : A) l : llen (x :: l) = 1 + llen l.
Proof. unfold llen. cbn [length]. lia. Qed.

Lemma llen_app {A} (a b : list A) : llen (a ++ b) = llen a + llen b.
Proof. unfold llen. rewrite app_length. lia. Qed.

Lemma llen_map {A B} (f : A -> B) l : llen (map f l) = llen l.
Proof. unfold llen. rewrite map_length. reflexivity. Qed.

Ltac ll :=
  unfold byte, label in *;
  repeat first [rewrite llen_cons in * | rewrite llen_app in * | rewrite llen_map in *];
  repeat match goal with
         | |- context [@llen ?A (@nil ?B)] => change (@llen A (@nil B)) with 0
         | H : context [@llen ?A (@nil ?B)] |- _ => change (@llen A (@nil B)) with 0 in H
         end.

Lemma llen_zero {A} (l : list A) : llen l = 0 -> l = [].
Proof. destruct l as [|x l]; [reflexivity|]. rewrite llen_cons. lia. Qed.

Lemma sum_lens_app a b : sum_lens (a ++ b) = sum_lens a + sum_lens b.
Proof.
  induction a as [|l a IH]; cbn [app sum_lens]; [lia|]. rewrite IH. lia.
Qed.

Lemma sum_lens_root : sum_lens [[]] = 1.
Proof. reflexivity. Qed.

Lemma sum_lens_ge ls : llen ls <= sum_lens ls.
Proof.
  induction ls as [|l ls IH]; cbn [sum_lens]; [ll; lia|].
  rewrite llen_cons. lia.
Qed.

(* ---- ASCII case ---- *)

Lemma is_upper_true b : is_upper b = true <-> 65 <= b <= 90.
Proof.
  unfold is_upper. rewrite andb_true_iff, !N.leb_le. reflexivity.
Qed.

Lemma is_upper_false b : is_upper b = false <-> (b < 65 \/ 90 < b).
Proof.
  unfold is_upper. rewrite andb_false_iff, !N.leb_gt. reflexivity.
Qed.

Lemma lower_upper b : 65 <= b <= 90 -> lower b = b + 32.
Proof. intro H. unfold lower. apply is_upper_true in H. rewrite H. reflexivity. Qed.

Lemma lower_id b : is_upper b = false -> lower b = b.
Proof. intro H. unfold lower. rewrite H. reflexivity. Qed.

Lemma lower_cases b : (65 <= b <= 90 /\ lower b = b + 32) \/ ((b < 65 \/ 90 < b) /\ lower b = b).
Proof.
  destruct (is_upper b) eqn:E.
  - left. apply is_upper_true in E. split; [assumption|]. apply lower_upper; assumption.
  - right. split; [apply is_upper_false; assumption | apply lower_id; assumption].
Qed.

Lemma lower_small b : b < 256 -> lower b < 256.
Proof. destruct (lower_cases b) as [[H ->]|[H ->]]; lia. Qed.

Lemma lower_not_upper b : is_upper (lower b) = false.
Proof. apply is_upper_false. destruct (lower_cases b) as [[H ->]|[H ->]]; lia. Qed.

Lemma lower_idem b : lower (lower b) = lower b.
Proof. apply lower_id, lower_not_upper. Qed.

Lemma lower_eq_46 b : lower b = 46 <-> b = 46.
Proof. destruct (lower_cases b) as [[H ->]|[H ->]]; lia. Qed.

Lemma lower_eqb_46 b : N.eqb (lower b) 46 = N.eqb b 46.
Proof.
  destruct (N.eqb_spec (lower b) 46) as [H|H]; destruct (N.eqb_spec b 46) as [H'|H'];
    try reflexivity; rewrite lower_eq_46 in H; contradiction.
Qed.

Lemma map_lower_idem l : map lower (map lower l) = map lower l.
Proof. rewrite map_map. apply map_ext. intro; apply lower_idem. Qed.

Lemma map_lower_id l : Forall (fun b => is_upper b = false) l -> map lower l = l.
Proof.
  induction 1 as [|b l Hb _ IH]; [reflexivity|]. cbn [map]. rewrite IH, lower_id by assumption. reflexivity.
Qed.

(* ================= from_labels ================= *)

Definition nonempty (l : label) : Prop := l <> [].

Lemma label_is_empty_true l : label_is_empty l = true <-> l = [].
Proof. destruct l; cbn; split; congruence. Qed.

Lemma loop_true ls len r : from_labels_loop ls true len = Some r -> ls = [] /\ r = (true, len).
Proof. destruct ls; cbn [from_labels_loop]; intro H; [inversion H; auto | discriminate]. Qed.

Lemma loop_false ls : forall len b len',
  from_labels_loop ls false len = Some (b, len') ->
  len' + llen ls = len + sum_lens ls /\
  ((b = true /\ exists front, ls = front ++ [[]] /\ Forall nonempty front)
   \/ (b = false /\ Forall nonempty ls)).
Proof.
  induction ls as [|l t IH]; intros len b len' H; cbn [from_labels_loop] in H.
  - inversion H; subst. split; [cbn [sum_lens]; ll; lia|]. right. split; [reflexivity|constructor].
  - cbn [orb] in H. destruct l as [|x l]; cbn [label_is_empty] in H.
    + apply loop_true in H as [-> H]. inversion H; subst.
      split; [cbn [sum_lens]; ll; lia|].
      left. split; [reflexivity|]. exists []. split; [reflexivity|constructor].
    + apply IH in H as [Hlen Hb]. split.
      * cbn [sum_lens]. ll. lia.
      * destruct Hb as [[-> (front & -> & Hf)]|[-> Hf]].
        -- left. split; [reflexivity|]. exists ((x :: l) :: front). split; [reflexivity|].
           constructor; [discriminate|assumption].
        -- right. split; [reflexivity|]. constructor; [discriminate|assumption].
Qed.

Lemma loop_complete front : forall len, Forall nonempty front ->
  exists len', from_labels_loop (front ++ [[]]) false len = Some (true, len')
               /\ len' + llen (front ++ [[]]) = len + sum_lens (front ++ [[]]).
Proof.
  induction front as [|l t IH]; intros len Hf.
  - exists (len + llen (@nil byte)). split; [reflexivity|]. cbn [app sum_lens]. ll. lia.
  - apply Forall_cons_iff in Hf as [Hl Ht]. destruct l as [|x l]; [exfalso; apply Hl; reflexivity|].
    cbn [app from_labels_loop orb label_is_empty].
    destruct (IH (len + llen (x :: l)) Ht) as (len' & E & Hlen).
    exists len'. split; [exact E|]. cbn [sum_lens]. ll. lia.
Qed.

Lemma from_labels_ne ls : ls <> [] ->
  from_labels ls = match from_labels_loop ls false (llen ls) with
                   | Some (true, len) =>
                     if len <=? 255 then Some {| labels := ls; nlen := len |} else None
                   | _ => None
                   end.
Proof. destruct ls; [contradiction|reflexivity]. Qed.

Lemma from_labels_inv ls n : from_labels ls = Some n ->
  labels n = ls /\ nlen n = sum_lens ls /\ sum_lens ls <= 255 /\
  exists front, ls = front ++ [[]] /\ Forall nonempty front.
Proof.
  destruct ls as [|l0 t] eqn:Els; [discriminate|]. rewrite <- Els.
  rewrite from_labels_ne by (rewrite Els; discriminate). clear Els l0 t.
  destruct (from_labels_loop ls false (llen ls)) as [[b len]|] eqn:E; [|discriminate].
  destruct b; [|discriminate].
  destruct (N.leb_spec len 255) as [Hle|Hgt]; [|discriminate].
  intro H; inversion H; subst; clear H. cbn [labels nlen].
  apply loop_false in E as [Hlen [[_ Hf]|[Hb _]]]; [|discriminate].
  assert (len = sum_lens ls) by lia. subst len. auto.
Qed.

Lemma from_labels_intro front : Forall nonempty front -> sum_lens (front ++ [[]]) <= 255 ->
  from_labels (front ++ [[]]) = Some {| labels := front ++ [[]]; nlen := sum_lens (front ++ [[]]) |}.
Proof.
  intros Hf Hs. rewrite from_labels_ne by (destruct front; discriminate).
  destruct (loop_complete front (llen (front ++ [[]])) Hf) as (len' & E & Hlen). rewrite E.
  assert (len' = sum_lens (front ++ [[]])) by lia. subst len'.
  destruct (N.leb_spec (sum_lens (front ++ [[]])) 255); [reflexivity|lia].
Qed.

Lemma from_labels_wf ls n :
  Forall wf_label ls -> from_labels ls = Some n -> wf_name n /\ labels n = ls.
Proof.
  intros Hwf H. apply from_labels_inv in H as (Hl & Hn & Hs & front & Hls & Hf).
  split; [|assumption]. unfold wf_name. rewrite Hl. split; [|assumption].
  exists front. split; [assumption|]. split; [|assumption].
  rewrite Hls in Hwf. apply Forall_app in Hwf as [Hwf _].
  rewrite Forall_forall in *. intros l Hin. split; [apply Hf | apply Hwf]; assumption.
Qed.

Lemma wf_labels_from_labels ls : wf_labels ls -> exists n, from_labels ls = Some n.
Proof.
  intros (front & -> & Hf & Hs). eexists. apply from_labels_intro; [|assumption].
  rewrite Forall_forall in *. intros l Hin. apply Hf; assumption.
Qed.

Lemma from_labels_complete ls :
  Forall wf_label ls -> (from_labels ls = None <-> ~ wf_labels ls).
Proof.
  intro Hwf. split.
  - intros H Hw. apply wf_labels_from_labels in Hw as [n Hn]. congruence.
  - intro Hnw. destruct (from_labels ls) as [n|] eqn:E; [|reflexivity].
    exfalso. apply Hnw. apply from_labels_wf in E as [[Hw _] Hl]; [|assumption]. rewrite <- Hl. assumption.
Qed.

Lemma from_labels_of_wf n : wf_name n -> from_labels (labels n) = Some n.
Proof.
  destruct n as [ls len]. intros [(front & Hls & Hf & Hs) Hn]. cbn [labels nlen] in *. subst ls len.
  apply from_labels_intro; [|assumption].
  rewrite Forall_forall in *. intros l Hin. apply Hf; assumption.
Qed.

Lemma wf_labels_all ls : wf_labels ls -> Forall wf_label ls.
Proof.
  intros (front & -> & Hf & _). apply Forall_app. split.
  - rewrite Forall_forall in *. intros l Hin. apply Hf; assumption.
  - constructor; [|constructor]. split; [ll; lia|constructor].
Qed.

(* ================= UTF-8 ================= *)

Definition small (b : N) : Prop := b < 256.

Lemma cont_byte x : 128 <= 128 + x mod 64 < 192.
Proof.
  assert (H : x mod 64 < 64) by (apply N.mod_lt; lia).
  set (m := x mod 64) in *. clearbody m. lia.
Qed.

Lemma lower_ge b : 91 <= b -> lower b = b.
Proof. intro H. apply lower_id, is_upper_false. lia. Qed.

Lemma lower_lead a x : 91 <= a -> lower (a + x) = a + x.
Proof. intro H. apply lower_ge. lia. Qed.

Lemma lower_cont x : lower (128 + x mod 64) = 128 + x mod 64.
Proof. apply lower_ge. pose proof (cont_byte x). lia. Qed.

Lemma utf8_char_ne c : utf8_char c <> [].
Proof.
  unfold utf8_char. destruct (c <? 128); [discriminate|].
  destruct (c <? 2048); [discriminate|]. destruct (c <? 65536); discriminate.
Qed.

Lemma utf8_char_small c : scalar c -> Forall small (utf8_char c).
Proof.
  unfold scalar, small, utf8_char. intro Hc.
  destruct (N.ltb_spec c 128) as [H1|H1]; [repeat constructor; lia|].
  destruct (N.ltb_spec c 2048) as [H2|H2].
  { assert (c / 64 < 32) by (apply N.div_lt_upper_bound; lia).
    pose proof (cont_byte c). set (d := c / 64) in *. clearbody d.
    repeat constructor; lia. }
  destruct (N.ltb_spec c 65536) as [H3|H3].
  { assert (c / 4096 < 16) by (apply N.div_lt_upper_bound; lia).
    pose proof (cont_byte c). pose proof (cont_byte (c / 64)).
    set (d := c / 4096) in *. clearbody d.
    repeat constructor; lia. }
  assert (c / 262144 < 16) by (apply N.div_lt_upper_bound; lia).
  pose proof (cont_byte c). pose proof (cont_byte (c / 64)). pose proof (cont_byte (c / 4096)).
  set (d := c / 262144) in *. clearbody d.
  repeat constructor; lia.
Qed.

Lemma utf8_char_lower c : map lower (utf8_char c) = utf8_char (lower c).
Proof.
  unfold utf8_char.
  destruct (N.ltb_spec c 128) as [H1|H1].
  - assert (H : lower c < 128) by (destruct (lower_cases c) as [[H ->]|[H ->]]; lia).
    apply N.ltb_lt in H. rewrite H. reflexivity.
  - rewrite (lower_ge c) by lia.
    destruct (N.ltb_spec c 128) as [H1'|_]; [lia|].
    destruct (c <? 2048); [|destruct (c <? 65536)]; cbn [map];
      rewrite !lower_lead by lia; reflexivity.
Qed.

Lemma utf8_cons c s : utf8 (c :: s) = utf8_char c ++ utf8 s.
Proof. reflexivity. Qed.

Lemma utf8_lower s : map lower (utf8 s) = utf8 (map lower s).
Proof.
  induction s as [|c s IH]; [reflexivity|].
  cbn [map]. rewrite !utf8_cons, map_app. f_equal; [apply utf8_char_lower | exact IH].
Qed.

Lemma utf8_nil_inv s : utf8 s = [] -> s = [].
Proof.
  destruct s as [|c s]; [reflexivity|]. rewrite utf8_cons. intro H.
  apply app_eq_nil in H as [H _]. exfalso. exact (utf8_char_ne c H).
Qed.

Lemma utf8_small s : Forall scalar s -> Forall small (utf8 s).
Proof.
  intro H. unfold utf8. apply Forall_flat_map.
  rewrite Forall_forall in *. intros c Hc. apply utf8_char_small, H, Hc.
Qed.

Lemma utf8_ascii l : Forall (fun b => b < 128) l -> utf8 l = l.
Proof.
  induction 1 as [|b l Hb _ IH]; [reflexivity|].
  rewrite utf8_cons, IH. unfold utf8_char. apply N.ltb_lt in Hb. rewrite Hb. reflexivity.
Qed.

(* the label a text chunk becomes *)
Definition lab (c : list N) : label := map lower (utf8 c).

Lemma lab_nil_inv c : lab c = [] -> c = [].
Proof. unfold lab. intro H. apply map_eq_nil in H. apply utf8_nil_inv; assumption. Qed.

Lemma lab_ne c : c <> [] -> nonempty (lab c).
Proof. intros H H'. apply H, lab_nil_inv, H'. Qed.

Lemma llen_lab c : llen (lab c) = llen (utf8 c).
Proof. apply llen_map. Qed.

Lemma map_lower_wf l : Forall small l ->
  Forall (fun b => b < 256 /\ is_upper b = false) (map lower l).
Proof.
  intro H. apply Forall_map. rewrite Forall_forall in *. intros b Hb.
  split; [apply lower_small, H, Hb | apply lower_not_upper].
Qed.

Lemma lab_wf c : Forall scalar c -> llen (utf8 c) <= 63 -> wf_label (lab c).
Proof.
  intros Hs Hl. split; [rewrite llen_lab; assumption|].
  apply map_lower_wf, utf8_small, Hs.
Qed.

(* a well-formed ASCII label is the label of itself read as text *)
Lemma lab_ascii l : wf_label l -> Forall (fun b => b < 128 /\ b <> 46) l -> lab l = l.
Proof.
  intros [_ Hw] Ha. unfold lab. rewrite utf8_ascii.
  - apply map_lower_id. rewrite Forall_forall in *. intros b Hb. apply Hw, Hb.
  - rewrite Forall_forall in *. intros b Hb. apply Ha, Hb.
Qed.

(* ================= split_on ================= *)

Definition nodot (c : list N) : Prop := ~ In 46 c.
Definition dotjoin (cs : list (list N)) : list N := concat (map (fun c => c ++ [46]) cs).

Lemma split_on_ne d s : split_on d s <> [].
Proof.
  destruct s as [|x t]; cbn [split_on]; [discriminate|].
  destruct (N.eqb x d); [discriminate|]. destruct (split_on d t); discriminate.
Qed.

Lemma split_on_app_sep d a b : split_on d (a ++ d :: b) = split_on d a ++ split_on d b.
Proof.
  induction a as [|x a IH]; cbn [app split_on].
  - rewrite N.eqb_refl. reflexivity.
  - destruct (N.eqb x d); [rewrite IH; reflexivity|].
    rewrite IH. destruct (split_on d a) as [|h r] eqn:E; [exfalso; exact (split_on_ne d a E)|].
    reflexivity.
Qed.

Lemma split_on_nodot c : nodot c -> split_on 46 c = [c].
Proof.
  unfold nodot. induction c as [|x c IH]; intro H; cbn [split_on]; [reflexivity|].
  destruct (N.eqb_spec x 46) as [->|Hx]; [exfalso; apply H; left; reflexivity|].
  rewrite IH; [reflexivity|]. intro Hin. apply H. right. assumption.
Qed.

Lemma split_on_dotjoin cs last : Forall nodot cs -> nodot last ->
  split_on 46 (dotjoin cs ++ last) = cs ++ [last].
Proof.
  intros Hcs Hlast. induction Hcs as [|c cs Hc _ IH]; unfold dotjoin in *; cbn [map concat app].
  - apply split_on_nodot; assumption.
  - rewrite <- !app_assoc. cbn [app]. rewrite split_on_app_sep, IH, split_on_nodot by assumption. reflexivity.
Qed.

Lemma split_on_all_nodot s : Forall nodot (split_on 46 s).
Proof.
  induction s as [|x t IH]; cbn [split_on].
  - constructor; [intros []|constructor].
  - destruct (N.eqb_spec x 46) as [->|Hx].
    + constructor; [intros []|assumption].
    + destruct (split_on 46 t) as [|h r]; [constructor; [|constructor]|].
      * intros [H|[]]. congruence.
      * apply Forall_cons_iff in IH as [Hh Hr]. constructor; [|assumption].
        intros [H|H]; [congruence|exact (Hh H)].
Qed.

Lemma join_dots_snoc_nil cs : join_dots (cs ++ [[]]) = dotjoin cs.
Proof.
  unfold dotjoin. induction cs as [|c cs IH]; [reflexivity|].
  cbn [app map concat]. rewrite <- IH, <- app_assoc. cbn [app join_dots].
  destruct (cs ++ [[]]) eqn:E; [destruct cs; discriminate|reflexivity].
Qed.

Lemma join_dots_split s : join_dots (split_on 46 s) = s.
Proof.
  induction s as [|x t IH]; cbn [split_on]; [reflexivity|].
  destruct (N.eqb_spec x 46) as [->|Hx].
  - destruct (split_on 46 t) as [|h r] eqn:E; [exfalso; exact (split_on_ne 46 t E)|].
    cbn [join_dots app] in *. rewrite IH. reflexivity.
  - destruct (split_on 46 t) as [|h r] eqn:E; [exfalso; exact (split_on_ne 46 t E)|].
    destruct r as [|h' r]; cbn [join_dots app] in *; rewrite <- IH; reflexivity.
Qed.

Lemma split_on_lower s : split_on 46 (map lower s) = map (map lower) (split_on 46 s).
Proof.
  induction s as [|x t IH]; cbn [map split_on]; [reflexivity|].
  rewrite lower_eqb_46, IH. destruct (N.eqb x 46); [reflexivity|].
  destruct (split_on 46 t); reflexivity.
Qed.

(* ================= from_dotted_string ================= *)

Lemma label_try_from_some os l : label_try_from os = Some l -> l = map lower os /\ llen os <= 63.
Proof.
  unfold label_try_from, LABEL_MAX_LEN. destruct (N.ltb_spec 63 (llen os)) as [H|H]; [discriminate|].
  intro E; inversion E; auto.
Qed.

Lemma label_try_from_ok os : llen os <= 63 -> label_try_from os = Some (map lower os).
Proof.
  intro H. unfold label_try_from, LABEL_MAX_LEN. destruct (N.ltb_spec 63 (llen os)); [lia|reflexivity].
Qed.

Lemma label_case_insensitive os os' :
  map lower os = map lower os' -> label_try_from os = label_try_from os'.
Proof.
  intro H. unfold label_try_from.
  assert (Hl : llen os = llen os') by (rewrite <- (llen_map lower os), H; apply llen_map).
  unfold byte in *. rewrite Hl, H. reflexivity.
Qed.

Lemma dotted_chunks_some chunks : forall ls, dotted_chunks chunks = Some ls ->
  ls = map lab chunks /\ Forall (fun c => llen (utf8 c) <= 63) chunks.
Proof.
  induction chunks as [|c rest IH]; intros ls H; cbn [dotted_chunks] in H.
  - inversion H. split; [reflexivity|constructor].
  - destruct (label_is_empty c && negb (is_nil rest)); [discriminate|].
    destruct (label_try_from (utf8 c)) as [l|] eqn:El; [|discriminate].
    destruct (dotted_chunks rest) as [ls'|]; [|discriminate].
    inversion H; subst ls. apply label_try_from_some in El as [-> Hlen].
    destruct (IH ls' eq_refl) as [-> Hrest]. split; [reflexivity|constructor; assumption].
Qed.

Lemma dotted_chunks_intro cs :
  Forall (fun c => c <> [] /\ llen (utf8 c) <= 63) cs ->
  dotted_chunks (cs ++ [[]]) = Some (map lab cs ++ [[]]).
Proof.
  induction 1 as [|c cs [Hc Hl] _ IH].
  - reflexivity.
  - cbn [app dotted_chunks map]. destruct c as [|x c]; [exfalso; apply Hc; reflexivity|].
    cbn [label_is_empty andb]. rewrite (label_try_from_ok _ Hl), IH. reflexivity.
Qed.

Lemma dotjoin_not_dot cs : Forall (fun c : list N => c <> []) cs -> dotjoin cs <> [46].
Proof.
  intros H E. destruct cs as [|c cs]; [discriminate|].
  apply Forall_cons_iff in H as [Hc _]. unfold dotjoin in E. cbn [map concat] in E.
  destruct c as [|x [|y c]]; [apply Hc; reflexivity|discriminate|discriminate].
Qed.

Lemma leqb_false a b : a <> b -> leqb a b = false.
Proof. intro H. destruct (leqb a b) eqn:E; [|reflexivity]. apply leqb_eq in E. contradiction. Qed.

Lemma from_dotted_nondot s : s <> [46] ->
  from_dotted_string s = match dotted_chunks (split_on 46 s) with
                         | Some ls => from_labels ls
                         | None => None
                         end.
Proof. intro H. unfold from_dotted_string. rewrite (leqb_false _ _ H). reflexivity. Qed.

Definition chunk_ok (c : list N) : Prop := c <> [] /\ ~ In 46 c /\ llen (utf8 c) <= 63.

(* accepted text other than "." *)
Lemma dotted_inv s n : s <> [46] -> from_dotted_string s = Some n ->
  exists cs, split_on 46 s = cs ++ [[]] /\ s = dotjoin cs /\ Forall chunk_ok cs
             /\ labels n = map lab cs ++ [[]] /\ nlen n = sum_lens (labels n) /\ nlen n <= 255.
Proof.
  intros Hs H. rewrite from_dotted_nondot in H by assumption.
  destruct (dotted_chunks (split_on 46 s)) as [ls|] eqn:Ec; [|discriminate].
  apply dotted_chunks_some in Ec as [-> Hlen].
  apply from_labels_inv in H as (Hl & Hn & Hsum & front & Hfront & Hne).
  destruct (split_on 46 s) as [|c0 r0] eqn:Esplit; [exfalso; exact (split_on_ne 46 s Esplit)|].
  rewrite <- Esplit in *. clear c0 r0 Esplit.
  assert (Hex : exists cs last, split_on 46 s = cs ++ [last]).
  { destruct (split_on 46 s) as [|c0 r0] eqn:E; [exfalso; exact (split_on_ne 46 s E)|].
    exists (removelast (c0 :: r0)), (last (c0 :: r0) []). apply app_removelast_last. discriminate. }
  destruct Hex as (cs & last & Ecs). rewrite Ecs in *.
  rewrite map_app in Hfront. cbn [map] in Hfront. apply app_inj_tail in Hfront as [Hfront Hlast].
  apply lab_nil_inv in Hlast. subst last.
  exists cs. split; [reflexivity|].
  pose proof (join_dots_split s) as Hj. rewrite Ecs, join_dots_snoc_nil in Hj.
  split; [symmetry; exact Hj|].
  pose proof (split_on_all_nodot s) as Hnd. rewrite Ecs in Hnd. apply Forall_app in Hnd as [Hnd _].
  apply Forall_app in Hlen as [Hlen _].
  split; [|rewrite Hl, Hn; rewrite map_app in *; cbn [map] in *; repeat split; try assumption; reflexivity].
  rewrite Forall_forall in *. intros c Hc. split; [|split; [exact (Hnd c Hc) | exact (Hlen c Hc)]].
  intros ->. apply (Hne (lab [])); [|reflexivity]. rewrite <- Hfront. apply in_map with (f := lab) in Hc. exact Hc.
Qed.

Lemma dotted_intro cs n : Forall chunk_ok cs ->
  labels n = map lab cs ++ [[]] -> nlen n = sum_lens (labels n) -> nlen n <= 255 ->
  from_dotted_string (dotjoin cs) = Some n.
Proof.
  intros Hcs Hl Hn H255.
  assert (Hne : Forall (fun c : list N => c <> []) cs)
    by (rewrite Forall_forall in *; intros c Hc; apply (Hcs c Hc)).
  rewrite from_dotted_nondot by (apply dotjoin_not_dot; assumption).
  rewrite <- (app_nil_r (dotjoin cs)), split_on_dotjoin.
  2: { rewrite Forall_forall in *. intros c Hc. apply (Hcs c Hc). }
  2: { intros []. }
  rewrite dotted_chunks_intro.
  2: { rewrite Forall_forall in *. intros c Hc. destruct (Hcs c Hc) as (? & ? & ?). auto. }
  destruct n as [ls len]. cbn [labels nlen] in *. subst ls len.
  apply from_labels_intro; [|assumption].
  apply Forall_map. rewrite Forall_forall in *. intros c Hc. apply lab_ne, Hne, Hc.
Qed.

Lemma dotted_complete s n :
  Forall scalar s -> (from_dotted_string s = Some n <-> dotted_spec s n).
Proof.
  intros _. split.
  - intro H. destruct (list_eq_dec N.eq_dec s [46]) as [->|Hs].
    + left. split; [reflexivity|]. change (from_dotted_string [46]) with (Some root_domain) in H. congruence.
    + right. destruct (dotted_inv s n Hs H) as (cs & _ & Hj & Hok & Hl & Hn & H255).
      exists cs. repeat split; assumption.
  - intros [[-> ->]|(cs & -> & Hok & Hl & Hn & H255)]; [reflexivity|].
    apply dotted_intro; assumption.
Qed.

Lemma wf_name_intro front len :
  Forall (fun l => l <> [] /\ wf_label l) front -> len = sum_lens (front ++ [[]]) -> len <= 255 ->
  wf_name {| labels := front ++ [[]]; nlen := len |}.
Proof.
  intros Hf -> H. split; [|reflexivity]. exists front. auto.
Qed.

Lemma root_wf : wf_name root_domain.
Proof. apply (wf_name_intro [] 1); [constructor|reflexivity|lia]. Qed.

Lemma dotjoin_scalar cs : Forall scalar (dotjoin cs) -> Forall (Forall scalar) cs.
Proof.
  unfold dotjoin. induction cs as [|c cs IH]; cbn [map concat]; intro H; [constructor|].
  apply Forall_app in H as [H1 H2]. apply Forall_app in H1 as [H1 _].
  constructor; [assumption|apply IH; assumption].
Qed.

Lemma dotted_wf s n : Forall scalar s -> from_dotted_string s = Some n -> wf_name n.
Proof.
  intros Hsc H. destruct (list_eq_dec N.eq_dec s [46]) as [->|Hs].
  - change (from_dotted_string [46]) with (Some root_domain) in H. inversion H. apply root_wf.
  - destruct (dotted_inv s n Hs H) as (cs & _ & Hj & Hok & Hl & Hn & H255).
    destruct n as [ls len]. cbn [labels nlen] in *. subst ls.
    apply wf_name_intro; [|assumption|assumption].
    rewrite Hj in Hsc. apply dotjoin_scalar in Hsc.
    apply Forall_map. rewrite Forall_forall in *. intros c Hc.
    destruct (Hok c Hc) as (Hne & _ & Hlen). split; [apply lab_ne; assumption|].
    apply lab_wf; [apply Hsc, Hc | assumption].
Qed.

(* ---- case insensitivity ---- *)

Lemma leqb_lower_dot s : leqb (map lower s) [46] = leqb s [46].
Proof.
  destruct s as [|x [|y t]]; cbn [map leqb]; try reflexivity.
  - rewrite lower_eqb_46. reflexivity.
  - rewrite !andb_false_r. reflexivity.
Qed.

Lemma dotted_chunks_lower chunks : dotted_chunks (map (map lower) chunks) = dotted_chunks chunks.
Proof.
  induction chunks as [|c rest IH]; [reflexivity|].
  cbn [map dotted_chunks]. rewrite IH.
  assert (E1 : label_is_empty (map lower c) = label_is_empty c) by (destruct c; reflexivity).
  assert (E2 : is_nil (map (map lower) rest) = is_nil rest) by (destruct rest; reflexivity).
  assert (E3 : label_try_from (utf8 (map lower c)) = label_try_from (utf8 c)).
  { apply label_case_insensitive. rewrite <- utf8_lower. apply map_lower_idem. }
  rewrite E1, E2, E3. reflexivity.
Qed.

Lemma from_dotted_lower s : from_dotted_string (map lower s) = from_dotted_string s.
Proof.
  unfold from_dotted_string. rewrite leqb_lower_dot, split_on_lower, dotted_chunks_lower. reflexivity.
Qed.

Lemma dotted_case_insensitive s s' :
  same_modulo_case s s' -> from_dotted_string s = from_dotted_string s'.
Proof.
  unfold same_modulo_case. intro H. rewrite <- (from_dotted_lower s), H. apply from_dotted_lower.
Qed.

(* ================= to_dotted_string / round trip ================= *)

Definition good_front (front : list label) : Prop := Forall (fun l => l <> [] /\ wf_label l) front.

Lemma good_front_nonempty front : good_front front -> Forall nonempty front.
Proof. unfold good_front. rewrite !Forall_forall. intros H l Hl. apply (H l Hl). Qed.

Lemma good_front_wf front : good_front front -> Forall wf_label front.
Proof. unfold good_front. rewrite !Forall_forall. intros H l Hl. apply (H l Hl). Qed.

Lemma wf_name_dest n : wf_name n ->
  exists front, n = {| labels := front ++ [[]]; nlen := sum_lens (front ++ [[]]) |}
                /\ good_front front /\ sum_lens (front ++ [[]]) <= 255.
Proof.
  destruct n as [ls len]. intros [(front & Hls & Hf & Hs) Hn]. cbn [labels nlen] in *. subst ls len.
  exists front. auto.
Qed.

Lemma to_dotted_nonroot front len : front <> [] -> Forall nonempty front ->
  to_dotted_string {| labels := front ++ [[]]; nlen := len |} = dotjoin front.
Proof.
  intros Hne Hf. unfold to_dotted_string.
  assert (E : is_root {| labels := front ++ [[]]; nlen := len |} = false).
  { destruct front as [|l f]; [contradiction|]. apply Forall_cons_iff in Hf as [Hl _].
    unfold is_root. cbn [labels app]. destruct l; [exfalso; apply Hl; reflexivity|].
    cbn [label_is_empty]. apply andb_false_r. }
  rewrite E. cbn [labels]. apply join_dots_snoc_nil.
Qed.

Definition ascii_label (l : label) : Prop := Forall (fun b => b < 128 /\ b <> 46) l.

Lemma map_lab_ascii front : Forall wf_label front -> Forall ascii_label front -> map lab front = front.
Proof.
  induction 1 as [|l front Hl _ IH]; intro Ha; [reflexivity|].
  apply Forall_cons_iff in Ha as [Hal Ha]. cbn [map]. rewrite IH by assumption.
  rewrite lab_ascii by assumption. reflexivity.
Qed.

Lemma ascii_label_nodot l : ascii_label l -> nodot l.
Proof.
  unfold ascii_label, nodot. rewrite Forall_forall. intros H Hin. destruct (H 46 Hin) as [_ Hne]. apply Hne; reflexivity.
Qed.

Lemma ascii_label_utf8 l : ascii_label l -> utf8 l = l.
Proof.
  intro H. apply utf8_ascii. unfold ascii_label in H. rewrite Forall_forall in *. intros b Hb. apply (H b Hb).
Qed.

Lemma dotted_roundtrip n :
  wf_name n -> ascii_nodot n -> from_dotted_string (to_dotted_string n) = Some n.
Proof.
  intros Hwf Ha. destruct (wf_name_dest n Hwf) as (front & -> & Hf & Hs).
  unfold ascii_nodot in Ha. cbn [labels] in Ha. apply Forall_app in Ha as [Ha _].
  fold ascii_label in Ha.
  destruct front as [|l0 f0] eqn:Ef; [reflexivity|]. rewrite <- Ef in *.
  rewrite to_dotted_nonroot; [|rewrite Ef; discriminate|apply good_front_nonempty; assumption].
  apply dotted_intro; cbn [labels nlen]; [| |reflexivity|assumption].
  - unfold good_front in Hf. rewrite Forall_forall in *. intros c Hc.
    destruct (Hf c Hc) as [Hne [Hlen _]]. specialize (Ha c Hc).
    split; [assumption|]. split; [apply ascii_label_nodot; assumption|].
    rewrite ascii_label_utf8; assumption.
  - rewrite map_lab_ascii; [reflexivity|apply good_front_wf; assumption|assumption].
Qed.

(* ================= from_relative_dotted_string ================= *)

Definition starts_dot (l : list N) : bool := match l with 46 :: _ => true | _ => false end.

Lemma starts_dot_cons b t : b <> 46 -> starts_dot (b :: t) = false.
Proof.
  intro H. unfold starts_dot.
  destruct b as [|p]; [reflexivity|].
  repeat (destruct p as [p|p|]; try reflexivity; try (exfalso; apply H; reflexivity)).
Qed.

Lemma match_dot {T} (l : list N) (A B : T) :
  match l with 46 :: _ => A | _ => B end = if starts_dot l then A else B.
Proof.
  destruct l as [|b t]; [reflexivity|].
  destruct (N.eq_dec b 46) as [->|Hb]; [reflexivity|].
  rewrite (starts_dot_cons b t Hb).
  destruct b as [|p]; [reflexivity|].
  repeat (destruct p as [p|p|]; try reflexivity; try (exfalso; apply Hb; reflexivity)).
Qed.

Lemma small_scalar l : Forall small l -> Forall scalar l.
Proof.
  unfold small, scalar. intro H. rewrite Forall_forall in *. intros b Hb. specialize (H b Hb). lia.
Qed.

Lemma dotjoin_small front : Forall wf_label front -> Forall small (dotjoin front).
Proof.
  unfold dotjoin. induction 1 as [|l front [_ Hl] _ IH]; cbn [map concat]; [constructor|].
  apply Forall_app. split; [|assumption]. apply Forall_app. split.
  - rewrite Forall_forall in *. intros b Hb. apply (Hl b Hb).
  - constructor; [unfold small; lia|constructor].
Qed.

Lemma to_dotted_scalar o : wf_name o -> Forall scalar (to_dotted_string o).
Proof.
  intro Ho. destruct (wf_name_dest o Ho) as (front & -> & Hf & _).
  destruct front as [|l0 f0] eqn:Ef.
  - change (Forall scalar [46]). constructor; [unfold scalar; lia|constructor].
  - rewrite <- Ef in *. rewrite to_dotted_nonroot.
    + apply small_scalar, dotjoin_small, good_front_wf, Hf.
    + rewrite Ef; discriminate.
    + apply good_front_nonempty, Hf.
Qed.

Lemma join_wf o s n :
  wf_name o -> Forall scalar s -> from_relative_dotted_string o s = Some n ->
  wf_name n /\ (ends_with_dot s = false -> ascii_nodot o -> is_suffix (labels o) (labels n)).
Proof.
  intros Ho Hs H. unfold from_relative_dotted_string in H.
  destruct s as [|x0 s0] eqn:Es.
  { inversion H; subst. split; [assumption|]. intros _ _. exists []. reflexivity. }
  rewrite <- Es in *.
  assert (Hsne : s <> []) by (rewrite Es; discriminate). clear Es x0 s0.
  destruct (ends_with_dot s) eqn:Ed.
  { split; [eapply dotted_wf; eassumption|discriminate]. }
  rewrite match_dot in H.
  pose proof (to_dotted_scalar o Ho) as Hsuf.
  assert (Hn : wf_name n).
  { destruct (starts_dot (to_dotted_string o)); (eapply dotted_wf; [|exact H]); apply Forall_app; split;
      try assumption. constructor; [unfold scalar; lia|assumption]. }
  split; [assumption|]. intros _ Ha.
  destruct (wf_name_dest o Ho) as (front & -> & Hf & H255).
  unfold ascii_nodot in Ha. cbn [labels] in *. apply Forall_app in Ha as [Ha _]. fold ascii_label in Ha.
  destruct front as [|l0 f0] eqn:Ef.
  { destruct (wf_name_dest n Hn) as (fn & -> & _). exists fn. reflexivity. }
  rewrite <- Ef in *.
  assert (Hfne : front <> []) by (rewrite Ef; discriminate).
  rewrite to_dotted_nonroot in H by (try assumption; apply good_front_nonempty, Hf).
  assert (Esd : starts_dot (dotjoin front) = false).
  { rewrite Ef in *. apply Forall_cons_iff in Ha as [Hl0 _]. apply Forall_cons_iff in Hf as [[Hne0 _] _].
    unfold dotjoin. cbn [map concat]. destruct l0 as [|b l0]; [exfalso; apply Hne0; reflexivity|].
    apply Forall_cons_iff in Hl0 as [[_ Hb] _]. cbn [app]. apply starts_dot_cons, Hb. }
  rewrite Esd in H.
  assert (Hnd : s ++ 46 :: dotjoin front <> [46]).
  { destruct s as [|x [|y t]]; [contradiction| |discriminate].
    cbn [app]. intro E. inversion E. }
  destruct (dotted_inv _ n Hnd H) as (cs & Hsplit & _ & _ & Hl & _).
  rewrite split_on_app_sep in Hsplit.
  rewrite <- (app_nil_r (dotjoin front)) in Hsplit. rewrite split_on_dotjoin in Hsplit.
  2: { rewrite Forall_forall in *. intros c Hc. apply ascii_label_nodot, Ha, Hc. }
  2: { intros []. }
  rewrite app_assoc in Hsplit. apply app_inj_tail in Hsplit as [Hcs _].
  rewrite Hl, <- Hcs, map_app, (map_lab_ascii front) by (try assumption; apply good_front_wf, Hf).
  exists (map lab (split_on 46 s)). rewrite app_assoc. reflexivity.
Qed.

(* ================= make_subdomain_of ================= *)

Lemma make_subdomain_wf a o n :
  wf_name a -> wf_name o -> make_subdomain_of a o = Some n ->
  wf_name n /\ labels n = removelast (labels a) ++ labels o.
Proof.
  intros Ha Ho H. unfold make_subdomain_of in H. apply from_labels_wf in H; [exact H|].
  apply Forall_app. split.
  - destruct (wf_name_dest a Ha) as (front & -> & Hf & _). cbn [labels].
    rewrite removelast_last. apply good_front_wf, Hf.
  - apply wf_labels_all, Ho.
Qed.

(* ================= wire decoder ================= *)

Lemma split_exact_spec {A} n : forall (l a b : list A),
  split_exact n l = Some (a, b) -> l = a ++ b /\ length a = n.
Proof.
  induction n as [|n IH]; intros l a b H; cbn [split_exact] in H.
  - inversion H; subst. split; reflexivity.
  - destruct l as [|x t]; [discriminate|].
    destruct (split_exact n t) as [[a' b']|] eqn:E; [|discriminate].
    inversion H; subst. apply IH in E as [-> <-]. split; reflexivity.
Qed.

Lemma take_spec size c os c2 : take size c = Some (os, c2) ->
  crest c = os ++ crest c2 /\ llen os = size.
Proof.
  unfold take. destruct (split_exact (N.to_nat size) (crest c)) as [[a b]|] eqn:E; [|discriminate].
  intro H; inversion H; subst. cbn [crest]. apply split_exact_spec in E as [E1 E2].
  split; [assumption|]. unfold llen. rewrite E2. apply N2Nat.id.
Qed.

Lemma next_u8_spec c b c1 : next_u8 c = Some (b, c1) -> crest c = b :: crest c1.
Proof.
  unfold next_u8. destruct (crest c) as [|x r]; [discriminate|].
  intro H; inversion H; subst. reflexivity.
Qed.

Lemma name_finish_ok ls len c n c' : name_finish ls len c = Ok (n, c') ->
  len <= 255 /\ n = {| labels := ls; nlen := len |}.
Proof.
  unfold name_finish, DOMAINNAME_MAX_LEN. destruct (N.leb_spec len 255) as [Hle|Hgt]; intro H; [|discriminate].
  inversion H; subst. split; [assumption|reflexivity].
Qed.

Lemma Forall_skipn {A} (P : A -> Prop) n : forall l, Forall P l -> Forall P (skipn n l).
Proof.
  induction n as [|n IH]; intros l H; [exact H|].
  destruct l as [|x t]; [exact H|]. cbn [skipn]. apply IH. apply Forall_cons_iff in H. tauto.
Qed.

Section NameLoopWf.
  Variable rec : N -> res werr_kind (dname * cur).
  Variable start : N.
  Hypothesis Hrec : forall p other c', rec p = Ok (other, c') -> wf_name other.

  Lemma name_loop_wf : forall lf c len acc n c',
    Forall small (crest c) -> good_front acc -> len = sum_lens acc ->
    name_loop rec start lf c len acc = Ok (n, c') -> wf_name n.
  Proof.
    induction lf as [|lf IH]; intros c len acc n c' Hc Hacc Hlen H; cbn [name_loop] in H; [discriminate|].
    destruct (next_u8 c) as [[size c1]|] eqn:E1; [|discriminate].
    apply next_u8_spec in E1. rewrite E1 in Hc. apply Forall_cons_iff in Hc as [Hsize Hc1].
    unfold LABEL_MAX_LEN, DOMAINNAME_MAX_LEN in H.
    destruct (size <=? 63) eqn:Ele.
    - apply N.leb_le in Ele.
      destruct (size =? 0) eqn:Ez.
      + apply name_finish_ok in H as [H255 ->].
        apply wf_name_intro; [exact Hacc| |exact H255].
        rewrite sum_lens_app, sum_lens_root. lia.
      + apply N.eqb_neq in Ez.
        destruct (take size c1) as [[os c2]|] eqn:E2; [|discriminate].
        apply take_spec in E2 as [Hc1' Hos].
        destruct (255 <? len + 1 + size) eqn:Elong.
        * apply N.ltb_lt in Elong. apply name_finish_ok in H as [H255 _]. lia.
        * apply N.ltb_ge in Elong. rewrite Hc1' in Hc1. apply Forall_app in Hc1 as [Hos_small Hc2].
          apply (IH c2 (len + 1 + size) (acc ++ [map lower os]) n c'); [exact Hc2| | |exact H].
          -- apply Forall_app. split; [exact Hacc|]. constructor; [|constructor]. split.
             ++ intro E. apply map_eq_nil in E. subst os. apply Ez. symmetry. exact Hos.
             ++ split; [ll; lia|]. apply map_lower_wf, Hos_small.
          -- rewrite sum_lens_app. cbn [sum_lens]. ll. lia.
    - destruct (192 <=? size); [|discriminate].
      destruct (next_u8 c1) as [[lo c2]|]; [|discriminate].
      destruct (start <=? u16_be (N.land size 63) lo); [discriminate|].
      destruct (rec (u16_be (N.land size 63) lo)) as [[other cx]| | |] eqn:Er; try discriminate.
      apply Hrec in Er. destruct (wf_name_dest other Er) as (front & -> & Hf & _).
      cbn [labels nlen] in H. apply name_finish_ok in H as [H255 ->].
      rewrite app_assoc. apply wf_name_intro; [|subst len; rewrite !sum_lens_app; lia|exact H255].
      apply Forall_app. split; assumption.
  Qed.
End NameLoopWf.

Lemma wire_wf_gen bs : Forall small bs -> forall hops c n c',
  Forall small (crest c) -> decode_name hops bs c = Ok (n, c') -> wf_name n.
Proof.
  intro Hbs. induction hops as [|h IH]; intros c n c' Hc H; cbn [decode_name] in H; [discriminate|].
  eapply name_loop_wf; [| exact Hc | constructor | reflexivity | exact H].
  intros p other cx Hp. eapply IH; [|exact Hp]. cbn [at_offset crest]. apply Forall_skipn, Hbs.
Qed.

Lemma wire_wf hops bs c n c' :
  Forall (fun b => b < 256) bs -> Forall (fun b => b < 256) (crest c) ->
  decode_name hops bs c = Ok (n, c') -> wf_name n.
Proof. intros Hbs Hc H. exact (wire_wf_gen bs Hbs hops c n c' Hc H). Qed.

(* ================= Zones::get ================= *)

Lemma dname_eqb_eq a b : dname_eqb a b = true <-> a = b.
Proof.
  unfold dname_eqb. rewrite andb_true_iff, lleqb_eq, N.eqb_eq.
  destruct a as [la na], b as [lb nb]; cbn [labels nlen]. split.
  - intros [-> ->]. reflexivity.
  - intro H; inversion H; auto.
Qed.

Lemma alookup_some {V} k (m : list (dname * V)) v : alookup dname_eqb k m = Some v -> In (k, v) m.
Proof.
  induction m as [|[k' v'] m IH]; cbn [alookup]; [discriminate|].
  destruct (dname_eqb k k') eqn:E.
  - apply dname_eqb_eq in E. subst k'. intro H; inversion H; subst. left. reflexivity.
  - intro H. right. apply IH, H.
Qed.

Lemma alookup_none {V} k (m : list (dname * V)) v : alookup dname_eqb k m = None -> ~ In (k, v) m.
Proof.
  induction m as [|[k' v'] m IH]; cbn [alookup]; [intros _ []|].
  destruct (dname_eqb k k') eqn:E; [discriminate|].
  intros H [Hin|Hin]; [|exact (IH H Hin)].
  inversion Hin; subst. assert (E' : dname_eqb k k = true) by (apply dname_eqb_eq; reflexivity). congruence.
Qed.

Lemma is_suffix_cons_inv {A} (p : list A) x t : is_suffix p (x :: t) -> p = x :: t \/ is_suffix p t.
Proof.
  intros [[|y pre] H]; [left; symmetry; exact H|]. right. cbn [app] in H. inversion H. exists pre. reflexivity.
Qed.

Lemma is_suffix_length {A} (p q : list A) : is_suffix p q -> (length p <= length q)%nat.
Proof. intros [pre ->]. rewrite app_length. lia. Qed.

Lemma zones_loop_spec {Z} (zs : list (dname * Z)) z : forall l,
  zones_get_loop zs (suffixes l) = Some z ->
  exists ls nm, is_suffix ls l /\ from_labels ls = Some nm /\ alookup dname_eqb nm zs = Some z /\
    forall p nm', is_suffix p l -> (length ls < length p)%nat -> from_labels p = Some nm' ->
                  alookup dname_eqb nm' zs = None.
Proof.
  induction l as [|x t IH]; cbn [suffixes zones_get_loop]; [discriminate|].
  intro H.
  assert (Hrest : zones_get_loop zs (suffixes t) = Some z ->
                  (forall nm', from_labels (x :: t) = Some nm' -> alookup dname_eqb nm' zs = None) ->
          exists ls nm, is_suffix ls (x :: t) /\ from_labels ls = Some nm /\ alookup dname_eqb nm zs = Some z /\
            forall p nm', is_suffix p (x :: t) -> (length ls < length p)%nat -> from_labels p = Some nm' ->
                          alookup dname_eqb nm' zs = None).
  { intros Hz Hhead. destruct (IH Hz) as (ls & nm & [pre Hsuf] & Hfl & Hlk & Hmax).
    exists ls, nm. split; [exists (x :: pre); rewrite Hsuf; reflexivity|]. split; [exact Hfl|]. split; [exact Hlk|].
    intros p nm' Hp Hlen Hfp. apply is_suffix_cons_inv in Hp as [->|Hp]; [apply Hhead, Hfp|].
    eapply Hmax; eassumption. }
  destruct (from_labels (x :: t)) as [nm|] eqn:Efl.
  - destruct (alookup dname_eqb nm zs) as [z0|] eqn:Elk.
    + inversion H; subst z0. exists (x :: t), nm. split; [exists []; reflexivity|]. split; [exact Efl|]. split; [exact Elk|].
      intros p nm' Hp Hlen _. apply is_suffix_length in Hp. lia.
    + apply Hrest; [exact H|]. intros nm' E. inversion E; subst. exact Elk.
  - apply Hrest; [exact H|]. intros nm' E. discriminate.
Qed.

Lemma zones_get_longest_suffix (Z : Type) (zs : list (dname * Z)) n z :
  wf_name n -> zones_get zs n = Some z ->
  exists k, In (k, z) zs /\ is_suffix (labels k) (labels n) /\
    forall k' z', In (k', z') zs -> wf_name k' -> is_suffix (labels k') (labels n) ->
                  (length (labels k') <= length (labels k))%nat.
Proof.
  intros _ H. unfold zones_get in H.
  destruct (zones_loop_spec zs z (labels n) H) as (ls & nm & Hsuf & Hfl & Hlk & Hmax).
  assert (Hl : labels nm = ls) by (apply from_labels_inv in Hfl; tauto).
  exists nm. split; [apply alookup_some, Hlk|]. rewrite Hl. split; [exact Hsuf|].
  intros k' z' Hin Hwf Hsuf'.
  destruct (PeanoNat.Nat.le_gt_cases (length (labels k')) (length ls)) as [Hle|Hgt]; [exact Hle|].
  exfalso. apply (alookup_none k' zs z'); [|exact Hin].
  apply (Hmax (labels k') k' Hsuf' Hgt). apply from_labels_of_wf, Hwf.
Qed.
