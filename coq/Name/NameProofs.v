(* Name/NameProofs.v -- proofs about Name/NameModel.v against Name/NameSpec.v (C16). *)
From RV Require Import Base.Prelude Base.Cursor Name.NameModel Name.NameSpec.

Lemma leqb_eq a b : leqb a b = true <-> a = b.
Proof.
  revert b; induction a as [|x a IH]; intros [|y b]; cbn [leqb]; split; intro H;
    try reflexivity; try discriminate.
  - apply andb_true_iff in H as [H1 H2]. apply N.eqb_eq in H1. apply IH in H2. congruence.
  - inversion H; subst. apply andb_true_iff; split; [apply N.eqb_refl | apply IH; reflexivity].
Qed.

Lemma lleqb_eq a b : lleqb a b = true <-> a = b.
Proof.
  revert b; induction a as [|x a IH]; intros [|y b]; cbn [lleqb]; split; intro H;
    try reflexivity; try discriminate.
  - apply andb_true_iff in H as [H1 H2]. apply leqb_eq in H1. apply IH in H2. congruence.
  - inversion H; subst. apply andb_true_iff; split; [apply leqb_eq; reflexivity | apply IH; reflexivity].
Qed.

Lemma subdomain_is_suffix a b :
  is_subdomain_of a b = true <-> is_suffix (labels b) (labels a).
Proof.
  unfold is_subdomain_of, ends_with, is_suffix.
  destruct (Nat.leb (length (labels b)) (length (labels a))) eqn:E.
  - apply PeanoNat.Nat.leb_le in E. split.
    + intro H. apply lleqb_eq in H.
      exists (firstn (length (labels a) - length (labels b)) (labels a)).
      rewrite <- H at 2. symmetry. apply firstn_skipn.
    + intros [pre H]. apply lleqb_eq. rewrite H.
      rewrite app_length. replace (length pre + length (labels b) - length (labels b))%nat with (length pre) by lia.
      rewrite skipn_app, skipn_all, PeanoNat.Nat.sub_diag. reflexivity.
  - apply PeanoNat.Nat.leb_gt in E. split; [discriminate|].
    intros [pre H]. rewrite H, app_length in E. lia.
Qed.
