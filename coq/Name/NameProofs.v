(* Name/NameProofs.v -- proofs about Name/NameModel.v against Name/NameSpec.v (C16). *)
From RV Require Import Base.Prelude Base.Cursor Name.NameModel Name.NameSpec.

Lemma leqb_eq a b : leqb a b = true <-> a = b.
Proof.
  revert b; induction a as [|x a IH]; intros [|y b]; cbn [leqb]; split; intro H;
    try reflexivity; try discriminate.
  - apply andb_true_iff in H as [H1 H2]. apply N.eqb_eq in H1. apply IH in H2. congruence.
  - inversion H; subst. apply andb_true_iff; split; [apply N.eqb_refl | apply IH; reflexivity].
Qed.

Lemma lleqb_eq a b : lleqb a b = true <-> a = b.
Proof.
  revert b; induction a as [|x a IH]; intros [|y b]; cbn [lleqb]; split; intro H;
    try reflexivity; try discriminate.
  - apply andb_true_iff in H as [H1 H2]. apply leqb_eq in H1. apply IH in H2. congruence.
  - inversion H; subst. apply andb_true_iff; split; [apply leqb_eq; reflexivity | apply IH; reflexivity].
Qed.

Lemma subdomain_is_suffix a b :
  is_subdomain_of a b = true <-> is_suffix (labels b) (labels a).
Proof.
  unfold is_subdomain_of, ends_with, is_suffix.
  destruct (Nat.leb (length (labels b)) (length (labels a))) eqn:E.
  - apply PeanoNat.Nat.leb_le in E. split.
    + intro H. apply lleqb_eq in H.
      exists (firstn (length (labels a) - length (labels b)) (labels a)).
      rewrite <- H at 2. symmetry. apply firstn_skipn.
    + intros [pre H]. apply lleqb_eq. rewrite H.
      rewrite app_length. replace (length pre + length (labels b) - length (labels b))%nat with (length pre) by lia.
      rewrite skipn_app, skipn_all, PeanoNat.Nat.sub_diag. reflexivity.
  - apply PeanoNat.Nat.leb_gt in E. split; [discriminate|].
    intros [pre H]. rewrite H, app_length in E. lia.
Qed.

(* ================= arithmetic and list helpers ================= *)

Lemma llen_nil {A} : llen (@nil A) = 0.
Proof. reflexivity. Qed.

Lemma llen_cons {A} (x : A) l : llen (x :: l) = 1 + llen l.
Proof. unfold llen. cbn [length]. lia. Qed.

Lemma llen_app {A} (a b : list A) : llen (a ++ b) = llen a + llen b.
Proof. unfold llen. rewrite app_length. lia. Qed.

Lemma llen_map {A B} (f : A -> B) l : llen (map f l) = llen l.
Proof. unfold llen. rewrite map_length. reflexivity. Qed.

Ltac ll :=
  repeat first [rewrite llen_cons in * | rewrite llen_app in * | rewrite llen_map in *];
  repeat match goal with
         | |- context [@llen ?A (@nil ?B)] => change (@llen A (@nil B)) with 0
         | H : context [@llen ?A (@nil ?B)] |- _ => change (@llen A (@nil B)) with 0 in H
         end.

Lemma llen_zero {A} (l : list A) : llen l = 0 -> l = [].
Proof. destruct l as [|x l]; [reflexivity|]. rewrite llen_cons. lia. Qed.

Lemma sum_lens_app a b : sum_lens (a ++ b) = sum_lens a + sum_lens b.
Proof.
  induction a as [|l a IH]; cbn [app sum_lens]; [lia|]. rewrite IH. lia.
Qed.

Lemma sum_lens_root : sum_lens [[]] = 1.
Proof. reflexivity. Qed.

Lemma sum_lens_ge ls : llen ls <= sum_lens ls.
Proof.
  induction ls as [|l ls IH]; cbn [sum_lens]; [ll; lia|].
  rewrite llen_cons. lia.
Qed.

(* ---- ASCII case ---- *)

Lemma is_upper_true b : is_upper b = true <-> 65 <= b <= 90.
Proof.
  unfold is_upper. rewrite andb_true_iff, !N.leb_le. reflexivity.
Qed.

Lemma is_upper_false b : is_upper b = false <-> (b < 65 \/ 90 < b).
Proof.
  unfold is_upper. rewrite andb_false_iff, !N.leb_gt. reflexivity.
Qed.

Lemma lower_upper b : 65 <= b <= 90 -> lower b = b + 32.
Proof. intro H. unfold lower. apply is_upper_true in H. rewrite H. reflexivity. Qed.

Lemma lower_id b : is_upper b = false -> lower b = b.
Proof. intro H. unfold lower. rewrite H. reflexivity. Qed.

Lemma lower_cases b : (65 <= b <= 90 /\ lower b = b + 32) \/ ((b < 65 \/ 90 < b) /\ lower b = b).
Proof.
  destruct (is_upper b) eqn:E.
  - left. apply is_upper_true in E. split; [assumption|]. apply lower_upper; assumption.
  - right. split; [apply is_upper_false; assumption | apply lower_id; assumption].
Qed.

Lemma lower_small b : b < 256 -> lower b < 256.
Proof. destruct (lower_cases b) as [[H ->]|[H ->]]; lia. Qed.

Lemma lower_not_upper b : is_upper (lower b) = false.
Proof. apply is_upper_false. destruct (lower_cases b) as [[H ->]|[H ->]]; lia. Qed.

Lemma lower_idem b : lower (lower b) = lower b.
Proof. apply lower_id, lower_not_upper. Qed.

Lemma lower_eq_46 b : lower b = 46 <-> b = 46.
Proof. destruct (lower_cases b) as [[H ->]|[H ->]]; lia. Qed.

Lemma lower_eqb_46 b : N.eqb (lower b) 46 = N.eqb b 46.
Proof.
  destruct (N.eqb_spec (lower b) 46) as [H|H]; destruct (N.eqb_spec b 46) as [H'|H'];
    try reflexivity; rewrite lower_eq_46 in H; contradiction.
Qed.

Lemma map_lower_idem l : map lower (map lower l) = map lower l.
Proof. rewrite map_map. apply map_ext. intro; apply lower_idem. Qed.

Lemma map_lower_id l : Forall (fun b => is_upper b = false) l -> map lower l = l.
Proof.
  induction 1 as [|b l Hb _ IH]; [reflexivity|]. cbn [map]. rewrite IH, lower_id by assumption. reflexivity.
Qed.

(* ================= from_labels ================= *)

Definition nonempty (l : label) : Prop := l <> [].

Lemma label_is_empty_true l : label_is_empty l = true <-> l = [].
Proof. destruct l; cbn; split; congruence. Qed.

Lemma loop_true ls len r : from_labels_loop ls true len = Some r -> ls = [] /\ r = (true, len).
Proof. destruct ls; cbn [from_labels_loop]; intro H; [inversion H; auto | discriminate]. Qed.

Lemma loop_false ls : forall len b len',
  from_labels_loop ls false len = Some (b, len') ->
  len' + llen ls = len + sum_lens ls /\
  ((b = true /\ exists front, ls = front ++ [[]] /\ Forall nonempty front)
   \/ (b = false /\ Forall nonempty ls)).
Proof.
  induction ls as [|l t IH]; intros len b len' H; cbn [from_labels_loop] in H.
  - inversion H; subst. split; [cbn [sum_lens]; ll; lia|]. right. split; [reflexivity|constructor].
  - cbn [orb] in H. destruct l as [|x l]; cbn [label_is_empty] in H.
    + apply loop_true in H as [-> H]. inversion H; subst.
      split; [cbn [sum_lens]; ll; lia|].
      left. split; [reflexivity|]. exists []. split; [reflexivity|constructor].
    + apply IH in H as [Hlen Hb]. split.
      * cbn [sum_lens]. ll. lia.
      * destruct Hb as [[-> (front & -> & Hf)]|[-> Hf]].
        -- left. split; [reflexivity|]. exists ((x :: l) :: front). split; [reflexivity|].
           constructor; [discriminate|assumption].
        -- right. split; [reflexivity|]. constructor; [discriminate|assumption].
Qed.

Lemma loop_complete front : forall len, Forall nonempty front ->
  exists len', from_labels_loop (front ++ [[]]) false len = Some (true, len')
               /\ len' + llen (front ++ [[]]) = len + sum_lens (front ++ [[]]).
Proof.
  induction front as [|l t IH]; intros len Hf.
  - exists (len + llen (@nil byte)). split; [reflexivity|]. cbn [app sum_lens]. ll. lia.
  - apply Forall_cons_iff in Hf as [Hl Ht]. destruct l as [|x l]; [exfalso; apply Hl; reflexivity|].
    cbn [app from_labels_loop orb label_is_empty].
    destruct (IH (len + llen (x :: l)) Ht) as (len' & E & Hlen).
    exists len'. split; [exact E|]. cbn [sum_lens]. ll. lia.
Qed.

Lemma from_labels_ne ls : ls <> [] ->
  from_labels ls = match from_labels_loop ls false (llen ls) with
                   | Some (true, len) =>
                     if len <=? 255 then Some {| labels := ls; nlen := len |} else None
                   | _ => None
                   end.
Proof. destruct ls; [contradiction|reflexivity]. Qed.

Lemma from_labels_inv ls n : from_labels ls = Some n ->
  labels n = ls /\ nlen n = sum_lens ls /\ sum_lens ls <= 255 /\
  exists front, ls = front ++ [[]] /\ Forall nonempty front.
Proof.
  destruct ls as [|l0 t] eqn:Els; [discriminate|]. rewrite <- Els.
  rewrite from_labels_ne by (rewrite Els; discriminate). clear Els l0 t.
  destruct (from_labels_loop ls false (llen ls)) as [[b len]|] eqn:E; [|discriminate].
  destruct b; [|discriminate].
  destruct (N.leb_spec len 255) as [Hle|Hgt]; [|discriminate].
  intro H; inversion H; subst; clear H. cbn [labels nlen].
  apply loop_false in E as [Hlen [[_ Hf]|[Hb _]]]; [|discriminate].
  assert (len = sum_lens ls) by lia. subst len. auto.
Qed.

Lemma from_labels_intro front : Forall nonempty front -> sum_lens (front ++ [[]]) <= 255 ->
  from_labels (front ++ [[]]) = Some {| labels := front ++ [[]]; nlen := sum_lens (front ++ [[]]) |}.
Proof.
  intros Hf Hs. rewrite from_labels_ne by (destruct front; discriminate).
  destruct (loop_complete front (llen (front ++ [[]])) Hf) as (len' & E & Hlen). rewrite E.
  assert (len' = sum_lens (front ++ [[]])) by lia. subst len'.
  destruct (N.leb_spec (sum_lens (front ++ [[]])) 255); [reflexivity|lia].
Qed.

Lemma from_labels_wf ls n :
  Forall wf_label ls -> from_labels ls = Some n -> wf_name n /\ labels n = ls.
Proof.
  intros Hwf H. apply from_labels_inv in H as (Hl & Hn & Hs & front & Hls & Hf).
  split; [|assumption]. unfold wf_name. rewrite Hl. split; [|assumption].
  exists front. split; [assumption|]. split; [|assumption].
  rewrite Hls in Hwf. apply Forall_app in Hwf as [Hwf _].
  rewrite Forall_forall in *. intros l Hin. split; [apply Hf | apply Hwf]; assumption.
Qed.

Lemma wf_labels_from_labels ls : wf_labels ls -> exists n, from_labels ls = Some n.
Proof.
  intros (front & -> & Hf & Hs). eexists. apply from_labels_intro; [|assumption].
  rewrite Forall_forall in *. intros l Hin. apply Hf; assumption.
Qed.

Lemma from_labels_complete ls :
  Forall wf_label ls -> (from_labels ls = None <-> ~ wf_labels ls).
Proof.
  intro Hwf. split.
  - intros H Hw. apply wf_labels_from_labels in Hw as [n Hn]. congruence.
  - intro Hnw. destruct (from_labels ls) as [n|] eqn:E; [|reflexivity].
    exfalso. apply Hnw. apply from_labels_wf in E as [[Hw _] Hl]; [|assumption]. rewrite <- Hl. assumption.
Qed.

Lemma from_labels_of_wf n : wf_name n -> from_labels (labels n) = Some n.
Proof.
  destruct n as [ls len]. intros [(front & Hls & Hf & Hs) Hn]. cbn [labels nlen] in *. subst ls len.
  apply from_labels_intro; [|assumption].
  rewrite Forall_forall in *. intros l Hin. apply Hf; assumption.
Qed.

Lemma wf_labels_all ls : wf_labels ls -> Forall wf_label ls.
Proof.
  intros (front & -> & Hf & _). apply Forall_app. split.
  - rewrite Forall_forall in *. intros l Hin. apply Hf; assumption.
  - constructor; [|constructor]. split; [ll; lia|constructor].
Qed.

(* ================= UTF-8 ================= *)

Definition small (b : N) : Prop := b < 256.

Lemma cont_byte x : 128 <= 128 + x mod 64 < 192.
Proof.
  assert (H : x mod 64 < 64) by (apply N.mod_lt; lia).
  set (m := x mod 64) in *. clearbody m. lia.
Qed.

Lemma lower_ge b : 91 <= b -> lower b = b.
Proof. intro H. apply lower_id, is_upper_false. lia. Qed.

Lemma lower_lead a x : 91 <= a -> lower (a + x) = a + x.
Proof. intro H. apply lower_ge. lia. Qed.

Lemma lower_cont x : lower (128 + x mod 64) = 128 + x mod 64.
Proof. apply lower_ge. pose proof (cont_byte x). lia. Qed.

Lemma utf8_char_ne c : utf8_char c <> [].
Proof.
  unfold utf8_char. destruct (c <? 128); [discriminate|].
  destruct (c <? 2048); [discriminate|]. destruct (c <? 65536); discriminate.
Qed.

Lemma utf8_char_small c : scalar c -> Forall small (utf8_char c).
Proof.
  unfold scalar, small, utf8_char. intro Hc.
  destruct (N.ltb_spec c 128) as [H1|H1]; [repeat constructor; lia|].
  destruct (N.ltb_spec c 2048) as [H2|H2].
  { assert (c / 64 < 32) by (apply N.div_lt_upper_bound; lia).
    pose proof (cont_byte c). set (d := c / 64) in *. clearbody d.
    repeat constructor; lia. }
  destruct (N.ltb_spec c 65536) as [H3|H3].
  { assert (c / 4096 < 16) by (apply N.div_lt_upper_bound; lia).
    pose proof (cont_byte c). pose proof (cont_byte (c / 64)).
    set (d := c / 4096) in *. clearbody d.
    repeat constructor; lia. }
  assert (c / 262144 < 16) by (apply N.div_lt_upper_bound; lia).
  pose proof (cont_byte c). pose proof (cont_byte (c / 64)). pose proof (cont_byte (c / 4096)).
  set (d := c / 262144) in *. clearbody d.
  repeat constructor; lia.
Qed.

Lemma utf8_char_lower c : map lower (utf8_char c) = utf8_char (lower c).
Proof.
  unfold utf8_char.
  destruct (N.ltb_spec c 128) as [H1|H1].
  - assert (H : lower c < 128) by (destruct (lower_cases c) as [[H ->]|[H ->]]; lia).
    apply N.ltb_lt in H. rewrite H. reflexivity.
  - rewrite (lower_ge c) by lia.
    destruct (N.ltb_spec c 128) as [H1'|_]; [lia|].
    destruct (c <? 2048); [|destruct (c <? 65536)]; cbn [map];
      rewrite !lower_lead by lia; reflexivity.
Qed.

Lemma utf8_cons c s : utf8 (c :: s) = utf8_char c ++ utf8 s.
Proof. reflexivity. Qed.

Lemma utf8_lower s : map lower (utf8 s) = utf8 (map lower s).
Proof.
  induction s as [|c s IH]; [reflexivity|].
  cbn [map]. rewrite !utf8_cons, map_app, IH, utf8_char_lower. reflexivity.
Qed.

Lemma utf8_nil_inv s : utf8 s = [] -> s = [].
Proof.
  destruct s as [|c s]; [reflexivity|]. rewrite utf8_cons. intro H.
  apply app_eq_nil in H as [H _]. exfalso. exact (utf8_char_ne c H).
Qed.

Lemma utf8_small s : Forall scalar s -> Forall small (utf8 s).
Proof.
  intro H. unfold utf8. apply Forall_flat_map.
  rewrite Forall_forall in *. intros c Hc. apply utf8_char_small, H, Hc.
Qed.

Lemma utf8_ascii l : Forall (fun b => b < 128) l -> utf8 l = l.
Proof.
  induction 1 as [|b l Hb _ IH]; [reflexivity|].
  rewrite utf8_cons, IH. unfold utf8_char. apply N.ltb_lt in Hb. rewrite Hb. reflexivity.
Qed.

(* the label a text chunk becomes *)
Definition lab (c : list N) : label := map lower (utf8 c).

Lemma lab_nil_inv c : lab c = [] -> c = [].
Proof. unfold lab. intro H. apply map_eq_nil in H. apply utf8_nil_inv; assumption. Qed.

Lemma lab_ne c : c <> [] -> nonempty (lab c).
Proof. intros H H'. apply H, lab_nil_inv, H'. Qed.

Lemma llen_lab c : llen (lab c) = llen (utf8 c).
Proof. apply llen_map. Qed.

Lemma map_lower_wf l : Forall small l ->
  Forall (fun b => b < 256 /\ is_upper b = false) (map lower l).
Proof.
  intro H. apply Forall_map. rewrite Forall_forall in *. intros b Hb.
  split; [apply lower_small, H, Hb | apply lower_not_upper].
Qed.

Lemma lab_wf c : Forall scalar c -> llen (utf8 c) <= 63 -> wf_label (lab c).
Proof.
  intros Hs Hl. split; [rewrite llen_lab; assumption|].
  apply map_lower_wf, utf8_small, Hs.
Qed.

(* a well-formed ASCII label is the label of itself read as text *)
Lemma lab_ascii l : wf_label l -> Forall (fun b => b < 128 /\ b <> 46) l -> lab l = l.
Proof.
  intros [_ Hw] Ha. unfold lab. rewrite utf8_ascii.
  - apply map_lower_id. rewrite Forall_forall in *. intros b Hb. apply Hw, Hb.
  - rewrite Forall_forall in *. intros b Hb. apply Ha, Hb.
Qed.

(* ================= split_on ================= *)

Definition nodot (c : list N) : Prop := ~ In 46 c.
Definition dotjoin (cs : list (list N)) : list N := concat (map (fun c => c ++ [46]) cs).

Lemma split_on_ne d s : split_on d s <> [].
Proof.
  destruct s as [|x t]; cbn [split_on]; [discriminate|].
  destruct (N.eqb x d); [discriminate|]. destruct (split_on d t); discriminate.
Qed.

Lemma split_on_app_sep d a b : split_on d (a ++ d :: b) = split_on d a ++ split_on d b.
Proof.
  induction a as [|x a IH]; cbn [app split_on].
  - rewrite N.eqb_refl. reflexivity.
  - destruct (N.eqb x d); [rewrite IH; reflexivity|].
    rewrite IH. destruct (split_on d a) as [|h r] eqn:E; [exfalso; exact (split_on_ne d a E)|].
    reflexivity.
Qed.

Lemma split_on_nodot c : nodot c -> split_on 46 c = [c].
Proof.
  unfold nodot. induction c as [|x c IH]; intro H; cbn [split_on]; [reflexivity|].
  destruct (N.eqb_spec x 46) as [->|Hx]; [exfalso; apply H; left; reflexivity|].
  rewrite IH; [reflexivity|]. intro Hin. apply H. right. assumption.
Qed.

Lemma split_on_dotjoin cs last : Forall nodot cs -> nodot last ->
  split_on 46 (dotjoin cs ++ last) = cs ++ [last].
Proof.
  intros Hcs Hlast. induction Hcs as [|c cs Hc _ IH]; unfold dotjoin in *; cbn [map concat app].
  - apply split_on_nodot; assumption.
  - rewrite <- !app_assoc. cbn [app]. rewrite split_on_app_sep, IH, split_on_nodot by assumption. reflexivity.
Qed.

Lemma split_on_all_nodot s : Forall nodot (split_on 46 s).
Proof.
  induction s as [|x t IH]; cbn [split_on].
  - constructor; [intros []|constructor].
  - destruct (N.eqb_spec x 46) as [->|Hx].
    + constructor; [intros []|assumption].
    + destruct (split_on 46 t) as [|h r]; [constructor; [|constructor]|].
      * intros [H|[]]. congruence.
      * apply Forall_cons_iff in IH as [Hh Hr]. constructor; [|assumption].
        intros [H|H]; [congruence|exact (Hh H)].
Qed.

Lemma join_dots_snoc_nil cs : join_dots (cs ++ [[]]) = dotjoin cs.
Proof.
  unfold dotjoin. induction cs as [|c cs IH]; [reflexivity|].
  cbn [app map concat]. rewrite <- IH, <- app_assoc. cbn [app join_dots].
  destruct (cs ++ [[]]) eqn:E; [destruct cs; discriminate|reflexivity].
Qed.

Lemma join_dots_split s : join_dots (split_on 46 s) = s.
Proof.
  induction s as [|x t IH]; cbn [split_on]; [reflexivity|].
  destruct (N.eqb_spec x 46) as [->|Hx].
  - destruct (split_on 46 t) as [|h r] eqn:E; [exfalso; exact (split_on_ne 46 t E)|].
    cbn [join_dots app] in *. rewrite IH. reflexivity.
  - destruct (split_on 46 t) as [|h r] eqn:E; [exfalso; exact (split_on_ne 46 t E)|].
    destruct r as [|h' r]; cbn [join_dots app] in *; rewrite <- IH; reflexivity.
Qed.

Lemma split_on_lower s : split_on 46 (map lower s) = map (map lower) (split_on 46 s).
Proof.
  induction s as [|x t IH]; cbn [map split_on]; [reflexivity|].
  rewrite lower_eqb_46, IH. destruct (N.eqb x 46); [reflexivity|].
  destruct (split_on 46 t); reflexivity.
Qed.
