(* Name/Model.v -- executable model of DomainName / Label in
   crates/dns-types/src/protocol/types.rs and DomainName::deserialise in
   protocol/deserialise.rs, and of Zones::get in zones/types.rs.
   Definitions only. *)
From RV Require Import Base.Prelude Base.Cursor.

Definition label := list byte.
Record dname := { labels : list label; nlen : N }.

Definition dname_eqb (a b : dname) : bool :=
  lleqb (labels a) (labels b) && N.eqb (nlen a) (nlen b).

Definition root_domain : dname := {| labels := [[]]; nlen := 1 |}.

(* Label::try_from(&[u8]) *)
Definition label_try_from (os : list byte) : option label :=
  if LABEL_MAX_LEN <? llen os then None else Some (map lower os).

Definition label_is_empty (l : label) : bool := match l with [] => true | _ => false end.

(* is_root: self.len == 1 && self.labels[0].is_empty(); indexing panics on an
   empty label vector only if len == 1, which no constructor produces *)
Definition is_root (n : dname) : bool :=
  N.eqb (nlen n) 1 && match labels n with l :: _ => label_is_empty l | [] => false end.

(* the for loop of from_labels *)
Fixpoint from_labels_loop (ls : list label) (blank : bool) (len : N) : option (bool * N) :=
  match ls with
  | [] => Some (blank, len)
  | l :: t => if blank then None
              else from_labels_loop t (blank || label_is_empty l) (len + llen l)
  end.

Definition from_labels (ls : list label) : option dname :=
  match ls with
  | [] => None
  | _ => match from_labels_loop ls false (llen ls) with
         | Some (true, len) =>
           if len <=? DOMAINNAME_MAX_LEN then Some {| labels := ls; nlen := len |} else None
         | _ => None
         end
  end.

Definition is_nil {A} (l : list A) : bool := match l with [] => true | _ => false end.

(* from_dotted_string: [s] is the string as Unicode scalar values *)
Fixpoint dotted_chunks (chunks : list (list N)) : option (list label) :=
  match chunks with
  | [] => Some []
  | c :: rest =>
    if label_is_empty c && negb (is_nil rest) then None
    else match label_try_from (utf8 c) with
         | Some l => match dotted_chunks rest with
                     | Some ls => Some (l :: ls)
                     | None => None
                     end
         | None => None
         end
  end.

Definition from_dotted_string (s : list N) : option dname :=
  if leqb s [46] then Some root_domain
  else match dotted_chunks (split_on 46 s) with
       | Some ls => from_labels ls
       | None => None
       end.

(* to_dotted_string: octets are pushed as chars (Latin-1 code points) *)
Fixpoint join_dots (ls : list label) : list N :=
  match ls with
  | [] => []
  | [l] => l
  | l :: t => l ++ 46 :: join_dots t
  end.
Definition to_dotted_string (n : dname) : list N :=
  if is_root n then [46] else join_dots (labels n).

Definition ends_with_dot (s : list N) : bool :=
  match rev s with 46 :: _ => true | _ => false end.

Definition from_relative_dotted_string (origin : dname) (s : list N) : option dname :=
  match s with
  | [] => Some origin
  | _ => if ends_with_dot s then from_dotted_string s
         else let suffix := to_dotted_string origin in
              match suffix with
              | 46 :: _ => from_dotted_string (s ++ suffix)
              | _ => from_dotted_string (s ++ 46 :: suffix)
              end
  end.

(* labels.pop(); labels.append(origin.labels) *)
Definition make_subdomain_of (n origin : dname) : option dname :=
  from_labels (removelast (labels n) ++ labels origin).

(* [T]::ends_with *)
Definition ends_with (a b : list label) : bool :=
  let la := length a in let lb := length b in
  if Nat.leb lb la then lleqb (skipn (la - lb) a) b else false.
Definition is_subdomain_of (a b : dname) : bool := ends_with (labels a) (labels b).

(* ---- wire: DomainName::deserialise ---- *)
Inductive werr_kind :=
| CompletelyBusted | HeaderTooShort | QuestionTooShort | ResourceRecordTooShort
| ResourceRecordInvalid | DomainTooShort | DomainTooLong | DomainPointerInvalid
| DomainLabelInvalid.

Definition name_finish (ls : list label) (len : N) (c : cur) : res werr_kind (dname * cur) :=
  if len <=? DOMAINNAME_MAX_LEN then Ok ({| labels := ls; nlen := len |}, c)
  else Err DomainTooLong.

Section NameLoop.
  (* decoding of the name a pointer refers to (one hop less fuel) *)
  Variable rec : N -> res werr_kind (dname * cur).
  Variable start : N.

  Fixpoint name_loop (lf : nat) (c : cur) (len : N) (acc : list label)
    : res werr_kind (dname * cur) :=
    match lf with
    | O => OutOfFuel
    | S lf' =>
      match next_u8 c with
      | None => Err DomainTooShort
      | Some (size, c1) =>
        if size <=? LABEL_MAX_LEN then
          let len1 := len + 1 in
          if size =? 0 then name_finish (acc ++ [[]]) len1 c1
          else match take size c1 with
               | None => Err DomainTooShort
               | Some (os, c2) =>
                 let len2 := len1 + size in
                 let acc2 := acc ++ [map lower os] in
                 if DOMAINNAME_MAX_LEN <? len2 then name_finish acc2 len2 c2
                 else name_loop lf' c2 len2 acc2
               end
        else if 192 <=? size then
          let hi := N.land size 63 in
          match next_u8 c1 with
          | None => Err DomainTooShort
          | Some (lo, c2) =>
            let ptr := u16_be hi lo in
            if start <=? ptr then Err DomainPointerInvalid
            else match rec ptr with
                 | Ok (other, _) => name_finish (acc ++ labels other) (len + nlen other) c2
                 | Err e => Err e
                 | Panic => Panic
                 | OutOfFuel => OutOfFuel
                 end
          end
        else Err DomainLabelInvalid
      end
    end.
End NameLoop.

(* at most 128 loop iterations are possible before len exceeds 255 *)
Definition LABEL_FUEL : nat := 130.

Fixpoint decode_name (hops : nat) (bs : list byte) (c : cur) : res werr_kind (dname * cur) :=
  match hops with
  | O => OutOfFuel
  | S h => name_loop (fun ptr => decode_name h bs (at_offset bs ptr)) (cpos c) LABEL_FUEL c 0 []
  end.

(* pointer targets strictly decrease and are below 2^14, so 16384+1 hops suffice *)
Definition HOP_FUEL : nat := N.to_nat 16385.

Definition decode_name_at (bs : list byte) (pos : N) : res werr_kind (dname * N) :=
  match decode_name HOP_FUEL bs (at_offset bs pos) with
  | Ok (n, c) => Ok (n, cpos c)
  | Err e => Err e
  | Panic => Panic
  | OutOfFuel => OutOfFuel
  end.

(* ---- Zones::get : longest configured apex that is a suffix of the name ---- *)
Section ZonesGet.
  Context {Z : Type}.
  Fixpoint suffixes {A} (l : list A) : list (list A) :=
    match l with
    | [] => []
    | _ :: t => l :: suffixes t
    end.
  Fixpoint zones_get_loop (zs : list (dname * Z)) (sufs : list (list label)) : option Z :=
    match sufs with
    | [] => None
    | ls :: rest =>
      match from_labels ls with
      | Some nm => match alookup dname_eqb nm zs with
                   | Some z => Some z
                   | None => zones_get_loop zs rest
                   end
      | None => zones_get_loop zs rest
      end
    end.
  Definition zones_get (zs : list (dname * Z)) (name : dname) : option Z :=
    zones_get_loop zs (suffixes (labels name)).
End ZonesGet.
