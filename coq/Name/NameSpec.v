(* Name/NameSpec.v -- the specification side of C16: what a well-formed name is.
   Independent of the model's control flow; refers only to the dname record. *)
From RV Require Import Base.Prelude Name.NameModel.

Fixpoint sum_lens (ls : list label) : N :=
  match ls with [] => 0 | l :: t => 1 + llen l + sum_lens t end.

(* a label as the Label type guarantees it: at most 63 octets, each an octet, none in A-Z *)
Definition wf_label (l : label) : Prop :=
  llen l <= 63 /\ Forall (fun b => b < 256 /\ is_upper b = false) l.

(* absolute (last label is the root label), no other empty label, labels <= 63,
   recorded length = encoded length <= 255 *)
Definition wf_labels (ls : list label) : Prop :=
  exists front, ls = front ++ [[]] /\ Forall (fun l => l <> [] /\ wf_label l) front
                /\ sum_lens ls <= 255.

Definition wf_name (n : dname) : Prop :=
  wf_labels (labels n) /\ nlen n = sum_lens (labels n).

Definition is_suffix {A} (p q : list A) : Prop := exists pre, q = pre ++ p.

(* ASCII case folding on text (scalar values) *)
Definition same_modulo_case (s s' : list N) : Prop := map lower s = map lower s'.

(* Unicode scalar values *)
Definition scalar (c : N) : Prop := c < 1114112.

(* text of a name whose labels are ASCII and dot-free *)
Definition ascii_nodot (n : dname) : Prop :=
  Forall (Forall (fun b => b < 128 /\ b <> 46)) (labels n).

(* what from_dotted_string accepts: "." or a (possibly empty) sequence of non-empty
   dot-free chunks each followed by a dot *)
Definition dotted_spec (s : list N) (n : dname) : Prop :=
  (s = [46] /\ n = root_domain) \/
  exists cs, s = concat (map (fun c => c ++ [46]) cs)
             /\ Forall (fun c => c <> [] /\ ~ In 46 c /\ llen (utf8 c) <= 63) cs
             /\ labels n = map (fun c => map lower (utf8 c)) cs ++ [[]]
             /\ nlen n = sum_lens (labels n) /\ nlen n <= 255.
