(* Hosts/HostsSpec.v -- the specification side of C14: what a hosts file is
   and what it means, independent of the state machine of parse_line.

   A file is a list of lines; a line is blank, a comment, a line whose address
   carries an interface suffix, or a mapping line
       <white space> address (<white space> name)* <white space> [# comment]
   with arbitrary (ASCII) white space, any number of names, and a comment after
   any field, glued to it or not.  [render] writes the text, [denote] is the
   meaning: a pair of partial functions name -> address built by
   last-writer-wins updates per (name, family).

   Shared with the model: only the address codec ([parse_ip], Ip/IpModel.v) and
   the name type with its text reader ([from_dotted_string], specified by C16's
   [dotted_spec]). *)
From RV Require Import Base.Prelude Name.NameModel Name.NameSpec Ip.IpModel.

(* ---- syntax ---- *)

Record mline := {
  m_lead : list N;                      (* white space before the address *)
  m_addr : list N;                      (* the address field *)
  m_names : list (list N * list N);     (* (white space, name field) *)
  m_trail : list N;                     (* white space after the last field *)
  m_comment : option (list N)           (* text after '#', if any *)
}.

Inductive line :=
| Blank (ws : list N)
| Comment (ws text : list N)
| Scoped (ws pre rest : list N)         (* address with an interface suffix: pre%rest... *)
| Map (m : mline).

(* line terminator *)
Inductive eol := LF | CRLF.

Definition file := list (line * eol).

Definition render_comment (c : option (list N)) : list N :=
  match c with Some t => 35 :: t | None => [] end.

Definition render_line (l : line) : list N :=
  match l with
  | Blank ws => ws
  | Comment ws t => ws ++ 35 :: t
  | Scoped ws pre rest => ws ++ pre ++ 37 :: rest
  | Map m => m_lead m ++ m_addr m ++ concat (map (fun p => fst p ++ snd p) (m_names m))
             ++ m_trail m ++ render_comment (m_comment m)
  end.

Definition render_eol (e : eol) : list N := match e with LF => [10] | CRLF => [13; 10] end.

(* every line is terminated by "\n" or "\r\n" *)
Definition render (f : file) : list N := concat (map (fun l => render_line (fst l) ++ render_eol (snd l)) f).
(* ... except possibly the last one *)
Definition render_open (f : file) (last : line) : list N := render f ++ render_line last.

(* ---- character classes ---- *)

(* ASCII white space other than the line terminator: HT VT FF CR SP *)
Definition wsc (c : N) : Prop := c = 9 \/ c = 11 \/ c = 12 \/ c = 13 \/ c = 32.
(* a character of a field: ASCII, not white space (hence not '\n'), not '#' *)
Definition fieldc (c : N) : Prop :=
  c < 128 /\ c <> 9 /\ c <> 10 /\ c <> 11 /\ c <> 12 /\ c <> 13 /\ c <> 32 /\ c <> 35.
Definition field (s : list N) : Prop := s <> [] /\ Forall fieldc s.
(* an address field without interface suffix: '%' may only be its first character *)
Definition nopct (s : list N) : Prop := Forall (fun c => c <> 37) (tl s).
Definition noline (s : list N) : Prop := Forall (fun c => c <> 10) s.

(* ---- well-formedness of the syntax tree (it renders to the line it describes) ---- *)

Definition wf_mline (m : mline) : Prop :=
  Forall wsc (m_lead m) /\ field (m_addr m) /\ nopct (m_addr m)
  /\ Forall (fun p => fst p <> [] /\ Forall wsc (fst p) /\ field (snd p)) (m_names m)
  /\ Forall wsc (m_trail m)
  /\ match m_comment m with Some t => noline t | None => True end.

Definition wf_shape (l : line) : Prop :=
  match l with
  | Blank ws => Forall wsc ws
  | Comment ws t => Forall wsc ws /\ noline t
  | Scoped ws pre rest => Forall wsc ws /\ field pre /\ Forall (fun c => c <> 37) pre /\ noline rest
  | Map m => wf_mline m
  end.

(* a '\r' directly before the line terminator belongs to the terminator (str::lines strips
   one), so the line's own text must not end with one: "a\r\r\n" is not described *)
Definition wf_line (l : line) : Prop :=
  wf_shape l /\ forall s, render_line l <> s ++ [13].

(* ---- meaning ---- *)

(* a name field, taken relative to the root *)
Definition abs_name (s : list N) : option dname :=
  if ends_with_dot s then from_dotted_string s else from_dotted_string (s ++ [46]).

Fixpoint all_some {A} (l : list (option A)) : option (list A) :=
  match l with
  | [] => Some []
  | Some x :: t => match all_some t with Some r => Some (x :: r) | None => None end
  | None :: _ => None
  end.

Definition fmap (V : Type) := dname -> option V.
Definition upd {V} (m : fmap V) (k : dname) (v : V) : fmap V :=
  fun k' => if dname_eqb k' k then Some v else m k'.
Record hden := { d4 : fmap N; d6 : fmap (list N) }.
Definition hden_empty : hden := {| d4 := fun _ => None; d6 := fun _ => None |}.

Definition den_insert (d : hden) (n : dname) (a : ipaddr) : hden :=
  match a with
  | V4 x => {| d4 := upd (d4 d) n x; d6 := d6 d |}
  | V6 g => {| d4 := d4 d; d6 := upd (d6 d) n g |}
  end.

(* what a line contributes: nothing, or an address for every name after it;
   [None] = the line is malformed *)
Inductive contrib := CNothing | CMaps (a : ipaddr) (ns : list dname) | CBad.

(* an address-only line maps no names, so it contributes nothing whatever its
   address field is ("zzz", "zzz#c", "zzz ", "zzz #c" are all ignored); a
   malformed address is an error only on a line that maps at least one name *)
Definition line_contrib (l : line) : contrib :=
  match l with
  | Blank _ | Comment _ _ | Scoped _ _ _ => CNothing
  | Map m =>
    match m_names m with
    | [] => CNothing
    | _ :: _ =>
      match parse_ip (m_addr m), all_some (map (fun p => abs_name (snd p)) (m_names m)) with
      | Some a, Some ns => CMaps a ns
      | _, _ => CBad
      end
    end
  end.

Definition valid_line (l : line) : Prop := wf_line l /\ line_contrib l <> CBad.

Definition denote_line (d : hden) (l : line) : hden :=
  match line_contrib l with
  | CMaps a ns => fold_left (fun d n => den_insert d n a) ns d
  | _ => d
  end.

(* last writer wins per (name, family) *)
Definition denote (f : file) : hden := fold_left denote_line (map fst f) hden_empty.
