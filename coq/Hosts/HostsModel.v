(* Hosts/HostsModel.v -- executable model of crates/dns-types/src/hosts/
   {deserialise.rs, serialise.rs, types.rs} as they are in /repo now (after the
   fixes "hosts parser keeps a name ended by '#' and ignores everything after
   '#'" and 25db594 "a hosts line holding only a malformed address is ignored
   like any address-only line").  Definitions only.

   A &str is a list of Unicode scalar values.  Byte indices ([char_indices],
   slicing) are positions in its UTF-8 encoding; a slice whose ends are not on
   character boundaries is a Panic site.  HashMap / HashSet are association
   lists in insertion order; where Rust iterates over one the model uses that
   order and the theorems are stated up to permutation. *)
From RV Require Import Base.Prelude Name.NameModel Wire.WireTypes Zone.ZoneModel Ip.IpModel.

(* ---- text primitives ---- *)

(* char::is_whitespace: the Unicode White_Space set *)
Definition is_whitespace (c : N) : bool :=
  (c =? 32) || ((9 <=? c) && (c <=? 13))
  || (c =? 133) || (c =? 160) || (c =? 5760)
  || ((8192 <=? c) && (c <=? 8202))
  || (c =? 8232) || (c =? 8233) || (c =? 8239) || (c =? 8287) || (c =? 12288).

(* char::len_utf8 *)
Definition char_len (c : N) : N :=
  if c <? 128 then 1 else if c <? 2048 then 2 else if c <? 65536 then 3 else 4.

(* split [s], whose first character is at byte offset [pos], at byte offset
   [target]; None if [target] is before [pos], inside a character or beyond the end *)
Fixpoint str_split_at (s : list N) (pos target : N) : option (list N * list N) :=
  if pos =? target then Some ([], s)
  else
    match s with
    | [] => None
    | c :: t =>
      if target <? pos + char_len c then None
      else match str_split_at t (pos + char_len c) target with
           | Some (p, r) => Some (c :: p, r)
           | None => None
           end
    end.

(* &line[start..stop]; None = panic *)
Definition str_slice (line : list N) (start stop : N) : option (list N) :=
  if stop <? start then None
  else match str_split_at line 0 start with
       | Some (_, r) => match str_split_at r start stop with
                        | Some (p, _) => Some p
                        | None => None
                        end
       | None => None
       end.

(* &line[start..] *)
Definition str_slice_from (line : list N) (start : N) : option (list N) :=
  match str_split_at line 0 start with
  | Some (_, r) => Some r
  | None => None
  end.

(* str::lines: split_inclusive('\n'), then strip the '\n' and, only if there was
   one, a '\r' before it.  No final empty line. *)
Definition strip_cr (l : list N) : list N :=
  match rev l with 13 :: r => rev r | _ => l end.

Fixpoint lines_go (s : list N) (cur : list N) : list (list N) :=
  match s with
  | [] => match cur with [] => [] | _ => [rev cur] end        (* last line without '\n': kept as is *)
  | c :: t => if c =? 10 then strip_cr (rev cur) :: lines_go t [] else lines_go t (c :: cur)
  end.
Definition str_lines (s : list N) : list (list N) := lines_go s [].

(* ---- deserialise.rs ---- *)

Inductive herr :=
| ExpectedAscii (octet : N)
| CouldNotParseAddress (address : list N)
| CouldNotParseName (name : list N).

Inductive pstate :=
| SkipToAddress
| ReadingAddress (start : N)
| SkipToName
| ReadingName (start : N)
| CommentToEndOfLine.

(* HashSet<DomainName>::insert *)
Definition set_insert (n : dname) (s : list dname) : list dname :=
  if existsb (dname_eqb n) s then s else s ++ [n].

(* the three copies of "slice the name, parse it relative to the root, insert it" *)
Definition finish_name (name_str : option (list N)) (names : list dname) : res herr (list dname) :=
  match name_str with
  | None => Panic
  | Some str =>
    match from_relative_dotted_string root_domain str with
    | Some name => Ok (set_insert name names)
    | None => Err (CouldNotParseName str)
    end
  end.

(* the check made before each of the three name-parsing blocks (commit 25db594):
   a malformed address read earlier on the line is reported as soon as the line
   goes on to map a name to it -- before the name is sliced or parsed *)
Definition finish_name_at (bad_address : option (list N)) (name_str : option (list N)) (names : list dname)
  : res herr (list dname) :=
  match bad_address with
  | Some address => Err (CouldNotParseAddress address)
  | None => finish_name name_str names
  end.

(* the loop of parse_line over char_indices(): [rest] = characters still to come,
   the first of them at byte index [i]; [bad] = bad_address *)
Fixpoint parse_loop (line rest : list N) (i : N) (st : pstate) (address : ipaddr)
  (bad : option (list N)) (names : list dname)
  : res herr (pstate * ipaddr * option (list N) * list dname) :=
  match rest with
  | [] => Ok (st, address, bad, names)
  | c :: t =>
    match st with
    | CommentToEndOfLine => Ok (st, address, bad, names)            (* break *)
    | _ =>
      if negb (is_ascii c) then Err (ExpectedAscii c)
      else
        let i' := i + char_len c in
        if c =? 35 then                                             (* '#' *)
          match st with
          | ReadingName start =>
            let* names' := finish_name_at bad (str_slice line start i) names in
            parse_loop line t i' CommentToEndOfLine address bad names'
          | _ => parse_loop line t i' CommentToEndOfLine address bad names
          end
        else
          match st with
          | CommentToEndOfLine => Ok (st, address, bad, names)      (* break; not reached *)
          | SkipToAddress =>
            if is_whitespace c then parse_loop line t i' st address bad names
            else parse_loop line t i' (ReadingAddress i) address bad names
          | ReadingAddress start =>
            if c =? 37 then Ok (st, address, bad, names)            (* '%': break *)
            else if is_whitespace c then
              match str_slice line start i with
              | None => Panic
              | Some addr_str =>
                match parse_ip addr_str with
                | Some addr => parse_loop line t i' SkipToName addr bad names
                | None => parse_loop line t i' SkipToName address (Some addr_str) names
                end
              end
            else parse_loop line t i' st address bad names
          | SkipToName =>
            if is_whitespace c then parse_loop line t i' st address bad names
            else parse_loop line t i' (ReadingName i) address bad names
          | ReadingName start =>
            if is_whitespace c then
              let* names' := finish_name_at bad (str_slice line start i) names in
              parse_loop line t i' SkipToName address bad names'
            else parse_loop line t i' st address bad names
          end
    end
  end.

Definition LOCALHOST_V4 : ipaddr := V4 2130706433.                    (* 127.0.0.1 *)

Definition parse_line (line : list N) : res herr (option (ipaddr * list dname)) :=
  let* r := parse_loop line line 0 SkipToAddress LOCALHOST_V4 None [] in
  let '(st, address, bad, names) := r in
  let* names' := match st with
                 | ReadingName start => finish_name_at bad (str_slice_from line start) names
                 | _ => Ok names
                 end in
  if is_nil names' then Ok None else Ok (Some (address, names')).

Record hosts := { h_v4 : list (dname * N); h_v6 : list (dname * list N) }.

Definition hosts_new : hosts := {| h_v4 := []; h_v6 := [] |}.

Definition hosts_insert (h : hosts) (name : dname) (a : ipaddr) : hosts :=
  match a with
  | V4 ip => {| h_v4 := ainsert dname_eqb name ip (h_v4 h); h_v6 := h_v6 h |}
  | V6 ip => {| h_v4 := h_v4 h; h_v6 := ainsert dname_eqb name ip (h_v6 h) |}
  end.

Fixpoint deserialise_lines (ls : list (list N)) (h : hosts) : res herr hosts :=
  match ls with
  | [] => Ok h
  | line :: rest =>
    let* r := parse_line line in
    match r with
    | Some (address, new_names) =>
      deserialise_lines rest (fold_left (fun acc name => hosts_insert acc name address) new_names h)
    | None => deserialise_lines rest h
    end
  end.

(* Hosts::deserialise *)
Definition deserialise (data : list N) : res herr hosts := deserialise_lines (str_lines data) hosts_new.

(* ---- serialise.rs ---- *)

(* derived Ord: Label = its octets lexicographically; DomainName = labels
   lexicographically, then len *)
Fixpoint bytes_cmp (a b : list N) : comparison :=
  match a, b with
  | [], [] => Eq
  | [], _ :: _ => Lt
  | _ :: _, [] => Gt
  | x :: a', y :: b' => match N.compare x y with Eq => bytes_cmp a' b' | c => c end
  end.
Fixpoint labels_cmp (a b : list label) : comparison :=
  match a, b with
  | [], [] => Eq
  | [], _ :: _ => Lt
  | _ :: _, [] => Gt
  | x :: a', y :: b' => match bytes_cmp x y with Eq => labels_cmp a' b' | c => c end
  end.
Definition dname_cmp (a b : dname) : comparison :=
  match labels_cmp (labels a) (labels b) with
  | Eq => N.compare (nlen a) (nlen b)
  | c => c
  end.
Definition dname_leb (a b : dname) : bool :=
  match dname_cmp a b with Gt => false | _ => true end.

(* vec.sort() on a vector without duplicates (it comes out of a HashSet) *)
Fixpoint sort_insert (x : dname) (l : list dname) : list dname :=
  match l with
  | [] => [x]
  | y :: t => if dname_leb x y then x :: l else y :: sort_insert x t
  end.
Definition sort_names (l : list dname) : list dname := fold_right sort_insert [] l.

Definition key_set (h : hosts) : list dname :=
  fold_left (fun s n => set_insert n s) (map fst (h_v4 h) ++ map fst (h_v6 h)) [].

(* name_without_dot: to_dotted_string, then String::pop *)
Definition domain_str (n : dname) : list N :=
  if is_root n then [46] else removelast (to_dotted_string n).

Definition serialise_one (h : hosts) (n : dname) : list N :=
  let ds := domain_str n in
  (match alookup dname_eqb n (h_v4 h) with
   | Some a => show_v4 a ++ 32 :: ds ++ [10]
   | None => []
   end)
  ++ (match alookup dname_eqb n (h_v6 h) with
      | Some a => show_v6 a ++ 32 :: ds ++ [10]
      | None => []
      end)
  ++ [10].

Definition serialise (h : hosts) : list N :=
  flat_map (serialise_one h) (sort_names (key_set h)).

(* ---- types.rs ---- *)

(* Hosts::merge *)
Definition hosts_merge (self other : hosts) : hosts :=
  {| h_v4 := fold_left (fun m kv => ainsert dname_eqb (fst kv) (snd kv) m) (h_v4 other) (h_v4 self);
     h_v6 := fold_left (fun m kv => ainsert dname_eqb (fst kv) (snd kv) m) (h_v6 other) (h_v6 self) |}.

(* From<Hosts> for Zone *)
Fixpoint zone_insert_all {V} (ty : N) (mk : V -> rdata) (m : list (dname * V)) (z : zone) : res unit zone :=
  match m with
  | [] => Ok z
  | (name, a) :: t =>
    let* z' := zone_insert false z name ty (mk a) HOSTS_TTL in
    zone_insert_all ty mk t z'
  end.

Definition hosts_to_zone (h : hosts) : res unit zone :=
  let* z1 := zone_insert_all RT_A RD_A (h_v4 h) (zone_new root_domain None) in
  zone_insert_all RT_AAAA RD_AAAA (h_v6 h) z1.

Inductive tfz_err := HasWildcardRecords | HasRecordTypesOtherThanA.

(* the body of the two loops of from_zone_lossy / try_from: [strict] = try_from.
   rr.name is the node's name. *)
Fixpoint from_zrs (strict : bool) (name : dname) (zrs : list zrec) (h : hosts) : res tfz_err hosts :=
  match zrs with
  | [] => Ok h
  | zr :: t =>
    match (if zr_type zr =? RT_A then
             match zr_data zr with RD_A a => Some (V4 a) | _ => None end
           else if zr_type zr =? RT_AAAA then
             match zr_data zr with RD_AAAA a => Some (V6 a) | _ => None end
           else None) with
    | Some a => from_zrs strict name t (hosts_insert h name a)
    | None => if strict then Err HasRecordTypesOtherThanA else from_zrs strict name t h
    end
  end.

Fixpoint from_records (strict : bool) (recs : list (dname * list zrec)) (h : hosts) : res tfz_err hosts :=
  match recs with
  | [] => Ok h
  | (name, zrs) :: t =>
    let* h' := from_zrs strict name zrs h in
    from_records strict t h'
  end.

(* Hosts::from_zone_lossy (cannot fail) *)
Definition from_zone_lossy (z : zone) : res tfz_err hosts :=
  from_records false (zone_all_records z) hosts_new.

(* TryFrom<Zone> for Hosts *)
Definition hosts_try_from (z : zone) : res tfz_err hosts :=
  if negb (is_nil (zone_all_wildcard_records z)) then Err HasWildcardRecords
  else from_records true (zone_all_records z) hosts_new.
