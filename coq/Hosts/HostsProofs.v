(* Hosts/HostsProofs.v -- lemmas for C14.

   Part 1  the loop of parse_line equals an index-free loop ([ploop]) that carries the
           field being read instead of its start index: every slice of parse_line is taken
           at ASCII positions, so no slice can panic (parse_hosts_total).
   Part 2  str::lines on rendered files.
   Part 3  [ploop] on the pieces of a rendered line; parse_line on a rendered line
           (hosts_parse_denotes, hosts_errors).
   Part 4  Hosts <-> Zone (hosts_zone_exact, hosts_zone_back, hosts_zone_resolves).
   Part 5  serialise, then deserialise (hosts_roundtrip). *)
From RV Require Import Base.Prelude Name.NameModel Name.NameSpec Name.NameProofs
  Wire.WireTypes Zone.ZoneModel Ip.IpModel Ip.IpProofs Hosts.HostsModel Hosts.HostsSpec.
From Coq Require Import Permutation PeanoNat.

(* ====================================================================== *)
(* Part 1: index-free loop                                                 *)
(* ====================================================================== *)

Inductive qstate :=
| QSkipAddr
| QAddr (acc : list N)
| QSkipName
| QName (acc : list N)
| QComment.

Fixpoint ploop (rest : list N) (st : qstate) (address : ipaddr) (bad : option (list N)) (names : list dname)
  : res herr (qstate * ipaddr * option (list N) * list dname) :=
  match rest with
  | [] => Ok (st, address, bad, names)
  | c :: t =>
    match st with
    | QComment => Ok (st, address, bad, names)
    | _ =>
      if negb (is_ascii c) then Err (ExpectedAscii c)
      else
        if c =? 35 then
          match st with
          | QName acc =>
            let* names' := finish_name_at bad (Some acc) names in
            ploop t QComment address bad names'
          | _ => ploop t QComment address bad names
          end
        else
          match st with
          | QComment => Ok (st, address, bad, names)
          | QSkipAddr =>
            if is_whitespace c then ploop t st address bad names
            else ploop t (QAddr [c]) address bad names
          | QAddr acc =>
            if c =? 37 then Ok (st, address, bad, names)
            else if is_whitespace c then
              match parse_ip acc with
              | Some addr => ploop t QSkipName addr bad names
              | None => ploop t QSkipName address (Some acc) names
              end
            else ploop t (QAddr (acc ++ [c])) address bad names
          | QSkipName =>
            if is_whitespace c then ploop t st address bad names
            else ploop t (QName [c]) address bad names
          | QName acc =>
            if is_whitespace c then
              let* names' := finish_name_at bad (Some acc) names in
              ploop t QSkipName address bad names'
            else ploop t (QName (acc ++ [c])) address bad names
          end
    end
  end.

Definition tail_q (r : qstate * ipaddr * option (list N) * list dname) : res herr (option (ipaddr * list dname)) :=
  let '(st, address, bad, names) := r in
  let* names' := match st with
                 | QName acc => finish_name_at bad (Some acc) names
                 | _ => Ok names
                 end in
  if is_nil names' then Ok None else Ok (Some (address, names')).

Definition parse_line' (line : list N) : res herr (option (ipaddr * list dname)) :=
  let* r := ploop line QSkipAddr LOCALHOST_V4 None [] in tail_q r.

Definition tail_p (line : list N) (r : pstate * ipaddr * option (list N) * list dname) : res herr (option (ipaddr * list dname)) :=
  let '(st, address, bad, names) := r in
  let* names' := match st with
                 | ReadingName start => finish_name_at bad (str_slice_from line start) names
                 | _ => Ok names
                 end in
  if is_nil names' then Ok None else Ok (Some (address, names')).

Lemma parse_line_unfold line :
  parse_line line = (let* r := parse_loop line line 0 SkipToAddress LOCALHOST_V4 None [] in tail_p line r).
Proof.
  unfold parse_line, tail_p. destruct (parse_loop line line 0 SkipToAddress LOCALHOST_V4 None []) as [[[[st a] b] ns]| | |]; reflexivity.
Qed.

Definition asciic (c : N) : Prop := c < 128.

Lemma is_ascii_true c : is_ascii c = true <-> c < 128.
Proof. unfold is_ascii. apply N.ltb_lt. Qed.

Lemma char_len_ascii c : c < 128 -> char_len c = 1.
Proof. intros H. unfold char_len. apply N.ltb_lt in H. rewrite H. reflexivity. Qed.

Lemma str_split_at_ascii p : forall r pos target, Forall asciic p -> target = pos + llen p ->
  str_split_at (p ++ r) pos target = Some (p, r).
Proof.
  induction p as [|c p IH]; intros r pos target Hp ->.
  - rewrite llen_nil, N.add_0_r. cbn [app]. destruct r; cbn [str_split_at]; rewrite N.eqb_refl; reflexivity.
  - inversion Hp as [|? ? Hc Hp']; subst. rewrite llen_cons. cbn [app str_split_at].
    assert (pos =? pos + (1 + llen p) = false) as -> by (apply N.eqb_neq; lia).
    rewrite (char_len_ascii c Hc).
    assert (pos + (1 + llen p) <? pos + 1 = false) as -> by (apply N.ltb_ge; lia).
    rewrite (IH r (pos + 1) (pos + (1 + llen p)) Hp') by lia. reflexivity.
Qed.

Lemma str_slice_mid p0 acc r : Forall asciic p0 -> Forall asciic acc ->
  str_slice (p0 ++ acc ++ r) (llen p0) (llen p0 + llen acc) = Some acc.
Proof.
  intros H0 H1. unfold str_slice.
  assert (llen p0 + llen acc <? llen p0 = false) as -> by (apply N.ltb_ge; lia).
  rewrite (str_split_at_ascii p0 (acc ++ r) 0 (llen p0) H0) by lia.
  rewrite (str_split_at_ascii acc r (llen p0) (llen p0 + llen acc) H1) by lia. reflexivity.
Qed.

Lemma str_slice_from_ascii p0 acc : Forall asciic p0 ->
  str_slice_from (p0 ++ acc) (llen p0) = Some acc.
Proof.
  intros H0. unfold str_slice_from. rewrite (str_split_at_ascii p0 acc 0 (llen p0) H0) by lia. reflexivity.
Qed.

(* the index-carrying state describes the same field as the field-carrying state *)
Definition srel (pre : list N) (st : pstate) (q : qstate) : Prop :=
  match st, q with
  | SkipToAddress, QSkipAddr => True
  | ReadingAddress start, QAddr acc => exists p0, pre = p0 ++ acc /\ start = llen p0
  | SkipToName, QSkipName => True
  | ReadingName start, QName acc => exists p0, pre = p0 ++ acc /\ start = llen p0
  | CommentToEndOfLine, QComment => True
  | _, _ => False
  end.

Lemma snoc_assoc {A} (pre : list A) c t : pre ++ c :: t = (pre ++ [c]) ++ t.
Proof. rewrite <- app_assoc. reflexivity. Qed.

Lemma slice_at pre p0 acc c t : pre = p0 ++ acc -> Forall asciic pre ->
  str_slice (pre ++ c :: t) (llen p0) (llen pre) = Some acc.
Proof.
  intros -> H. apply Forall_app in H as [H0 H1].
  rewrite <- app_assoc, llen_app. apply str_slice_mid; assumption.
Qed.

Lemma refine_loop rest : forall pre st q a b ns,
  Forall asciic pre -> srel pre st q ->
  (let* r := parse_loop (pre ++ rest) rest (llen pre) st a b ns in tail_p (pre ++ rest) r)
  = (let* r := ploop rest q a b ns in tail_q r).
Proof.
  induction rest as [|c t IH]; intros pre st q a b ns Hpre Hrel.
  - rewrite app_nil_r. cbn [parse_loop ploop bind tail_p tail_q].
    destruct st, q; cbn [srel] in Hrel; try contradiction; try reflexivity.
    destruct Hrel as (p0 & -> & ->). apply Forall_app in Hpre as [H0 _].
    rewrite (str_slice_from_ascii p0 acc H0). reflexivity.
  - cbn [parse_loop ploop].
    destruct (is_ascii c) eqn:Hasc.
    2:{ destruct st, q; cbn [srel] in Hrel; try contradiction; cbn [negb bind tail_p tail_q]; reflexivity. }
    apply is_ascii_true in Hasc.
    assert (Hpre' : Forall asciic (pre ++ [c])) by (apply Forall_app; split; [assumption|repeat constructor; exact Hasc]).
    assert (Hlen : llen pre + char_len c = llen (pre ++ [c])).
    { rewrite (char_len_ascii c Hasc), llen_app, llen_cons, llen_nil. lia. }
    rewrite Hlen. rewrite (snoc_assoc pre c t).
    cbn [negb].
    destruct st, q; cbn [srel] in Hrel; try contradiction.
    + (* SkipToAddress *)
      destruct (c =? 35); [apply IH; [assumption|exact I]|].
      destruct (is_whitespace c); apply IH; try assumption; try exact I.
      cbn [srel]. exists pre. split; reflexivity.
    + (* ReadingAddress *)
      destruct Hrel as (p0 & Hp & ->).
      destruct (c =? 35); [apply IH; [assumption|exact I]|].
      destruct (c =? 37); [reflexivity|].
      destruct (is_whitespace c).
      * rewrite <- (snoc_assoc pre c t). rewrite (slice_at pre p0 acc c t Hp Hpre).
        rewrite (snoc_assoc pre c t).
        destruct (parse_ip acc); apply IH; try assumption; exact I.
      * apply IH; [assumption|]. cbn [srel]. exists p0. split; [|reflexivity].
        rewrite Hp, app_assoc. reflexivity.
    + (* SkipToName *)
      destruct (c =? 35); [apply IH; [assumption|exact I]|].
      destruct (is_whitespace c); apply IH; try assumption; try exact I.
      cbn [srel]. exists pre. split; reflexivity.
    + (* ReadingName *)
      destruct Hrel as (p0 & Hp & ->).
      destruct (c =? 35).
      * rewrite <- (snoc_assoc pre c t). rewrite (slice_at pre p0 acc c t Hp Hpre).
        destruct (finish_name_at b (Some acc) ns) as [ns'| | |]; cbn [bind]; try reflexivity.
        rewrite (snoc_assoc pre c t). apply IH; [assumption|exact I].
      * destruct (is_whitespace c).
        -- rewrite <- (snoc_assoc pre c t). rewrite (slice_at pre p0 acc c t Hp Hpre).
           destruct (finish_name_at b (Some acc) ns) as [ns'| | |]; cbn [bind]; try reflexivity.
           rewrite (snoc_assoc pre c t). apply IH; [assumption|exact I].
        -- apply IH; [assumption|]. cbn [srel]. exists p0. split; [|reflexivity].
           rewrite Hp, app_assoc. reflexivity.
    + (* Comment *)
      reflexivity.
Qed.

Theorem parse_line_refines line : parse_line line = parse_line' line.
Proof.
  rewrite parse_line_unfold. unfold parse_line'.
  apply (refine_loop line [] SkipToAddress QSkipAddr LOCALHOST_V4 None []); [constructor|exact I].
Qed.

(* ---- totality ---- *)

Definition total {E A} (r : res E A) : Prop := r <> Panic /\ r <> OutOfFuel.

Lemma finish_name_total s ns : total (finish_name (Some s) ns).
Proof.
  unfold finish_name. destruct (from_relative_dotted_string root_domain s); split; discriminate.
Qed.

Lemma finish_name_at_total b s ns : total (finish_name_at b (Some s) ns).
Proof.
  destruct b; cbn [finish_name_at]; [split; discriminate|apply finish_name_total].
Qed.

Lemma ploop_total rest : forall q a b ns, total (ploop rest q a b ns).
Proof.
  induction rest as [|c t IH]; intros q a b ns; cbn [ploop]; [split; discriminate|].
  destruct q; try (split; discriminate);
    (destruct (negb (is_ascii c)); [split; discriminate|]);
    destruct (c =? 35); try apply IH;
    try (destruct (is_whitespace c); apply IH).
  - destruct (c =? 37); [split; discriminate|].
    destruct (is_whitespace c); [|apply IH]. destruct (parse_ip acc); apply IH.
  - pose proof (finish_name_at_total b acc ns) as [F1 F2].
    destruct (finish_name_at b (Some acc) ns); cbn [bind]; try apply IH; try (split; discriminate); contradiction.
  - destruct (is_whitespace c); [|apply IH].
    pose proof (finish_name_at_total b acc ns) as [F1 F2].
    destruct (finish_name_at b (Some acc) ns); cbn [bind]; try apply IH; try (split; discriminate); contradiction.
Qed.

Lemma parse_line_total line : total (parse_line line).
Proof.
  rewrite parse_line_refines. unfold parse_line'.
  pose proof (ploop_total line QSkipAddr LOCALHOST_V4 None []) as [P1 P2].
  destruct (ploop line QSkipAddr LOCALHOST_V4 None []) as [[[[q a] b] ns]| | |]; cbn [bind]; try contradiction; try (split; discriminate).
  unfold tail_q.
  assert (T : total (match q with QName acc => finish_name_at b (Some acc) ns | _ => Ok ns end)).
  { destruct q; try (split; discriminate). apply finish_name_at_total. }
  destruct T as [T1 T2].
  destruct (match q with QName acc => finish_name_at b (Some acc) ns | _ => Ok ns end); cbn [bind];
    try contradiction; try (split; discriminate).
  destruct (is_nil a0); split; discriminate.
Qed.

Lemma deserialise_lines_total ls : forall h, total (deserialise_lines ls h).
Proof.
  induction ls as [|l ls IH]; intros h; cbn [deserialise_lines]; [split; discriminate|].
  pose proof (parse_line_total l) as [P1 P2].
  destruct (parse_line l) as [[[a ns]|]| | |]; cbn [bind]; try contradiction; try (split; discriminate); apply IH.
Qed.

(* parse_hosts_total: for every list of scalar values (any N, in fact) the model of
   Hosts::deserialise returns Ok or Err: no slice of parse_line is ever taken off a
   character boundary or out of range. *)
Theorem parse_hosts_total (data : list N) : total (deserialise data).
Proof. apply deserialise_lines_total. Qed.

(* ====================================================================== *)
(* Part 4: Hosts <-> Zone                                                  *)
(* ====================================================================== *)

(* the name with these labels *)
Definition mk (ls : list label) : dname := {| labels := ls; nlen := sum_lens ls |}.

Lemma mk_of_wf n : wf_name n -> mk (labels n) = n.
Proof. destruct n as [ls len]. intros [_ H]. cbn in *. unfold mk. cbn. rewrite H. reflexivity. Qed.

Lemma mk_root : mk [[]] = root_domain.
Proof. reflexivity. Qed.

(* all (owner, record) pairs of a record dump *)
Definition pairs_of (recs : list (dname * list zrec)) : list (dname * zrec) :=
  flat_map (fun p => map (pair (fst p)) (snd p)) recs.
Definition node_pairs (nd : node) : list (dname * zrec) := pairs_of (node_all_records nd).
Definition zone_pairs (z : zone) : list (dname * zrec) := pairs_of (zone_all_records z).

Lemma node_all_records_unfold nsd this w cs :
  node_all_records (Node nsd this w cs) =
  (if is_nil (flat_map snd this) then [] else [(nsd, flat_map snd this)])
    ++ flat_map (fun lc => node_all_records (snd lc)) cs.
Proof.
  cbn [node_all_records]. f_equal.
  induction cs as [|[k c] cs IH]; [reflexivity|]. cbn [flat_map snd]. rewrite <- IH. reflexivity.
Qed.

Lemma node_all_wildcard_records_unfold nsd this w cs :
  node_all_wildcard_records (Node nsd this w cs) =
  (match w with
   | Some ws => if is_nil (flat_map snd ws) then [] else [(nsd, flat_map snd ws)]
   | None => []
   end) ++ flat_map (fun lc => node_all_wildcard_records (snd lc)) cs.
Proof.
  cbn [node_all_wildcard_records]. f_equal.
  induction cs as [|[k c] cs IH]; [reflexivity|]. cbn [flat_map snd]. rewrite <- IH. reflexivity.
Qed.

Lemma pairs_of_app a b : pairs_of (a ++ b) = pairs_of a ++ pairs_of b.
Proof. apply flat_map_app. Qed.

Lemma pairs_of_flat {A} (f : A -> list (dname * list zrec)) l :
  pairs_of (flat_map f l) = flat_map (fun x => pairs_of (f x)) l.
Proof.
  induction l as [|x l IH]; [reflexivity|]. cbn [flat_map]. rewrite pairs_of_app, IH. reflexivity.
Qed.

Lemma node_pairs_unfold nsd this w cs :
  node_pairs (Node nsd this w cs) =
  map (pair nsd) (flat_map snd this) ++ flat_map (fun lc => node_pairs (snd lc)) cs.
Proof.
  unfold node_pairs. rewrite node_all_records_unfold, pairs_of_app, pairs_of_flat. f_equal.
  destruct (flat_map snd this) as [|z zs]; [reflexivity|].
  cbn [is_nil pairs_of flat_map fst snd]. rewrite app_nil_r. reflexivity.
Qed.

(* every node carries the name its position in the tree says: the child reached by
   label l from a node named L is named l :: L *)
Inductive wn : list label -> node -> Prop :=
| wn_intro L this wild cs :
    Forall (fun lc => wn (fst lc :: L) (snd lc)) cs -> wn L (Node (mk L) this wild cs).

(* the names on the way down exist (from_labels(..).unwrap() does not panic) *)
Fixpoint okpath (rp : list label) (L : list label) : Prop :=
  match rp with
  | [] => True
  | l :: rest => from_labels (l :: L) = Some (mk (l :: L)) /\ okpath rest (l :: L)
  end.

Lemma alookup_split {V} l (cs : list (label * V)) child : alookup leqb l cs = Some child ->
  exists c1 c2, cs = c1 ++ (l, child) :: c2
                /\ forall child', areplace leqb l child' cs = c1 ++ (l, child') :: c2.
Proof.
  induction cs as [|[k v] cs IH]; cbn [alookup areplace]; [discriminate|].
  destruct (leqb l k) eqn:E.
  - intros [= ->]. apply leqb_eq in E. subst k. exists [], cs. split; [reflexivity|]. intros; reflexivity.
  - intros H. destruct (IH H) as (c1 & c2 & -> & R). exists ((k, v) :: c1), c2. split; [reflexivity|].
    intros child'. rewrite R. reflexivity.
Qed.

Lemma perm_ins {A} (x : A) a b b' c : Permutation b' (x :: b) ->
  Permutation (a ++ b' ++ c) (x :: a ++ b ++ c).
Proof.
  intros H. eapply Permutation_trans.
  - apply Permutation_app_head. apply Permutation_app_tail. exact H.
  - cbn [app]. symmetry. apply Permutation_middle.
Qed.

Lemma areplace_flat t entries new (m : rmap) : alookup N.eqb t m = Some entries ->
  Permutation (flat_map snd (areplace N.eqb t (entries ++ [new]) m)) (new :: flat_map snd m).
Proof.
  induction m as [|[k v] m IH]; cbn [alookup areplace]; [discriminate|].
  destruct (t =? k) eqn:E.
  - intros [= ->]. cbn [flat_map snd]. rewrite <- app_assoc. cbn [app].
    symmetry. apply Permutation_middle.
  - intros H. cbn [flat_map snd]. eapply Permutation_trans.
    + apply Permutation_app_head. apply IH. exact H.
    + symmetry. apply Permutation_middle.
Qed.

Lemma alookup_in_flat t entries (m : rmap) e : alookup N.eqb t m = Some entries -> In e entries ->
  In e (flat_map snd m).
Proof.
  induction m as [|[k v] m IH]; cbn [alookup]; [discriminate|].
  destruct (t =? k).
  - intros [= ->] He. cbn [flat_map snd]. apply in_or_app. left. exact He.
  - intros H He. cbn [flat_map snd]. apply in_or_app. right. apply IH; assumption.
Qed.

Lemma rmap_insert_flat (m : rmap) new :
  Permutation (flat_map snd (rmap_insert m new)) (new :: flat_map snd m)
  \/ (rmap_insert m new = m /\ exists e, zrec_eqb new e = true /\ In e (flat_map snd m)).
Proof.
  unfold rmap_insert. destruct (alookup N.eqb (zr_type new) m) as [entries|] eqn:E.
  - destruct (existsb (zrec_eqb new) entries) eqn:X.
    + right. split; [reflexivity|]. apply existsb_exists in X as (e & He & Hz).
      exists e. split; [exact Hz|]. eapply alookup_in_flat; eassumption.
    + left. apply areplace_flat. exact E.
  - left. rewrite flat_map_app. cbn [flat_map snd]. rewrite app_nil_r.
    symmetry. apply Permutation_cons_append.
Qed.

Lemma wn_name L nd : wn L nd -> n_nsdname nd = mk L.
Proof. intros H. destruct H. reflexivity. Qed.

Lemma node_insert_pairs rp : forall L nd new, wn L nd -> okpath rp L ->
  exists nd', node_insert false rp new nd = Ok nd' /\ wn L nd' /\
    (Permutation (node_pairs nd') ((mk (rev rp ++ L), new) :: node_pairs nd)
     \/ (node_pairs nd' = node_pairs nd
         /\ exists e, zrec_eqb new e = true /\ In (mk (rev rp ++ L), e) (node_pairs nd))).
Proof.
  induction rp as [|l rest IH]; intros L nd new Hwn Hok.
  - destruct Hwn as [L this wild cs Hcs]. cbn [node_insert n_nsdname n_this n_wild n_children rev app].
    eexists. split; [reflexivity|]. split; [constructor; exact Hcs|].
    rewrite !node_pairs_unfold.
    destruct (rmap_insert_flat this new) as [P|[-> (e & He & Hin)]].
    + left. apply (Permutation_map (pair (mk L))) in P. cbn [map] in P.
      eapply Permutation_trans; [apply Permutation_app_tail; exact P|]. reflexivity.
    + right. split; [reflexivity|]. exists e. split; [exact He|].
      apply in_or_app. left. apply in_map. exact Hin.
  - destruct Hwn as [L this wild cs Hcs]. destruct Hok as [Hfl Hok].
    cbn [node_insert n_nsdname n_this n_wild n_children].
    assert (Et : rev (l :: rest) ++ L = rev rest ++ l :: L) by (cbn [rev]; rewrite <- app_assoc; reflexivity).
    rewrite Et.
    destruct (alookup leqb l cs) as [child|] eqn:E.
    + destruct (alookup_split l cs child E) as (c1 & c2 & -> & R).
      assert (Hc : wn (l :: L) child).
      { apply Forall_app in Hcs as [_ Hc2]. inversion Hc2; subst. assumption. }
      destruct (IH (l :: L) child new Hc Hok) as (child' & Hins & Hwn' & Hp).
      rewrite Hins. cbn [bind]. rewrite R.
      eexists. split; [reflexivity|]. split.
      * constructor. apply Forall_app in Hcs as [Hc1 Hc2]. apply Forall_app. split; [exact Hc1|].
        inversion Hc2; subst. constructor; assumption.
      * rewrite !node_pairs_unfold, !flat_map_app. cbn [flat_map snd].
        destruct Hp as [P|[Heq (e & He & Hin)]].
        -- left. rewrite !app_assoc. rewrite <- !app_assoc.
           rewrite (app_assoc (map _ _) (flat_map _ c1)).
           rewrite (app_assoc (map (pair (mk L)) (flat_map snd this)) (flat_map _ c1) (node_pairs child ++ _)).
           apply perm_ins. exact P.
        -- right. rewrite Heq. split; [reflexivity|]. exists e. split; [exact He|].
           apply in_or_app. right. apply in_or_app. right. apply in_or_app. left. exact Hin.
    + cbn [labels mk]. rewrite Hfl.
      assert (Hc : wn (l :: L) (node_new (mk (l :: L)))) by (constructor; constructor).
      destruct (IH (l :: L) _ new Hc Hok) as (child' & Hins & Hwn' & Hp).
      rewrite Hins. cbn [bind].
      eexists. split; [reflexivity|]. split.
      * constructor. apply Forall_app. split; [exact Hcs|]. constructor; [exact Hwn'|constructor].
      * rewrite !node_pairs_unfold, !flat_map_app. cbn [flat_map snd]. rewrite app_nil_r.
        assert (En : node_pairs (node_new (mk (l :: L))) = []) by reflexivity.
        rewrite En in Hp.
        destruct Hp as [P|[_ (e & _ & [])]].
        left. rewrite app_assoc.
        eapply Permutation_trans; [apply Permutation_app_head; exact P|].
        symmetry. apply Permutation_cons_append.
Qed.

(* non-wildcard insertion leaves the (empty) set of wildcard records empty *)
Lemma flat_map_nil_inv {A B} (f : A -> list B) l : flat_map f l = [] -> Forall (fun x => f x = []) l.
Proof.
  induction l as [|x l IH]; cbn [flat_map]; intros H; constructor.
  - apply app_eq_nil in H. tauto.
  - apply IH. apply app_eq_nil in H. tauto.
Qed.

Lemma flat_map_nil_intro {A B} (f : A -> list B) l : Forall (fun x => f x = []) l -> flat_map f l = [].
Proof.
  induction 1 as [|x l Hx _ IH]; cbn [flat_map]; [reflexivity|]. rewrite Hx, IH. reflexivity.
Qed.

Lemma node_insert_nowild rp : forall nd new nd',
  node_insert false rp new nd = Ok nd' -> node_all_wildcard_records nd = [] ->
  node_all_wildcard_records nd' = [].
Proof.
  induction rp as [|l rest IH]; intros [nsd this wild cs] new nd' Hins Hw.
  - cbn [node_insert n_nsdname n_this n_wild n_children] in Hins. injection Hins as <-.
    rewrite node_all_wildcard_records_unfold in *. exact Hw.
  - cbn [node_insert n_nsdname n_this n_wild n_children] in Hins.
    rewrite node_all_wildcard_records_unfold in Hw. apply app_eq_nil in Hw as [Hw1 Hw2].
    apply flat_map_nil_inv in Hw2.
    destruct (alookup leqb l cs) as [child|] eqn:E.
    + destruct (alookup_split l cs child E) as (c1 & c2 & -> & R).
      destruct (node_insert false rest new child) as [child'| | |] eqn:Hc; cbn [bind] in Hins; try discriminate.
      injection Hins as <-. rewrite R, node_all_wildcard_records_unfold, Hw1. cbn [app].
      apply flat_map_nil_intro. apply Forall_app in Hw2 as [H1 H2]. apply Forall_app. split; [exact H1|].
      inversion H2; subst. constructor; [|assumption]. cbn [snd] in *. eapply IH; eassumption.
    + destruct (from_labels (l :: labels nsd)) as [nsd'|]; [|discriminate].
      destruct (node_insert false rest new (node_new nsd')) as [child'| | |] eqn:Hc; cbn [bind] in Hins; try discriminate.
      injection Hins as <-. rewrite node_all_wildcard_records_unfold, Hw1. cbn [app].
      apply flat_map_nil_intro. apply Forall_app. split; [exact Hw2|]. constructor; [|constructor].
      cbn [snd]. eapply IH; [eassumption|reflexivity].
Qed.

(* suffixes of a well-formed name are well-formed names *)
Lemma wf_labels_suffix pre s : wf_labels (pre ++ s) -> s <> [] -> wf_labels s.
Proof.
  intros (front & E & Hf & Hs) Hne.
  destruct (exists_last Hne) as (s' & x & ->).
  rewrite app_assoc in E. apply app_inj_tail in E as [E ->].
  exists s'. split; [reflexivity|]. split.
  - rewrite <- E in Hf. apply Forall_app in Hf. tauto.
  - rewrite sum_lens_app in Hs. lia.
Qed.

Lemma from_labels_mk ls : wf_labels ls -> from_labels ls = Some (mk ls).
Proof.
  intros H. destruct (wf_labels_from_labels ls H) as (n & Hn). rewrite Hn. f_equal.
  destruct (from_labels_wf ls n (wf_labels_all ls H) Hn) as [Hwf <-].
  symmetry. apply mk_of_wf. exact Hwf.
Qed.

Lemma okpath_of_wf rp : forall L, wf_labels (rev rp ++ L) -> okpath rp L.
Proof.
  induction rp as [|l rest IH]; intros L H; cbn [okpath]; [exact I|].
  assert (E : rev (l :: rest) ++ L = rev rest ++ l :: L) by (cbn [rev]; rewrite <- app_assoc; reflexivity).
  rewrite E in H. split.
  - apply from_labels_mk. eapply wf_labels_suffix; [exact H|discriminate].
  - apply IH. exact H.
Qed.

(* a well-formed name under the root apex: its path is its labels without the root label, reversed *)
Definition rootl : list label := [[]].

Lemma wf_name_front n : wf_name n -> exists front : list label, labels n = front ++ rootl.
Proof. intros [(front & E & _) _]. exists front. exact E. Qed.

Lemma relative_rp_root z n (front : list label) : z_apex z = root_domain -> labels n = front ++ rootl ->
  relative_rp z n = Some (rev front).
Proof.
  intros Ha E. unfold rootl in E. unfold relative_rp.
  assert (S : is_subdomain_of n (z_apex z) = true).
  { apply subdomain_is_suffix. rewrite Ha, E. exists front. reflexivity. }
  rewrite S, Ha, E. cbn [labels root_domain length]. rewrite app_length. cbn [length].
  replace (length front + 1 - 1)%nat with (length front) by lia.
  rewrite firstn_app, firstn_all, Nat.sub_diag. cbn [firstn]. rewrite app_nil_r. reflexivity.
Qed.

(* the shape of a zone made from hosts data *)
Definition zinv (z : zone) : Prop :=
  z_apex z = root_domain /\ z_soa z = None /\ wn [[]] (z_records z)
  /\ zone_all_wildcard_records z = [].

Lemma zinv_new : zinv (zone_new root_domain None).
Proof.
  unfold zinv. split; [reflexivity|]. split; [reflexivity|]. split; [|reflexivity].
  change (z_records (zone_new root_domain None)) with (Node (mk [[]]) [] None []).
  constructor. constructor.
Qed.

Definition hrec (ty : N) (d : rdata) : zrec := {| zr_type := ty; zr_data := d; zr_ttl := HOSTS_TTL |}.

Lemma zone_insert_pairs z n ty d : zinv z -> wf_name n ->
  exists z', zone_insert false z n ty d HOSTS_TTL = Ok z' /\ zinv z' /\
    (Permutation (zone_pairs z') ((n, hrec ty d) :: zone_pairs z)
     \/ (zone_pairs z' = zone_pairs z
         /\ exists e, zrec_eqb (hrec ty d) e = true /\ In (n, e) (zone_pairs z))).
Proof.
  intros (Ha & Hs & Hwn & Hw) Hn.
  destruct (wf_name_front n Hn) as (front & E).
  unfold zone_insert. rewrite (relative_rp_root z n front Ha E).
  assert (Hok : okpath (rev front) [[]]).
  { apply okpath_of_wf. rewrite rev_involutive. pose proof (proj1 Hn) as Hl. rewrite E in Hl. exact Hl. }
  assert (Ht : actual_ttl z HOSTS_TTL = HOSTS_TTL) by (unfold actual_ttl; rewrite Hs; reflexivity).
  rewrite Ht.
  destruct (node_insert_pairs (rev front) [[]] (z_records z) (hrec ty d) Hwn Hok) as (nd' & Hins & Hwn' & Hp).
  fold (hrec ty d). rewrite Hins. cbn [bind].
  eexists. split; [reflexivity|]. split.
  - unfold zinv. cbn [z_apex z_soa z_records]. repeat split; try assumption.
    unfold zone_all_wildcard_records. cbn [z_records]. eapply node_insert_nowild; [exact Hins|exact Hw].
  - assert (Hm : mk (rev (rev front) ++ rootl) = n).
    { rewrite rev_involutive, <- E. apply mk_of_wf. exact Hn. }
    unfold rootl in Hm. rewrite Hm in Hp. exact Hp.
Qed.

Section InsertAll.
  Context {V : Type} (ty : N) (mkd : V -> rdata).

  Lemma zone_insert_all_pairs (m : list (dname * V)) : forall z,
    zinv z -> Forall (fun kv => wf_name (fst kv)) m -> NoDup (map fst m) ->
    (forall kv e, In kv m -> In (fst kv, e) (zone_pairs z) -> zr_type e <> ty) ->
    exists z', zone_insert_all ty mkd m z = Ok z' /\ zinv z' /\
      Permutation (zone_pairs z') (map (fun kv => (fst kv, hrec ty (mkd (snd kv)))) m ++ zone_pairs z).
  Proof.
    induction m as [|[n a] m IH]; intros z Hz Hwf Hnd Hfresh.
    - exists z. cbn [zone_insert_all map app]. split; [reflexivity|]. split; [exact Hz|]. apply Permutation_refl.
    - cbn [zone_insert_all]. inversion Hwf as [|? ? Hn Hwf']; subst. inversion Hnd as [|? ? Hnin Hnd']; subst.
      cbn [fst] in *.
      destruct (zone_insert_pairs z n ty (mkd a) Hz Hn) as (z1 & Hins & Hz1 & Hp).
      rewrite Hins. cbn [bind].
      destruct Hp as [P|[_ (e & He & Hin)]].
      2:{ exfalso. apply (Hfresh (n, a) e (or_introl eq_refl) Hin).
          unfold zrec_eqb in He. apply andb_true_iff in He as [He _]. apply andb_true_iff in He as [He _].
          apply N.eqb_eq in He. cbn [hrec zr_type] in He. symmetry. exact He. }
      destruct (IH z1 Hz1 Hwf' Hnd') as (z' & Hall & Hz' & P').
      { intros kv e Hkv Hin. apply (Permutation_in _ P) in Hin. destruct Hin as [Heq|Hin].
        - injection Heq as Hk _. exfalso. apply Hnin. rewrite Hk. apply in_map. exact Hkv.
        - apply (Hfresh kv e (or_intror Hkv) Hin). }
      exists z'. split; [exact Hall|]. split; [exact Hz'|].
      eapply Permutation_trans; [exact P'|]. cbn [map fst snd app].
      eapply Permutation_trans; [apply Permutation_app_head; exact P|].
      symmetry. apply Permutation_middle.
  Qed.
End InsertAll.

(* hosts data as the constructors build it *)
Definition wf_hosts (h : hosts) : Prop :=
  Forall (fun kv => wf_name (fst kv)) (h_v4 h) /\ Forall (fun kv => wf_name (fst kv)) (h_v6 h)
  /\ NoDup (map fst (h_v4 h)) /\ NoDup (map fst (h_v6 h)).

Definition rec_v4 (kv : dname * N) : dname * zrec := (fst kv, hrec RT_A (RD_A (snd kv))).
Definition rec_v6 (kv : dname * list N) : dname * zrec := (fst kv, hrec RT_AAAA (RD_AAAA (snd kv))).

(* Zone::from(hosts) succeeds and holds exactly one A record per IPv4 mapping and one AAAA
   record per IPv6 mapping, each with TTL 5, in a zone with the root apex, no SOA and no
   wildcard records *)
Theorem hosts_zone_exact h : wf_hosts h ->
  exists z, hosts_to_zone h = Ok z
            /\ z_apex z = root_domain /\ z_soa z = None /\ zone_all_wildcard_records z = []
            /\ Permutation (zone_pairs z) (map rec_v4 (h_v4 h) ++ map rec_v6 (h_v6 h)).
Proof.
  intros (W4 & W6 & N4 & N6). unfold hosts_to_zone.
  destruct (zone_insert_all_pairs RT_A RD_A (h_v4 h) _ zinv_new W4 N4) as (z1 & H1 & Hz1 & P1).
  { intros kv e _ []. }
  rewrite H1. cbn [bind].
  destruct (zone_insert_all_pairs RT_AAAA RD_AAAA (h_v6 h) z1 Hz1 W6 N6) as (z2 & H2 & Hz2 & P2).
  { intros kv e _ Hin. apply (Permutation_in _ P1) in Hin. rewrite app_nil_r in Hin.
    apply in_map_iff in Hin as (kv' & Heq & _). injection Heq as _ <-. cbn [hrec zr_type]. discriminate. }
  exists z2. split; [exact H2|]. destruct Hz2 as (Ha & Hs & _ & Hw). repeat split; try assumption.
  eapply Permutation_trans; [exact P2|].
  eapply Permutation_trans; [apply Permutation_app_comm|].
  apply Permutation_app_tail. rewrite app_nil_r in P1. exact P1.
Qed.

(* ---- back from the zone ---- *)

Definition addr_of (zr : zrec) : option ipaddr :=
  if zr_type zr =? RT_A then
    match zr_data zr with RD_A a => Some (V4 a) | _ => None end
  else if zr_type zr =? RT_AAAA then
    match zr_data zr with RD_AAAA a => Some (V6 a) | _ => None end
  else None.

Fixpoint from_pairs (strict : bool) (ps : list (dname * zrec)) (h : hosts) : res tfz_err hosts :=
  match ps with
  | [] => Ok h
  | p :: t =>
    match addr_of (snd p) with
    | Some a => from_pairs strict t (hosts_insert h (fst p) a)
    | None => if strict then Err HasRecordTypesOtherThanA else from_pairs strict t h
    end
  end.

Lemma from_zrs_pairs strict name zrs : forall h,
  from_zrs strict name zrs h = from_pairs strict (map (pair name) zrs) h.
Proof.
  induction zrs as [|zr t IH]; intros h; [reflexivity|].
  cbn [map from_pairs fst snd].
  change (from_zrs strict name (zr :: t) h)
    with (match addr_of zr with
          | Some a => from_zrs strict name t (hosts_insert h name a)
          | None => if strict then Err HasRecordTypesOtherThanA else from_zrs strict name t h
          end).
  destruct (addr_of zr); [apply IH|]. destruct strict; [reflexivity|apply IH].
Qed.

Lemma from_pairs_app strict a : forall b h,
  from_pairs strict (a ++ b) h = (let* h' := from_pairs strict a h in from_pairs strict b h').
Proof.
  induction a as [|p a IH]; intros b h; [reflexivity|].
  cbn [app from_pairs]. destruct (addr_of (snd p)); [apply IH|]. destruct strict; [reflexivity|apply IH].
Qed.

Lemma from_records_pairs strict recs : forall h,
  from_records strict recs h = from_pairs strict (pairs_of recs) h.
Proof.
  induction recs as [|[name zrs] recs IH]; intros h; [reflexivity|].
  cbn [from_records]. unfold pairs_of. cbn [flat_map fst snd]. fold (pairs_of recs).
  rewrite from_pairs_app, from_zrs_pairs.
  destruct (from_pairs strict (map (pair name) zrs) h); cbn [bind]; try reflexivity. apply IH.
Qed.

Definition proj4 (ps : list (dname * zrec)) : list (dname * N) :=
  flat_map (fun p => match addr_of (snd p) with Some (V4 a) => [(fst p, a)] | _ => [] end) ps.
Definition proj6 (ps : list (dname * zrec)) : list (dname * list N) :=
  flat_map (fun p => match addr_of (snd p) with Some (V6 a) => [(fst p, a)] | _ => [] end) ps.

Definition ins_all {V} (l : list (dname * V)) (m : list (dname * V)) : list (dname * V) :=
  fold_left (fun m kv => ainsert dname_eqb (fst kv) (snd kv) m) l m.

Lemma from_pairs_good strict ps : forall h,
  Forall (fun p => addr_of (snd p) <> None) ps ->
  from_pairs strict ps h = Ok {| h_v4 := ins_all (proj4 ps) (h_v4 h); h_v6 := ins_all (proj6 ps) (h_v6 h) |}.
Proof.
  induction ps as [|p ps IH]; intros h Hg.
  - destruct h; reflexivity.
  - inversion Hg as [|? ? Hp Hg']; subst. cbn [from_pairs].
    destruct (addr_of (snd p)) as [a|] eqn:E; [|contradiction].
    rewrite IH by assumption. unfold proj4, proj6. cbn [flat_map]. rewrite E.
    destruct a; cbn [hosts_insert h_v4 h_v6 app ins_all fold_left fst snd]; reflexivity.
Qed.

Lemma alookup_notin {V} k (m : list (dname * V)) : ~ In k (map fst m) -> alookup dname_eqb k m = None.
Proof.
  induction m as [|[k' v] m IH]; cbn [map fst alookup In]; intros H; [reflexivity|].
  destruct (dname_eqb k k') eqn:E.
  - apply dname_eqb_eq in E. exfalso. apply H. left. symmetry. exact E.
  - apply IH. tauto.
Qed.

Lemma ins_all_nodup {V} (l : list (dname * V)) : forall m, NoDup (map fst (m ++ l)) -> ins_all l m = m ++ l.
Proof.
  induction l as [|[k v] l IH]; intros m H; [rewrite app_nil_r; reflexivity|].
  unfold ins_all. cbn [fold_left fst snd]. fold (ins_all l (ainsert dname_eqb k v m)).
  assert (Hn : alookup dname_eqb k m = None).
  { apply alookup_notin. rewrite map_app in H. cbn [map fst] in H.
    apply NoDup_remove_2 in H. intros Hin. apply H. apply in_or_app. left. exact Hin. }
  unfold ainsert. rewrite Hn. rewrite IH.
  - rewrite <- app_assoc. reflexivity.
  - rewrite <- app_assoc. exact H.
Qed.

Lemma addr_of_v4 a : addr_of (hrec RT_A (RD_A a)) = Some (V4 a).
Proof. reflexivity. Qed.
Lemma addr_of_v6 a : addr_of (hrec RT_AAAA (RD_AAAA a)) = Some (V6 a).
Proof. reflexivity. Qed.

Lemma proj_target (m4 : list (dname * N)) (m6 : list (dname * list N)) :
  proj4 (map rec_v4 m4 ++ map rec_v6 m6) = m4 /\ proj6 (map rec_v4 m4 ++ map rec_v6 m6) = m6
  /\ Forall (fun p => addr_of (snd p) <> None) (map rec_v4 m4 ++ map rec_v6 m6).
Proof.
  unfold proj4, proj6. rewrite !flat_map_app.
  assert (A4 : flat_map (fun p => match addr_of (snd p) with Some (V4 a) => [(fst p, a)] | _ => [] end) (map rec_v4 m4) = m4).
  { induction m4 as [|[k a] m IH]; [reflexivity|]. cbn [map flat_map rec_v4 fst snd]. rewrite addr_of_v4, IH. reflexivity. }
  assert (A6 : flat_map (fun p => match addr_of (snd p) with Some (V4 a) => [(fst p, a)] | _ => [] end) (map rec_v6 m6) = []).
  { clear A4. induction m6 as [|[k a] m IH]; [reflexivity|]. cbn [map flat_map rec_v6 fst snd]. rewrite addr_of_v6, IH. reflexivity. }
  assert (B4 : flat_map (fun p => match addr_of (snd p) with Some (V6 a) => [(fst p, a)] | _ => [] end) (map rec_v4 m4) = []).
  { clear A4 A6. induction m4 as [|[k a] m IH]; [reflexivity|]. cbn [map flat_map rec_v4 fst snd]. rewrite addr_of_v4, IH. reflexivity. }
  assert (B6 : flat_map (fun p => match addr_of (snd p) with Some (V6 a) => [(fst p, a)] | _ => [] end) (map rec_v6 m6) = m6).
  { clear A4 A6 B4. induction m6 as [|[k a] m IH]; [reflexivity|]. cbn [map flat_map rec_v6 fst snd]. rewrite addr_of_v6, IH. reflexivity. }
  rewrite A4, A6, B4, B6, app_nil_r. repeat split.
  apply Forall_app. split; apply Forall_forall; intros p Hp; apply in_map_iff in Hp as ([k a] & <- & _).
  - cbn [rec_v4 fst snd]. rewrite addr_of_v4. discriminate.
  - cbn [rec_v6 fst snd]. rewrite addr_of_v6. discriminate.
Qed.

Lemma perm_flat_map {A B} (f : A -> list B) l l' : Permutation l l' -> Permutation (flat_map f l) (flat_map f l').
Proof.
  induction 1; cbn [flat_map].
  - constructor.
  - apply Permutation_app_head. assumption.
  - rewrite !app_assoc. apply Permutation_app_tail. apply Permutation_app_comm.
  - eapply Permutation_trans; eassumption.
Qed.

Lemma perm_forall {A} (P : A -> Prop) l l' : Permutation l l' -> Forall P l -> Forall P l'.
Proof.
  intros Hp Hf. apply Forall_forall. intros x Hx. rewrite Forall_forall in Hf. apply Hf.
  eapply Permutation_in; [symmetry; exact Hp|exact Hx].
Qed.

(* TryFrom<Zone> and from_zone_lossy return the hosts data the zone was made from
   (as maps: the same entries, in some order) *)
Theorem hosts_zone_back h : wf_hosts h ->
  exists z h', hosts_to_zone h = Ok z
               /\ hosts_try_from z = Ok h' /\ from_zone_lossy z = Ok h'
               /\ Permutation (h_v4 h') (h_v4 h) /\ Permutation (h_v6 h') (h_v6 h).
Proof.
  intros Hwf. destruct (hosts_zone_exact h Hwf) as (z & Hz & _ & _ & Hw & P).
  destruct Hwf as (_ & _ & N4 & N6).
  destruct (proj_target (h_v4 h) (h_v6 h)) as (T4 & T6 & Tg).
  assert (Hg : Forall (fun p => addr_of (snd p) <> None) (zone_pairs z)).
  { eapply perm_forall; [symmetry; exact P|exact Tg]. }
  assert (P4 : Permutation (proj4 (zone_pairs z)) (h_v4 h)).
  { rewrite <- T4. apply perm_flat_map. exact P. }
  assert (P6 : Permutation (proj6 (zone_pairs z)) (h_v6 h)).
  { rewrite <- T6. apply perm_flat_map. exact P. }
  exists z. eexists. split; [exact Hz|].
  unfold hosts_try_from, from_zone_lossy. rewrite Hw. cbn [is_nil negb].
  rewrite !from_records_pairs. fold (zone_pairs z).
  rewrite !(from_pairs_good _ _ _ Hg). cbn [hosts_new h_v4 h_v6].
  rewrite !ins_all_nodup.
  - cbn [app]. repeat split; assumption.
  - cbn [app]. eapply Permutation_NoDup; [|exact N6]. apply Permutation_map. symmetry. exact P6.
  - cbn [app]. eapply Permutation_NoDup; [|exact N4]. apply Permutation_map. symmetry. exact P4.
Qed.

(* the hypotheses are satisfiable: foo. -> 1.2.3.4 and ::1, bar.foo. -> 1.2.3.4 *)
Definition ex_foo : dname := mk [[102;111;111]; []].
Definition ex_barfoo : dname := mk [[98;97;114]; [102;111;111]; []].
Definition ex_hosts : hosts :=
  {| h_v4 := [(ex_foo, 16909060); (ex_barfoo, 16909060)]; h_v6 := [(ex_foo, [0;0;0;0;0;0;0;1])] |}.

(* ====================================================================== *)
(* Part 2: str::lines on rendered text                                     *)
(* ====================================================================== *)

Lemma lines_go_line s : forall cur rest, noline s ->
  lines_go (s ++ 10 :: rest) cur = strip_cr (rev cur ++ s) :: lines_go rest [].
Proof.
  induction s as [|c s IH]; intros cur rest Hs.
  - cbn [app lines_go]. assert (10 =? 10 = true) as -> by reflexivity. rewrite app_nil_r. reflexivity.
  - inversion Hs as [|? ? Hc Hs']; subst. cbn [app lines_go].
    assert (c =? 10 = false) as -> by (apply N.eqb_neq; exact Hc).
    rewrite (IH (c :: cur) rest Hs'). cbn [rev]. rewrite <- app_assoc. reflexivity.
Qed.

Lemma lines_go_last s : forall cur, noline s ->
  lines_go s cur = match rev cur ++ s with [] => [] | l => [l] end.
Proof.
  induction s as [|c s IH]; intros cur Hs.
  - cbn [lines_go]. rewrite app_nil_r. destruct cur as [|x cur]; [reflexivity|].
    cbn [rev]. destruct (rev cur ++ [x]) eqn:E; [|reflexivity]. destruct (rev cur); discriminate.
  - inversion Hs as [|? ? Hc Hs']; subst. cbn [lines_go].
    assert (c =? 10 = false) as -> by (apply N.eqb_neq; exact Hc).
    rewrite (IH (c :: cur) Hs'). cbn [rev]. rewrite <- app_assoc. reflexivity.
Qed.

Lemma strip_cr_crlf l : strip_cr (l ++ [13]) = l.
Proof. unfold strip_cr. rewrite rev_app_distr. cbn [rev app]. apply rev_involutive. Qed.

Lemma strip_cr_id l : (forall s, l <> s ++ [13]) -> strip_cr l = l.
Proof.
  intros H. unfold strip_cr. destruct (rev l) as [|c r] eqn:E; [reflexivity|].
  destruct (N.eq_dec c 13) as [->|Hc].
  - exfalso. apply (H (rev r)). rewrite <- (rev_involutive l), E. reflexivity.
  - destruct c as [|p]; [reflexivity|]. do 4 (destruct p as [p|p|]; try reflexivity). exfalso. apply Hc. reflexivity.
Qed.

Definition line_text_ok (t : list N) : Prop := noline t /\ forall s, t <> s ++ [13].

Lemma str_lines_terminated (ls : list (list N * eol)) : forall rest,
  Forall (fun le => line_text_ok (fst le)) ls ->
  lines_go (concat (map (fun le => fst le ++ render_eol (snd le)) ls) ++ rest) []
  = map fst ls ++ lines_go rest [].
Proof.
  induction ls as [|[t e] ls IH]; intros rest H; [reflexivity|].
  inversion H as [|? ? [Hn Hc] H']; subst. cbn [map concat fst snd] in *.
  rewrite <- !app_assoc. destruct e; cbn [render_eol].
  - cbn [app]. rewrite (lines_go_line t [] _ Hn). cbn [rev app]. rewrite (strip_cr_id t Hc).
    rewrite IH by assumption. reflexivity.
  - change (t ++ [13; 10] ++ concat (map (fun le => fst le ++ render_eol (snd le)) ls) ++ rest)
      with (t ++ [13] ++ 10 :: (concat (map (fun le => fst le ++ render_eol (snd le)) ls) ++ rest)).
    rewrite app_assoc. rewrite (lines_go_line (t ++ [13]) [] _).
    + cbn [rev app]. rewrite strip_cr_crlf. rewrite IH by assumption. reflexivity.
    + apply Forall_app. split; [exact Hn|]. repeat constructor. discriminate.
Qed.

(* ====================================================================== *)
(* Part 3: the line parser on rendered lines                               *)
(* ====================================================================== *)

Lemma wsc_facts c : wsc c ->
  is_ascii c = true /\ (c =? 35) = false /\ (c =? 37) = false /\ is_whitespace c = true /\ c <> 10.
Proof. intros [->|[->|[->|[->| ->]]]]; repeat split; try reflexivity; discriminate. Qed.

Lemma fieldc_facts c : fieldc c -> is_ascii c = true /\ (c =? 35) = false /\ is_whitespace c = false /\ c <> 10.
Proof.
  intros (H1 & H2 & H3 & H4 & H5 & H6 & H7 & H8). repeat split.
  - apply is_ascii_true. exact H1.
  - apply N.eqb_neq. exact H8.
  - destruct (is_whitespace c) eqn:E; [|reflexivity]. exfalso. unfold is_whitespace in E.
    rewrite !orb_true_iff, !andb_true_iff, !N.eqb_eq, !N.leb_le in E. lia.
  - exact H3.
Qed.

Lemma ploop_comment r a b ns : ploop r QComment a b ns = Ok (QComment, a, b, ns).
Proof. destruct r; reflexivity. Qed.

Lemma step_ws_skipaddr c t a b ns : wsc c -> ploop (c :: t) QSkipAddr a b ns = ploop t QSkipAddr a b ns.
Proof. intros H. cbn [ploop]. apply wsc_facts in H as (-> & -> & _ & -> & _). reflexivity. Qed.
Lemma step_ws_skipname c t a b ns : wsc c -> ploop (c :: t) QSkipName a b ns = ploop t QSkipName a b ns.
Proof. intros H. cbn [ploop]. apply wsc_facts in H as (-> & -> & _ & -> & _). reflexivity. Qed.
Lemma step_f_skipaddr c t a b ns : fieldc c -> ploop (c :: t) QSkipAddr a b ns = ploop t (QAddr [c]) a b ns.
Proof. intros H. cbn [ploop]. apply fieldc_facts in H as (-> & -> & -> & _). reflexivity. Qed.
Lemma step_f_skipname c t a b ns : fieldc c -> ploop (c :: t) QSkipName a b ns = ploop t (QName [c]) a b ns.
Proof. intros H. cbn [ploop]. apply fieldc_facts in H as (-> & -> & -> & _). reflexivity. Qed.
Lemma step_f_addr c t acc a b ns : fieldc c -> c <> 37 ->
  ploop (c :: t) (QAddr acc) a b ns = ploop t (QAddr (acc ++ [c])) a b ns.
Proof.
  intros H Hp. cbn [ploop]. apply fieldc_facts in H as (-> & -> & -> & _).
  apply N.eqb_neq in Hp. rewrite Hp. reflexivity.
Qed.
Lemma step_f_name c t acc a b ns : fieldc c -> ploop (c :: t) (QName acc) a b ns = ploop t (QName (acc ++ [c])) a b ns.
Proof. intros H. cbn [ploop]. apply fieldc_facts in H as (-> & -> & -> & _). reflexivity. Qed.
(* white space after the address field: a malformed address is remembered, not reported *)
Lemma step_ws_addr c t acc a b ns : wsc c ->
  ploop (c :: t) (QAddr acc) a b ns =
  match parse_ip acc with
  | Some addr => ploop t QSkipName addr b ns
  | None => ploop t QSkipName a (Some acc) ns
  end.
Proof. intros H. cbn [ploop]. apply wsc_facts in H as (-> & -> & -> & -> & _). reflexivity. Qed.
Lemma step_ws_name c t acc a b ns : wsc c ->
  ploop (c :: t) (QName acc) a b ns = (let* ns' := finish_name_at b (Some acc) ns in ploop t QSkipName a b ns').
Proof. intros H. cbn [ploop]. apply wsc_facts in H as (-> & -> & _ & -> & _). reflexivity. Qed.
Lemma step_hash_name t acc a b ns :
  ploop (35 :: t) (QName acc) a b ns = (let* ns' := finish_name_at b (Some acc) ns in Ok (QComment, a, b, ns')).
Proof.
  cbn [ploop]. assert (is_ascii 35 = true) as -> by reflexivity. assert (35 =? 35 = true) as -> by reflexivity.
  cbn [negb]. destruct (finish_name_at b (Some acc) ns); cbn [bind]; try reflexivity. apply ploop_comment.
Qed.
Lemma step_hash_other t q a b ns : (forall acc, q <> QName acc) ->
  ploop (35 :: t) q a b ns = Ok (QComment, a, b, ns).
Proof.
  intros H. cbn [ploop]. assert (is_ascii 35 = true) as -> by reflexivity. assert (35 =? 35 = true) as -> by reflexivity.
  cbn [negb]. destruct q; try reflexivity; try apply ploop_comment. exfalso. apply (H acc). reflexivity.
Qed.
Lemma step_pct_addr t acc a b ns : ploop (37 :: t) (QAddr acc) a b ns = Ok (QAddr acc, a, b, ns).
Proof. reflexivity. Qed.

Lemma ploop_ws_skipaddr w : forall r a b ns, Forall wsc w -> ploop (w ++ r) QSkipAddr a b ns = ploop r QSkipAddr a b ns.
Proof.
  induction w as [|c w IH]; intros r a b ns H; [reflexivity|]. inversion H; subst.
  cbn [app]. rewrite step_ws_skipaddr by assumption. apply IH. assumption.
Qed.
Lemma ploop_ws_skipname w : forall r a b ns, Forall wsc w -> ploop (w ++ r) QSkipName a b ns = ploop r QSkipName a b ns.
Proof.
  induction w as [|c w IH]; intros r a b ns H; [reflexivity|]. inversion H; subst.
  cbn [app]. rewrite step_ws_skipname by assumption. apply IH. assumption.
Qed.
Lemma ploop_field_addr f : forall r acc a b ns, Forall fieldc f -> Forall (fun c => c <> 37) f ->
  ploop (f ++ r) (QAddr acc) a b ns = ploop r (QAddr (acc ++ f)) a b ns.
Proof.
  induction f as [|c f IH]; intros r acc a b ns H Hp; [rewrite app_nil_r; reflexivity|].
  inversion H; subst. inversion Hp; subst.
  cbn [app]. rewrite step_f_addr by assumption. rewrite IH by assumption. rewrite <- app_assoc. reflexivity.
Qed.
Lemma ploop_field_name f : forall r acc a b ns, Forall fieldc f ->
  ploop (f ++ r) (QName acc) a b ns = ploop r (QName (acc ++ f)) a b ns.
Proof.
  induction f as [|c f IH]; intros r acc a b ns H; [rewrite app_nil_r; reflexivity|].
  inversion H; subst.
  cbn [app]. rewrite step_f_name by assumption. rewrite IH by assumption. rewrite <- app_assoc. reflexivity.
Qed.

(* a whole field read from the skipping state *)
Lemma ploop_addr_field f r a b ns : field f -> nopct f ->
  ploop (f ++ r) QSkipAddr a b ns = ploop r (QAddr f) a b ns.
Proof.
  intros [Hne Hf] Hp. destruct f as [|c f]; [contradiction|]. inversion Hf; subst.
  cbn [app]. rewrite step_f_skipaddr by assumption. apply (ploop_field_addr f r [c]); assumption.
Qed.
Lemma ploop_name_field f r a b ns : field f ->
  ploop (f ++ r) QSkipName a b ns = ploop r (QName f) a b ns.
Proof.
  intros [Hne Hf]. destruct f as [|c f]; [contradiction|]. inversion Hf; subst.
  cbn [app]. rewrite step_f_skipname by assumption. apply (ploop_field_name f r [c]); assumption.
Qed.

(* finishing names one after the other; [b] = the malformed address read before them, if any *)
Fixpoint finish_all (b : option (list N)) (strs : list (list N)) (ns : list dname) : res herr (list dname) :=
  match strs with
  | [] => Ok ns
  | s :: t => let* ns' := finish_name_at b (Some s) ns in finish_all b t ns'
  end.

Definition line_result (a : ipaddr) (r : res herr (list dname)) : res herr (option (ipaddr * list dname)) :=
  let* ns := r in if is_nil ns then Ok None else Ok (Some (a, ns)).

(* the end of a line: white space, then possibly a comment *)
Lemma line_end_name trail c acc a b ns : Forall wsc trail ->
  (let* r := ploop (trail ++ render_comment c) (QName acc) a b ns in tail_q r)
  = line_result a (finish_name_at b (Some acc) ns).
Proof.
  intros Ht. unfold line_result. destruct trail as [|w trail].
  - cbn [app]. destruct c as [t|]; cbn [render_comment].
    + rewrite step_hash_name. destruct (finish_name_at b (Some acc) ns); reflexivity.
    + cbn [ploop bind tail_q]. reflexivity.
  - inversion Ht; subst. cbn [app]. rewrite step_ws_name by assumption.
    destruct (finish_name_at b (Some acc) ns) as [ns'| | |]; cbn [bind]; try reflexivity.
    rewrite ploop_ws_skipname by assumption.
    destruct c as [t|]; cbn [render_comment].
    + rewrite step_hash_other by discriminate. reflexivity.
    + reflexivity.
Qed.

(* ... in a skipping state nothing is pending: a remembered malformed address is forgotten *)
Lemma line_end_skip trail c q a b ns : Forall wsc trail -> q = QSkipName \/ q = QSkipAddr ->
  (let* r := ploop (trail ++ render_comment c) q a b ns in tail_q r)
  = if is_nil ns then Ok None else Ok (Some (a, ns)).
Proof.
  intros Ht [-> | ->].
  - rewrite ploop_ws_skipname by assumption. destruct c as [t|]; cbn [render_comment].
    + rewrite step_hash_other by discriminate. reflexivity.
    + reflexivity.
  - rewrite ploop_ws_skipaddr by assumption. destruct c as [t|]; cbn [render_comment].
    + rewrite step_hash_other by discriminate. reflexivity.
    + reflexivity.
Qed.

Definition wf_pair (p : list N * list N) : Prop := fst p <> [] /\ Forall wsc (fst p) /\ field (snd p).

Lemma bind_assoc {E A B C} (r : res E A) (f : A -> res E B) (g : B -> res E C) :
  bind (bind r f) g = bind r (fun x => bind (f x) g).
Proof. destruct r; reflexivity. Qed.

Lemma names_then_end names : forall acc a b ns trail c,
  Forall wf_pair names -> Forall wsc trail ->
  (let* r := ploop (concat (map (fun p => fst p ++ snd p) names) ++ trail ++ render_comment c) (QName acc) a b ns
   in tail_q r)
  = line_result a (finish_all b (acc :: map snd names) ns).
Proof.
  induction names as [|[ws nm] names IH]; intros acc a b ns trail c Hn Ht.
  - cbn [map concat app finish_all]. rewrite line_end_name by assumption.
    unfold line_result. destruct (finish_name_at b (Some acc) ns); reflexivity.
  - inversion Hn as [|? ? (Hne & Hws & Hf) Hn']; subst. cbn [fst snd] in *.
    cbn [map concat fst snd]. rewrite <- !app_assoc.
    destruct ws as [|w ws]; [contradiction|]. inversion Hws; subst.
    cbn [app]. rewrite step_ws_name by assumption.
    cbn [finish_all]. unfold line_result. rewrite !bind_assoc.
    destruct (finish_name_at b (Some acc) ns) as [ns1| | |]; cbn [bind]; try reflexivity.
    rewrite ploop_ws_skipname by assumption. rewrite ploop_name_field by assumption.
    rewrite (IH nm a b ns1 trail c Hn' Ht). reflexivity.
Qed.

(* a name field is read relative to the root *)
Lemma frds_abs s : s <> [] -> from_relative_dotted_string root_domain s = abs_name s.
Proof.
  intros H. unfold from_relative_dotted_string, abs_name. destruct s as [|c s]; [contradiction|].
  destruct (ends_with_dot (c :: s)); reflexivity.
Qed.

Definition dedupe_into (dn ns : list dname) : list dname := fold_left (fun s n => set_insert n s) dn ns.

Lemma finish_all_ok strs : forall dn ns,
  Forall (fun s => s <> []) strs -> all_some (map abs_name strs) = Some dn ->
  finish_all None strs ns = Ok (dedupe_into dn ns).
Proof.
  induction strs as [|s strs IH]; intros dn ns Hne Hall.
  - injection Hall as <-. reflexivity.
  - inversion Hne as [|? ? Hs Hne']; subst. cbn [map all_some] in Hall.
    destruct (abs_name s) as [d|] eqn:Ed; [|discriminate].
    destruct (all_some (map abs_name strs)) as [dn'|] eqn:Edn; [|discriminate]. injection Hall as <-.
    cbn [finish_all finish_name_at]. unfold finish_name. rewrite (frds_abs s Hs), Ed. cbn [bind].
    rewrite (IH dn' _ Hne' eq_refl). reflexivity.
Qed.

Lemma finish_all_err good bad rest : forall dn ns,
  Forall (fun s => s <> []) good -> bad <> [] ->
  all_some (map abs_name good) = Some dn -> abs_name bad = None ->
  finish_all None (good ++ bad :: rest) ns = Err (CouldNotParseName bad).
Proof.
  induction good as [|s good IH]; intros dn ns Hne Hb Hall Hbad.
  - cbn [app finish_all finish_name_at]. unfold finish_name. rewrite (frds_abs bad Hb), Hbad. reflexivity.
  - inversion Hne as [|? ? Hs Hne']; subst. cbn [map all_some] in Hall.
    destruct (abs_name s) as [d|] eqn:Ed; [|discriminate].
    destruct (all_some (map abs_name good)) as [dn'|] eqn:Edn; [|discriminate].
    cbn [app finish_all finish_name_at]. unfold finish_name at 1. rewrite (frds_abs s Hs), Ed. cbn [bind].
    apply (IH dn' _ Hne' Hb eq_refl Hbad).
Qed.

(* with a malformed address pending, the first name -- well-formed or not -- raises the address error *)
Lemma finish_all_bad addr s rest ns :
  finish_all (Some addr) (s :: rest) ns = Err (CouldNotParseAddress addr).
Proof. reflexivity. Qed.

Lemma set_insert_nonempty n s : set_insert n s <> [].
Proof.
  unfold set_insert. destruct (existsb (dname_eqb n) s) eqn:E.
  - destruct s; [discriminate E|discriminate].
  - destruct s; discriminate.
Qed.

Lemma dedupe_into_nonempty dn : forall ns, dn <> [] \/ ns <> [] -> dedupe_into dn ns <> [].
Proof.
  induction dn as [|d dn IH]; intros ns H.
  - destruct H as [H|H]; [contradiction|exact H].
  - unfold dedupe_into. cbn [fold_left]. apply IH. right. apply set_insert_nonempty.
Qed.

Lemma wf_mline_tail_nopct m : wf_mline m -> Forall fieldc (m_addr m) /\ m_addr m <> [].
Proof. intros (_ & [Hne Hf] & _). split; assumption. Qed.

(* a line that maps at least one name: a malformed address is the error, whatever the names are *)
Lemma parse_map_line m p names : wf_mline m -> m_names m = p :: names ->
  parse_line' (render_line (Map m)) =
  match parse_ip (m_addr m) with
  | None => Err (CouldNotParseAddress (m_addr m))
  | Some a => line_result a (finish_all None (map snd (m_names m)) [])
  end.
Proof.
  intros (Hl & Ha & Hp & Hn & Ht & _) En. unfold parse_line'. cbn [render_line].
  rewrite ploop_ws_skipaddr by assumption. rewrite ploop_addr_field by assumption.
  rewrite En in *. inversion Hn as [|? ? (Hne & Hws & Hf) Hn']; subst.
  destruct p as [ws nm]. cbn [fst snd] in *. cbn [map concat fst snd]. rewrite <- !app_assoc.
  destruct ws as [|w ws]; [contradiction|]. inversion Hws; subst.
  cbn [app]. rewrite step_ws_addr by assumption.
  destruct (parse_ip (m_addr m)) as [a|].
  - rewrite ploop_ws_skipname by assumption. rewrite ploop_name_field by assumption.
    apply names_then_end; assumption.
  - rewrite ploop_ws_skipname by assumption. rewrite ploop_name_field by assumption.
    rewrite names_then_end by assumption. reflexivity.
Qed.

(* a line that maps no names is ignored whatever its address field is (commit 25db594) *)
Lemma parse_addr_only m : wf_mline m -> m_names m = [] ->
  parse_line' (render_line (Map m)) = Ok None.
Proof.
  intros (Hl & Ha & Hp & Hn & Ht & _) En. unfold parse_line'. cbn [render_line].
  rewrite ploop_ws_skipaddr by assumption. rewrite ploop_addr_field by assumption.
  rewrite En. cbn [map concat app].
  destruct (m_trail m) as [|w ws].
  - cbn [app]. destruct (m_comment m) as [t|]; cbn [render_comment].
    + rewrite step_hash_other by discriminate. reflexivity.
    + reflexivity.
  - inversion Ht; subst. cbn [app]. rewrite step_ws_addr by assumption.
    destruct (parse_ip (m_addr m)) as [a|];
      apply (line_end_skip ws (m_comment m) QSkipName _ _ []); try assumption; left; reflexivity.
Qed.

Theorem address_only_ignored m : wf_mline m -> m_names m = [] ->
  parse_line (render_line (Map m)) = Ok None.
Proof. intros H E. rewrite parse_line_refines. apply parse_addr_only; assumption. Qed.

Definition contrib_result (c : contrib) : option (ipaddr * list dname) :=
  match c with
  | CMaps a dn => Some (a, dedupe_into dn [])
  | _ => None
  end.

(* a valid line parses to what the specification says it contributes *)
Theorem parse_valid_line l : wf_shape l -> line_contrib l <> CBad ->
  parse_line (render_line l) = Ok (contrib_result (line_contrib l)).
Proof.
  intros Hwf Hv. rewrite parse_line_refines. destruct l as [ws|ws t|ws pre rest|m]; cbn [wf_shape] in Hwf.
  - unfold parse_line'. cbn [render_line]. rewrite <- (app_nil_r ws). rewrite ploop_ws_skipaddr by assumption. reflexivity.
  - destruct Hwf as [Hws _]. unfold parse_line'. cbn [render_line].
    rewrite ploop_ws_skipaddr by assumption. rewrite step_hash_other by discriminate. reflexivity.
  - destruct Hwf as (Hws & Hf & Hp & _). unfold parse_line'. cbn [render_line].
    rewrite ploop_ws_skipaddr by assumption. rewrite ploop_addr_field; [|assumption|].
    + rewrite step_pct_addr. reflexivity.
    + unfold nopct. destruct pre; [constructor|]. inversion Hp; assumption.
  - cbn [line_contrib] in *. destruct (m_names m) as [|p names] eqn:En.
    + rewrite (parse_addr_only m Hwf En). reflexivity.
    + rewrite (parse_map_line m p names Hwf En).
      destruct (parse_ip (m_addr m)) as [a|]; [|contradiction].
      rewrite En.
      destruct (all_some (map (fun p0 => abs_name (snd p0)) (p :: names))) as [dn|] eqn:Edn; [|contradiction].
      rewrite <- map_map in Edn.
      assert (Hne : Forall (fun s => s <> []) (map snd (p :: names))).
      { destruct Hwf as (_ & _ & _ & Hn & _). rewrite En in Hn. apply Forall_forall. intros s Hs.
        apply in_map_iff in Hs as (q & <- & Hq). rewrite Forall_forall in Hn. apply (Hn q Hq). }
      rewrite (finish_all_ok _ dn [] Hne Edn). unfold line_result. cbn [bind contrib_result].
      destruct (dedupe_into dn []) eqn:Ed; [|reflexivity].
      exfalso. apply (dedupe_into_nonempty dn []); [|exact Ed]. left.
      destruct dn; [|discriminate]. cbn [map all_some] in Edn.
      destruct (abs_name (snd p)); [|discriminate]. destruct (all_some (map abs_name (map snd names))); discriminate.
Qed.

(* ---- maps ---- *)

Lemma dname_eqb_spec a b : reflect (a = b) (dname_eqb a b).
Proof.
  destruct (dname_eqb a b) eqn:E; constructor.
  - apply dname_eqb_eq. exact E.
  - intros H. apply dname_eqb_eq in H. congruence.
Qed.

Lemma alookup_app {V} k (m1 m2 : list (dname * V)) :
  alookup dname_eqb k (m1 ++ m2) = match alookup dname_eqb k m1 with Some v => Some v | None => alookup dname_eqb k m2 end.
Proof.
  induction m1 as [|[k0 v0] m1 IH]; [reflexivity|]. cbn [app alookup].
  destruct (dname_eqb k k0); [reflexivity|exact IH].
Qed.

Lemma alookup_areplace {V} k k' (v : V) m :
  alookup dname_eqb k m <> None ->
  alookup dname_eqb k' (areplace dname_eqb k v m) = if dname_eqb k' k then Some v else alookup dname_eqb k' m.
Proof.
  induction m as [|[k0 v0] m IH]; cbn [alookup areplace]; [congruence|].
  destruct (dname_eqb_spec k k0) as [->|Hne].
  - intros _. cbn [alookup]. destruct (dname_eqb_spec k' k0); reflexivity.
  - intros H. cbn [alookup]. destruct (dname_eqb_spec k' k0) as [->|Hne'].
    + destruct (dname_eqb_spec k0 k); [congruence|reflexivity].
    + apply IH. exact H.
Qed.

Lemma alookup_ainsert {V} k k' (v : V) m :
  alookup dname_eqb k' (ainsert dname_eqb k v m) = if dname_eqb k' k then Some v else alookup dname_eqb k' m.
Proof.
  unfold ainsert. destruct (alookup dname_eqb k m) eqn:E.
  - apply alookup_areplace. congruence.
  - rewrite alookup_app. cbn [alookup]. destruct (dname_eqb_spec k' k) as [->|Hne].
    + rewrite E. reflexivity.
    + destruct (alookup dname_eqb k' m); reflexivity.
Qed.

Lemma areplace_keys {V} k (v : V) m : map fst (areplace dname_eqb k v m) = map fst m.
Proof.
  induction m as [|[k0 v0] m IH]; [reflexivity|]. cbn [areplace]. destruct (dname_eqb k k0); cbn [map fst]; [reflexivity|].
  rewrite IH. reflexivity.
Qed.

Lemma alookup_none_notin {V} k (m : list (dname * V)) : alookup dname_eqb k m = None -> ~ In k (map fst m).
Proof.
  induction m as [|[k0 v0] m IH]; cbn [alookup map fst In]; [tauto|].
  destruct (dname_eqb_spec k k0); [discriminate|]. intros H [Heq|Hin]; [congruence|]. apply IH; assumption.
Qed.

Lemma nodup_snoc {A} (l : list A) x : NoDup l -> ~ In x l -> NoDup (l ++ [x]).
Proof.
  intros Hl Hx. eapply Permutation_NoDup; [apply Permutation_cons_append|]. constructor; assumption.
Qed.

Lemma ainsert_nodup {V} k (v : V) m : NoDup (map fst m) -> NoDup (map fst (ainsert dname_eqb k v m)).
Proof.
  intros H. unfold ainsert. destruct (alookup dname_eqb k m) eqn:E.
  - rewrite areplace_keys. exact H.
  - rewrite map_app. cbn [map fst]. apply nodup_snoc; [exact H|]. apply alookup_none_notin. exact E.
Qed.

(* the model's maps and the specification's functions agree *)
Definition agrees (h : hosts) (d : hden) : Prop :=
  forall k, alookup dname_eqb k (h_v4 h) = d4 d k /\ alookup dname_eqb k (h_v6 h) = d6 d k.

Definition nodup_keys (h : hosts) : Prop := NoDup (map fst (h_v4 h)) /\ NoDup (map fst (h_v6 h)).

Lemma agrees_insert h d n a : agrees h d -> agrees (hosts_insert h n a) (den_insert d n a).
Proof.
  intros H k. destruct (H k) as [H4 H6].
  destruct a; cbn [hosts_insert den_insert h_v4 h_v6 d4 d6]; unfold upd; rewrite ?alookup_ainsert, ?H4, ?H6; split; reflexivity.
Qed.

Lemma nodup_insert h n a : nodup_keys h -> nodup_keys (hosts_insert h n a).
Proof.
  intros [H4 H6]. destruct a; cbn [hosts_insert]; split; cbn [h_v4 h_v6]; try assumption; apply ainsert_nodup; assumption.
Qed.

Lemma agrees_fold a l : forall h d, agrees h d ->
  agrees (fold_left (fun acc n => hosts_insert acc n a) l h) (fold_left (fun d n => den_insert d n a) l d).
Proof.
  induction l as [|n l IH]; intros h d H; [exact H|]. cbn [fold_left]. apply IH. apply agrees_insert. exact H.
Qed.

Lemma nodup_fold a l : forall h, nodup_keys h -> nodup_keys (fold_left (fun acc n => hosts_insert acc n a) l h).
Proof.
  induction l as [|n l IH]; intros h H; [exact H|]. cbn [fold_left]. apply IH. apply nodup_insert. exact H.
Qed.

(* the value of the specification's fold: the address for every listed name *)
Definition den_eq (d d' : hden) : Prop := forall k, d4 d k = d4 d' k /\ d6 d k = d6 d' k.

Lemma den_fold_closed a l : forall d k,
  let d' := fold_left (fun d n => den_insert d n a) l d in
  d4 d' k = (match a with V4 x => if existsb (dname_eqb k) l then Some x else d4 d k | V6 _ => d4 d k end)
  /\ d6 d' k = (match a with V6 g => if existsb (dname_eqb k) l then Some g else d6 d k | V4 _ => d6 d k end).
Proof.
  induction l as [|n l IH]; intros d k; cbn [fold_left existsb].
  - destruct a; split; reflexivity.
  - cbv zeta in IH. destruct (IH (den_insert d n a) k) as [I4 I6]. cbv zeta. rewrite I4, I6.
    destruct a; cbn [den_insert d4 d6]; unfold upd; split; try reflexivity;
      destruct (dname_eqb k n); cbn [orb]; destruct (existsb (dname_eqb k) l); reflexivity.
Qed.

Lemma existsb_set_insert k n s :
  existsb (dname_eqb k) (set_insert n s) = existsb (dname_eqb k) s || dname_eqb k n.
Proof.
  unfold set_insert. destruct (existsb (dname_eqb n) s) eqn:E.
  - destruct (dname_eqb_spec k n) as [->|]; [rewrite E; reflexivity|rewrite orb_false_r; reflexivity].
  - rewrite existsb_app. cbn [existsb]. rewrite orb_false_r. reflexivity.
Qed.

Lemma existsb_dedupe k l : forall s,
  existsb (dname_eqb k) (dedupe_into l s) = existsb (dname_eqb k) s || existsb (dname_eqb k) l.
Proof.
  induction l as [|n l IH]; intros s; unfold dedupe_into; cbn [fold_left existsb].
  - rewrite orb_false_r. reflexivity.
  - fold (dedupe_into l (set_insert n s)). rewrite IH, existsb_set_insert, orb_assoc. reflexivity.
Qed.

Lemma den_fold_dedupe a l d :
  den_eq (fold_left (fun d n => den_insert d n a) (dedupe_into l []) d)
         (fold_left (fun d n => den_insert d n a) l d).
Proof.
  intros k. destruct (den_fold_closed a (dedupe_into l []) d k) as [A4 A6].
  destruct (den_fold_closed a l d k) as [B4 B6]. cbv zeta in *.
  rewrite A4, A6, B4, B6, existsb_dedupe. cbn [existsb orb]. split; reflexivity.
Qed.

Lemma agrees_den_eq h d d' : agrees h d -> den_eq d d' -> agrees h d'.
Proof. intros H E k. destruct (H k) as [H4 H6]. destruct (E k) as [E4 E6]. rewrite <- E4, <- E6. split; assumption. Qed.

(* ---- files ---- *)

Lemma wsc_noline w : Forall wsc w -> noline w.
Proof. intros H. eapply Forall_impl; [|exact H]. intros c Hc. apply wsc_facts in Hc. tauto. Qed.
Lemma field_noline f : Forall fieldc f -> noline f.
Proof. intros H. eapply Forall_impl; [|exact H]. intros c Hc. apply fieldc_facts in Hc. tauto. Qed.

Lemma noline_app a b : noline a -> noline b -> noline (a ++ b).
Proof. intros. apply Forall_app. split; assumption. Qed.

Lemma render_line_noline l : wf_shape l -> noline (render_line l).
Proof.
  destruct l as [ws|ws t|ws pre rest|m]; cbn [wf_shape render_line].
  - apply wsc_noline.
  - intros [H1 H2]. apply noline_app; [apply wsc_noline; assumption|]. constructor; [discriminate|assumption].
  - intros (H1 & [_ H2] & _ & H4). apply noline_app; [apply wsc_noline; assumption|].
    apply noline_app; [apply field_noline; assumption|]. constructor; [discriminate|assumption].
  - intros (Hl & [_ Ha] & _ & Hn & Ht & Hc).
    apply noline_app; [apply wsc_noline; assumption|].
    apply noline_app; [apply field_noline; assumption|].
    apply noline_app.
    + induction Hn as [|p ps (_ & Hw & [_ Hf]) _ IH]; [constructor|]. cbn [map concat].
      apply noline_app; [|exact IH]. apply noline_app; [apply wsc_noline|apply field_noline]; assumption.
    + apply noline_app; [apply wsc_noline; assumption|].
      destruct (m_comment m); cbn [render_comment]; [|constructor]. constructor; [discriminate|assumption].
Qed.

Lemma str_lines_render f : Forall (fun le => wf_line (fst le)) f ->
  str_lines (render f) = map (fun le => render_line (fst le)) f.
Proof.
  intros H. unfold str_lines, render.
  pose proof (str_lines_terminated (map (fun le => (render_line (fst le), snd le)) f) []) as S.
  rewrite !map_map in S. cbn [fst snd] in S. rewrite !app_nil_r in S. apply S.
  apply Forall_forall. intros x Hx. apply in_map_iff in Hx as (le & <- & Hle). cbn [fst].
  rewrite Forall_forall in H. destruct (H le Hle) as [Hs Hc]. split; [apply render_line_noline; exact Hs|exact Hc].
Qed.

Lemma deserialise_lines_valid ls : forall h d,
  Forall valid_line ls -> agrees h d -> nodup_keys h ->
  exists h', deserialise_lines (map render_line ls) h = Ok h'
             /\ agrees h' (fold_left denote_line ls d) /\ nodup_keys h'.
Proof.
  induction ls as [|l ls IH]; intros h d Hv Ha Hn.
  - exists h. split; [reflexivity|]. split; assumption.
  - inversion Hv as [|? ? [[Hs _] Hc] Hv']; subst. cbn [map deserialise_lines fold_left].
    rewrite (parse_valid_line l Hs Hc). cbn [bind]. unfold denote_line at 2.
    destruct (line_contrib l) as [|a dn|]; cbn [contrib_result]; try (apply IH; assumption).
    apply IH; [assumption| |apply nodup_fold; assumption].
    eapply agrees_den_eq; [apply agrees_fold; exact Ha|apply den_fold_dedupe].
Qed.

(* hosts_parse_denotes: reading the text of a file yields its meaning -- every mapping line
   maps its address to every name after it, '#' anywhere starts a comment, blank,
   comment-only and address-only lines contribute nothing, a line whose address has an
   interface suffix is skipped, later lines override earlier ones per (name, family) *)
Theorem hosts_parse_denotes f : Forall (fun le => valid_line (fst le)) f ->
  exists h, deserialise (render f) = Ok h /\ agrees h (denote f) /\ nodup_keys h.
Proof.
  intros Hv. unfold deserialise. rewrite str_lines_render.
  - rewrite <- map_map. apply deserialise_lines_valid.
    + apply Forall_forall. intros l Hl. apply in_map_iff in Hl as (le & <- & Hle).
      rewrite Forall_forall in Hv. apply Hv. exact Hle.
    + intros k. split; reflexivity.
    + split; constructor.
  - eapply Forall_impl; [|exact Hv]. intros le [Hw _]. exact Hw.
Qed.

(* hosts_errors: the first line that maps names but has a malformed address or a malformed
   name makes the whole file an error (earlier lines valid, later lines arbitrary lines) *)
Lemma deserialise_first_error f l e rest err :
  Forall (fun le => valid_line (fst le)) f -> wf_line l -> Forall (fun le => wf_line (fst le)) rest ->
  parse_line (render_line l) = Err err ->
  deserialise (render (f ++ (l, e) :: rest)) = Err err.
Proof.
  intros Hv Hl Hr Hp. unfold deserialise. rewrite str_lines_render.
  - rewrite map_app. cbn [map fst].
    assert (G : forall ls h, Forall valid_line ls -> forall tl,
              deserialise_lines (map render_line ls ++ render_line l :: tl) h = Err err).
    { induction ls as [|x ls IH]; intros h Hx tl0.
      - cbn [map app deserialise_lines]. rewrite Hp. reflexivity.
      - inversion Hx as [|? ? [[Hs _] Hc] Hx']; subst. cbn [map app deserialise_lines].
        rewrite (parse_valid_line x Hs Hc). cbn [bind].
        destruct (contrib_result (line_contrib x)) as [[a ns]|]; apply IH; assumption. }
    rewrite <- (map_map fst render_line f). apply G.
    apply Forall_forall. intros x Hx. apply in_map_iff in Hx as (le & <- & Hle).
    rewrite Forall_forall in Hv. apply Hv. exact Hle.
  - apply Forall_app. split.
    + eapply Forall_impl; [|exact Hv]. intros le [Hw _]. exact Hw.
    + constructor; assumption.
Qed.

Theorem hosts_errors_address f m e rest p names :
  Forall (fun le => valid_line (fst le)) f -> wf_line (Map m) -> Forall (fun le => wf_line (fst le)) rest ->
  m_names m = p :: names -> parse_ip (m_addr m) = None ->
  deserialise (render (f ++ (Map m, e) :: rest)) = Err (CouldNotParseAddress (m_addr m)).
Proof.
  intros Hv Hl Hr En Ha. apply deserialise_first_error; try assumption.
  rewrite parse_line_refines, (parse_map_line m p names (proj1 Hl) En), Ha. reflexivity.
Qed.

Theorem hosts_errors_name f m e rest a good ws bad more dn :
  Forall (fun le => valid_line (fst le)) f -> wf_line (Map m) -> Forall (fun le => wf_line (fst le)) rest ->
  m_names m = good ++ (ws, bad) :: more -> parse_ip (m_addr m) = Some a ->
  all_some (map (fun p => abs_name (snd p)) good) = Some dn -> abs_name bad = None ->
  deserialise (render (f ++ (Map m, e) :: rest)) = Err (CouldNotParseName bad).
Proof.
  intros Hv Hl Hr En Ha Hg Hb. apply deserialise_first_error; try assumption.
  pose proof Hl as [(_ & _ & _ & Hn0 & _) _].
  assert (Hn : Forall wf_pair (good ++ (ws, bad) :: more)) by (rewrite <- En; exact Hn0).
  assert (exists p names, m_names m = p :: names) as (p & names & E).
  { rewrite En. destruct good; eexists; eexists; reflexivity. }
  rewrite parse_line_refines, (parse_map_line m p names (proj1 Hl) E), Ha, En.
  rewrite map_app. cbn [map snd]. apply Forall_app in Hn as [Hg' Hb'].
  rewrite <- map_map in Hg.
  rewrite (finish_all_err (map snd good) bad (map snd more) dn []); [reflexivity| | |exact Hg|exact Hb].
  - apply Forall_forall. intros s Hs. apply in_map_iff in Hs as (q & <- & Hq).
    rewrite Forall_forall in Hg'. apply (Hg' q Hq).
  - inversion Hb' as [|? ? (_ & _ & [Hne _]) _]; subst. exact Hne.
Qed.

(* ====================================================================== *)
(* Part 5: serialise, then deserialise                                      *)
(* ====================================================================== *)

(* names whose text survives a hosts file: every label octet is a field character
   (ASCII, not white space, not '#') other than '.' *)
Definition safec (c : N) : Prop := fieldc c /\ c <> 46.
Definition safe_name (n : dname) : Prop := wf_name n /\ Forall (Forall safec) (labels n).

(* an IPv6 address whose printed form reads back (decidable; see IpProofs for the general fact) *)
Definition v6_ok (g : list N) : Prop :=
  parse_ip (show_v6 g) = Some (V6 g) /\ field (show_v6 g) /\ nopct (show_v6 g).

Definition text_safe (h : hosts) : Prop :=
  wf_hosts h
  /\ Forall (fun kv => safe_name (fst kv) /\ snd kv < 4294967296) (h_v4 h)
  /\ Forall (fun kv => safe_name (fst kv) /\ v6_ok (snd kv)) (h_v6 h).

Lemma ends_with_dot_snoc p c : ends_with_dot (p ++ [c]) = (c =? 46).
Proof.
  unfold ends_with_dot. rewrite rev_app_distr. cbn [rev app].
  destruct c as [|q]; [reflexivity|]. do 6 (try destruct q as [q|q|]); reflexivity.
Qed.

Lemma safe_ascii_nodot n : safe_name n -> ascii_nodot n.
Proof.
  intros [_ H]. unfold ascii_nodot. eapply Forall_impl; [|exact H]. intros l Hl.
  eapply Forall_impl; [|exact Hl]. intros c [(Hc & _) Hd]. split; assumption.
Qed.

Lemma fieldc_dot : fieldc 46.
Proof. unfold fieldc. repeat split; (reflexivity || discriminate). Qed.

Lemma dotjoin_fieldc f : Forall (Forall safec) f -> Forall fieldc (dotjoin f).
Proof.
  induction 1 as [|l f Hl _ IH]; [constructor|]. unfold dotjoin. cbn [map concat]. fold (dotjoin f).
  apply Forall_app. split; [|exact IH]. apply Forall_app. split.
  - eapply Forall_impl; [|exact Hl]. intros c [Hc _]. exact Hc.
  - constructor; [exact fieldc_dot|constructor].
Qed.

Lemma dotjoin_snoc f l : dotjoin (f ++ [l]) = dotjoin f ++ l ++ [46].
Proof. unfold dotjoin. rewrite map_app, concat_app. cbn [map concat]. rewrite app_nil_r. reflexivity. Qed.

(* the text serialise writes for a name: a field that reads back as the name *)
Lemma domain_str_ok n : safe_name n ->
  field (domain_str n) /\ abs_name (domain_str n) = Some n /\ (forall s, domain_str n <> s ++ [13]).
Proof.
  intros Hs. pose proof (safe_ascii_nodot n Hs) as Had. destruct Hs as [Hwf Hsafe].
  pose proof (dotted_roundtrip n Hwf Had) as Hrt.
  destruct (wf_name_dest n Hwf) as (front & -> & Hf & Hlen).
  cbn [labels] in Hsafe. apply Forall_app in Hsafe as [Hsafe _].
  destruct front as [|l0 f0].
  - (* the root *) cbn. split; [split; [discriminate|constructor; [exact fieldc_dot|constructor]]|].
    split; [reflexivity|]. intros s E. destruct s as [|x s]; [discriminate|]. destruct s; discriminate.
  - remember (l0 :: f0) as front eqn:Ef. assert (Hne : front <> []) by (rewrite Ef; discriminate).
    rewrite (to_dotted_nonroot front _ Hne (good_front_nonempty _ Hf)) in Hrt.
    assert (Hroot : is_root {| labels := front ++ [[]]; nlen := sum_lens (front ++ [[]]) |} = false).
    { rewrite Ef. unfold is_root. cbn [labels app]. destruct l0 as [|b l0].
      - exfalso. rewrite Ef in Hf. inversion Hf as [|? ? [Hl _] _]; subst. apply Hl. reflexivity.
      - cbn [label_is_empty]. apply andb_false_r. }
    unfold domain_str. rewrite Hroot. rewrite (to_dotted_nonroot front _ Hne (good_front_nonempty _ Hf)).
    destruct (exists_last Hne) as (f & l & Efl). rewrite Efl in *.
    rewrite dotjoin_snoc.
    apply Forall_app in Hsafe as [Hsf Hsl]. inversion Hsl as [|? ? Hl _]; subst.
    apply Forall_app in Hf as [_ Hfl]. inversion Hfl as [|? ? [Hlne _] _]; subst.
    destruct (exists_last Hlne) as (l' & c & ->).
    apply Forall_app in Hl as [Hl' Hc]. inversion Hc as [|? ? [Hcf Hcd] _]; subst.
    rewrite dotjoin_snoc in Hrt. rewrite !app_assoc in Hrt.
    rewrite !app_assoc, removelast_last.
    split; [|split].
    + split; [intros H0; apply app_eq_nil in H0 as [_ H0]; discriminate|].
      apply Forall_app. split; [|constructor; [exact Hcf|constructor]].
      apply Forall_app. split; [apply dotjoin_fieldc; exact Hsf|].
      eapply Forall_impl; [|exact Hl']. intros x [Hx _]. exact Hx.
    + unfold abs_name. rewrite ends_with_dot_snoc.
      assert (c =? 46 = false) as -> by (apply N.eqb_neq; exact Hcd).
      exact Hrt.
    + intros s Es. apply app_inj_tail in Es as [_ ->]. destruct Hcf as (_ & _ & _ & _ & _ & H13 & _). apply H13. reflexivity.
Qed.

(* the lines serialise writes for one name *)
Definition mkline (addr ds : list N) : mline :=
  {| m_lead := []; m_addr := addr; m_names := [([32], ds)]; m_trail := []; m_comment := None |}.

Definition lines_of (h : hosts) (n : dname) : file :=
  (match alookup dname_eqb n (h_v4 h) with
   | Some a => [(Map (mkline (show_v4 a) (domain_str n)), LF)]
   | None => []
   end)
  ++ (match alookup dname_eqb n (h_v6 h) with
      | Some a => [(Map (mkline (show_v6 a) (domain_str n)), LF)]
      | None => []
      end)
  ++ [(Blank [], LF)].

Lemma render_app f g : render (f ++ g) = render f ++ render g.
Proof. unfold render. rewrite map_app, concat_app. reflexivity. Qed.

Lemma render_mkline addr ds : render_line (Map (mkline addr ds)) = addr ++ 32 :: ds.
Proof. cbn. rewrite !app_nil_r. reflexivity. Qed.

Lemma render_lines_of h n : render (lines_of h n) = serialise_one h n.
Proof.
  unfold lines_of, serialise_one. rewrite !render_app.
  f_equal; [|f_equal].
  - destruct (alookup dname_eqb n (h_v4 h)); [|reflexivity].
    unfold render. cbn [map concat fst snd render_eol]. rewrite render_mkline, app_nil_r, <- app_assoc. reflexivity.
  - destruct (alookup dname_eqb n (h_v6 h)); [|reflexivity].
    unfold render. cbn [map concat fst snd render_eol]. rewrite render_mkline, app_nil_r, <- app_assoc. reflexivity.
Qed.

Lemma render_flat_lines h L : render (flat_map (lines_of h) L) = flat_map (serialise_one h) L.
Proof.
  induction L as [|n L IH]; [reflexivity|]. cbn [flat_map]. rewrite render_app, render_lines_of, IH. reflexivity.
Qed.

Lemma digit_fieldc c : is_digit c = true -> fieldc c.
Proof. intros H. apply is_digit_range in H. unfold fieldc. repeat split; lia. Qed.

Lemma show_v4_field a : field (show_v4 a) /\ nopct (show_v4 a).
Proof.
  pose proof (show_v4_chars a) as H. split; [split|].
  - unfold show_v4. destruct (show_dec ((a / 16777216) mod 256)); discriminate.
  - eapply Forall_impl; [|exact H]. intros c [Hc| ->]; [apply digit_fieldc; exact Hc|exact fieldc_dot].
  - unfold nopct. destruct (show_v4 a) as [|c t]; [constructor|]. inversion H; subst. cbn [tl].
    eapply Forall_impl; [|eassumption]. intros x [Hx| ->]; [|discriminate]. apply is_digit_range in Hx. lia.
Qed.

Lemma in_alookup {V} k (v : V) m : alookup dname_eqb k m = Some v -> In (k, v) m.
Proof.
  induction m as [|[k0 v0] m IH]; cbn [alookup]; [discriminate|].
  destruct (dname_eqb_spec k k0) as [->|]; [intros [= ->]; left; reflexivity|]. intros H. right. apply IH. exact H.
Qed.

Lemma mkline_valid addr ds a n :
  field addr -> nopct addr -> parse_ip addr = Some a ->
  field ds -> abs_name ds = Some n -> (forall s, ds <> s ++ [13]) ->
  valid_line (Map (mkline addr ds)) /\ line_contrib (Map (mkline addr ds)) = CMaps a [n].
Proof.
  intros Hf Hp Ha Hd Hn Hcr.
  assert (C : line_contrib (Map (mkline addr ds)) = CMaps a [n]).
  { cbn [line_contrib mkline m_names m_addr map snd all_some]. rewrite Ha, Hn. reflexivity. }
  split; [|exact C]. split; [split|rewrite C; discriminate].
  - cbn [wf_shape]. unfold wf_mline. cbn [mkline m_lead m_addr m_names m_trail m_comment].
    split; [constructor|]. split; [exact Hf|]. split; [exact Hp|]. split; [|split; [constructor|exact I]].
    constructor; [|constructor]. cbn [fst snd]. split; [discriminate|]. split; [|exact Hd].
    constructor; [|constructor]. right. right. right. right. reflexivity.
  - intros s E. rewrite render_mkline in E.
    destruct Hd as [Hdne _]. destruct (exists_last Hdne) as (d' & c & ->).
    change (addr ++ 32 :: d' ++ [c]) with (addr ++ (32 :: d') ++ [c]) in E. rewrite app_assoc in E.
    apply app_inj_tail in E as [_ ->]. apply (Hcr d'). reflexivity.
Qed.

Lemma lines_of_valid h n : text_safe h ->
  Forall (fun le => valid_line (fst le)) (lines_of h n)
  /\ forall d, den_eq (fold_left denote_line (map fst (lines_of h n)) d)
                      {| d4 := (fun k => if dname_eqb k n then match alookup dname_eqb n (h_v4 h) with Some a => Some a | None => d4 d k end else d4 d k);
                         d6 := (fun k => if dname_eqb k n then match alookup dname_eqb n (h_v6 h) with Some a => Some a | None => d6 d k end else d6 d k) |}.
Proof.
  intros (_ & S4 & S6). unfold lines_of.
  assert (B : valid_line (Blank []) /\ line_contrib (Blank []) = CNothing).
  { split; [|reflexivity]. split; [split; [constructor|]|discriminate]. intros s E. destruct s; discriminate. }
  destruct (alookup dname_eqb n (h_v4 h)) as [a4|] eqn:E4; destruct (alookup dname_eqb n (h_v6 h)) as [a6|] eqn:E6.
  all: try (apply in_alookup in E4; rewrite Forall_forall in S4; destruct (S4 _ E4) as [Hsn Ha4]; cbn [fst snd] in Hsn, Ha4).
  all: try (apply in_alookup in E6; rewrite Forall_forall in S6; destruct (S6 _ E6) as [Hsn6 (Hp6 & Hf6 & Hn6)]; cbn [fst snd] in Hsn6, Hp6, Hf6, Hn6).
  all: try (destruct (domain_str_ok n Hsn) as (Dd & Da & Dc)).
  all: try (destruct (domain_str_ok n Hsn6) as (Dd & Da & Dc)).
  all: try (destruct (show_v4_field a4) as [F4 P4];
            destruct (mkline_valid (show_v4 a4) (domain_str n) (V4 a4) n F4 P4 (ipv4_roundtrip_ip a4 Ha4) Dd Da Dc) as [V4l C4]).
  all: try (destruct (mkline_valid (show_v6 a6) (domain_str n) (V6 a6) n Hf6 Hn6 Hp6 Dd Da Dc) as [V6l C6]).
  all: cbn [app map fst fold_left]; (split; [repeat (apply Forall_cons; [cbn [fst]; tauto|]); apply Forall_nil|]).
  all: intros d k; unfold denote_line; rewrite ?C4, ?C6; cbn [line_contrib fold_left den_insert d4 d6]; unfold upd;
       destruct (dname_eqb k n); split; reflexivity.
Qed.

Lemma sort_insert_perm x l : Permutation (sort_insert x l) (x :: l).
Proof.
  induction l as [|y l IH]; cbn [sort_insert]; [apply Permutation_refl|].
  destruct (dname_leb x y); [apply Permutation_refl|].
  eapply Permutation_trans; [apply perm_skip; exact IH|]. apply perm_swap.
Qed.

Lemma sort_names_perm l : Permutation (sort_names l) l.
Proof.
  induction l as [|x l IH]; [apply Permutation_refl|]. unfold sort_names. cbn [fold_right]. fold (sort_names l).
  eapply Permutation_trans; [apply sort_insert_perm|]. apply perm_skip. exact IH.
Qed.

Lemma existsb_perm {A} (f : A -> bool) l l' : Permutation l l' -> existsb f l = existsb f l'.
Proof.
  intros P. destruct (existsb f l) eqn:E; destruct (existsb f l') eqn:E'; try reflexivity.
  - apply existsb_exists in E as (x & Hx & Hf). assert (existsb f l' = true) by (apply existsb_exists; exists x; split; [eapply Permutation_in; eassumption|exact Hf]). congruence.
  - apply existsb_exists in E' as (x & Hx & Hf). assert (existsb f l = true) by (apply existsb_exists; exists x; split; [eapply Permutation_in; [symmetry; eassumption|exact Hx]|exact Hf]). congruence.
Qed.

Lemma alookup_some_key {V} k (v : V) m : alookup dname_eqb k m = Some v -> existsb (dname_eqb k) (map fst m) = true.
Proof.
  induction m as [|[k0 v0] m IH]; cbn [alookup map fst existsb]; [discriminate|].
  destruct (dname_eqb k k0); [reflexivity|]. exact IH.
Qed.

Lemma den_insert_eq d d' n a : den_eq d d' -> den_eq (den_insert d n a) (den_insert d' n a).
Proof.
  intros E k. destruct (E k) as [E4 E6]. destruct a; cbn [den_insert d4 d6]; unfold upd; rewrite ?E4, ?E6; split; reflexivity.
Qed.

Lemma denote_line_eq d d' l : den_eq d d' -> den_eq (denote_line d l) (denote_line d' l).
Proof.
  intros E. unfold denote_line. destruct (line_contrib l) as [|a ns|]; try exact E.
  revert d d' E. induction ns as [|n ns IH]; intros d d' E; [exact E|]. cbn [fold_left]. apply IH. apply den_insert_eq. exact E.
Qed.

Lemma denote_fold_eq ls : forall d d', den_eq d d' -> den_eq (fold_left denote_line ls d) (fold_left denote_line ls d').
Proof.
  induction ls as [|l ls IH]; intros d d' E; [exact E|]. cbn [fold_left]. apply IH. apply denote_line_eq. exact E.
Qed.

Lemma den_lines_closed h L : text_safe h -> forall d k,
  let d' := fold_left denote_line (map fst (flat_map (lines_of h) L)) d in
  d4 d' k = (if existsb (dname_eqb k) L
             then match alookup dname_eqb k (h_v4 h) with Some a => Some a | None => d4 d k end
             else d4 d k)
  /\ d6 d' k = (if existsb (dname_eqb k) L
                then match alookup dname_eqb k (h_v6 h) with Some a => Some a | None => d6 d k end
                else d6 d k).
Proof.
  intros Hs. induction L as [|n L IH]; intros d k; cbv zeta; [split; reflexivity|].
  cbn [flat_map existsb]. rewrite map_app, fold_left_app.
  destruct (lines_of_valid h n Hs) as [_ Hn].
  destruct (denote_fold_eq (map fst (flat_map (lines_of h) L)) _ _ (Hn d) k) as [F4 F6].
  rewrite F4, F6. cbv zeta in IH. destruct (IH
    {| d4 := fun k0 => if dname_eqb k0 n then match alookup dname_eqb n (h_v4 h) with Some a => Some a | None => d4 d k0 end else d4 d k0;
       d6 := fun k0 => if dname_eqb k0 n then match alookup dname_eqb n (h_v6 h) with Some a => Some a | None => d6 d k0 end else d6 d k0 |} k) as [I4 I6].
  rewrite I4, I6. cbn [d4 d6].
  destruct (dname_eqb_spec k n) as [->|Hne]; cbn [orb].
  - destruct (existsb (dname_eqb n) L); split;
      try (destruct (alookup dname_eqb n (h_v4 h)); reflexivity); try (destruct (alookup dname_eqb n (h_v6 h)); reflexivity).
  - destruct (existsb (dname_eqb k) L); split; reflexivity.
Qed.

(* hosts_roundtrip: what serialise writes reads back as the same mappings, for hosts data
   whose names are text-safe (well-formed, label octets ASCII other than white space, '#'
   and '.') -- which is what every name read from a hosts file is -- and whose addresses
   are in range *)
Theorem hosts_roundtrip h : text_safe h ->
  exists h', deserialise (serialise h) = Ok h'
             /\ (forall k, alookup dname_eqb k (h_v4 h') = alookup dname_eqb k (h_v4 h)
                           /\ alookup dname_eqb k (h_v6 h') = alookup dname_eqb k (h_v6 h))
             /\ nodup_keys h'.
Proof.
  intros Hs. unfold serialise. rewrite <- render_flat_lines.
  destruct (hosts_parse_denotes (flat_map (lines_of h) (sort_names (key_set h)))) as (h' & Hd & Ha & Hn).
  { apply Forall_forall. intros le Hle. apply in_flat_map in Hle as (n & _ & Hle).
    destruct (lines_of_valid h n Hs) as [Hv _]. rewrite Forall_forall in Hv. apply Hv. exact Hle. }
  exists h'. split; [exact Hd|]. split; [|exact Hn].
  intros k. destruct (Ha k) as [A4 A6]. rewrite A4, A6. unfold denote.
  destruct (den_lines_closed h (sort_names (key_set h)) Hs hden_empty k) as [C4 C6]. cbv zeta in C4, C6.
  rewrite C4, C6. cbn [hden_empty d4 d6].
  rewrite (existsb_perm _ _ _ (sort_names_perm (key_set h))).
  unfold key_set. fold (dedupe_into (map fst (h_v4 h) ++ map fst (h_v6 h)) []).
  rewrite existsb_dedupe, existsb_app. cbn [existsb orb].
  split.
  - destruct (alookup dname_eqb k (h_v4 h)) as [a|] eqn:E.
    + rewrite (alookup_some_key k a _ E). reflexivity.
    + destruct (existsb (dname_eqb k) (map fst (h_v4 h)) || existsb (dname_eqb k) (map fst (h_v6 h))); reflexivity.
  - destruct (alookup dname_eqb k (h_v6 h)) as [a|] eqn:E.
    + rewrite (alookup_some_key k a _ E), orb_true_r. reflexivity.
    + destruct (existsb (dname_eqb k) (map fst (h_v4 h)) || existsb (dname_eqb k) (map fst (h_v6 h))); reflexivity.
Qed.

(* ====================================================================== *)
(* Examples: the hypotheses of the theorems above are satisfiable           *)
(* ====================================================================== *)

Ltac solve_chars := repeat (first [apply Forall_nil | apply Forall_cons | split | discriminate | reflexivity]).

Lemma ex_foo_wf : wf_name ex_foo.
Proof. apply (dotted_wf [102;111;111;46]); [solve_chars|reflexivity]. Qed.
Lemma ex_barfoo_wf : wf_name ex_barfoo.
Proof. apply (dotted_wf [98;97;114;46;102;111;111;46]); [solve_chars|reflexivity]. Qed.

Lemma ex_foo_safe : safe_name ex_foo.
Proof. split; [exact ex_foo_wf|]. cbn [ex_foo mk labels]. unfold safec, fieldc. solve_chars. Qed.
Lemma ex_barfoo_safe : safe_name ex_barfoo.
Proof. split; [exact ex_barfoo_wf|]. cbn [ex_barfoo mk labels]. unfold safec, fieldc. solve_chars. Qed.

Lemma ex_foo_neq : ex_foo <> ex_barfoo.
Proof. discriminate. Qed.

Example ex_hosts_wf : wf_hosts ex_hosts.
Proof.
  unfold wf_hosts, ex_hosts. cbn [h_v4 h_v6 map fst].
  split; [constructor; [exact ex_foo_wf|constructor; [exact ex_barfoo_wf|constructor]]|].
  split; [constructor; [exact ex_foo_wf|constructor]|].
  split.
  - constructor; [|constructor; [intros []|constructor]]. intros [H|[]]. symmetry in H. exact (ex_foo_neq H).
  - constructor; [intros []|constructor].
Qed.

Lemma ex_v6_ok : v6_ok [0;0;0;0;0;0;0;1].
Proof.
  unfold v6_ok. split; [vm_compute; reflexivity|].
  assert (E : show_v6 [0;0;0;0;0;0;0;1] = [58;58;49]) by (vm_compute; reflexivity). rewrite E.
  split; [split; [discriminate|unfold fieldc; solve_chars]|unfold nopct; cbn [tl]; solve_chars].
Qed.

Example ex_hosts_text_safe : text_safe ex_hosts.
Proof.
  split; [exact ex_hosts_wf|]. unfold ex_hosts. cbn [h_v4 h_v6]. split.
  - constructor; [split; [exact ex_foo_safe|reflexivity]|]. constructor; [split; [exact ex_barfoo_safe|reflexivity]|constructor].
  - constructor; [split; [exact ex_foo_safe|exact ex_v6_ok]|constructor].
Qed.

(* " 1.2.3.4 foo\tBar.#c" LF, "#é" CRLF, "fe80::1%eth0 x" LF, "::1 foo" LF, "zzz #c" LF *)
Definition ex_file : file :=
  [ (Map {| m_lead := [32]; m_addr := [49;46;50;46;51;46;52];
            m_names := [([32], [102;111;111]); ([9], [66;97;114;46])]; m_trail := []; m_comment := Some [99] |}, LF);
    (Comment [] [233], CRLF);
    (Scoped [] [102;101;56;48;58;58;49] [101;116;104;48;32;120], LF);
    (Map {| m_lead := []; m_addr := [58;58;49]; m_names := [([32;32], [102;111;111])]; m_trail := [13;32]; m_comment := None |}, LF);
    (Map {| m_lead := []; m_addr := [122;122;122]; m_names := []; m_trail := [32]; m_comment := Some [99] |}, LF) ].

Ltac no_trailing_cr :=
  let s := fresh "s" in let E := fresh "E" in
  intros s E; apply (f_equal (@rev N)) in E; rewrite rev_app_distr in E; vm_compute in E; discriminate E.

Example ex_file_valid : Forall (fun le => valid_line (fst le)) ex_file.
Proof.
  unfold ex_file. repeat (apply Forall_cons; [cbn [fst]|]); try apply Forall_nil.
  - split; [split; [|no_trailing_cr]|vm_compute; discriminate].
    cbn [wf_shape]. unfold wf_mline, field, nopct, noline, wsc, fieldc. cbn [m_lead m_addr m_names m_trail m_comment tl fst snd].
    solve_chars; try (right; right; right; right; reflexivity); left; reflexivity.
  - split; [split; [|no_trailing_cr]|vm_compute; discriminate]. cbn [wf_shape]. unfold noline. solve_chars.
  - split; [split; [|no_trailing_cr]|vm_compute; discriminate]. cbn [wf_shape]. unfold field, noline, fieldc. solve_chars.
  - split; [split; [|no_trailing_cr]|vm_compute; discriminate].
    cbn [wf_shape]. unfold wf_mline, field, nopct, noline, wsc, fieldc. cbn [m_lead m_addr m_names m_trail m_comment tl fst snd].
    solve_chars; try (right; right; right; right; reflexivity); right; right; right; left; reflexivity.
  - split; [split; [|no_trailing_cr]|vm_compute; discriminate].
    cbn [wf_shape]. unfold wf_mline, field, nopct, noline, wsc, fieldc. cbn [m_lead m_addr m_names m_trail m_comment tl fst snd].
    solve_chars; right; right; right; right; reflexivity.
Qed.

Example ex_file_parses :
  deserialise (render ex_file)
  = Ok {| h_v4 := [(ex_foo, 16909060); (mk [[98;97;114]; []], 16909060)]; h_v6 := [(ex_foo, [0;0;0;0;0;0;0;1])] |}.
Proof. vm_compute. reflexivity. Qed.

(* the witness of the former finding address-only-malformed-line-rejected (fixed by 25db594):
   "zzz \n1.2.3.4 foo" now reads as one mapping ... *)
Example ex_bad_address_only_ignored :
  deserialise [122;122;122;32;10; 49;46;50;46;51;46;52;32;102;111;111]
  = Ok {| h_v4 := [(ex_foo, 16909060)]; h_v6 := [] |}.
Proof. vm_compute. reflexivity. Qed.
(* ... while "zzz foo" and "zzz a..b" (the address error wins over the name error) are still errors *)
Example ex_bad_address_with_name :
  deserialise [122;122;122;32;102;111;111] = Err (CouldNotParseAddress [122;122;122])
  /\ deserialise [122;122;122;32;97;46;46;98] = Err (CouldNotParseAddress [122;122;122]).
Proof. split; vm_compute; reflexivity. Qed.

(* ====================================================================== *)
(* Part 6: lookups in the converted zone                                   *)
(* ====================================================================== *)

Section GenericAssoc.
  Context {K V : Type} (eqb : K -> K -> bool) (eqb_spec : forall a b, reflect (a = b) (eqb a b)).

  Lemma g_alookup_app k (m1 m2 : list (K * V)) :
    alookup eqb k (m1 ++ m2) = match alookup eqb k m1 with Some v => Some v | None => alookup eqb k m2 end.
  Proof.
    induction m1 as [|[k0 v0] m1 IH]; [reflexivity|]. cbn [app alookup].
    destruct (eqb k k0); [reflexivity|exact IH].
  Qed.

  Lemma g_alookup_areplace k k' (v : V) m :
    alookup eqb k m <> None ->
    alookup eqb k' (areplace eqb k v m) = if eqb k' k then Some v else alookup eqb k' m.
  Proof.
    induction m as [|[k0 v0] m IH]; cbn [alookup areplace]; [congruence|].
    destruct (eqb_spec k k0) as [->|Hne].
    - intros _. cbn [alookup]. destruct (eqb_spec k' k0); reflexivity.
    - intros H. cbn [alookup]. destruct (eqb_spec k' k0) as [->|Hne'].
      + destruct (eqb_spec k0 k); [congruence|reflexivity].
      + apply IH. exact H.
  Qed.
End GenericAssoc.

Lemma leqb_spec a b : reflect (a = b) (leqb a b).
Proof.
  destruct (leqb a b) eqn:E; constructor.
  - apply leqb_eq. exact E.
  - intros H. apply leqb_eq in H. congruence.
Qed.

Lemma rmap_insert_lookup t (m : rmap) new :
  alookup N.eqb t (rmap_insert m new) =
  if t =? zr_type new
  then Some (match alookup N.eqb (zr_type new) m with
             | Some es => if existsb (zrec_eqb new) es then es else es ++ [new]
             | None => [new]
             end)
  else alookup N.eqb t m.
Proof.
  unfold rmap_insert. destruct (alookup N.eqb (zr_type new) m) as [es|] eqn:E.
  - destruct (existsb (zrec_eqb new) es).
    + destruct (N.eqb_spec t (zr_type new)) as [->|]; [exact E|reflexivity].
    + rewrite (g_alookup_areplace N.eqb N.eqb_spec); [reflexivity|congruence].
  - rewrite (g_alookup_app N.eqb). cbn [alookup].
    destruct (N.eqb_spec t (zr_type new)) as [->|]; [rewrite E; reflexivity|].
    destruct (alookup N.eqb t m); reflexivity.
Qed.

(* the node at a path (labels nearest the apex first) and its own records *)
Fixpoint node_at (rp : list label) (nd : node) : option node :=
  match rp with
  | [] => Some nd
  | l :: rest => match alookup leqb l (n_children nd) with
                 | Some c => node_at rest c
                 | None => None
                 end
  end.
Definition this_at (rp : list label) (nd : node) : rmap :=
  match node_at rp nd with Some n => n_this n | None => [] end.

Lemma this_at_new rp nsd : this_at rp (node_new nsd) = [].
Proof. unfold this_at. destruct rp; reflexivity. Qed.

Lemma this_at_cons l rest nd :
  this_at (l :: rest) nd = match alookup leqb l (n_children nd) with Some c => this_at rest c | None => [] end.
Proof. unfold this_at. cbn [node_at]. destruct (alookup leqb l (n_children nd)); reflexivity. Qed.

Lemma node_insert_same rp : forall nd new nd',
  node_insert false rp new nd = Ok nd' ->
  exists n', node_at rp nd' = Some n' /\ n_this n' = rmap_insert (this_at rp nd) new.
Proof.
  induction rp as [|l rest IH]; intros [nsd this wild cs] new nd' H.
  - cbn [node_insert n_nsdname n_this n_wild n_children] in H. injection H as <-.
    eexists. split; reflexivity.
  - cbn [node_insert n_nsdname n_this n_wild n_children] in H. rewrite this_at_cons. cbn [n_children].
    destruct (alookup leqb l cs) as [child|] eqn:E.
    + destruct (node_insert false rest new child) as [child'| | |] eqn:Hc; cbn [bind] in H; try discriminate.
      injection H as <-. cbn [node_at n_children].
      rewrite (g_alookup_areplace leqb leqb_spec) by congruence.
      destruct (leqb_spec l l) as [_|Hn]; [|contradiction]. apply (IH child new child' Hc).
    + destruct (from_labels (l :: labels nsd)) as [nsd'|]; [|discriminate].
      destruct (node_insert false rest new (node_new nsd')) as [child'| | |] eqn:Hc; cbn [bind] in H; try discriminate.
      injection H as <-. cbn [node_at n_children].
      rewrite (g_alookup_app leqb), E. cbn [alookup].
      destruct (leqb_spec l l) as [_|Hn]; [|contradiction].
      destruct (IH _ new child' Hc) as (n' & Hn1 & Hn2). rewrite this_at_new in Hn2. exists n'. split; assumption.
Qed.

Lemma node_insert_other rp : forall rp' nd new nd',
  node_insert false rp new nd = Ok nd' -> rp' <> rp ->
  this_at rp' nd' = this_at rp' nd /\ (node_at rp' nd <> None -> node_at rp' nd' <> None).
Proof.
  induction rp as [|l rest IH]; intros rp' [nsd this wild cs] new nd' H Hne.
  - cbn [node_insert n_nsdname n_this n_wild n_children] in H. injection H as <-.
    destruct rp' as [|l' rest']; [contradiction|]. split; [reflexivity|]. intros X. exact X.
  - cbn [node_insert n_nsdname n_this n_wild n_children] in H.
    destruct (alookup leqb l cs) as [child|] eqn:E.
    + destruct (node_insert false rest new child) as [child'| | |] eqn:Hc; cbn [bind] in H; try discriminate.
      injection H as <-. destruct rp' as [|l' rest'].
      * split; [reflexivity|]. intros _. discriminate.
      * rewrite !this_at_cons. cbn [node_at n_children].
        rewrite (g_alookup_areplace leqb leqb_spec) by congruence.
        destruct (leqb_spec l' l) as [->|Hl].
        -- rewrite E. apply (IH rest' child new child' Hc). intros ->. apply Hne. reflexivity.
        -- split; [reflexivity|]. intros X. exact X.
    + destruct (from_labels (l :: labels nsd)) as [nsd'|]; [|discriminate].
      destruct (node_insert false rest new (node_new nsd')) as [child'| | |] eqn:Hc; cbn [bind] in H; try discriminate.
      injection H as <-. destruct rp' as [|l' rest'].
      * split; [reflexivity|]. intros _. discriminate.
      * rewrite !this_at_cons. cbn [node_at n_children].
        rewrite (g_alookup_app leqb). cbn [alookup].
        destruct (alookup leqb l' cs) as [c|] eqn:E'; [split; [reflexivity|intros X; exact X]|].
        destruct (leqb_spec l' l) as [->|Hl].
        -- destruct (IH rest' _ new child' Hc) as [I1 _]; [intros ->; apply Hne; reflexivity|].
           rewrite I1, this_at_new. split; [reflexivity|]. intros X. contradiction.
        -- split; [reflexivity|]. intros X. contradiction.
Qed.

(* the lookup at an existing node *)
Lemma node_resolve_at rp : forall nd name qt ia n,
  node_at rp nd = Some n ->
  node_resolve name qt rp nd ia
  = zone_result_helper name qt (n_this n) (n_nsdname n) (match rp with [] => negb ia | _ => true end).
Proof.
  induction rp as [|l rest IH]; intros nd name qt ia n H.
  - cbn [node_at] in H. injection H as <-. reflexivity.
  - cbn [node_at] in H. cbn [node_resolve]. destruct (alookup leqb l (n_children nd)) as [c|]; [|discriminate].
    rewrite (IH c name qt false n H). destruct rest; reflexivity.
Qed.

Lemma helper_address name qt records nsd cd :
  qt = RT_A \/ qt = RT_AAAA ->
  alookup N.eqb RT_NS records = None -> alookup N.eqb RT_CNAME records = None ->
  zone_result_helper name qt records nsd cd
  = Ok (ZAnswer (match alookup N.eqb qt records with
                 | Some zs => map (fun z => zr_to_rr z name) zs
                 | None => []
                 end)).
Proof.
  intros Hq Hns Hcn. unfold zone_result_helper. rewrite Hns, Hcn. cbn [is_nil negb].
  rewrite andb_false_r. destruct Hq as [-> | ->]; reflexivity.
Qed.

Definition rp_of (n : dname) : list label := rev (removelast (labels n)).

Lemma rp_of_front n (front : list label) : labels n = front ++ rootl -> rp_of n = rev front.
Proof. intros E. unfold rp_of. rewrite E. unfold rootl. rewrite removelast_last. reflexivity. Qed.

Lemma rp_of_inj n n' : wf_name n -> wf_name n' -> rp_of n = rp_of n' -> n = n'.
Proof.
  intros H H' E. destruct (wf_name_front n H) as (f & Ef). destruct (wf_name_front n' H') as (f' & Ef').
  rewrite (rp_of_front n f Ef), (rp_of_front n' f' Ef') in E.
  apply (f_equal (@rev label)) in E. rewrite !rev_involutive in E. subst f'.
  rewrite <- (mk_of_wf n H), <- (mk_of_wf n' H'), Ef, Ef'. reflexivity.
Qed.

Definition cell (z : zone) (rp : list label) (t : N) : option (list zrec) :=
  alookup N.eqb t (this_at rp (z_records z)).
Definition present (z : zone) (rp : list label) : Prop := node_at rp (z_records z) <> None.

Lemma zone_insert_cells z n ty d z' : zinv z -> wf_name n ->
  zone_insert false z n ty d HOSTS_TTL = Ok z' ->
  present z' (rp_of n)
  /\ (forall t, cell z' (rp_of n) t =
                if t =? ty
                then Some (match cell z (rp_of n) ty with
                           | Some es => if existsb (zrec_eqb (hrec ty d)) es then es else es ++ [hrec ty d]
                           | None => [hrec ty d]
                           end)
                else cell z (rp_of n) t)
  /\ (forall rp t, rp <> rp_of n -> cell z' rp t = cell z rp t)
  /\ (forall rp, present z rp -> present z' rp).
Proof.
  intros (Ha & Hs & Hwn & Hw) Hn Hins.
  destruct (wf_name_front n Hn) as (front & E).
  unfold zone_insert in Hins. rewrite (relative_rp_root z n front Ha E) in Hins.
  assert (Ht : actual_ttl z HOSTS_TTL = HOSTS_TTL) by (unfold actual_ttl; rewrite Hs; reflexivity).
  rewrite Ht in Hins. fold (hrec ty d) in Hins.
  destruct (node_insert false (rev front) (hrec ty d) (z_records z)) as [nd'| | |] eqn:Hnd; cbn [bind] in Hins; try discriminate.
  injection Hins as <-. rewrite (rp_of_front n front E). unfold cell, present. cbn [z_records].
  destruct (node_insert_same _ _ _ _ Hnd) as (n' & Hat & Hthis).
  split; [rewrite Hat; discriminate|]. split; [|split].
  - intros t. unfold this_at at 1. rewrite Hat, Hthis, rmap_insert_lookup. cbn [hrec zr_type]. reflexivity.
  - intros rp t Hne. destruct (node_insert_other _ rp _ _ _ Hnd Hne) as [-> _]. reflexivity.
  - intros rp Hp. destruct (list_eq_dec (list_eq_dec N.eq_dec) rp (rev front)) as [->|Hne].
    + rewrite Hat. discriminate.
    + destruct (node_insert_other _ rp _ _ _ Hnd Hne) as [_ X]. apply X. exact Hp.
Qed.

Section InsertAllCells.
  Context {V : Type} (ty : N) (mkd : V -> rdata).

  Lemma zone_insert_all_cells (m : list (dname * V)) : forall z z',
    zinv z -> Forall (fun kv => wf_name (fst kv)) m -> NoDup (map fst m) ->
    (forall kv, In kv m -> cell z (rp_of (fst kv)) ty = None) ->
    zone_insert_all ty mkd m z = Ok z' ->
    (forall kv, In kv m -> present z' (rp_of (fst kv))
                           /\ cell z' (rp_of (fst kv)) ty = Some [hrec ty (mkd (snd kv))])
    /\ (forall rp t, t <> ty -> cell z' rp t = cell z rp t)
    /\ (forall rp, (forall kv, In kv m -> rp <> rp_of (fst kv)) -> cell z' rp ty = cell z rp ty)
    /\ (forall rp, present z rp -> present z' rp).
  Proof.
    induction m as [|[n a] m IH]; intros z z' Hz Hwf Hnd Hfresh Hall.
    - cbn [zone_insert_all] in Hall. injection Hall as <-.
      split; [intros kv []|]. split; [reflexivity|]. split; [reflexivity|]. intros rp X. exact X.
    - cbn [zone_insert_all] in Hall. inversion Hwf as [|? ? Hn Hwf']; subst. inversion Hnd as [|? ? Hnin Hnd']; subst.
      cbn [fst] in *.
      destruct (zone_insert_pairs z n ty (mkd a) Hz Hn) as (z1 & Hins & Hz1 & _).
      rewrite Hins in Hall. cbn [bind] in Hall.
      destruct (zone_insert_cells z n ty (mkd a) z1 Hz Hn Hins) as (Hp1 & Hc1 & Ho1 & Hk1).
      assert (Hdiff : forall kv, In kv m -> rp_of (fst kv) <> rp_of n).
      { intros kv Hkv Heq. apply Hnin. rewrite Forall_forall in Hwf'.
        rewrite <- (rp_of_inj (fst kv) n (Hwf' kv Hkv) Hn Heq). apply in_map. exact Hkv. }
      destruct (IH z1 z' Hz1 Hwf' Hnd') as (I1 & I2 & I3 & I4); [|exact Hall|].
      { intros kv Hkv. rewrite (Ho1 _ ty (Hdiff kv Hkv)). apply Hfresh. right. exact Hkv. }
      split; [|split; [|split]].
      + intros kv [<-|Hkv]; cbn [fst snd].
        * split; [apply I4; exact Hp1|].
          rewrite I3 by (intros kv Hkv Heq; apply (Hdiff kv Hkv); symmetry; exact Heq).
          rewrite Hc1, N.eqb_refl. pose proof (Hfresh (n, a) (or_introl eq_refl)) as Hf0. cbn [fst] in Hf0.
          rewrite Hf0. reflexivity.
        * apply I1. exact Hkv.
      + intros rp t Ht. rewrite (I2 rp t Ht).
        destruct (list_eq_dec (list_eq_dec N.eq_dec) rp (rp_of n)) as [->|Hne].
        * rewrite Hc1. apply N.eqb_neq in Ht. rewrite Ht. reflexivity.
        * apply Ho1. exact Hne.
      + intros rp Hrp. rewrite I3 by (intros kv Hkv; apply Hrp; right; exact Hkv).
        apply Ho1. apply (Hrp (n, a)). left. reflexivity.
      + intros rp Hp. apply I4. apply Hk1. exact Hp.
  Qed.
End InsertAllCells.

Definition rr_v4 (n : dname) (a : N) : rr :=
  {| rr_name := n; rr_type := RT_A; rr_class := RC_IN; rr_ttl := HOSTS_TTL; rr_data := RD_A a |}.
Definition rr_v6 (n : dname) (a : list N) : rr :=
  {| rr_name := n; rr_type := RT_AAAA; rr_class := RC_IN; rr_ttl := HOSTS_TTL; rr_data := RD_AAAA a |}.

Lemma zone_resolve_cell z n qt : zinv z -> wf_name n -> present z (rp_of n) ->
  qt = RT_A \/ qt = RT_AAAA ->
  cell z (rp_of n) RT_NS = None -> cell z (rp_of n) RT_CNAME = None ->
  zone_resolve z n qt
  = Some (Ok (ZAnswer (match cell z (rp_of n) qt with
                       | Some zs => map (fun r => zr_to_rr r n) zs
                       | None => []
                       end))).
Proof.
  intros (Ha & _) Hn Hp Hq Hns Hcn.
  destruct (wf_name_front n Hn) as (front & E).
  unfold zone_resolve. rewrite (relative_rp_root z n front Ha E). cbn [option_map].
  rewrite (rp_of_front n front E) in *. unfold present in Hp. unfold cell, this_at in *.
  destruct (node_at (rev front) (z_records z)) as [nn|] eqn:Hat; [|contradiction].
  rewrite (node_resolve_at _ _ n qt true nn Hat). rewrite (helper_address n qt _ _ _ Hq Hns Hcn). reflexivity.
Qed.

(* hosts_zone_resolves: in the zone made from hosts data, every mapped name resolves to
   exactly its address: one A record (TTL 5) for an IPv4 mapping, one AAAA record for an
   IPv6 mapping *)
Theorem hosts_zone_resolves h : wf_hosts h ->
  exists z, hosts_to_zone h = Ok z
            /\ (forall n a, In (n, a) (h_v4 h) -> zone_resolve z n RT_A = Some (Ok (ZAnswer [rr_v4 n a])))
            /\ (forall n a, In (n, a) (h_v6 h) -> zone_resolve z n RT_AAAA = Some (Ok (ZAnswer [rr_v6 n a]))).
Proof.
  intros (W4 & W6 & N4 & N6). unfold hosts_to_zone.
  destruct (zone_insert_all_pairs RT_A RD_A (h_v4 h) _ zinv_new W4 N4) as (z1 & H1 & Hz1 & _).
  { intros kv e _ []. }
  rewrite H1. cbn [bind].
  assert (Hnew : forall rp t, cell (zone_new root_domain None) rp t = None).
  { intros rp t. unfold cell. change (z_records (zone_new root_domain None)) with (node_new root_domain).
    rewrite this_at_new. reflexivity. }
  destruct (zone_insert_all_cells RT_A RD_A (h_v4 h) _ z1 zinv_new W4 N4 (fun kv _ => Hnew _ _) H1) as (A1 & A2 & A3 & A4).
  assert (Hty : RT_AAAA <> RT_A) by discriminate.
  destruct (zone_insert_all_pairs RT_AAAA RD_AAAA (h_v6 h) z1 Hz1 W6 N6) as (z2 & H2 & Hz2 & _).
  { intros kv e _ Hin Heq.
    destruct (zone_insert_all_pairs RT_A RD_A (h_v4 h) _ zinv_new W4 N4) as (z1' & H1' & _ & P1); [intros ? ? _ []|].
    rewrite H1 in H1'. injection H1' as <-. apply (Permutation_in _ P1) in Hin. rewrite app_nil_r in Hin.
    apply in_map_iff in Hin as (kv' & Hkv' & _). injection Hkv' as _ <-. cbn [hrec zr_type] in Heq. discriminate. }
  rewrite H2.
  assert (F6 : forall kv, In kv (h_v6 h) -> cell z1 (rp_of (fst kv)) RT_AAAA = None).
  { intros kv _. rewrite (A2 _ _ Hty). apply Hnew. }
  destruct (zone_insert_all_cells RT_AAAA RD_AAAA (h_v6 h) z1 z2 Hz1 W6 N6 F6 H2) as (B1 & B2 & B3 & B4).
  exists z2. split; [reflexivity|]. split.
  - intros n a Hin. destruct (A1 (n, a) Hin) as [Hp Hc]. cbn [fst snd] in Hp, Hc.
    rewrite Forall_forall in W4. pose proof (W4 _ Hin) as Hn. cbn [fst] in Hn.
    rewrite (zone_resolve_cell z2 n RT_A Hz2 Hn (B4 _ Hp) (or_introl eq_refl)).
    + rewrite (B2 _ RT_A) by discriminate. rewrite Hc. reflexivity.
    + rewrite (B2 _ RT_NS) by discriminate. rewrite (A2 _ RT_NS) by discriminate. apply Hnew.
    + rewrite (B2 _ RT_CNAME) by discriminate. rewrite (A2 _ RT_CNAME) by discriminate. apply Hnew.
  - intros n a Hin. destruct (B1 (n, a) Hin) as [Hp Hc]. cbn [fst snd] in Hp, Hc.
    rewrite Forall_forall in W6. pose proof (W6 _ Hin) as Hn. cbn [fst] in Hn.
    rewrite (zone_resolve_cell z2 n RT_AAAA Hz2 Hn Hp (or_intror eq_refl)).
    + rewrite Hc. reflexivity.
    + rewrite (B2 _ RT_NS) by discriminate. rewrite (A2 _ RT_NS) by discriminate. apply Hnew.
    + rewrite (B2 _ RT_CNAME) by discriminate. rewrite (A2 _ RT_CNAME) by discriminate. apply Hnew.
Qed.

(* ====================================================================== *)
(* Part 7: the IPv6 premise of hosts_roundtrip holds for every address      *)
(* ====================================================================== *)

Lemma addrc_fieldc c : addrc c -> fieldc c /\ c <> 37.
Proof.
  intros [H|[->| ->]].
  - unfold hexc in H. apply orb_true_iff in H as [H|H].
    + apply is_digit_range in H. unfold fieldc. repeat split; lia.
    + apply andb_true_iff in H as [H1 H2]. apply N.leb_le in H1, H2. unfold fieldc. repeat split; lia.
  - unfold fieldc. repeat split; (reflexivity || discriminate).
  - unfold fieldc. repeat split; (reflexivity || discriminate).
Qed.

Lemma v6_ok_of_wf g : wf_v6 g -> v6_ok g.
Proof.
  intros Hwf. destruct (show_v6_chars g Hwf) as [Hc Hne]. split; [apply ipv6_roundtrip; exact Hwf|]. split.
  - split; [exact Hne|]. eapply Forall_impl; [|exact Hc]. intros c Hcc. apply addrc_fieldc. exact Hcc.
  - unfold nopct. destruct (show_v6 g) as [|c t]; [constructor|]. inversion Hc; subst. cbn [tl].
    eapply Forall_impl; [|eassumption]. intros x Hx. apply addrc_fieldc. exact Hx.
Qed.

(* hosts data whose text is safe: unique keys, text-safe names, addresses in range *)
Definition text_safe_wf (h : hosts) : Prop :=
  wf_hosts h
  /\ Forall (fun kv => safe_name (fst kv) /\ snd kv < 4294967296) (h_v4 h)
  /\ Forall (fun kv => safe_name (fst kv) /\ wf_v6 (snd kv)) (h_v6 h).

Lemma text_safe_of_wf h : text_safe_wf h -> text_safe h.
Proof.
  intros (H & H4 & H6). split; [exact H|]. split; [exact H4|].
  eapply Forall_impl; [|exact H6]. intros kv [Hs Hw]. split; [exact Hs|apply v6_ok_of_wf; exact Hw].
Qed.

Theorem hosts_roundtrip_wf h : text_safe_wf h ->
  exists h', deserialise (serialise h) = Ok h'
             /\ (forall k, alookup dname_eqb k (h_v4 h') = alookup dname_eqb k (h_v4 h)
                           /\ alookup dname_eqb k (h_v6 h') = alookup dname_eqb k (h_v6 h))
             /\ nodup_keys h'.
Proof. intros H. apply hosts_roundtrip. apply text_safe_of_wf. exact H. Qed.

Example ex_hosts_text_safe_wf : text_safe_wf ex_hosts.
Proof.
  split; [exact ex_hosts_wf|]. unfold ex_hosts. cbn [h_v4 h_v6]. split.
  - constructor; [split; [exact ex_foo_safe|reflexivity]|]. constructor; [split; [exact ex_barfoo_safe|reflexivity]|constructor].
  - constructor; [|constructor]. split; [exact ex_foo_safe|]. split; [reflexivity|]. repeat (constructor; [reflexivity|]). constructor.
Qed.

(* ====================================================================== *)
(* Part 8: a file whose last line is not terminated                         *)
(* ====================================================================== *)

Lemma str_lines_render_open f last :
  Forall (fun le => wf_line (fst le)) f -> wf_shape last ->
  str_lines (render_open f last)
  = map (fun le => render_line (fst le)) f ++ match render_line last with [] => [] | l => [l] end.
Proof.
  intros H Hl. unfold str_lines, render_open, render.
  pose proof (str_lines_terminated (map (fun le => (render_line (fst le), snd le)) f) (render_line last)) as S.
  rewrite !map_map in S. cbn [fst snd] in S. rewrite S.
  - rewrite (lines_go_last _ [] (render_line_noline last Hl)). reflexivity.
  - apply Forall_forall. intros x Hx. apply in_map_iff in Hx as (le & <- & Hle). cbn [fst].
    rewrite Forall_forall in H. destruct (H le Hle) as [Hs Hc]. split; [apply render_line_noline; exact Hs|exact Hc].
Qed.

Theorem hosts_parse_denotes_open f last :
  Forall (fun le => valid_line (fst le)) f -> valid_line last ->
  exists h, deserialise (render_open f last) = Ok h /\ agrees h (denote (f ++ [(last, LF)])) /\ nodup_keys h.
Proof.
  intros Hv Hl. unfold deserialise. rewrite str_lines_render_open.
  2:{ eapply Forall_impl; [|exact Hv]. intros le [Hw _]. exact Hw. }
  2:{ apply Hl. }
  assert (Hvf : Forall valid_line (map fst f)).
  { apply Forall_forall. intros l Hin. apply in_map_iff in Hin as (le & <- & Hle).
    rewrite Forall_forall in Hv. apply Hv. exact Hle. }
  assert (A0 : agrees hosts_new hden_empty) by (intros k; split; reflexivity).
  assert (N0 : nodup_keys hosts_new) by (split; constructor).
  unfold denote. rewrite map_app. cbn [map fst]. rewrite fold_left_app. cbn [fold_left].
  destruct (render_line last) as [|c t] eqn:E.
  - rewrite app_nil_r, <- map_map.
    destruct (deserialise_lines_valid (map fst f) hosts_new hden_empty Hvf A0 N0) as (h & Hd & Ha & Hn).
    exists h. split; [exact Hd|]. split; [|exact Hn].
    destruct Hl as [[Hs _] Hc]. pose proof (parse_valid_line last Hs Hc) as P. rewrite E in P.
    assert (P0 : parse_line [] = Ok None) by reflexivity. rewrite P0 in P. injection P as P.
    unfold denote_line. destruct (line_contrib last); try exact Ha. discriminate P.
  - rewrite <- E, <- map_map.
    change (map render_line (map fst f) ++ [render_line last]) with (map render_line (map fst f) ++ map render_line [last]).
    rewrite <- map_app.
    destruct (deserialise_lines_valid (map fst f ++ [last]) hosts_new hden_empty) as (h & Hd & Ha & Hn); try assumption.
    { apply Forall_app. split; [exact Hvf|constructor; [exact Hl|constructor]]. }
    exists h. split; [exact Hd|]. split; [|exact Hn]. rewrite fold_left_app in Ha. exact Ha.
Qed.
