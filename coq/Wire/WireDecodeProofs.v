(* Wire/WireDecodeProofs.v -- C03: the decoder of Wire/WireModel.v (a model of
   protocol/deserialise.rs) is total, reports the message id in every error
   that can carry one, and accepts exactly the byte strings that the
   relational grammar of Wire/WireGrammar.v parses.

   Structure:
     1. cursor primitives on [at_offset bs p] (the cursor invariant
        crest c = skipn (cpos c) bs, cpos c <= |bs|)
     2. byte-level arithmetic by finite sweeps
     3. names: soundness, completeness (up to fuel), fuel bounds
     4. fields, RDATA, records, questions, sequences: soundness + completeness
     5. header
     6. decode_sound, decode_complete, decode_total, decode_err_id, decode_wf *)
From Coq Require Import ZArith.
From RV Require Import Base.Prelude Base.Cursor Name.NameModel Name.NameSpec Name.NameProofs
  Wire.WireTypes Wire.WireModel Wire.WireGrammar.
Open Scope N_scope.

Definition bytes_ok (l : list N) : Prop := Forall (fun b => b < 256) l.

(* neither of the two outcomes that no Rust execution has *)
Definition fine {E A} (r : res E A) : Prop := r <> Panic /\ r <> OutOfFuel.

Lemma fine_ok {E A} (a : A) : fine (@Ok E A a).
Proof. split; discriminate. Qed.
Lemma fine_err {E A} (e : E) : fine (@Err E A e).
Proof. split; discriminate. Qed.
#[local] Hint Resolve fine_ok fine_err : core.

(* close a goal with a hypothesis that differs only in position arithmetic *)
Ltac plia H :=
  exact H ||
  (match type of H with
   | ?P => match goal with
           | |- ?G => let e := fresh "e" in
                      assert (e : P = G) by (f_equal; lia); rewrite <- e; exact H
           end
   end).

(* ------------------------------------------------------------------ *)
(* 1. cursor primitives                                                *)
(* ------------------------------------------------------------------ *)

Lemma wd_llen_cons {A} (x : A) l : llen (x :: l) = 1 + llen l.
Proof. unfold llen; cbn [length]; lia. Qed.
Lemma wd_llen_app {A} (a b : list A) : llen (a ++ b) = llen a + llen b.
Proof. unfold llen; rewrite app_length; lia. Qed.
Lemma wd_llen_map {A B} (f : A -> B) l : llen (map f l) = llen l.
Proof. unfold llen; rewrite map_length; reflexivity. Qed.

Lemma skipn_nth {A} n : forall (l : list A),
  skipn n l = match nth_error l n with Some x => x :: skipn (S n) l | None => [] end.
Proof.
  induction n as [|n IH]; intros [|x t]; try reflexivity.
  cbn [nth_error]. rewrite <- IH. reflexivity.
Qed.

Lemma at_lt bs p b : at_ bs p = Some b -> p < llen bs.
Proof.
  unfold at_, nthN, llen. intro H.
  assert (N.to_nat p < length bs)%nat by (apply nth_error_Some; congruence). lia.
Qed.

Lemma at_byte bs p b : bytes_ok bs -> at_ bs p = Some b -> b < 256.
Proof.
  unfold at_, nthN. intros Hb H. apply nth_error_In in H.
  unfold bytes_ok in Hb. rewrite Forall_forall in Hb. apply Hb, H.
Qed.

Lemma crest_at bs p :
  crest (at_offset bs p)
  = match at_ bs p with Some b => b :: crest (at_offset bs (p + 1)) | None => [] end.
Proof.
  unfold at_offset, at_, nthN. cbn [crest]. rewrite skipn_nth.
  replace (N.to_nat (p + 1)) with (S (N.to_nat p)) by lia. reflexivity.
Qed.

Lemma next_u8_at bs p :
  next_u8 (at_offset bs p)
  = match at_ bs p with Some b => Some (b, at_offset bs (p + 1)) | None => None end.
Proof.
  unfold next_u8. rewrite crest_at. destruct (at_ bs p); reflexivity.
Qed.

Lemma next_u16_at bs p :
  next_u16 (at_offset bs p)
  = match at_ bs p, at_ bs (p + 1) with
    | Some a, Some b => Some (u16_be a b, at_offset bs (p + 2))
    | _, _ => None
    end.
Proof.
  unfold next_u16. rewrite crest_at. destruct (at_ bs p); [|reflexivity].
  rewrite crest_at. destruct (at_ bs (p + 1)); [|reflexivity].
  cbn [cpos at_offset]. replace (p + 1 + 1) with (p + 2) by lia. reflexivity.
Qed.

Lemma next_u32_at bs p :
  next_u32 (at_offset bs p)
  = match at_ bs p, at_ bs (p + 1), at_ bs (p + 2), at_ bs (p + 3) with
    | Some a, Some b, Some c, Some d => Some (u32_be a b c d, at_offset bs (p + 4))
    | _, _, _, _ => None
    end.
Proof.
  unfold next_u32. rewrite crest_at. destruct (at_ bs p); [|reflexivity].
  rewrite crest_at. destruct (at_ bs (p + 1)); [|reflexivity].
  replace (p + 1 + 1) with (p + 2) by lia.
  rewrite crest_at. destruct (at_ bs (p + 2)); [|reflexivity].
  replace (p + 2 + 1) with (p + 3) by lia.
  rewrite crest_at. destruct (at_ bs (p + 3)); [|reflexivity].
  cbn [cpos at_offset]. replace (p + 3 + 1) with (p + 4) by lia. reflexivity.
Qed.

Lemma split_exact_firstn {A} k : forall (l : list A),
  split_exact k l = if Nat.leb k (length l) then Some (firstn k l, skipn k l) else None.
Proof.
  induction k as [|k IH]; intros l; [reflexivity|].
  destruct l as [|x t]; [reflexivity|]. cbn [split_exact length Nat.leb firstn skipn].
  rewrite IH. destruct (Nat.leb k (length t)); reflexivity.
Qed.

Lemma wd_skipn_skipn {A} b : forall a (l : list A), skipn a (skipn b l) = skipn (b + a) l.
Proof.
  induction b as [|b IH]; intros a l; [reflexivity|].
  destruct l as [|x t]; [destruct a; reflexivity|]. cbn [skipn Nat.add]. apply IH.
Qed.

Lemma take_at bs p n : p <= llen bs ->
  take n (at_offset bs p)
  = match sliceN bs p n with Some os => Some (os, at_offset bs (p + n)) | None => None end.
Proof.
  intro Hp. unfold take, sliceN. rewrite split_exact_firstn. cbn [crest cpos at_offset].
  rewrite skipn_length.
  destruct (N.leb_spec (p + n) (llen bs)) as [Hle|Hgt].
  - rewrite (proj2 (Nat.leb_le _ _)) by (unfold llen in *; lia).
    rewrite wd_skipn_skipn. replace (N.to_nat p + N.to_nat n)%nat with (N.to_nat (p + n)) by lia.
    reflexivity.
  - rewrite (proj2 (Nat.leb_gt _ _)) by (unfold llen in *; lia). reflexivity.
Qed.

Lemma sliceN_spec {A} (l : list A) i n os :
  sliceN l i n = Some os -> llen os = n /\ i + n <= llen l /\ exists pre post, l = pre ++ os ++ post.
Proof.
  unfold sliceN. destruct (N.leb_spec (i + n) (llen l)) as [Hle|]; [|discriminate].
  intros [= <-]. split; [|split; [exact Hle|]].
  - unfold llen in *. rewrite firstn_length, skipn_length. lia.
  - exists (firstn (N.to_nat i) l), (skipn (N.to_nat n) (skipn (N.to_nat i) l)).
    rewrite firstn_skipn, firstn_skipn. reflexivity.
Qed.

Lemma sliceN_bytes l i n os : bytes_ok l -> sliceN l i n = Some os -> bytes_ok os.
Proof.
  intros Hb H. apply sliceN_spec in H as (_ & _ & pre & post & ->).
  unfold bytes_ok in *. apply Forall_app in Hb as [_ Hb]. apply Forall_app in Hb as [Hb _]. exact Hb.
Qed.

(* ------------------------------------------------------------------ *)
(* 2. finite sweeps over octets                                        *)
(* ------------------------------------------------------------------ *)

Lemma wd_sweep (P : N -> bool) (k : nat) :
  forallb P (map N.of_nat (seq 0 k)) = true -> forall x, x < N.of_nat k -> P x = true.
Proof.
  intros H x Hx. rewrite forallb_forall in H. apply H.
  apply in_map_iff. exists (N.to_nat x). split; [lia|]. apply in_seq. lia.
Qed.

Lemma land_63 s : 192 <= s -> s < 256 -> N.land s 63 = s - 192.
Proof.
  intros H1 H2.
  assert (H := wd_sweep (fun s => (s <? 192) || (N.land s 63 =? s - 192)) 256
                        ltac:(vm_compute; reflexivity) s H2). cbv beta in H.
  apply orb_true_iff in H as [H|H]; [apply N.ltb_lt in H; lia | apply N.eqb_eq in H; exact H].
Qed.

Lemma land_63_le s : s < 256 -> N.land s 63 <= 63.
Proof.
  intros H2.
  assert (H := wd_sweep (fun s => N.land s 63 <=? 63) 256 ltac:(vm_compute; reflexivity) s H2).
  cbv beta in H.
  apply N.leb_le in H. exact H.
Qed.

Definition header_bits_ok (f : N) : bool :=
  Bool.eqb (bit f HEADER_MASK_QR) (N.testbit f 7)
  && Bool.eqb (bit f HEADER_MASK_AA) (N.testbit f 2)
  && Bool.eqb (bit f HEADER_MASK_TC) (N.testbit f 1)
  && Bool.eqb (bit f HEADER_MASK_RD) (N.testbit f 0)
  && Bool.eqb (bit f HEADER_MASK_RA) (N.testbit f 7)
  && (N.land (N.shiftr (N.land f HEADER_MASK_OPCODE) HEADER_OFFSET_OPCODE) OPCODE_FROM_MASK =? (f / 8) mod 16)
  && (N.land (N.shiftr (N.land f HEADER_MASK_RCODE) HEADER_OFFSET_RCODE) RCODE_FROM_MASK =? f mod 16).

(* re-proved against the masks of the current source on every build *)
Lemma header_bits f : f < 256 ->
  bit f HEADER_MASK_QR = N.testbit f 7 /\ bit f HEADER_MASK_AA = N.testbit f 2
  /\ bit f HEADER_MASK_TC = N.testbit f 1 /\ bit f HEADER_MASK_RD = N.testbit f 0
  /\ bit f HEADER_MASK_RA = N.testbit f 7
  /\ N.land (N.shiftr (N.land f HEADER_MASK_OPCODE) HEADER_OFFSET_OPCODE) OPCODE_FROM_MASK = (f / 8) mod 16
  /\ N.land (N.shiftr (N.land f HEADER_MASK_RCODE) HEADER_OFFSET_RCODE) RCODE_FROM_MASK = f mod 16.
Proof.
  intro Hf.
  assert (H := wd_sweep header_bits_ok 256 ltac:(vm_compute; reflexivity) f Hf).
  unfold header_bits_ok in H. repeat rewrite andb_true_iff in H.
  destruct H as [[[[[[H1 H2] H3] H4] H5] H6] H7].
  apply eqb_prop in H1, H2, H3, H4, H5. apply N.eqb_eq in H6, H7. tauto.
Qed.

(* ------------------------------------------------------------------ *)
(* 3. names                                                            *)
(* ------------------------------------------------------------------ *)

Lemma sum_lens_cons l t : sum_lens (l :: t) = 1 + llen l + sum_lens t.
Proof. reflexivity. Qed.

Lemma name_finish_inv ls len c n c' : name_finish ls len c = Ok (n, c') ->
  n = {| labels := ls; nlen := len |} /\ c' = c /\ len <= 255.
Proof.
  unfold name_finish, DOMAINNAME_MAX_LEN. destruct (N.leb_spec len 255); [|discriminate].
  intros [= <- <-]. auto.
Qed.

Lemma name_finish_le ls len c : len <= 255 ->
  name_finish ls len c = Ok ({| labels := ls; nlen := len |}, c).
Proof.
  intro H. unfold name_finish, DOMAINNAME_MAX_LEN. destruct (N.leb_spec len 255); [reflexivity|lia].
Qed.

Lemma name_finish_fine ls len c : fine (name_finish ls len c).
Proof. unfold name_finish. destruct (len <=? DOMAINNAME_MAX_LEN); auto. Qed.

Section Names.
  Variable bs : list byte.
  Hypothesis Hbs : bytes_ok bs.

  (* what the recursive call (the name a pointer refers to) is assumed to satisfy *)
  Definition rec_sound (rec : N -> res werr_kind (dname * cur)) (start : N) : Prop :=
    forall ptr other cx, ptr < start -> rec ptr = Ok (other, cx) ->
      exists nx, NameAt bs ptr ptr (labels other) nx /\ nlen other = sum_lens (labels other).

  Lemma name_loop_sound rec start : rec_sound rec start ->
    forall lf pos len acc n c',
      name_loop rec start lf (at_offset bs pos) len acc = Ok (n, c') ->
      exists ls next, labels n = acc ++ ls /\ NameAt bs start pos ls next /\ c' = at_offset bs next
        /\ next <= llen bs /\ nlen n = len + sum_lens ls /\ nlen n <= 255.
  Proof.
    intros Hrec. induction lf as [|lf IH]; intros pos len acc n c' H; cbn [name_loop] in H; [discriminate|].
    rewrite next_u8_at in H. destruct (at_ bs pos) as [size|] eqn:Esz; [|discriminate].
    pose proof (at_lt _ _ _ Esz) as Hpos. pose proof (at_byte _ _ _ Hbs Esz) as Hsize.
    unfold LABEL_MAX_LEN, DOMAINNAME_MAX_LEN in H.
    destruct (N.leb_spec size 63) as [Hle|Hgt].
    - destruct (N.eqb_spec size 0) as [->|Hnz].
      + apply name_finish_inv in H as (-> & -> & Hl). exists [[]], (pos + 1). cbn [labels nlen].
        change (sum_lens [[]]) with 1.
        split; [reflexivity|]. split; [constructor; exact Esz|]. split; [reflexivity|]. lia.
      + rewrite take_at in H by lia.
        destruct (sliceN bs (pos + 1) size) as [os|] eqn:Eos; [|discriminate].
        destruct (N.ltb_spec 255 (len + 1 + size)) as [Hlong|Hshort].
        * apply name_finish_inv in H as (_ & _ & Hl). lia.
        * apply IH in H as (ls & next & Hlab & Hna & -> & Hnext & Hlen & H255).
          exists (map lower os :: ls), next.
          split; [rewrite Hlab, <- app_assoc; reflexivity|].
          split; [eapply NA_label; [exact Esz|lia|exact Eos|exact Hna]|].
          split; [reflexivity|]. split; [exact Hnext|].
          apply sliceN_spec in Eos as (Hos & _).
          unfold byte in Hos. rewrite sum_lens_cons, wd_llen_map, Hos. lia.
    - destruct (N.leb_spec 192 size) as [H192|]; [|discriminate].
      rewrite next_u8_at in H. destruct (at_ bs (pos + 1)) as [lo|] eqn:Elo; [|discriminate].
      rewrite (land_63 size H192 Hsize) in H. unfold u16_be in H.
      destruct (N.leb_spec start ((size - 192) * 256 + lo)) as [|Hlt]; [discriminate|].
      destruct (rec ((size - 192) * 256 + lo)) as [[other cx]| | |] eqn:Er; try discriminate.
      apply name_finish_inv in H as (-> & -> & Hl). cbn [labels nlen] in *.
      destruct (Hrec _ _ _ Hlt Er) as (nx & Hna & Hnl).
      pose proof (at_lt _ _ _ Elo) as Hpos1.
      exists (labels other), (pos + 2).
      split; [reflexivity|].
      split; [eapply NA_ptr with (hi := size) (lo := lo); eauto|].
      split; [f_equal; lia|]. lia.
  Qed.

  Lemma decode_name_sound : forall h pos n c',
    decode_name h bs (at_offset bs pos) = Ok (n, c') ->
    exists next, NameIs bs pos n next /\ c' = at_offset bs next /\ next <= llen bs.
  Proof.
    induction h as [|h IH]; intros pos n c' H; cbn [decode_name] in H; [discriminate|].
    change (cpos (at_offset bs pos)) with pos in H.
    apply name_loop_sound in H.
    - destruct H as (ls & next & Hlab & Hna & -> & Hnext & Hlen & H255). cbn [app] in Hlab.
      exists next. unfold NameIs. rewrite Hlab. repeat split; auto; lia.
    - intros ptr other cx Hlt Hr. apply IH in Hr as (nx & (Hna & Hl & _) & _).
      exists nx. split; assumption.
  Qed.

  Definition rec_complete (rec : N -> res werr_kind (dname * cur)) (start : N) : Prop :=
    forall ptr ls nx, ptr < start -> NameAt bs ptr ptr ls nx -> sum_lens ls <= 255 ->
      rec ptr = OutOfFuel \/ exists cx, rec ptr = Ok ({| labels := ls; nlen := sum_lens ls |}, cx).

  Lemma name_loop_complete start pos ls next : NameAt bs start pos ls next ->
    forall rec, rec_complete rec start -> forall lf len acc, len + sum_lens ls <= 255 ->
      name_loop rec start lf (at_offset bs pos) len acc = OutOfFuel \/
      name_loop rec start lf (at_offset bs pos) len acc
      = Ok ({| labels := acc ++ ls; nlen := len + sum_lens ls |}, at_offset bs next).
  Proof.
    induction 1 as [start pos Hz | start pos sz os ls next Hsz Hrange Hos Hna IH
                   | start pos hi lo ls nx Hhi H192 Hlo Hlt Hna IH];
      intros rec Hrec lf len acc Hlen; (destruct lf as [|lf]; [left; reflexivity|]);
      cbn [name_loop]; rewrite next_u8_at; unfold LABEL_MAX_LEN, DOMAINNAME_MAX_LEN.
    - rewrite Hz. change (0 <=? 63) with true. change (0 =? 0) with true. cbv iota.
      change (sum_lens [[]]) with 1 in *. right. apply name_finish_le. lia.
    - rewrite Hsz. pose proof (at_lt _ _ _ Hsz) as Hpos.
      destruct (N.leb_spec sz 63); [|lia]. destruct (N.eqb_spec sz 0); [lia|].
      rewrite take_at by lia. rewrite Hos.
      apply sliceN_spec in Hos as (Hlos & _). unfold byte in Hlos.
      rewrite sum_lens_cons, wd_llen_map, Hlos in Hlen.
      destruct (N.ltb_spec 255 (len + 1 + sz)); [lia|].
      specialize (IH rec Hrec lf (len + 1 + sz) (acc ++ [map lower os])).
      rewrite <- app_assoc in IH. cbn [app] in IH.
      rewrite sum_lens_cons, wd_llen_map, Hlos.
      replace (len + (1 + sz + sum_lens ls)) with (len + 1 + sz + sum_lens ls) by lia.
      apply IH. lia.
    - rewrite Hhi. pose proof (at_byte _ _ _ Hbs Hhi) as Hhi256.
      destruct (N.leb_spec hi 63); [lia|]. destruct (N.leb_spec 192 hi); [|lia].
      rewrite next_u8_at, Hlo. rewrite (land_63 hi H192 Hhi256). unfold u16_be.
      destruct (N.leb_spec start ((hi - 192) * 256 + lo)); [lia|].
      destruct (Hrec _ _ _ Hlt Hna) as [->|(cx & ->)]; [lia|left; reflexivity|].
      cbn [labels nlen]. right. rewrite name_finish_le by lia.
      do 2 f_equal. f_equal. lia.
  Qed.

  Lemma decode_name_complete : forall h pos ls next,
    NameAt bs pos pos ls next -> sum_lens ls <= 255 ->
    decode_name h bs (at_offset bs pos) = OutOfFuel \/
    decode_name h bs (at_offset bs pos)
    = Ok ({| labels := ls; nlen := sum_lens ls |}, at_offset bs next).
  Proof.
    induction h as [|h IH]; intros pos ls next Hna Hs; cbn [decode_name]; [left; reflexivity|].
    change (cpos (at_offset bs pos)) with pos.
    apply (name_loop_complete pos pos ls next Hna
             (fun ptr => decode_name h bs (at_offset bs ptr))) with (len := 0) (acc := []).
    - intros ptr ls' nx Hlt Hna' Hs'.
      destruct (IH ptr ls' nx Hna' Hs') as [->| ->]; [left|right; eexists]; reflexivity.
    - exact Hs.
  Qed.

  (* fuel: each iteration of the label loop that does not end the name adds at
     least 2 to [len] and continues only while [len <= 255] *)
  Lemma name_loop_fine rec start :
    (forall p, p < start -> p < 16384 -> fine (rec p)) ->
    forall lf pos len acc, 257 <= len + 2 * N.of_nat lf -> len <= 255 ->
      fine (name_loop rec start lf (at_offset bs pos) len acc).
  Proof.
    intros Hrec. induction lf as [|lf IH]; intros pos len acc Hfuel Hlen; [lia|].
    cbn [name_loop]. rewrite next_u8_at. destruct (at_ bs pos) as [size|] eqn:Esz; [|auto].
    pose proof (at_lt _ _ _ Esz) as Hpos. pose proof (at_byte _ _ _ Hbs Esz) as Hsize.
    unfold LABEL_MAX_LEN, DOMAINNAME_MAX_LEN.
    destruct (N.leb_spec size 63) as [Hle|Hgt].
    - destruct (N.eqb_spec size 0) as [->|Hnz]; [apply name_finish_fine|].
      rewrite take_at by lia. destruct (sliceN bs (pos + 1) size) as [os|]; [|auto].
      destruct (N.ltb_spec 255 (len + 1 + size)); [apply name_finish_fine|].
      apply IH; lia.
    - destruct (N.leb_spec 192 size) as [H192|]; [|auto].
      rewrite next_u8_at. destruct (at_ bs (pos + 1)) as [lo|] eqn:Elo; [|auto].
      pose proof (at_byte _ _ _ Hbs Elo) as Hlo.
      rewrite (land_63 size H192 Hsize). unfold u16_be.
      destruct (N.leb_spec start ((size - 192) * 256 + lo)) as [|Hlt]; [auto|].
      assert (Hp : (size - 192) * 256 + lo < 16384) by lia.
      destruct (Hrec _ Hlt Hp) as [HnP HnF].
      destruct (rec ((size - 192) * 256 + lo)) as [[other cx]| | |]; auto; try contradiction.
      apply name_finish_fine.
  Qed.

  (* hop bound: pointer targets strictly decrease and are below 2^14, so a name at
     [pos] needs at most min(pos, 16384) + 1 nested calls *)
  Lemma decode_name_hops : forall h pos,
    N.min pos 16384 < N.of_nat h -> fine (decode_name h bs (at_offset bs pos)).
  Proof.
    induction h as [|h IH]; intros pos Hh; [lia|].
    cbn [decode_name]. change (cpos (at_offset bs pos)) with pos.
    apply name_loop_fine.
    - intros p Hp1 Hp2. apply IH. lia.
    - unfold LABEL_FUEL. lia.
    - lia.
  Qed.

  Lemma decode_name_fuel pos : fine (decode_name HOP_FUEL bs (at_offset bs pos)).
  Proof. apply decode_name_hops. unfold HOP_FUEL. rewrite N2Nat.id. lia. Qed.
End Names.

Lemma decode_short bs : llen bs < 2 -> decode bs = Err (CompletelyBusted, None).
Proof.
  destruct bs as [|a [|b t]]; intro H; try reflexivity.
  exfalso. unfold llen in H. cbn [length] in H. lia.
Qed.
